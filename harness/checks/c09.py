"""C09 — record batches round-trip and both codec implementations agree.

Proof: Props/C09.lean (varint_roundtrip, size_of_varint_eq_length, crc32c_table_eq_bitwise,
v2_roundtrip, v2_header_wellformed, py/cy_build_eq_spec, impl_read_roundtrip, legacy_*, split_concat,
size accounting ...) about the models Model/{Varint,Crc,V2,Legacy,Split}.lean.

Tie, checked on every run:
  T-extract  harness/extract/layouts.py regenerates Gen/Layouts.lean (struct formats, DEF offsets,
             masks, CRC table) from the tree under test; `decide` facts in Props/C09 re-check them.
  T-diff     every model against BOTH implementations, each in a child process under a hard timeout:
             the pure-Python codec (AIOKAFKA_NO_EXTENSIONS=1, PYTHONPATH=repo) and the Cython codec
             REBUILT from the .pyx of the tree into a scratch directory.  Builders: every append
             (size_in_bytes, metadata or None, size()), the built bytes, size() after build.
             Readers: every implementation decodes the bytes of every builder (cross-decoding) and
             the bytes of the Lean SPEC encoder for broker-side configurations the builders cannot
             produce (base offset, leader epoch, LogAppendTime, control flag).  Splitter:
             concatenations of 1..5 batches of mixed magic and the truncations of the tail.
Failing-input search: the property statement itself on what the implementations did — decoded
records vs appended records, Lean `headerOK` / `specRead` on implementation bytes, expected batch
sequence of a concatenation, the size/limit envelope.
"""
import concurrent.futures as cf
import importlib
import json
import os
import shutil
import sys
from pathlib import Path

from vlib import HarnessError, LEAN, PY, build_cython_scratch, run_child, scratch_dir

CHILD = str(Path(__file__).with_name("c09_child.py"))
TIMES = []
CODECS = {0: None, 1: "gzip", 2: "snappy", 3: "lz4", 4: "zstd"}
I64 = 2 ** 63

# real broker data (Kafka 0.11 / 0.10), copied from tests/record/test_records.py: an independent
# reference for the SPEC decoder
BROKER_V2 = [
    b"\x00\x00\x00\x00\x00\x00\x00\x00\x00\x00\x00;\x00\x00\x00\x01\x02\x03"
    b"\x18\xa2p\x00\x00\x00\x00\x00\x00\x00\x00\x01]\xff{\x06<\x00\x00\x01]"
    b"\xff{\x06<\xff\xff\xff\xff\xff\xff\xff\xff\xff\xff\xff\xff\xff\xff\x00"
    b"\x00\x00\x01\x12\x00\x00\x00\x01\x06123\x00",
    b"\x00\x00\x00\x00\x00\x00\x00\x01\x00\x00\x00@\x00\x00\x00\x02\x02\xc8"
    b"\\\xbd#\x00\x00\x00\x00\x00\x01\x00\x00\x01]\xff|\xddl\x00\x00\x01]\xff"
    b"|\xde\x14\xff\xff\xff\xff\xff\xff\xff\xff\xff\xff\xff\xff\xff\xff\x00"
    b"\x00\x00\x02\x0c\x00\x00\x00\x01\x00\x00\x0e\x00\xd0\x02\x02\x01\x00"
    b"\x00",
    b"\x00\x00\x00\x00\x00\x00\x00\x03\x00\x00\x00;\x00\x00\x00\x02\x02.\x0b"
    b"\x85\xb7\x00\x00\x00\x00\x00\x00\x00\x00\x01]\xff|\xe7\x9d\x00\x00\x01]"
    b"\xff|\xe7\x9d\xff\xff\xff\xff\xff\xff\xff\xff\xff\xff\xff\xff\xff\xff"
    b"\x00\x00\x00\x01\x12\x00\x00\x00\x01\x06123\x00",
]
BROKER_V2_EXPECT = [[(0, 1503229838908, None, b"123", [])],
                    [(1, 1503229959532, None, b"", []), (2, 1503229959700, None, b"", [])],
                    [(3, 1503229962141, None, b"123", [])]]
BROKER_V1 = [
    b"\x00\x00\x00\x00\x00\x00\x00\x00\x00\x00\x00\x19G\x86(\xc2\x01\x00\x00"
    b"\x00\x01^\x18g\xab\xae\xff\xff\xff\xff\x00\x00\x00\x03123",
    b"\x00\x00\x00\x00\x00\x00\x00\x01\x00\x00\x00\x16\xef\x98\xc9 \x01\x00"
    b"\x00\x00\x01^\x18g\xaf\xc0\xff\xff\xff\xff\x00\x00\x00\x00",
]
BROKER_V0 = [
    b"\x00\x00\x00\x00\x00\x00\x00\x00\x00\x00\x00\x11\xfe\xb0\x1d\xbf\x00"
    b"\x00\xff\xff\xff\xff\x00\x00\x00\x03123",
    b"\x00\x00\x00\x00\x00\x00\x00\x01\x00\x00\x00\x0eyWH\xe0\x00\x00\xff"
    b"\xff\xff\xff\x00\x00\x00\x00",
]


# ------------------------------------------------------------------------------- text forms
def hx(b):
    return b.hex() if b else "-"


def ob(b):
    return "~" if b is None else hx(b)


def hdrs_txt(hs):
    return "|".join(f"{hx(k)}={ob(v)}" for k, v in hs) if hs else "-"


def rec_txt(r):
    off, ts, k, v, hs = r
    return f"{off}:{ts}:{ob(k)}:{ob(v)}:{hdrs_txt(hs)}"


def recs_txt(rs):
    return ";".join(rec_txt(r) for r in rs) if rs else "-"


def ins_txt(rs):
    return ";".join(f"{o}:{t}:{ob(k)}:{ob(v)}" for o, t, k, v in rs) if rs else "-"


def b01(x):
    return "1" if x else "0"


def jb(b):
    return None if b is None else b.hex()


def unjb(x):
    return None if x is None else bytes.fromhex(x)


# ------------------------------------------------------------------------------- generation
def zz_len(i):
    v = (i << 1) ^ (i >> 63)
    n = 1
    while v >= 128:
        v >>= 7
        n += 1
    return n


def rec_size(r, first_ts):
    off, ts, k, v, hs = r
    n = 1 + zz_len(ts - first_ts) + zz_len(off)
    n += 1 if k is None else zz_len(len(k)) + len(k)
    n += 1 if v is None else zz_len(len(v)) + len(v)
    n += zz_len(len(hs))
    for hk, hv in hs:
        n += zz_len(len(hk)) + len(hk) + (1 if hv is None else zz_len(len(hv)) + len(hv))
    return n + zz_len(n)


LEN_BOUNDS = [0, 1, 2, 62, 63, 64, 65, 127, 128, 8190, 8191, 8192, 8193]
BIG_BOUNDS = [16383, 16384, 1048575, 1048576]
HKEYS = ["", "k", "key", "ключ", "鍵", "hé", "\U0001F511", "a" * 63, "b" * 64, "c" * 200]


def gen_bytes(rng, big_ok, huge_ok, small=False):
    c = rng.random()
    if small and c >= 0.66:
        c = 0.22 + (c - 0.66)
    if c < 0.12:
        return None
    if c < 0.22:
        return b""
    if c < 0.66:
        n = rng.randrange(1, 24)
    elif c < 0.86:
        n = rng.choice(LEN_BOUNDS[:9])                  # 0 .. 128: the 1/2-byte varint boundary
    elif c < 0.96 or not big_ok:
        n = rng.randrange(24, 300)
    elif c < 0.99:
        n = rng.choice(LEN_BOUNDS[9:])                  # 8190 .. 8193: the 2/3-byte boundary
    else:
        n = rng.choice(BIG_BOUNDS[2:] if huge_ok and c >= 0.998 else BIG_BOUNDS[:2])
    style = rng.randrange(3)
    if n > 2000 or style == 0:
        unit = rng.randbytes(rng.randrange(1, 9))
        return (unit * (n // len(unit) + 1))[:n]          # compressible
    return rng.randbytes(n)


def gen_headers(rng, big_ok):
    c = rng.random()
    if c < 0.55:
        return []
    n = rng.choice([1, 1, 2, 3, 5]) if c < 0.97 else rng.choice([63, 64, 65])
    out = []
    for _ in range(n):
        k = rng.choice(HKEYS) if rng.random() < 0.8 else "".join(chr(rng.choice([65, 0xE9, 0x4E2D, 0x1F600]))
                                                                  for _ in range(rng.randrange(0, 6)))
        v = gen_bytes(rng, False, False) if n < 10 else rng.choice([None, b"", b"v"])
        out.append((k.encode("utf-8"), v))
    return out


def gen_timestamps(rng, n):
    style = rng.randrange(6)
    base = rng.choice([0, 1, 1503229838908, 2 ** 31, 2 ** 62, I64 - 1 - n])
    if style == 0:
        return [base + i for i in range(n)]
    if style == 1:                                   # decreasing
        top = max(base, n)
        return [top - i for i in range(n)]
    if style == 2:                                   # deltas beyond int32, both directions
        return [rng.choice([0, 5, 2 ** 31, 2 ** 40, 2 ** 62, I64 - 1]) for _ in range(n)]
    if style == 3:
        return [rng.randrange(0, I64) for _ in range(n)]
    if style == 4:                                   # varint boundaries of the delta
        b0 = 2 ** 40
        return [b0] + [b0 + rng.choice([-8193, -8192, -65, -64, -63, 63, 64, 8191, 8192, 2 ** 31 - 1,
                                         2 ** 31, -2 ** 31, -2 ** 31 - 1, 2 ** 34, -2 ** 35]) for _ in range(n - 1)]
    return [base] * n


def gen_records(rng, thorough):
    c = rng.random()
    if c < 0.04:
        n = 0
    elif c < 0.25:
        n = 1
    elif c < 0.85:
        n = rng.randrange(2, 8)
    else:
        n = rng.randrange(8, 40)
    big_ok = n <= 6
    ts = gen_timestamps(rng, n) if n else []
    recs = []
    for i in range(n):
        small = n > 7
        recs.append((i, ts[i], gen_bytes(rng, big_ok, thorough and n <= 2, small),
                     gen_bytes(rng, big_ok, thorough and n <= 2, small),
                     gen_headers(rng, big_ok) if not small or rng.random() < 0.2 else []))
    return recs


def pick_batch_size(rng, recs, overhead_first, per_rec):
    """a limit within +-3 of the size after k records, or generous / tiny"""
    c = rng.random()
    if not recs or c < 0.25:
        return rng.choice([16384, 2 ** 20, 2 ** 31 - 1])
    sizes = per_rec
    k = rng.randrange(1, len(recs) + 1)
    tot = overhead_first + sum(sizes[:k])
    if c < 0.9:
        return max(0, tot + rng.randrange(-3, 4))
    return rng.choice([0, 1, 61, 62, tot // 2])


def gen_v2(rng, thorough):
    recs = gen_records(rng, thorough)
    first = recs[0][1] if recs else 0
    sizes = [rec_size(r, first) for r in recs]
    case = {
        "kind": "v2", "codec": rng.choice([0, 0, 0, 1, 2, 3, 4]), "txn": rng.random() < 0.3,
        "pid": rng.choice([-1, 0, 1, 4711, I64 - 1]), "epoch": rng.choice([-1, 0, 1, 32767]),
        "seq": rng.choice([-1, 0, 1, 2 ** 31 - 1]),
        "batch_size": pick_batch_size(rng, recs, 61, sizes),
        "records": [[o, t, jb(k), jb(v), [[hk.hex(), jb(hv)] for hk, hv in hs]] for o, t, k, v, hs in recs],
        "odd_offsets": False,
    }
    if recs and rng.random() < 0.08:       # offsets that are not 0,1,2,… (tie only: the Cython first-record test)
        case["odd_offsets"] = True
        style = rng.randrange(3)
        for i, r in enumerate(case["records"]):
            r[0] = [i + 3, 0, (i * 7) % 5][style] if style != 1 else (0 if i % 2 else i)
    # broker-side variants of the same records, encoded by the SPEC
    nv = rng.choice([0, 1, 1, 2])
    case["variants"] = []
    for _ in range(nv):
        if not recs:
            break
        case["variants"].append({
            "base": rng.choice([0, 1, 1000, 2 ** 40, I64 - 64 - len(recs)]),
            "leader_epoch": rng.choice([-1, 0, 7, 2 ** 31 - 1]),
            "codec": rng.choice([0, 0, 1, 2, 3, 4]),
            "log_append": rng.random() < 0.4, "append_time": rng.choice([0, 1503229838908, I64 - 1]),
            "txn": rng.random() < 0.3, "control": rng.random() < 0.15,
            "pid": rng.choice([-1, 0, I64 - 1]), "epoch": rng.choice([-1, 0, 32767]),
            "seq": rng.choice([-1, 0, 2 ** 31 - 1]),
        })
    return case


def huge_cases():
    """the 3/4-byte varint length boundary (2^20): a handful of megabyte keys and values (thorough tier)"""
    out = []
    for n, codec, as_key in ((1048575, 0, False), (1048576, 0, False), (1048576, 3, False), (1048575, 1, True)):
        blob = (bytes(range(251)) * (n // 251 + 1))[:n]
        rec = [0, 1503229838908, jb(blob if as_key else None), jb(None if as_key else blob), []]
        out.append({"kind": "v2", "codec": codec, "txn": False, "pid": -1, "epoch": -1, "seq": -1,
                    "batch_size": 2 ** 31 - 1, "records": [rec, [1, 1503229838909, None, jb(b"x"), []]],
                    "odd_offsets": False, "variants": []})
    out.append({"kind": "legacy", "magic": 1, "codec": 1, "batch_size": 2 ** 31 - 1,
                "records": [[0, 5, None, jb(bytes(1048576))], [1, 6, jb(b"k"), None]], "variants": []})
    return out


def gen_legacy(rng, thorough):
    magic = rng.choice([0, 1])
    c = rng.random()
    n = 0 if c < 0.03 else 1 if c < 0.25 else rng.randrange(2, 8) if c < 0.9 else rng.randrange(8, 30)
    ts = gen_timestamps(rng, n) if n else []
    recs = [(i, ts[i], gen_bytes(rng, n <= 6, False, n > 7), gen_bytes(rng, n <= 6, False, n > 7)) for i in range(n)]
    over = 14 if magic == 0 else 22
    sizes = [12 + over + len(k or b"") + len(v or b"") for _, _, k, v in recs]
    codec = rng.choice([0, 0, 1, 2, 3] if magic == 1 else [0, 0, 1, 2])
    case = {"kind": "legacy", "magic": magic, "codec": codec,
            "batch_size": pick_batch_size(rng, recs, 0, sizes),
            "records": [[o, t, jb(k), jb(v)] for o, t, k, v in recs], "variants": []}
    if recs and rng.random() < 0.6:
        # broker-side: compressed wrapper with assigned offset / LogAppendTime, or a plain set
        wcodec = rng.choice([1, 2, 3] if magic == 1 else [1, 2])
        case["variants"].append({
            "codec": wcodec, "log_append": magic == 1 and rng.random() < 0.4,
            "w_offset": rng.choice([0, len(recs) - 1, len(recs) - 1 + 1000, 2 ** 40]),
            "w_ts": rng.choice([0, 1503229838908]),
            "inner_base": rng.choice([0, 0, 500]) if magic == 0 else 0,
        })
    return case


# ------------------------------------------------------------------------------- children
class Impl:
    def __init__(self, name, pythonpath, env, root):
        self.name, self.pythonpath, self.env, self.root = name, pythonpath, env, root


def run_jobs(impl, jobs, tmp, tag, timeout=None):
    """results for jobs from one child; on a crash/hang bisect down to the job"""
    if not jobs:
        return [], None
    jp, rp = tmp / f"{tag}-{impl.name}.jobs.json", tmp / f"{tag}-{impl.name}.res.json"
    jp.write_text(json.dumps(jobs))
    if rp.exists():
        rp.unlink()
    env = dict(impl.env)
    env["PYTHONPATH"] = impl.pythonpath
    st, out, err = run_child([PY, CHILD, str(jp), str(rp), impl.name, impl.root], env=env,
                             timeout=timeout or max(60, len(jobs) * 0.2))
    if st == "exit:3" and rp.exists():
        info = json.loads(rp.read_text())["info"]
        raise HarnessError(f"child for '{impl.name}' ran the wrong codec: {info}")
    if st == "ok" and rp.exists():
        obj = json.loads(rp.read_text())
        return obj["results"], obj["info"]
    if len(jobs) == 1:
        return [{"exc": "CHILD:" + st, "msg": err.decode(errors="replace")[-300:]}], None
    mid = len(jobs) // 2
    a, ia = run_jobs(impl, jobs[:mid], tmp, tag + "a", timeout=max(30, mid * 0.2))
    b, ib = run_jobs(impl, jobs[mid:], tmp, tag + "b", timeout=max(30, mid * 0.2))
    return a + b, ia or ib


def both(impls, jobs, tmp, tag):
    import time
    t = time.time()
    try:
        return _both(impls, jobs, tmp, tag)
    finally:
        TIMES.append((f"children {tag}", len(jobs), round(time.time() - t, 1)))


def _both(impls, jobs, tmp, tag):
    with cf.ThreadPoolExecutor(max_workers=2) as ex:
        fs = {n: ex.submit(run_jobs, i, jobs, tmp, tag) for n, i in impls.items()}
        return {n: f.result() for n, f in fs.items()}


# ------------------------------------------------------------------------------- canonical forms
def meta_txt(m, legacy=False):
    return "N" if m is None else "/".join(str(x) for x in m)


def trace_txt(tr):
    return ",".join(f"{sib}/{meta_txt(m)}/{sz}" for sib, m, sz in tr) if tr else "-"


def build_txt(res):
    if "exc" in res:
        return "exc:" + res["exc"]
    return f"{trace_txt(res['trace'])} {res['bytes'] or '-'} {res['size']}"


def v2read_txt(res):
    """same shape as the driver's `v2read` line, restricted to what the implementation exposes"""
    if "exc" in res and "hdr" not in res:
        return "exc:" + res["exc"]
    crc = "crc-ok" if res["crc_ok"] else "crc-bad"
    if "exc" in res:
        return f"err {crc}"
    h = res["hdr"]
    hd = ",".join(str(h[k]) for k in ("base_offset", "magic", "crc", "attributes", "last_offset_delta",
                                      "first_timestamp", "max_timestamp", "producer_id", "producer_epoch",
                                      "base_sequence"))
    dv = ",".join(str(int(h[k])) for k in ("next_offset", "compression_type", "timestamp_type",
                                           "is_transactional", "is_control_batch"))
    recs = []
    for off, ts, tt, k, v, hs, cs in res["records"]:
        if tt != h["timestamp_type"] or cs is not None:
            return f"bad-record-attrs {tt} {cs}"
        recs.append(f"{off}:{ts}:{ob(unjb(k))}:{ob(unjb(v))}:"
                    + ("|".join(f"{hx(bytes.fromhex(hk))}={ob(unjb(hv))}" for hk, hv in hs) if hs else "-"))
    return f"ok {hd}|{dv} {';'.join(recs) if recs else '-'} {crc}"


def model_v2read_txt(line):
    """drop the header fields the implementations do not expose (length, leader epoch, count)"""
    p = line.split(" ")
    if p[0] != "ok":
        return line
    hd, dv = p[1].split("|")
    f = hd.split(",")
    keep = [f[0], f[3], f[4], f[5], f[6], f[7], f[8], f[9], f[10], f[11]]
    return f"ok {','.join(keep)}|{dv} {p[2]} {p[3]}"


def lread_txt(res):
    if "exc" in res and "crc_ok" not in res:
        return "exc:" + res["exc"]
    crc = "crc-ok" if res["crc_ok"] else "crc-bad"
    if "exc" in res:
        return f"err {crc}"
    recs = []
    for off, ts, tt, k, v, cs, hs in res["records"]:
        if hs:
            return "bad-headers"
        recs.append(f"{off}:{'N' if ts is None else ts}:{'N' if tt is None else tt}:{ob(unjb(k))}:{ob(unjb(v))}:{cs}")
    return f"ok {';'.join(recs) if recs else '-'} {crc}"


def first_call(res, prefix):
    for name, i, o in res.get("calls", []):
        if name.endswith(prefix):
            return i, o
    return None


def oracle_txt(call):
    if not call:
        return "- -"
    return f"{call[0] or '-'} {call[1] or '-'}"


# ------------------------------------------------------------------------------- the pipeline
class Chunk:
    """one batch of cases through children and driver; collects findings without touching ctx"""

    def __init__(self, ctx, idx, cases, impls, tmp, codec_mod):
        self.ctx, self.idx, self.cases, self.impls, self.tmp, self.codec = ctx, idx, cases, impls, tmp, codec_mod
        self.mismatches = []      # tie: (what, case index, impl, model, observed)
        self.findings = []        # property level: (signature, text, case, detail)
        self.hist = {}
        self.counted = []
        self.samples = []
        self.n_lines = 0

    def bump(self, k, n=1):
        self.hist[k] = self.hist.get(k, 0) + n

    def tie(self, what, ci, impl, model, seen):
        if model != seen:
            self.mismatches.append({"what": what, "case": ci, "impl": impl,
                                    "model": model[:400], "observed": seen[:400]})
            return False
        return True

    def finding(self, sig, text, ci, detail=None):
        self.findings.append((sig, text, ci, detail))

    def compress(self, codec, data):
        f = {1: self.codec.gzip_encode, 2: self.codec.snappy_encode, 3: self.codec.lz4_encode,
             4: self.codec.zstd_encode}[codec]
        return bytes(f(data))

    def driver(self, lines):
        import time
        self.n_lines += len(lines)
        t = time.time()
        if len(lines) > 400:
            k = 4
            step = (len(lines) + k - 1) // k
            parts = [lines[i:i + step] for i in range(0, len(lines), step)]
            with cf.ThreadPoolExecutor(max_workers=k) as ex:
                out = [o for part in ex.map(lambda p: self.ctx.driver("akdriver", p), parts) for o in part]
        else:
            out = self.ctx.driver("akdriver", lines) if lines else []
        self.t_driver = getattr(self, "t_driver", 0) + time.time() - t
        self.driver_bytes = getattr(self, "driver_bytes", 0) + sum(len(x) for x in lines)
        return out

    # ........................................................................ phase 1: build
    def run(self):
        cases = self.cases
        jobs, jmap = [], []
        for ci, c in enumerate(cases):
            if c["kind"] == "v2":
                jobs.append({"op": "v2build", "codec": c["codec"], "txn": int(c["txn"]), "pid": c["pid"],
                             "epoch": c["epoch"], "seq": c["seq"], "batch_size": c["batch_size"],
                             "records": [[o, t, k, v, [[bytes.fromhex(hk).decode("utf-8"), hv] for hk, hv in hs]]
                                         for o, t, k, v, hs in c["records"]]})
                jmap.append((ci, "build"))
            elif c["kind"] == "legacy":
                jobs.append({"op": "lbuild", "magic": c["magic"], "codec": c["codec"], "batch_size": c["batch_size"],
                             "records": c["records"]})
                jmap.append((ci, "build"))
            elif c["kind"] == "varint":
                jobs.append({"op": "varint", "values": c["values"], "decode": c["decode"]})
                jmap.append((ci, "varint"))
            elif c["kind"] == "crc":
                jobs.append({"op": "crc", "data": c["data"]})
                jmap.append((ci, "crc"))
            elif c["kind"] == "sizeof":
                jobs.append({"op": "sizeof", "key": c["key"], "value": c["value"],
                             "headers": [[bytes.fromhex(hk).decode("utf-8"), hv] for hk, hv in c["headers"]]})
                jmap.append((ci, "sizeof"))
        res = both(self.impls, jobs, self.tmp, f"c{self.idx}p1")
        self.info = {n: res[n][1] for n in res}
        built = {}           # (ci, impl) -> result
        for n in res:
            for (ci, what), r in zip(jmap, res[n][0]):
                built[(ci, n, what)] = r
        # ---- driver round 1
        lines, lmap = [], []

        def add(line, tag):
            lines.append("c09 " + line)
            lmap.append(tag)

        for ci, c in enumerate(cases):
            if c["kind"] == "v2":
                recs = [(o, t, unjb(k), unjb(v), [(bytes.fromhex(hk), unjb(hv)) for hk, hv in hs])
                        for o, t, k, v, hs in c["records"]]
                c["_recs"] = recs
                rt = recs_txt(recs)
                for n in self.impls:
                    r = built[(ci, n, "build")]
                    call = first_call(r, "_encode") if "exc" not in r else None
                    add(f"v2build {n} {c['codec']} {b01(c['txn'])} {c['pid']} {c['epoch']} {c['seq']} "
                        f"{c['batch_size']} {rt} {oracle_txt(call)}", ("v2build", ci, n))
                if c["variants"]:
                    add(f"v2inner {rt}", ("v2inner", ci, None))
            elif c["kind"] == "legacy":
                recs = [(o, t, unjb(k), unjb(v)) for o, t, k, v in c["records"]]
                c["_recs"] = recs
                for n in self.impls:
                    r = built[(ci, n, "build")]
                    call = first_call(r, "_encode") if "exc" not in r else None
                    add(f"lbuild {c['magic']} {c['codec']} {c['batch_size']} {ins_txt(recs)} {oracle_txt(call)}",
                        ("lbuild", ci, n))
                for vi, v in enumerate(c["variants"]):
                    inner = [(o + v["inner_base"], t, k, vv) for o, t, k, vv in recs]
                    v["_inner"] = inner
                    add(f"lset {c['magic']} 0 {ins_txt(inner)}", ("lset", ci, vi))
            elif c["kind"] == "varint":
                for v in c["values"]:
                    add(f"venc {v}", ("venc", ci, v))
                for h in c["decode"]:
                    add(f"vdec {h}", ("vdec", ci, h))
            elif c["kind"] == "crc":
                for h in c["data"]:
                    add(f"crc32c {h or '-'}", ("crc32c", ci, h))
                    add(f"crc32 {h or '-'}", ("crc32", ci, h))
            elif c["kind"] == "sizeof":
                add(f"v2sizeof {ob(unjb(c['key']))} {ob(unjb(c['value']))} "
                    f"{hdrs_txt([(bytes.fromhex(hk), unjb(hv)) for hk, hv in c['headers']])}", ("sizeof", ci, None))
        out = self.driver(lines)
        # ---- compare round 1, prepare round 2 (spec encodings that need a compression result)
        lines2, lmap2 = [], []
        venc_i = {}
        for tag, line, o in zip(lmap, lines, out):
            kind, ci, x = tag
            c = cases[ci]
            if kind in ("v2build", "lbuild"):
                seen = build_txt(built[(ci, x, "build")])
                self.tie(kind, ci, x, o, seen)
                c.setdefault("_model_build", {})[x] = o
                self.bump(f"{kind}:{x}")
            elif kind == "v2inner":
                inner = b"" if o == "-" else bytes.fromhex(o)
                for vi, v in enumerate(c["variants"]):
                    z = self.compress(v["codec"], inner) if v["codec"] else b""
                    v["_oracle"] = (inner, z)
                    lines2.append("c09 " + self.v2spec_line(c, v))
                    lmap2.append(("v2spec", ci, vi))
            elif kind == "lset":
                inner = b"" if o == "-" else bytes.fromhex(o)
                v = c["variants"][x]
                z = self.compress(v["codec"], inner)
                v["_oracle"] = (inner, z)
                lines2.append(f"c09 lwrap {c['magic']} {v['codec']} {b01(v['log_append'])} {v['w_offset']} {v['w_ts']} "
                              f"{ins_txt(v['_inner'])} {hx(inner)} {hx(z)}")
                lmap2.append(("lwrap", ci, x))
                if v["inner_base"] == 0 or True:
                    c.setdefault("_sets", []).append(inner)
            elif kind == "venc":
                py_h, cy_h, py_s, cy_s = o.split(" ")
                k = venc_i.get(ci, 0)
                venc_i[ci] = k + 1
                for n, mh, ms in (("py", py_h, py_s), ("cy", cy_h, cy_s)):
                    r = built[(ci, n, "varint")]
                    e = r["enc"][k] if "exc" not in r else {"exc": r["exc"]}
                    seen = f"{e.get('bytes') or '-'} {e.get('size')}" if "exc" not in e else "exc:" + e["exc"]
                    if not self.tie("varint-encode", ci, n, f"{mh} {ms}", seen):
                        self.finding(f"varint-encode:{n}",
                                     f"encode_varint/size_of_varint({x}) gives {seen}; the zig-zag base-128 encoding is {mh} "
                                     f"({ms} bytes)", None, {"value": x, "observed": seen, "canonical": mh})
                self.bump("venc")
            elif kind == "vdec":
                py_o, cy_o = o.split(" ")
                k = c["decode"].index(x)
                for n, mo in (("py", py_o), ("cy", cy_o)):
                    r = built[(ci, n, "varint")]
                    d = r["dec"][k] if "exc" not in r else {"exc": r["exc"]}
                    seen = "err" if isinstance(d, dict) else f"{d[0]},{d[1]}"
                    if not self.tie("varint-decode", ci, n, mo, seen):
                        self.finding(f"varint-decode:{n}", f"decode_varint({x}) gives {seen}, the format says {mo} (value,bytes read)",
                                     None, {"bytes": x, "observed": seen, "expected": mo})
                self.bump("vdec:" + ("err" if py_o == "err" else "ok"))
            elif kind == "crc32c":
                bit, tab = o.split(" ")
                k = c["data"].index(x)
                self.tie("crc32c-table-model", ci, "py-table", bit, tab)
                for n in self.impls:
                    r = built[(ci, n, "crc")]
                    seen = str(r["crc32c"][k]) if "exc" not in r else "exc:" + r["exc"]
                    if not self.tie("crc32c", ci, n, bit, seen):
                        self.finding(f"crc32c:{n}", f"calc_crc32c differs from CRC-32C (Castagnoli) on {x[:80]}", ci)
                self.bump("crc32c")
            elif kind == "crc32":
                k = c["data"].index(x)
                r = built[(ci, "py", "crc")]
                self.tie("crc32", ci, "binascii", o, str(r["crc32"][k]) if "exc" not in r else "exc")
            elif kind == "sizeof":
                py_s, cy_s, py_e, cy_e = o.split(" ")
                for n, ms, me in (("py", py_s, py_e), ("cy", cy_s, cy_e)):
                    r = built[(ci, n, "sizeof")]
                    seen = f"{r.get('size_of')} {r.get('estimate')}" if "exc" not in r else "exc:" + r["exc"]
                    self.tie("size_of/estimate", ci, n, f"{ms} {me}", seen)
                self.bump("sizeof")
        out2 = self.driver(lines2)
        for tag, o in zip(lmap2, out2):
            kind, ci, vi = tag
            cases[ci]["variants"][vi]["_bytes"] = b"" if o == "-" else bytes.fromhex(o)
        self.built = built
        self.property_build_checks()
        self.phase_read()

    def v2spec_line(self, c, v, recs=None):
        inner, z = v["_oracle"]
        return (f"v2spec {v['base']} {v['leader_epoch']} {v['codec']} {b01(v['log_append'])} {v['append_time']} "
                f"{b01(v['txn'])} {b01(v['control'])} {v['pid']} {v['epoch']} {v['seq']} "
                f"{recs_txt(self.variant_recs(c, v))} {hx(inner)} {hx(z)}")

    @staticmethod
    def variant_recs(c, v):
        return [(o + v["base"], t, k, vv, hs) for o, t, k, vv, hs in c["_recs"]]

    # ........................................................................ property: builders
    def property_build_checks(self):
        for ci, c in enumerate(self.cases):
            if c["kind"] not in ("v2", "legacy"):
                continue
            for n in self.impls:
                r = self.built[(ci, n, "build")]
                if "exc" in r:
                    self.finding(f"builder-raises:{c['kind']}:{n}", f"builder raised {r['exc']}: {r.get('msg')}", ci)
                    continue
                tr = r["trace"]
                bs = c["batch_size"]
                hdr0 = 61 if c["kind"] == "v2" else 0
                nn = sum(1 for _, m, _ in tr if m is None)
                self.bump(f"in:{c['kind']}:{n}:appends-accepted", len(tr) - nn)
                self.bump(f"in:{c['kind']}:{n}:appends-refused", nn)
                if n == "py":
                    fmt = "v2" if c["kind"] == "v2" else f"v{c['magic']}"
                    self.bump(f"in:{fmt}:codec={CODECS[c['codec']] or 'none'}")
                    self.bump(f"in:{c['kind']}:records={'0' if not tr else '1' if len(tr) == 1 else '2-7' if len(tr) < 8 else '8+'}")
                    if c["kind"] == "v2":
                        self.bump("in:v2:" + ("transactional" if c["txn"] else "non-transactional"))
                        for v in c["variants"]:
                            self.bump("in:v2:broker-variant:" + (",".join(k for k in ("log_append", "control", "txn") if v[k]) or "plain"))
                if c["kind"] == "v2" and c["codec"] and "exc" not in r and len(r["bytes"]) >= 46:
                    used = bytes.fromhex(r["bytes"][42:46])[1] & 7
                    self.bump(f"in:v2:{n}:" + ("compressed-kept" if used else "compression-not-smaller"))
                prev = hdr0
                acc = 0
                tie_broken = c.get("_model_build", {}).get(n) != build_txt(r)
                for i, (sib, m, sz) in enumerate(tr):
                    if tie_broken:
                        # the exact rule of append_none_iff_py / append_none_iff_cy (Props/C09) on this step
                        off = c["records"][i][0]
                        if c["kind"] == "v2" and n == "py":
                            want_none = acc > 0 and sib + prev > bs
                        else:
                            want_none = off != 0 and prev + sib >= bs
                        if (m is None) != want_none:
                            self.finding(f"limit-rule:{c['kind']}:{n}",
                                         f"record {i} (offset {off}): append returned {'None' if m is None else 'metadata'} with "
                                         f"size() {prev}, size_in_bytes {sib}, batch_size {bs}; the limit rule says "
                                         f"{'None' if want_none else 'accept'}", ci)
                    if m is not None:
                        acc += 1
                        # size accounting: size_in_bytes == growth == metadata size
                        msz = m[1] if c["kind"] == "v2" else m[2]
                        if sz - prev != sib or msz != sib:
                            self.finding(f"size-accounting:{c['kind']}:{n}",
                                         f"record {i}: size_in_bytes={sib}, metadata size={msz}, size() grew by {sz - prev}", ci)
                        if not c.get("odd_offsets") and acc > 1 and sz > bs:
                            self.finding(f"limit-exceeded:{c['kind']}:{n}",
                                         f"record {i} accepted although size() {sz} > batch_size {bs} and it is not the first", ci)
                    else:
                        if sz != prev:
                            self.finding(f"size-accounting:{c['kind']}:{n}", f"rejected append changed size() {prev}->{sz}", ci)
                        if not c.get("odd_offsets") and (acc == 0 or prev + sib < bs):
                            self.finding(f"limit-spurious-none:{c['kind']}:{n}",
                                         f"record {i} refused although size() {prev} + {sib} < batch_size {bs}"
                                         + (" (first record)" if acc == 0 else ""), ci)
                    prev = sz
                data = bytes.fromhex(r["bytes"])
                if r["size"] != len(data):
                    self.finding(f"size-accounting:{c['kind']}:{n}", f"size() after build {r['size']} != len(build()) {len(data)}", ci)
                if c["codec"] == 0 and prev != len(data):
                    self.finding(f"size-accounting:{c['kind']}:{n}",
                                 f"uncompressed: size() before build {prev} != len(build()) {len(data)}", ci)
                c.setdefault("_accepted", {})[n] = [i for i, (_, m, _) in enumerate(tr) if m is not None]

    # ........................................................................ phase 2: read
    def phase_read(self):
        cases = self.cases
        jobs, jmap = [], []
        pool_v2, pool_legacy = [], []      # material for concatenations: (bytes, [expected kinds])

        def addread(ci, src, data, magic=None, expect=None, cfg=None, stored=None):
            if magic is None:
                jobs.append({"op": "v2read", "bytes": data.hex()})
            else:
                jobs.append({"op": "lread", "bytes": data.hex(), "magic": magic})
            jmap.append({"ci": ci, "src": src, "data": data, "magic": magic, "expect": expect, "cfg": cfg,
                         "stored": stored})

        for ci, c in enumerate(cases):
            if c["kind"] == "v2":
                for n in self.impls:
                    r = self.built[(ci, n, "build")]
                    if "exc" in r:
                        continue
                    data = bytes.fromhex(r["bytes"])
                    acc = [c["_recs"][i] for i in c["_accepted"][n]]
                    codec_used = 0
                    if len(data) >= 23:
                        codec_used = data[22] & 7
                    cfg = {"base": 0, "leader_epoch": -1, "codec": codec_used, "log_append": False, "append_time": 0,
                           "txn": c["txn"], "control": False, "pid": c["pid"], "epoch": c["epoch"], "seq": c["seq"]}
                    addread(ci, "built:" + n, data, expect=acc, cfg=cfg)
                    if acc and len(data) < 300:
                        pool_v2.append(data)
                for vi, v in enumerate(c["variants"]):
                    if "_bytes" in v:
                        exp = [(o, (v["append_time"] if v["log_append"] else t), k, vv, hs)
                               for o, t, k, vv, hs in self.variant_recs(c, v)]
                        addread(ci, f"spec:{vi}", v["_bytes"], expect=exp, cfg=v, stored=self.variant_recs(c, v))
                        if len(v["_bytes"]) < 300:
                            pool_v2.append(v["_bytes"])
            elif c["kind"] == "legacy":
                for n in self.impls:
                    r = self.built[(ci, n, "build")]
                    if "exc" in r:
                        continue
                    data = bytes.fromhex(r["bytes"])
                    acc = [c["_recs"][i] for i in c["_accepted"][n]]
                    if c["codec"] and data and acc:
                        exp = [(o, (None if c["magic"] == 0 else t), (None if c["magic"] == 0 else 0), k, v)
                               for o, t, k, v in acc]
                        addread(ci, "built:" + n, data, magic=c["magic"], expect=exp)
                        if len(data) < 300:
                            pool_legacy.append((data, 1, c["magic"]))
                    elif data and acc and n == "cy" and len(data) < 400:
                        pool_legacy.append((data, len(acc), c["magic"]))
                    c.setdefault("_built_bytes", {})[n] = data
                for vi, v in enumerate(c["variants"]):
                    if "_bytes" not in v:
                        continue
                    inner = v["_inner"]
                    last = inner[-1][0]
                    base = v["w_offset"] - last if c["magic"] > 0 else -1
                    exp = []
                    for o, t, k, vv in inner:
                        exp.append((o + base if base >= 0 else o,
                                    None if c["magic"] == 0 else (v["w_ts"] if v["log_append"] else t),
                                    None if c["magic"] == 0 else (1 if v["log_append"] else 0), k, vv))
                    addread(ci, f"spec:{vi}", v["_bytes"], magic=c["magic"], expect=exp)
                    if len(v["_bytes"]) < 300:
                        pool_legacy.append((v["_bytes"], 1, c["magic"]))
            elif c["kind"] == "fixed-v2":
                addread(ci, "broker", bytes.fromhex(c["bytes"]), expect=[tuple(x) for x in c["_expect"]], cfg=None)
                pool_v2.append(bytes.fromhex(c["bytes"]))
            elif c["kind"] == "fixed-legacy":
                addread(ci, "broker", bytes.fromhex(c["bytes"]), magic=c["magic"], expect=None)
                pool_legacy.append((bytes.fromhex(c["bytes"]), 1, c["magic"]))
        # concatenations
        rng = self.ctx.rng(f"concat{self.idx}")
        concat_cases = [c for c in cases if c["kind"] == "concat"]
        n_new = self.n_concat if self.ctx.replay_cases is None else 0
        for _ in range(n_new):
            if not pool_v2 and not pool_legacy:
                break
            parts = []
            for _ in range(rng.randrange(1, 6)):
                if pool_legacy and (not pool_v2 or rng.random() < 0.5):
                    d, cnt, magic = rng.choice(pool_legacy)
                    parts.append({"bytes": d.hex(), "count": cnt, "kind": "legacy", "magic": magic})
                else:
                    parts.append({"bytes": rng.choice(pool_v2).hex(), "count": 1, "kind": "v2", "magic": 2})
            concat_cases.append({"kind": "concat", "parts": parts, "_new": True})
        self.concat_cases = concat_cases
        for c in concat_cases:
            data = b"".join(bytes.fromhex(p["bytes"]) for p in c["parts"])
            lastlen = len(bytes.fromhex(c["parts"][-1]["bytes"]))
            start = len(data) - lastlen
            if "cuts" not in c:
                if lastlen <= self.full_cut_limit:
                    cuts = list(range(start, len(data)))
                else:
                    cuts = sorted(set(list(range(start, start + 40)) + list(range(len(data) - 40, len(data)))
                                      + [rng.randrange(start, len(data)) for _ in range(40)]))
                c["cuts"] = cuts + [len(data)]
            c["_data"] = data
            jobs.append({"op": "split", "bytes": data.hex(), "cuts": c["cuts"], "decode": True})
            jmap.append({"concat": c})
        res = both(self.impls, jobs, self.tmp, f"c{self.idx}p2")
        # ---- driver round 3
        lines, lmap = [], []
        for ji, jm in enumerate(jmap):
            if "concat" in jm:
                c = jm["concat"]
                for n in self.impls:
                    lines.append(f"c09 split {n} {hx(c['_data'])} {','.join(map(str, c['cuts']))}")
                    lmap.append(("split", ji, n, None))
                continue
            data = jm["data"]
            for n in self.impls:
                r = res[n][0][ji]
                call = first_call(r, "_decode") if isinstance(r, dict) else None
                if jm["magic"] is None:
                    lines.append(f"c09 v2read {n} {hx(data)} {oracle_txt(call)}")
                    lmap.append(("v2read", ji, n, None))
                else:
                    lines.append(f"c09 lread {n} {jm['magic']} {hx(data)} {oracle_txt(call)}")
                    lmap.append(("lread", ji, n, None))
            # the SPEC decoder and the header statement on the same bytes
            r = res["py"][0][ji]
            call = first_call(r, "_decode") if isinstance(r, dict) else None
            if jm["magic"] is None:
                lines.append(f"c09 v2read spec {hx(data)} {oracle_txt(call)}")
                lmap.append(("v2read-spec", ji, None, None))
                if jm["cfg"] is not None and jm["expect"]:
                    v = jm["cfg"]
                    lines.append(f"c09 v2ok {hx(data)} {v['base']} {v['leader_epoch']} {v['codec']} "
                                 f"{b01(v['log_append'])} {v['append_time']} {b01(v['txn'])} {b01(v['control'])} "
                                 f"{v['pid']} {v['epoch']} {v['seq']} "
                                 f"{recs_txt([(o, t, k, vv, hs) for o, t, k, vv, hs in self.unstamped(jm)])}")
                    lmap.append(("v2ok", ji, None, None))
            else:
                lines.append(f"c09 lread spec {jm['magic']} {hx(data)} {oracle_txt(call)}")
                lmap.append(("lread-spec", ji, None, None))
        out = self.driver(lines)
        split_model = {}
        for tag, o in zip(lmap, out):
            kind, ji, n, cut = tag
            jm = jmap[ji]
            if kind == "split":
                for cut, oo in zip(jm["concat"]["cuts"], o.split(";")):
                    split_model[(ji, n, cut)] = oo
                continue
            ci = jm["ci"]
            if kind in ("v2read", "lread"):
                r = res[n][0][ji]
                seen = v2read_txt(r) if kind == "v2read" else lread_txt(r)
                mod = model_v2read_txt(o) if kind == "v2read" else o
                self.tie(f"{kind}<{jm['src']}", ci, n, mod, seen)
                self.bump(f"{kind}:{n}<{jm['src'].split(':')[0]}")
                self.check_roundtrip(kind, jm, n, r, seen)
            elif kind == "v2read-spec":
                exp = jm["expect"]
                if exp:
                    want = recs_txt(exp)
                    got = o.split(" ")
                    if got[0] != "ok" or got[2] != want or got[3] != "crc-ok":
                        self.finding(f"v2-bytes-not-spec<{jm['src'] if jm['src'].startswith('built') else 'spec'}",
                                     f"the SPEC decoder does not read the appended records back from the bytes of {jm['src']}: "
                                     f"{o[:200]}", ci, {"bytes": jm["data"].hex()[:2000]})
                    self.bump("spec-read-v2")
            elif kind == "lread-spec":
                exp = jm["expect"]
                if exp:
                    got = o.split(" ")
                    ok = got[0] == "ok" and got[2] == "crc-ok" and self.louts_match(got[1], exp)
                    if not ok:
                        self.finding(f"legacy-bytes-not-spec<{jm['src'] if jm['src'].startswith('built') else 'spec'}",
                                     f"the SPEC decoder does not read the appended records back from the bytes of {jm['src']}: "
                                     f"{o[:200]}", ci, {"bytes": jm["data"].hex()[:2000]})
                    self.bump("spec-read-legacy")
            elif kind == "v2ok":
                if o != "true":
                    self.finding(f"v2-header-malformed<{jm['src'] if jm['src'].startswith('built') else 'spec'}",
                                 f"header of the batch from {jm['src']} is not the well-formed Kafka header for its records "
                                 f"(Lean headerOK = {o})", ci, {"bytes": jm["data"].hex()[:2000]})
                self.bump("headerOK")
        # splitter
        for ji, jm in enumerate(jmap):
            if "concat" not in jm:
                continue
            c = jm["concat"]
            self.check_split(c, ji, res, split_model)
        TIMES.append((f"driver chunk {self.idx}", self.n_lines, round(self.t_driver, 1)))
        for c in self.cases:
            if c["kind"] == "v2" and len(c["records"]) >= 2 and len(self.samples) < 2:
                r = self.built.get((self.cases.index(c), "cy", "build"), {})
                self.samples.append({"case": {k: (v if k not in ("records", "variants") else
                                                  [str(x)[:120] for x in v[:3]]) for k, v in strip(c).items()},
                                     "cy_trace(size_in_bytes, metadata, size())": r.get("trace", [])[:4],
                                     "cy_bytes": r.get("bytes", "")[:160]})
        for c in self.concat_cases[:1]:
            self.samples.append({"concat_magics": [p["magic"] for p in c["parts"]], "cuts": len(c["cuts"]),
                                 "bytes": c["_data"].hex()[:160]})

    @staticmethod
    def unstamped(jm):
        """records as stored (before the LogAppendTime stamping the reader applies)"""
        return jm.get("stored") or jm["expect"]

    @staticmethod
    def louts_match(txt, exp):
        got = [] if txt == "-" else txt.split(";")
        if len(got) != len(exp):
            return False
        for g, (o, t, tt, k, v) in zip(got, exp):
            f = g.split(":")
            if f[0] != str(o) or f[1] != ("N" if t is None else str(t)) or f[2] != ("N" if tt is None else str(tt)) \
                    or f[3] != ob(k) or f[4] != ob(v):
                return False
        return True

    def check_roundtrip(self, kind, jm, n, r, seen):
        ci, exp = jm["ci"], jm["expect"]
        if not exp:
            return          # no records: outside the format definition (see assumptions); tie only
        src = jm["src"].split(":")[0] + (":" + jm["src"].split(":")[1] if jm["src"].startswith("built") else "")
        if not seen.startswith("ok "):
            self.finding(f"roundtrip:{kind[:-4]}:{src}->{n}", f"{n} reader fails on the batch from {jm['src']}: {seen[:160]}", ci,
                         {"bytes": jm["data"].hex()[:2000]})
            return
        p = seen.split(" ")
        if kind == "v2read":
            ok = p[2] == recs_txt(exp)
        else:
            ok = self.louts_match(p[1], exp)
        if not ok:
            self.finding(f"roundtrip:{kind[:-4]}:{src}->{n}",
                         f"{n} reader yields other records than were stored in the batch from {jm['src']}", ci,
                         {"bytes": jm["data"].hex()[:2000], "decoded": seen[:600]})
        if p[-1] != "crc-ok":
            self.finding(f"crc-invalid:{kind[:-4]}:{src}->{n}", f"validate_crc of {n} rejects the batch from {jm['src']}", ci,
                         {"bytes": jm["data"].hex()[:2000]})

    def check_split(self, c, ji, res, split_model):
        parts = c["parts"]
        ends, kinds, pos = [], [], 0          # end offset and kind of every batch/message, in order
        for p in parts:
            d = bytes.fromhex(p["bytes"])
            q, k = 0, 0
            while q < len(d):
                q += 12 + int.from_bytes(d[q + 8:q + 12], "big", signed=True)
                ends.append(pos + q)
                kinds.append(p["kind"])
                k += 1
            if q != len(d) or k != p["count"]:
                raise HarnessError(f"concat part is not {p['count']} whole batches: {p['bytes'][:80]}")
            pos += len(d)
        for n in self.impls:
            r = res[n][0][ji]
            if isinstance(r, dict):
                self.finding(f"split-crash:{n}", f"MemoryRecords worker failed: {r}", None, {"concat": self.concat_replay(c)})
                continue
            for item in r:
                cut = item["cut"]
                mod = split_model[(ji, n, cut)]
                seen_kinds = []
                for b in item["batches"]:
                    seen_kinds.append(2 if b[0] == "v2" else None)
                st = "done" if item["status"] == "done" else ("corrupt" if item["status"] == "exc:CorruptRecordException"
                                                             else item["status"])
                mst, mlist = mod.split("|")
                mk = [] if mlist == "-" else [int(x.split(":")[0]) for x in mlist.split(",")]
                seen = f"{st} {','.join('v2' if k == 2 else 'legacy' for k in seen_kinds) or '-'}"
                modt = f"{mst} {','.join('v2' if k >= 2 else 'legacy' for k in mk) or '-'}"
                self.tie("split", None, n, modt, seen)
                self.bump(f"split:{n}")
                # property: exactly the complete batches before the cut, each of its own format
                want = [k for k, e in zip(kinds, ends) if e <= cut]
                got = ["v2" if k == 2 else "legacy" for k in seen_kinds]
                if st != "done" or got != want:
                    mixed = len({p["magic"] for p in parts}) > 1
                    self.finding(f"split-{'mixed-magic' if mixed else 'concat'}:{n}",
                                 f"{n} MemoryRecords over {len(parts)} concatenated batches (magic "
                                 f"{[p['magic'] for p in parts]}), {cut} of {ends[-1]} bytes: expected batches {want}, "
                                 f"got {got} ending '{item['status']}'", None,
                                 {"concat": self.concat_replay(c, cut)})
                    break
                if cut == ends[-1]:
                    # every batch decodes (through the splitter's constructor) without error
                    for bi, b in enumerate(item["batches"]):
                        d = b[3]
                        if isinstance(d, dict) and "exc" in d:
                            self.finding(f"split-decode:{n}", f"batch {bi} obtained from MemoryRecords does not decode: {d['exc']}",
                                         None, {"concat": self.concat_replay(c, cut)})
                            break

    @staticmethod
    def concat_replay(c, cut=None):
        return {"kind": "concat", "parts": [{k: p[k] for k in ("bytes", "count", "kind", "magic")} for p in c["parts"]],
                "cuts": [cut] if cut is not None else c["cuts"]}


def rebuild_extension(cdir, mod):
    """cythonize + compile one extension of a scratch copy in place (same flags as vlib.build_cython_scratch)"""
    import subprocess
    q = subprocess.run([PY, "-c", "import sysconfig;print(sysconfig.get_paths()['include']);"
                        "print(sysconfig.get_config_var('EXT_SUFFIX'))"], capture_output=True, text=True).stdout.split()
    p = subprocess.run([PY, "-m", "cython", "-3", f"{mod}.pyx"], cwd=cdir, capture_output=True, text=True)
    if p.returncode != 0:
        raise HarnessError(f"self-test: cython failed on {mod}: {p.stdout[-500:]}{p.stderr[-500:]}")
    srcs = [f"{mod}.c"] + (["crc32c.c"] if mod in ("cutil", "default_records") else [])
    p = subprocess.run(["gcc", "-O2", "-shared", "-fPIC", "-w", f"-I{q[0]}", "-I.", *srcs, "-o", f"{mod}{q[1]}", "-lz"],
                       cwd=cdir, capture_output=True, text=True)
    if p.returncode != 0:
        raise HarnessError(f"self-test: cc failed on {mod}: {p.stderr[-500:]}")


def self_test(ctx, tmp, codec_mod):
    """trusted-base mitigation (thorough tier): two known divergences are injected into a copy of the
    scratch tree — the absolute magic read in the Cython splitter and a wrong fast-path bound in
    encode_varint_py — and the tie must report both."""
    st = tmp / "selftest"
    shutil.copytree(tmp / "cy", st)
    injected = set()
    pyx = st / "aiokafka" / "record" / "_crecords" / "memory_records.pyx"
    src = pyx.read_text()
    if "buf[pos + MAGIC_OFFSET]" in src:
        pyx.write_text(src.replace("buf[pos + MAGIC_OFFSET]", "buf[MAGIC_OFFSET]"))
        rebuild_extension(pyx.parent, "memory_records")
        injected.add("split-mixed-magic:cy")
    util = st / "aiokafka" / "record" / "util.py"
    src = util.read_text()
    if "if value <= 0x3FFF:  # 2 bytes" in src:
        util.write_text(src.replace("if value <= 0x3FFF:  # 2 bytes", "if value <= 0x7FFF:  # 2 bytes", 1))
        injected.add("varint-encode:py")
    impls = {"py": Impl("py", str(st), {"AIOKAFKA_NO_EXTENSIONS": "1"}, str(st)),
             "cy": Impl("cy", str(st), {"AIOKAFKA_NO_EXTENSIONS": ""}, str(st))}
    ch = Chunk(ctx, 999, fixed_cases(), impls, tmp, codec_mod)
    ch.n_concat, ch.full_cut_limit = 0, 160
    ch.run()
    seen = {f[0] for f in ch.findings}
    missing = injected - seen
    ctx.coverage["tie_self_test"] = {"injected": sorted(injected), "detected": sorted(injected & seen)}
    if missing:
        raise HarnessError(f"tie self-test: injected divergences not reported: {sorted(missing)} (reported: {sorted(seen)})")


def strip(case):
    """the self-contained, JSON-clean description of a case (no derived `_…` entries)"""
    if isinstance(case, dict):
        return {k: strip(v) for k, v in case.items() if not k.startswith("_")}
    if isinstance(case, (list, tuple)):
        return [strip(v) for v in case]
    return case


def fixed_cases():
    out = []
    vals = [0, 1, -1, 2, -2, 63, -64, 64, -65, 8191, -8192, 8192, -8193, 2 ** 20 - 1, 2 ** 20, -2 ** 20, 2 ** 27,
            -2 ** 27 - 1, 2 ** 31 - 1, 2 ** 31, -2 ** 31, -2 ** 31 - 1, 2 ** 34, 2 ** 34 - 1, -2 ** 34, -2 ** 34 - 1,
            2 ** 41, 2 ** 48, 2 ** 55, 2 ** 62, 2 ** 62 - 1, -2 ** 62 - 1, I64 - 1, -I64, I64 - 2, -I64 + 1]
    for k in range(1, 10):
        vals += [2 ** (7 * k - 1) - 1, 2 ** (7 * k - 1), -2 ** (7 * k - 1), -2 ** (7 * k - 1) - 1]
    out.append({"kind": "varint", "values": sorted(set(vals)), "decode": []})
    for i, (b, e) in enumerate(zip(BROKER_V2, BROKER_V2_EXPECT)):
        out.append({"kind": "fixed-v2", "bytes": b.hex(),
                    "_expect": [(o, t, k, v, h) for o, t, k, v, h in e]})
    for b in BROKER_V1:
        out.append({"kind": "fixed-legacy", "bytes": b.hex(), "magic": 1})
    for b in BROKER_V0:
        out.append({"kind": "fixed-legacy", "bytes": b.hex(), "magic": 0})
    def part(b, kind, magic):
        return {"bytes": b.hex(), "count": 1, "kind": kind, "magic": magic}
    out.append({"kind": "concat", "parts": [part(BROKER_V1[0], "legacy", 1), part(BROKER_V2[0], "v2", 2)]})
    out.append({"kind": "concat", "parts": [part(BROKER_V2[0], "v2", 2), part(BROKER_V0[0], "legacy", 0),
                                            part(BROKER_V1[1], "legacy", 1), part(BROKER_V2[1], "v2", 2)]})
    out.append({"kind": "concat", "parts": [part(BROKER_V0[0], "legacy", 0), part(BROKER_V0[1], "legacy", 0),
                                            part(BROKER_V2[2], "v2", 2)]})
    out.append({"kind": "crc", "data": ["", "00", "313233343536373839", "ff" * 32, "00" * 32,
                                        bytes(range(256)).hex()]})
    return out


def enc_uv(v):
    out = bytearray()
    while v >= 128:
        out.append(v % 128 + 128)
        v //= 128
    out.append(v)
    return bytes(out)


def gen_misc(rng, n):
    """varints (valid encodings + over-long / arbitrary bytes padded so that no read leaves the buffer),
    checksums, size_of"""
    vals, dec = [], []
    for _ in range(n):
        c = rng.random()
        if c < 0.5:
            k = rng.randrange(0, 64)
            v = rng.randrange(0, 2 ** k + 1) * rng.choice([1, -1])
            v = max(-I64, min(I64 - 1, v))
        else:
            v = rng.randrange(-I64, I64)
        vals.append(v)
        z = (v << 1) ^ (v >> 63)
        dec.append((enc_uv(z) + rng.randbytes(rng.randrange(0, 3))).hex())
    for _ in range(n // 4):       # arbitrary bytes: continuation runs of every length, then padding
        k = rng.randrange(0, 12)
        body = bytes(rng.randrange(128, 256) for _ in range(k)) + bytes([rng.randrange(0, 128)])
        dec.append((body + bytes(12)).hex())
    data = [rng.randbytes(rng.choice([0, 1, 2, 3, 7, 8, 9, 15, 16, 17, 63, 64, 65, 255, 256, 1000, 5121, 6000])).hex()
            for _ in range(max(4, n // 8))]
    sizes = []
    for _ in range(max(4, n // 8)):
        hs = gen_headers(rng, False)
        sizes.append({"kind": "sizeof", "key": jb(gen_bytes(rng, True, False)), "value": jb(gen_bytes(rng, True, False)),
                      "headers": [[hk.hex(), jb(hv)] for hk, hv in hs]})
    return [{"kind": "varint", "values": vals, "decode": sorted(set(dec))}, {"kind": "crc", "data": sorted(set(data))}] + sizes


def run(ctx):
    os.environ["AIOKAFKA_NO_EXTENSIONS"] = "1"       # this process never needs the compiled codec
    import gzip

    class _FixedTime:
        @staticmethod
        def time():
            return 0.0
    gzip.time = _FixedTime                            # deterministic gzip headers (mtime) here as in the children
    ctx.coverage["trusted_base"] = [
        "Lean 4.33.0 kernel; axioms propext, Classical.choice, Quot.sound only",
        "SPEC (Model/V2.lean specBuild/specRead/HeaderOK, Model/Legacy.lean encMsg/specWrapper/specReadBatch, "
        "Model/Crc.lean crc32c/crc32 bitwise) is my transcription of the Kafka message-format definition; "
        "cross-checked on every run against real broker bytes (Kafka 0.10/0.11 fixtures)",
        "compression codecs (gzip, cramjam snappy/lz4/zstd) are a parameter: law decompress(compress x) = x assumed in the "
        "theorems, function values taken from the implementation's own calls in the tie",
        "C code not modelled: crc32c.c (slicing-by-8 / SSE4.2), zlib crc32, hton byte swaps — tied by T-diff only",
        "readers are modelled at the granularity 'records or failure'; failure kinds and buffer reads are C10",
        "UTF-8 encoding of header keys (str.encode / bytes.decode) trusted to be inverse on valid text",
        "T-diff harness (harness/checks/c09.py, c09_child.py), extractor harness/extract/layouts.py, line protocol driver",
    ]
    ctx.assumptions += [
        "inputs in the ranges of the wire types: timestamps in [0, 2^63), offsets 0..n-1 relative to the batch, lengths < 2^31, "
        "producer id/epoch/sequence within int64/int16/int32",
        "v1 timestamp -1 ('no timestamp') excluded: the Cython reader reports None, the Python reader -1",
        "empty batches (zero records) are compared between model and implementation but are outside the spec "
        "(Kafka writes no batch for zero records; the builders emit first/max timestamp 0 (py) or -1 (cy))",
    ]
    # ---------------- scratch build of the Cython codec, started now, awaited after the proof build
    tmp = scratch_dir("c09")
    builder = cf.ThreadPoolExecutor(max_workers=1)
    build_future = builder.submit(build_cython_scratch, tmp / "cy")
    # ---------------- T-extract
    from extract import layouts
    gen_path = LEAN / "AkVerif" / "Gen" / "Layouts.lean"
    try:
        lay = layouts.write(ctx.repo, gen_path)
        ctx.coverage["extracted_constants"] = len(lay["py"]) + len(lay["cy"]) + len(lay["formats"]) + len(lay["crc_table"])
    except Exception as e:  # noqa
        ctx.broken.append({"kind": "extract", "error": repr(e)})
    proved = ctx.prove(drivers=["akdriver"])

    sys.path.insert(0, str(ctx.repo))
    for m in [m for m in sys.modules if m.startswith("aiokafka")]:
        del sys.modules[m]
    codec_mod = importlib.import_module("aiokafka.codec")
    if not str(codec_mod.__file__).startswith(str(ctx.repo)):
        raise HarnessError(f"aiokafka imported from {codec_mod.__file__}, not {ctx.repo}")
    have = {1: codec_mod.has_gzip(), 2: codec_mod.has_snappy(), 3: codec_mod.has_lz4(), 4: codec_mod.has_zstd()}
    ctx.coverage["codecs_available"] = {CODECS[k]: v for k, v in have.items()}

    try:
        ctx.log("waiting for the Cython codec rebuilt from the .pyx of the tree under test ...")
        build_future.result()
        impls = {
            "py": Impl("py", str(ctx.repo), {"AIOKAFKA_NO_EXTENSIONS": "1"}, str(ctx.repo)),
            "cy": Impl("cy", str(tmp / "cy"), {"AIOKAFKA_NO_EXTENSIONS": ""}, str(tmp / "cy")),
        }
        ctx.log("scratch build done")
        # ---------------- cases
        if ctx.replay_cases is not None:
            chunks = [list(ctx.replay_cases)]
            n_concat = 0
        else:
            n_chunks = 20 if ctx.thorough else 2
            per = (420, 260, 60) if ctx.thorough else (150, 90, 30)
            chunks = []
            for i in range(n_chunks):
                rng = ctx.rng(f"chunk{i}")
                cs = fixed_cases() if i == 0 else []
                cs += gen_misc(rng, 400 if ctx.thorough else 120)
                cs += [gen_v2(rng, False) for _ in range(per[0])]
                cs += [gen_legacy(rng, False) for _ in range(per[1])]
                if ctx.thorough and i == 0:
                    cs += huge_cases()
                chunks.append(cs)
            n_concat = per[2]

        def fix_codecs(c):
            if c.get("codec") and not have.get(c["codec"], False):
                c["codec"] = 0
            for v in c.get("variants", []):
                if v.get("codec") and not have.get(v["codec"], False):
                    v["codec"] = 0 if c["kind"] == "v2" else 1
            return c

        objs = []
        for i, cs in enumerate(chunks):
            ch = Chunk(ctx, i, [fix_codecs(c) for c in cs], impls, tmp, codec_mod)
            ch.n_concat = n_concat
            ch.full_cut_limit = 4000 if ctx.thorough else 160
            objs.append(ch)
        workers = 8 if ctx.thorough else 2
        with cf.ThreadPoolExecutor(max_workers=workers) as ex:
            list(ex.map(lambda ch: ch.run(), objs))
        if ctx.thorough and ctx.replay_cases is None:
            self_test(ctx, tmp, codec_mod)
    finally:
        try:
            build_future.result()
        except Exception:  # noqa
            pass
        builder.shutdown(wait=True)
        shutil.rmtree(tmp, ignore_errors=True)

    # ---------------- collect
    hist, n_mis, lines = {}, 0, 0
    for ch in objs:
        lines += ch.n_lines
        for k, v in ch.hist.items():
            hist[k] = hist.get(k, 0) + v
        for c in [c for c in ch.cases if c["kind"] != "concat"] + getattr(ch, "concat_cases", []):
            if True:
                key = json.dumps(strip(c), sort_keys=True, default=str)
                ctx.count(key, nontrivial=c["kind"] not in ("v2", "legacy") or bool(c["records"]))
        for s in ch.samples:
            ctx.sample(s)
    info = objs[0].info if objs else {}
    ctx.coverage["implementations"] = {n: {k: i[k] for k in ("impl", "builder_v2", "memory", "varint", "root_ok")}
                                       for n, i in info.items() if i}
    ctx.coverage["outcome_histogram"] = dict(sorted(hist.items()))
    ctx.coverage["traces_validated_against_impl"] = lines
    ctx.coverage["rule"] = (
        "a case = one builder script (constructor arguments, record list, batch_size) or one varint/crc/size_of table or "
        "one concatenation with its tail truncations; every case runs through BOTH implementations and the Lean models; "
        "distinct = distinct canonical case JSON; non-trivial = at least one record (builder scripts) — "
        "varint/crc/concat cases always are")
    mism = [m for ch in objs for m in ch.mismatches]
    finds = [(ch, f) for ch in objs for f in ch.findings]
    ctx.coverage["phase_times"] = TIMES
    ctx.coverage["tie_mismatches"] = len(mism)
    ctx.coverage["property_findings"] = len(finds)
    if mism:
        ctx.broken.append({"kind": "correspondence", "tie": "T-diff c09 (record codec models vs py/cy implementations)",
                           "mismatches": len(mism), "first": mism[:3]})
    for ch, (sig, text, ci, detail) in finds:
        if detail and "concat" in detail:
            cases = [detail["concat"]]
        elif ci is not None:
            cases = [strip(ch.cases[ci])]
        elif detail and "value" in detail:
            cases = [{"kind": "varint", "values": [detail["value"]], "decode": []}]
        elif detail and "expected" in detail:
            cases = [{"kind": "varint", "values": [], "decode": [detail["bytes"]]}]
        else:
            cases = []
        ctx.violation(sig, text, {"cases": cases, "detail": {k: v for k, v in (detail or {}).items() if k != "concat"}})
    if mism and not finds:
        # name the first diverging case so that the replay is concrete even without a property-level failure
        m = mism[0]
        for ch in objs:
            if m in ch.mismatches and m["case"] is not None:
                ctx.broken[-1]["case"] = strip(ch.cases[m["case"]])
