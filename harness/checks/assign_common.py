"""shared by C14 / C15: input generation, canonical encoding, calling the real assignors"""
import importlib
import itertools
import sys


def tname(t):
    return f"t{t:02d}"


def mname(m):
    return f"m{m:02d}"


class StubCluster:
    """ClusterMetadata stand-in: ordered, deterministic collections (any iteration order of a
    set is a legitimate behaviour of the real object)"""

    def __init__(self, parts):
        self._parts = {tname(t): list(ps) for t, ps in parts}

    def partitions_for_topic(self, topic):
        ps = self._parts.get(topic)
        return None if ps is None else set(ps)

    def topics(self, exclude_internal_topics=True):
        return set(self._parts)


def enc_parts(parts):
    if not parts:
        return "-"
    return ";".join(f"{t}:{','.join(map(str, ps)) if ps else '-'}" for t, ps in parts)


def enc_output(out):
    """out: list of (member:int, [(topic:int, [p...])])"""
    if not out:
        return "-"
    return "|".join(f"{m}={enc_parts(items)}" for m, items in out)


def load_assignors(repo):
    sys.path.insert(0, str(repo))
    for m in [m for m in sys.modules if m.startswith("aiokafka")]:
        del sys.modules[m]
    rng_ = importlib.import_module("aiokafka.coordinator.assignors.range")
    rr = importlib.import_module("aiokafka.coordinator.assignors.roundrobin")
    st = importlib.import_module("aiokafka.coordinator.assignors.sticky.sticky_assignor")
    proto = importlib.import_module("aiokafka.coordinator.protocol")
    return {"range": rng_.RangePartitionAssignor, "rr": rr.RoundRobinPartitionAssignor,
            "sticky": st.StickyPartitionAssignor, "proto": proto, "sticky_mod": st}


def canon(result, members):
    """library result {member_name: ConsumerProtocolMemberAssignment} -> canonical list in
    members order; topic/member names mapped back to ints"""
    out = []
    for m, _ in members:
        a = result[mname(m)]
        items = [(int(t[1:]), list(ps)) for t, ps in a.assignment]
        out.append((m, items))
    return out


class AssignorHang(Exception):
    pass


def _alarm(signum, frame):
    raise AssignorHang()


def run_assignor(A, kind, parts, members, user_data=None, limit_s=5.0):
    """runs assign() under a wall-clock limit (pure Python, so SIGALRM interrupts it);
    AssignorHang = the loop did not finish: non-termination is itself a finding"""
    return with_cpu_limit(lambda: _run_assignor(A, kind, parts, members, user_data), limit_s)


def with_cpu_limit(fn, limit_s):
    """run fn() under a limit on the CPU time of this process (ITIMER_VIRTUAL: immune to the machine
    being busy); a first expiry is re-tried once with a ten times larger limit before it counts"""
    import signal
    for lim in (limit_s, limit_s * 10):
        old = signal.signal(signal.SIGVTALRM, _alarm)
        signal.setitimer(signal.ITIMER_VIRTUAL, lim)
        try:
            return fn()
        except AssignorHang:
            if lim != limit_s:
                raise
        finally:
            signal.setitimer(signal.ITIMER_VIRTUAL, 0)
            signal.signal(signal.SIGVTALRM, old)


def _run_assignor(A, kind, parts, members, user_data=None):
    proto = A["proto"]
    mm = {}
    for m, subs in members:
        ud = b"" if user_data is None else user_data.get(m, b"")
        mm[mname(m)] = proto.ConsumerProtocolMemberMetadata(0, [tname(t) for t in subs], ud)
    res = A[kind].assign(StubCluster(parts), mm)
    return canon(res, members)


def small_space(max_members=4, max_topics=3, max_parts=4, with_missing=True):
    """the property's exhaustive space: members × topics × 0..4 partitions per topic (or no
    metadata) × every non-empty subscription per member"""
    for nt in range(1, max_topics + 1):
        pchoices = list(range(0, max_parts + 1)) + ([None] if with_missing else [])
        for pc in itertools.product(pchoices, repeat=nt):
            parts = [(t, list(range(n))) for t, n in enumerate(pc) if n is not None]
            subsets = [s for r in range(1, nt + 1) for s in itertools.combinations(range(nt), r)]
            for nm in range(1, max_members + 1):
                for subs in itertools.product(subsets, repeat=nm):
                    yield parts, [(m, list(s)) for m, s in enumerate(subs)]


# ---------------------------------------------------------------- sticky port tie (C14 / C15)
ORACLE_LOG = []


def install_oracle_recorder(A):
    """wrap PartitionMovements.get_partition_to_be_moved from outside: whenever it picks from the
    set `partition_movements_by_topic[topic][reverse_pair]` (the one iteration-order dependent
    choice of the algorithm) record what it picked, so the Lean port can replay the choice"""
    import importlib
    pm = importlib.import_module("aiokafka.coordinator.assignors.sticky.partition_movements")
    PM = pm.PartitionMovements
    if getattr(PM, "_akverif_wrapped", False):
        return
    orig = PM.get_partition_to_be_moved

    def wrapped(self, partition, old_consumer, new_consumer):
        r = orig(self, partition, old_consumer, new_consumer)
        try:
            if partition.topic in self.partition_movements_by_topic:
                oc = old_consumer
                if partition in self.partition_movements:
                    oc = self.partition_movements[partition].src_member_id
                if pm.ConsumerPair(new_consumer, oc) in self.partition_movements_by_topic[partition.topic]:
                    ORACLE_LOG.append((int(r.topic[1:]), r.partition))
        except Exception:  # noqa
            pass
        return r

    PM.get_partition_to_be_moved = wrapped
    PM._akverif_wrapped = True


def enc_tps(lst):
    return ",".join(f"{t}:{p}" for t, p in lst) if lst else "-"


def sticky_line(parts, members, prev_out):
    """the line for the Lean port: same input, previous assignment of the present members, and the
    recorded oracle (call AFTER running the real assignor for this input)"""
    prev = "-" if not prev_out else enc_output([(m, items) for m, items in prev_out if any(m == mm for mm, _ in members)])
    return f"sticky assign {enc_parts(parts)} {enc_parts(members)} {prev} {enc_tps(ORACLE_LOG)}"
