"""C04 — committed offsets never pass undelivered records; at-least-once across crash / rebalance.

Proof: lean/AkVerif/Props/C04.lean about the acceptor lean/AkVerif/Model/Commit.lean.
Tie (T-trace): real AIOKafkaConsumer group members on the simulator (see group_common.py): every record
handed to the application, every OffsetCommit entry that reaches the coordinator (auto-commit timer, commit(),
commit before rejoin and on stop) with the coordinator's verdict, every OffsetFetch / ListOffsets answer a
member is started from, every adoption and subscription change — the history must be accepted by the Lean
acceptor, whose visibility predicate is the ground truth of the simulated logs.  Search: the property evaluated
directly on the observations (group_common.check_c04).
"""
from checks import group_common as G

CLAUSE = {
    "commit-passes-undelivered-records": "commit_behind_delivery",
    "commit-without-position": "commit_behind_delivery",
    "commit-not-a-held-position": "commit_behind_delivery",
    "delivered-below-position": "redelivery_only_above_commit",
    "delivered-before-any-start-position": "redelivery_only_above_commit",
    "delivery-skips-visible-records": "no_loss",
    "reset-although-a-committed-offset-was-answered": "redelivery_only_above_commit",
}


def run(ctx):
    ctx.coverage["trusted_base"] = [
        "Lean 4.33.0 kernel; axioms propext, Classical.choice, Quot.sound only",
        "harness/sim (virtual-time loop, simulated partition logs, committed-offset store of the group coordinator) — "
        "the Env guards of the Lean acceptor re-derive that an OffsetFetch answer is the stored offset and a reset "
        "answer is the log start; a disagreement is exit 2",
        "harness/checks/group_common.py: hooks (getone/getmany results, listener callbacks, subscription()), merging "
        "with the cluster trace, translation to Ev tokens, ground-truth visibility from the simulated logs, "
        "Driver/GroupIO.lean",
        "code between two events (scheduling inside aiokafka) is covered only by the sampled histories",
    ]
    ctx.assumptions += [
        "a wrong reset (stale OFFSET_OUT_OF_RANGE acted upon) is therefore visible as redelivery below the position / "
        "a reset without 'no committed offset'; members with auto_offset_reset=latest are not generated because the "
        "no-loss theorem is stated relative to the log start (a legitimate 'latest' reset skips records by policy)",
        "auto_offset_reset=earliest and an unmoved log start for every member (the reset policy is C13's subject); "
        "no seek() calls (C03/C13)",
        "crash points (kill = connections aborted + every task of the member cancelled), fault placements and "
        "schedules of the implementation are sampled by the simulator",
        "a record whose deserializer always raises can never be handed out: the acceptor then demands that no commit "
        "passes it and that no later record of that partition is delivered in the same ownership epoch (the unchanged "
        "consumer stays in front of it, raising on every poll) — skipping it, even after the application saw the "
        "exception, is reported as delivery-skips-visible-records / commit-passes-undelivered-records",
        "liveness ('the group eventually delivers every record') is not claimed: the theorems are the safety form — "
        "nothing below a committed offset or below a new owner's start is undelivered",
    ]
    ctx.coverage["rule"] = (
        "seeded scenarios as for C05 (1..4 member slots × ≤3 incarnations, three assignors, kills / stops / joins after k "
        "deliveries or at time t, subscription and partition-count changes, coordinator failover with/without state), "
        "auto-commit period 150..1500 ms racing deliveries, commit() every 5 / 17 records, OffsetCommit replies "
        "failing with 14,15,16,7,25,22,27, lost / dropped / delayed group and fetch replies, 25 % transactional "
        "producers (control batches = invisible offsets); hand-outs that fail in the middle: key / value deserializers that raise "
        "on chosen records (once per member incarnation, or always) and Fetch responses carrying one batch with a wrong "
        "CRC (check_crcs=True, once) — the application catches the exception from getone()/getmany(), keeps polling, "
        "committing and auto-committing; a record whose hand-out raised was NOT handed out; NON-retriable coordination errors (30, 29, 12, 28, 24) "
        "at OffsetCommit / Heartbeat / JoinGroup / SyncGroup parked for the application while data is buffered and the "
        "application is busy between polls; old Fetch responses held, the partition moved to another leader, and "
        "answered late with OFFSET_OUT_OF_RANGE once the member has fetched on (stale answer); idle applications "
        "(max_poll_interval_ms 1..1.5 s) and revoke callbacks longer than the session timeout. non-trivial = ≥2 generations, ≥1 delivery, ≥1 commit")
    G.run_check(ctx, "C04", CLAUSE.get, n_quick=100, n_thorough=4000)
