"""C13 — consumption starts at the committed offset, else per auto_offset_reset; explicit seek wins.

Proof: Props/C13.lean about `AkVerif.Consume.step` (the per-partition automaton
awaitingCommitted | awaitingReset s | valid p | error, Model/Consume.lean).

Tie:
 1. T-trace on the real `Fetcher._update_fetch_positions` / `_proc_fetch_request` / `seek_to` /
    `request_offset_reset` on a stub client: the base history (lookup task starts, committed offset
    arrives, ListOffsets answered or failed, second lookup) with one or two user / broker events
    (seek, seek_to_beginning, seek_to_end, OFFSET_OUT_OF_RANGE) inserted at EVERY position; the probe
    records every event with a snapshot of the real partition state; the Lean acceptor `c03 acc`
    replays the model on it.
 2. T-trace on the real AIOKafkaConsumer against the simulator: committed absent / inside / below
    log start / beyond log end × earliest | latest | none × read_uncommitted | read_committed ×
    group / group-less, ListOffsets pinned to v0..v3, failing lookups (retriable codes, dropped
    connections, lost replies), and a seek landing at every simulator event index between
    assignment and completion of the reset; plus staggered lookups (cons_sim.c13lag_plans): two
    partitions with committed offsets led by different brokers, one leader unknown at assignment
    and appearing while the (delayed) OffsetFetch of the other partition is in flight — on a grid
    across the flight and at 1-ms steps around the arrival of its reply; both must get their
    committed offsets within 15 virtual seconds; and replaced assignments of a consumer WITHOUT
    group_id (cons_sim.c13re_plans): `assign()` a second and third time with another / larger / the
    same set, or a subscribed topic that grows — every partition of every new assignment must get
    log start / log end / NoOffsetForPartition within 10 virtual seconds and deliver.
Search: the property on observations (`c13 holds`: Lean `holdsC13`) for every trace, plus an
independent table of the expected start for the runs without a seek.
"""
import asyncio
import logging

from vlib import HarnessError
from . import cons_common as cc
from . import cons_sim as cs

LO, HI = 10, 30


# ------------------------------------------------------------------------------------ layer 1: the rig
async def rig_script(env, loop, policy, ops):
    """ops: list of texts; returns (events, obs13) of the single partition"""
    truth = cs.Truth()
    probe = cc.Probe(env, truth.lookup)
    probe.install()
    try:
        rig = cc.Rig(env, loop, 1, policy)
        probe.fetcher = rig.fetcher
        probe.wrap_client(rig.client)
        tp = rig.tps[0]
        st = rig.state(0)
        tasks = []
        E = env.errors
        for op in ops:
            k = op[0]
            if k == "ufp":
                if not any(not t.done() for t in tasks):
                    rig.client.auto = None
                    tasks.append(asyncio.ensure_future(rig.fetcher._update_fetch_positions(rig.assignment, 0, [tp])))
            elif k == "commit":
                st.update_committed(env.structs.OffsetAndMetadata(-1 if op[1] is None else op[1], ""))
            elif k in ("answer", "fail"):
                if rig.client.sends:
                    node, req, fut = rig.client.sends.pop(0)
                    if not fut.done():
                        if k == "fail":
                            fut.set_exception(E.NotLeaderForPartitionError())
                        else:
                            (_t, plist), = req._topics
                            (_p, strategy), = plist
                            off = {-2: LO, -1: HI}.get(strategy, LO)
                            fut.set_result(env.offsetproto.OffsetResponse_v1([("t", [(0, 0, -1, off)])]))
            elif k == "seek":
                rig.fetcher.seek_to(tp, op[1])
            elif k == "seekto":
                f = rig.fetcher.request_offset_reset([tp], op[1])
                f.add_done_callback(lambda f: f.cancelled() or f.exception())
            elif k == "oor":
                # the fetch loop sends no fetch for a partition that has an entry in `_records`
                # (`_get_actions_per_node`), so no answer can arrive while one is buffered
                if st._position is not None and tp not in rig.fetcher._records:
                    resp = cc.make_fetch_response(env, 4, "t", [(0, 1, -1, -1, -1, None, b"")])
                    auto, rig.client.auto = rig.client.auto, (lambda node, req, r=resp: r if "Fetch" in type(req).__name__ else None)
                    req = env.fetchproto.FetchRequest(100, 1, 1 << 20, 0, [("t", [(0, st._position, 1 << 20)])])
                    try:
                        await rig.fetcher._proc_fetch_request(rig.assignment, 0, req)
                    except AssertionError:
                        probe.o13(tp, "e99")
                    rig.client.auto = auto
            await cc.settle(5)
        # errors the application would get
        ent = rig.fetcher._records.get(tp)
        if ent is not None and type(ent).__name__ == "FetchError":
            probe.o13(tp, f"e{cc.exc_code(ent._error)}")
        if st._position is not None:
            probe.o13(tp, f"p{st._position}")
        probe.final()
        for t in tasks:
            if not t.done():
                t.cancel()
            elif not t.cancelled() and t.exception() is not None:
                # the lookup task died (AssertionError of reset_to, …): the fetch loop would die with it
                probe.o13(tp, "e98")
        await cc.settle(3)
        await rig.close()
        evs = next(iter(probe.events.values()), [])
        return evs, probe.obs13.get(tp, [])
    finally:
        probe.uninstall()


def rig_histories(thorough):
    """base history with user / broker events inserted at every position"""
    users = [("seek", 7), ("seekto", -2), ("seekto", -1), ("oor",)]
    out = []
    for committed in (None, 17):
        for second in ("answer", "fail"):
            base = [("ufp",), ("commit", committed), (second,), ("ufp",), ("answer",), ("ufp",), ("answer",)]
            out.append(list(base))
            n = len(base)
            for i in range(n + 1):
                for u in users:
                    h1 = base[:i] + [u] + base[i:]
                    out.append(h1)
                    for j in range(i + 1, len(h1) + 1):
                        for u2 in (users if thorough else users[:3]):
                            if thorough or (i + j) % 2 == 0:
                                out.append(h1[:j] + [u2] + h1[j:])
    return out


def corpus_histories():
    """minimised past failures (corpus/C13/*.json), run before everything else"""
    import json
    from vlib import VERIF
    out = []
    for f in sorted((VERIF / "corpus" / "C13").glob("*.json")):
        for c in json.loads(f.read_text()).get("cases", []):
            if c.get("kind") == "c13rig":
                out.append((c["policy"], [tuple(o) for o in c["ops"]]))
    return out


def detect_variant(env, loop):
    """does the code apply a ListOffsets answer that was asked for another strategy than the one the
    partition is waiting for now?  (True = repaired / guarded)"""
    ops = [("seekto", -1), ("ufp",), ("seekto", -2), ("answer",)]
    evs, obs = loop.run_until_complete(rig_script(env, loop, -1, ops))
    final = evs[-1][0] if evs else ""
    return final.split(",")[0] == "-", evs, obs


def obs13_line(committed, policy, obs):
    pol = "none" if policy is None else str(policy)
    return f"c13 holds {'-' if committed is None else committed} {pol} " + (";".join(obs) if obs else "-")


# ------------------------------------------------------------------------------------ the check
def run(ctx):
    logging.disable(logging.CRITICAL)
    ctx.coverage["trusted_base"] = [
        "Lean 4.33.0 kernel; axioms propext, Classical.choice, Quot.sound only",
        "harness/checks/cons_common.py (probe: run-time wrappers recording events and state snapshots of the real "
        "TopicPartitionState / Fetcher), cons_sim.py, Driver/ConsumeIO.lean",
        "harness/sim: OffsetFetch / ListOffsets / Fetch(OFFSET_OUT_OF_RANGE) behaviour of the broker as in DESIGN.md "
        "Appendix F (log start 10, high watermark 30, last stable offset 25 through an open transaction)",
        "how the committed offset reaches `TopicPartitionState.update_committed` (coordinator refresh routines) is "
        "exercised by the simulator traces only; the model starts at the point where `_update_fetch_positions` resumes",
        "rig histories deliver no fetch answer for a partition while an entry for it is buffered (the fetch loop sends "
        "none); two answers in flight for one partition (possible only across a leader move) can trip the assert in "
        "`_set_error` — modelled (`Res.assertion`), not counted as a C13 violation",
    ]
    proved = ctx.prove(drivers=["akdriver"])
    env = cc.Env(ctx.repo)
    loop = asyncio.new_event_loop()
    asyncio.set_event_loop(loop)
    lines, where, meta = [], [], []
    try:
        guarded, pevs, pobs = detect_variant(env, loop)
        ctx.coverage["listoffsets_answer_checked_against_requested_strategy"] = guarded
        if not guarded:
            ctx.violation(
                "c13:stale-listoffsets-answer",
                "seek_to_beginning() while a ListOffsets(latest) lookup is in flight: the late answer (log end) is "
                "applied to the partition that now waits for `earliest` — the explicit seek does not take precedence; "
                "events " + ";".join("~".join(e) for e in pevs),
                {"cases": [{"kind": "c13rig", "policy": -1, "ops": [list(o) for o in
                            [("seekto", -1), ("ufp",), ("seekto", -2), ("answer",)]]}], "observations": pobs})
        if ctx.replay_cases is not None:
            hists = [(c["policy"], [tuple(o) for o in c["ops"]]) for c in ctx.replay_cases if c.get("kind") == "c13rig"]
            plans = [c for c in ctx.replay_cases if c.get("kind") == "c13"]
        else:
            hists = corpus_histories()
            ctx.coverage["corpus_cases"] = len(hists)
            hists += [(pol, h) for pol in (-2, -1, None) for h in rig_histories(ctx.thorough)]
            plans = None
        hist_out = {}
        ctx.log(f"variant guarded={guarded}; {len(hists)} rig histories")
        for pol, h in hists:
            evs, obs = loop.run_until_complete(rig_script(env, loop, pol, h))
            committed = next((o[1] for o in h if o[0] == "commit"), None)
            case = {"kind": "c13rig", "policy": pol, "ops": [list(o) for o in h]}
            lines.append(cc.acc_line(guarded, pol, evs)); where.append(("acc", len(meta)))
            lines.append(obs13_line(committed, pol, obs)); where.append(("holds", len(meta)))
            meta.append({"case": case, "obs": obs, "events": evs})
            ctx.count(("rig", pol, tuple(h)), nontrivial=any(o[0] in ("seek", "seekto", "oor") for o in h))
            fin = evs[-1][0].split(",")[0] if evs else "-"
            key = "valid" if fin != "-" else ("error" if any(x.startswith("e") for x in obs) else "pending")
            hist_out[key] = hist_out.get(key, 0) + 1
        ctx.coverage["rig_histories"] = len(hists)
        ctx.coverage["rig_final_states"] = hist_out
    finally:
        loop.close()
        asyncio.set_event_loop(None)

    # ---- layer 2: the simulator
    ctx.log("rig histories done")
    sim_hist = {"runs": 0, "seek_indices": 0, "errors_raised": 0, "with_faults": 0}
    if plans is None:
        plans = []
        rng = ctx.rng("sim")
        cfgs = cs.c13_configs()
        for ci, cfg in enumerate(cfgs):
            base = {"kind": "c13", "seed": 1000 + ci, **cfg}
            if cfg["isolation"] == "read_committed":
                lov = [2, 3]
            else:
                lov = [0, 1, 2, 3]
            versions = lov if ctx.thorough else [lov[(ci + ctx.seed) % len(lov)]]
            for v in versions:
                b = dict(base, api_versions={"ListOffsets": [v, v]}, lo_version=v)
                plans.append(b)
                # a seek landing at every event index of the window (found by the baseline run)
                b["_expand"] = True
            # failing lookups
            fault_sets = [
                [{"kind": "error", "api": "ListOffsets", "code": 6, "nth": 0}],
                [{"kind": "drop_before", "api": "ListOffsets", "nth": 0}],
                [{"kind": "lose_reply", "api": "ListOffsets", "nth": 0}],
                [{"kind": "error", "api": "OffsetFetch", "code": 14, "nth": 0}, {"kind": "error", "api": "OffsetFetch", "code": 16, "nth": 1}],
                [{"kind": "lose_reply", "api": "OffsetFetch", "nth": 0}],
                [{"kind": "error", "api": "FindCoordinator", "code": 15, "nth": 0}],
                [{"kind": "delay", "api": "ListOffsets", "seconds": 0.7, "nth": 0}],
            ]
            chosen = fault_sets if ctx.thorough else [fault_sets[(ci + k + ctx.seed) % len(fault_sets)] for k in (0, 3)]
            if not ctx.thorough and cfg["group"] and ci % 3 == ctx.seed % 3 and fault_sets[3] not in chosen:
                chosen = chosen + [fault_sets[3]]
            for fs in chosen:
                if not cfg["group"] and any(f["api"] in ("OffsetFetch", "FindCoordinator") for f in fs):
                    continue
                fb = dict(base, faults=fs, wait=5.0)
                plans.append(fb)
                if ctx.thorough or fs[0]["kind"] == "delay":
                    fb["_expand"] = True
                if fs[0]["api"] == "OffsetFetch" and fs[0]["kind"] == "error":
                    # the same against a broker that only speaks OffsetFetch v1: group-level errors come as
                    # per-partition error codes there (v2+ brokers put them into the top-level field only)
                    plans.append(dict(base, faults=fs, wait=5.0, api_versions={"OffsetFetch": [1, 1]}, of_version=1))
                    # ... and against one that speaks v2 at most (the first version with the top-level field)
                    plans.append(dict(base, faults=fs, wait=5.0, api_versions={"OffsetFetch": [1, 2]}, of_version=2))
        if ctx.thorough:
            for ci, cfg in enumerate(cfgs):
                if cfg["group"]:
                    plans.append({"kind": "c13", "seed": 5000 + ci, **cfg, "subscribe": True, "_expand": True})
    expanded = []
    for plan in plans:
        expand = plan.pop("_expand", False)
        out = cs.c13_trace(env, plan)
        expanded.append((plan, out))
        if expand and out["outcome"] == "ok":
            n = last_tick_of_window(out)
            ks = range(0, n + 2)
            kinds = [22]
            extra = ["beginning", "end"] if (ctx.thorough or plan["seed"] % 3 == ctx.seed % 3) else []
            for to in kinds + extra:
                for k in ks:
                    p2 = dict(plan, seek={"at": k, "to": to})
                    expanded.append((p2, cs.c13_trace(env, p2)))
                    sim_hist["seek_indices"] += 1
    for plan, out in expanded:
        pol = cs.POLICY[plan["policy"]]
        committed = cs.C13_COMMITTED[plan["committed"]] if plan["group"] else None
        obs = out["obs13"].get(0, [])
        for key, evs in out["events"].items():
            lines.append(cc.acc_line(guarded, pol, evs)); where.append(("acc", len(meta)))
        lines.append(obs13_line(committed, pol, obs)); where.append(("holds", len(meta)))
        meta.append({"case": plan, "obs": obs, "out": out})
        sim_hist["runs"] += 1
        sim_hist["errors_raised"] += len(out["api_errors"])
        sim_hist["with_faults"] += 1 if plan.get("faults") else 0
        ctx.count(("sim", repr(sorted((k, repr(v)) for k, v in plan.items()))), nontrivial=True)
        ctx.coverage["traces_validated_against_impl"] += 1
    # ---- staggered committed-offset lookups (two partitions, one leader known late, OffsetFetch delayed)
    if ctx.replay_cases is not None:
        lag_plans = [c for c in ctx.replay_cases if c.get("kind") == "c13lag"]
    else:
        lag_plans = cs.c13lag_plans(ctx.thorough)
    lag_bad = 0
    for plan in lag_plans:
        out = cs.c13lag_trace(env, plan)
        pol = cs.POLICY[plan["policy"]]
        for key, evs in out["events"].items():
            lines.append(cc.acc_line(guarded, pol, evs)); where.append(("acc", len(meta)))
            meta.append({"case": plan, "obs": [], "out": out})
        for part, want in cs.LAG_COMMITTED.items():
            obs = out["obs13"].get(part, [])
            lines.append(obs13_line(want, pol, obs)); where.append(("holds", len(meta)))
            meta.append({"case": plan, "obs": obs, "out": out})
        sim_hist["staggered_lookup_runs"] = sim_hist.get("staggered_lookup_runs", 0) + 1
        ctx.count(("lag", repr(sorted((k, repr(v)) for k, v in plan.items()))), nontrivial=True)
        ctx.coverage["traces_validated_against_impl"] += 1
        if out["outcome"] != "ok":
            lag_bad += 1
            ctx.violation("c13:hang", f"{out.get('where', '')[:300]}; case {plan}", {"cases": [plan]})
            continue
        missing = [p for p, v in out["positions"].items() if v is None]
        wrong = {p: v for p, v in out["positions"].items() if v is not None and v != cs.LAG_COMMITTED[p]}
        if missing:
            lag_bad += 1
            ctx.violation(
                "c13:never-positioned",
                f"partition(s) {missing} have a committed offset ({[cs.LAG_COMMITTED[p] for p in missing]}) but got no position within "
                f"{plan['bound']} virtual seconds after assignment (leader of partition {plan['late']} known at "
                f"+{out.get('leader_known_at')} s, first OffsetFetch reply delayed by {plan['delay']} s); positions {out['positions']}; "
                f"observations {out['obs13']}",
                {"cases": [plan], "positions": out["positions"], "observations": out["obs13"]})
        if wrong:
            lag_bad += 1
            ctx.violation("c13:wrong-start", f"consumption must start at the committed offsets {cs.LAG_COMMITTED}; positions "
                          f"{out['positions']}; case {plan}", {"cases": [plan], "observations": out["obs13"]})
    sim_hist["staggered_lookup_failures"] = lag_bad
    # ---- a consumer without group_id whose assignment is replaced (assign() again / subscribed topic grows)
    if ctx.replay_cases is not None:
        re_plans = [c for c in ctx.replay_cases if c.get("kind") == "c13re"]
    else:
        re_plans = cs.c13re_plans(ctx.thorough)
    re_bad = 0
    for plan in re_plans:
        out = cs.c13re_trace(env, plan)
        pol = cs.POLICY[plan["policy"]]
        for key, evs in out["events"].items():
            lines.append(cc.acc_line(guarded, pol, evs)); where.append(("acc", len(meta)))
            meta.append({"case": plan, "obs": [], "out": out})
        for part, obs in out["obs13"].items():
            lines.append(obs13_line(None, pol, obs)); where.append(("holds", len(meta)))
            meta.append({"case": plan, "obs": obs, "out": out})
        sim_hist["reassignment_runs"] = sim_hist.get("reassignment_runs", 0) + 1
        ctx.count(("re", repr(sorted((k, repr(v)) for k, v in plan.items()))), nontrivial=True)
        ctx.coverage["traces_validated_against_impl"] += 1
        if out["outcome"] != "ok":
            re_bad += 1
            ctx.violation("c13:hang", f"{out.get('where', '')[:300]}; case {plan}", {"cases": [plan]})
            continue
        if out["failures"]:
            re_bad += 1
            f0 = out["failures"][0]
            if f0.get("position", 0) is None and "partition" in f0:
                sig = "c13:never-positioned"
            elif "re-assigned" in f0["why"]:
                sig = "c13:not-reassigned"
            elif "delivered" in f0["why"] or "reach the caller" in f0["why"]:
                sig = "c13:not-delivered"
            else:
                sig = "c13:wrong-start"
            ctx.violation(
                sig, f"group-less consumer ({plan['mode']}, auto_offset_reset={plan['policy']}), assignment #{f0['step'] + 1} of "
                f"{plan['steps']}: {f0['why']} within {plan['bound']} virtual seconds — {out['failures'][:3]}; observations {out['obs13']}",
                {"cases": [plan], "failures": out["failures"], "observations": out["obs13"]})
    sim_hist["reassignment_failures"] = re_bad
    lag_bad += re_bad
    ctx.coverage["sim_c13"] = sim_hist
    ctx.log(f"simulator runs done: {sim_hist}")
    res = ctx.driver("akdriver", lines)
    ctx.coverage["rule"] = (
        "rig: the lookup history [start, committed offset (absent | 17), ListOffsets answer | failure, restart, answer, "
        "restart, answer] × policy with 1–2 of {seek, seek_to_beginning, seek_to_end, OFFSET_OUT_OF_RANGE} inserted at "
        "every position; sim: 30 configurations (committed absent/inside/below/beyond × policy × isolation × group / "
        "group-less) with ListOffsets pinned to one version, lookup faults, and a seek(22) (for a third of the "
        "configurations also seek_to_beginning / seek_to_end) at every simulator event index of the window; staggered "
        "lookups: two partitions with committed offsets 5 / 7 led by different brokers, one leader unknown at assignment "
        "and appearing on a grid across (and at 1-ms steps around the end of) the flight of a delayed OffsetFetch; "
        "group-less consumers whose assignment is replaced twice (assign again / subscribed topic grows) × 3 policies; every run "
        "counts as non-trivial; distinct by canonical plan text")
    for m in ((meta[0], meta[len(meta) // 2], meta[-1]) if meta else ()):
        ctx.sample({"case": {k: v for k, v in m["case"].items() if k not in ("ops",)} if m["case"].get("kind") == "c13" else m["case"],
                    "observations": m["obs"][:12]})
    bad = False
    for (kind, mi), r in zip(where, res):
        m = meta[mi]
        if kind == "acc" and not r.startswith("ok"):
            bad = True
            if len(ctx.broken) < 3:
                ctx.broken.append(
                    {"kind": "correspondence", "tie": "T-trace c13 (real fetcher state vs AkVerif.Consume.step)",
                     "driver": r[:300], "case": m["case"]})
        elif kind == "holds" and r != "ok":
            bad = True
            i = int(r.split()[1])
            what = m["obs"][i] if i < len(m["obs"]) else "?"
            sig = {"v": "c13:position-overwritten-or-wrong-reset", "e": "c13:unexpected-error", "p": "c13:position-differs",
                   "o": "c13:out-of-range-without-position"}.get(what[:1], "c13:obs")
            ctx.violation(sig, f"observation #{i} `{what}` contradicts C13; observations {m['obs'][:i + 1]}; case {str(m['case'])[:300]}",
                          {"cases": [m["case"]], "observations": m["obs"]})
    # independent table for the runs without a seek
    for m in meta:
        plan = m["case"]
        if plan.get("kind") != "c13" or plan.get("seek"):
            continue
        out = m["out"]
        exp_pos, exp_err = cs.c13_expected(plan)
        if out["outcome"] != "ok":
            bad = True
            ctx.violation("c13:hang", f"{out.get('where', '')[:300]}", {"cases": [plan]})
            continue
        vs = [int(x[1:]) for x in m["obs"] if x.startswith("v")]
        errs = [int(x[1:]) for x in m["obs"] if x.startswith("e")]
        got_pos = vs[-1] if vs else None
        if exp_err is None and (got_pos != exp_pos or errs):
            bad = True
            ctx.violation("c13:wrong-start", f"consumption must start at {exp_pos}; observed resets {vs}, errors {errs}; case {plan}",
                          {"cases": [plan], "observations": m["obs"]})
        if exp_err is not None and exp_err not in errs:
            bad = True
            ctx.violation("c13:error-not-raised", f"error {exp_err} must reach the caller; observed {m['obs']}; case {plan}",
                          {"cases": [plan], "observations": m["obs"]})
    ctx.coverage["all_clean"] = bool(proved and not bad and not lag_bad)


def last_tick_of_window(out):
    """simulator event index (relative to the assignment) after which the start position was settled"""
    return min(int(out.get("ticks_settled") or out.get("ticks_done") or 0) + 3, 120)
