"""C01 — per-partition produce order; no loss, no duplication under retries.

Proof: lean/AkVerif/Props/C01.lean about the acceptor `AkVerif.Producer` (Model/Producer.lean).
Tie (T-trace): the real AIOKafkaProducer (plain, idempotent, transactional) runs seeded workloads
against the simulated cluster with seeded fault schedules; the observed history of every partition (accepts, every ProduceRequest the
sender hands to the client with its decoded batches, the broker's decisions, the client-side
outcome of every request, every future's result) is fed to the Lean acceptor, whose guards are the
mechanisms of the anchors (single flight, FIFO drain, front re-enqueue with identical producer
state, sequence stamping).  The broker log the model derives is compared with the simulator's.
T-diff: `TransactionManager.increment_sequence_number` against both variants of `Producer.incr`
(decides which variant the code is), `retriable` flags of the error classes the property names.
Search: the Lean `holds*` functions are evaluated on the ground truth of EVERY trace (partition
log of the simulated cluster vs. acceptance order, base sequences and broker decisions).
"""
import json

from vlib import HarnessError
from checks import prod_common as P

USED_CODES = [0, 2, 3, 5, 6, 7, 10, 19, 20, 45, 46]
M31 = 2 ** 31


def variant_of_increment(ctx, env):
    """which `increment_sequence_number` does the code have?  -> True (Kafka rule) / False (as is)"""
    TP = env.structs.TopicPartition
    cases = []
    for c in [0, 1, 5, 1000, M31 - 400, M31 - 12, M31 - 3, M31 - 2, M31 - 1]:
        for n in [1, 2, 3, 11, 399, 1000]:
            cases.append((c, n))
    def real():
        out = []
        for c, n in cases:
            tm = env.txn.TransactionManager(None, 60000)
            tp = TP("t", 0)
            tm._sequence_numbers[tp] = c
            tm.increment_sequence_number(tp, n)
            out.append(str(tm.sequence_number(tp)))
        return out
    impl = P.in_loop(real)
    asis = ctx.driver("akdriver", [f"c01 incr F {c} {n}" for c, n in cases])
    fixd = ctx.driver("akdriver", [f"c01 incr T {c} {n}" for c, n in cases])
    for (c, n), i in zip(cases, impl):
        ctx.count(("incr", c, n), nontrivial=c + n >= M31)
    if impl == asis:
        return False, None
    if impl == fixd:
        return True, None
    k = next(i for i in range(len(cases)) if impl[i] != asis[i] and impl[i] != fixd[i]) \
        if any(impl[i] != asis[i] and impl[i] != fixd[i] for i in range(len(cases))) \
        else next(i for i in range(len(cases)) if impl[i] != asis[i])
    return None, {"counter": cases[k][0], "increment": cases[k][1], "impl": impl[k],
                  "as_is_model": asis[k], "kafka_rule_model": fixd[k]}


def check_retriable_flags(ctx, env):
    """every fault the property calls retriable is classified retriable by the code; the codes the
    traces can contain are classified as in the model"""
    bad = []
    lines = [f"c02 retriable {c}" for c in USED_CODES]
    model = ctx.driver("akdriver", lines)
    for c, m in zip(USED_CODES, model):
        impl = bool(env.errors.for_code(c).retriable)
        if (m == "true") != impl:
            bad.append({"code": c, "class": env.errors.for_code(c).__name__, "impl_retriable": impl,
                        "model_retriable": m == "true"})
    for name in ("KafkaConnectionError", "NodeNotReadyError", "RequestTimedOutError"):
        if not getattr(env.errors, name).retriable:
            bad.append({"class": name, "impl_retriable": False, "model_retriable": True})
    return bad


def only_retriable(sc):
    return all(not (f["kind"] == "error" and f.get("api") == "Produce" and f.get("code") not in P.RETRIABLE_CODES)
               for f in sc["faults"])


def leader_probe_scenario():
    """finding #10: an idempotent batch expires in drain_by_nodes while its leader is unknown"""
    return {"seed": 5, "nodes": 1, "parts": 1, "idem": True, "acks": -1, "linger_ms": 0, "batch_size": 16384,
            "compression": None, "request_timeout_ms": 1000, "retry_backoff_ms": 50, "produce_max": 7,
            "jitter": 0.0, "log_append": False, "seq0": {"0": 0}, "stop_at": None, "probe": "leader-unknown",
            "faults": [{"kind": "call", "api": "Produce", "nth": 1, "op": "leader_down", "tp": ["t", 0]},
                       {"kind": "error", "api": "Produce", "nth": 1, "code": 6}],
            "tasks": [[["send", 0, 0, 1600000000001], ["sleep", 20], ["send", 0, 0, 1600000000002],
                       ["sleep", 3000], ["restore", 0, 0], ["sleep", 500], ["send", 0, 0, 1600000000003],
                       ["sleep", 200]]]}


def placement_scenarios():
    """exhaustive placement of 0-2 faults over the first 10 Produce request ordinals of a fixed script
    (two partitions on two brokers, three batches each): idempotent, not idempotent, transactional (two
    transactions, the second aborted)"""
    kinds = [("drop_before", None), ("drop_after", None), ("lose_reply", None), ("error", 6), ("error", 7)]
    tasks = [[["send", 0, 0, 1600000000001], ["send", 1, 0, 1600000000002], ["sleep", 40],
              ["send", 0, 0, 1600000000003], ["send", 1, 0, 1600000000004], ["sleep", 40],
              ["send", 0, 0, 1600000000005], ["send", 1, 0, 1600000000006]],
             [["sleep", 20], ["send", 0, 0, 1600000000007], ["sleep", 60], ["send", 1, 0, 1600000000008]]]
    out = []
    ords = range(10)
    places = [[]] + [[(i, k)] for i in ords for k in kinds] + \
        [[(i, k1), (j, k2)] for i in ords for j in ords if i < j for k1 in kinds for k2 in kinds]
    txn_tasks = [t[:len(t) // 2] + [["round", "commit"]] + t[len(t) // 2:] for t in tasks]
    for mode in ("idem", "plain", "txn"):
        idem = mode != "plain"
        for pl in places:
            faults = []
            for nth, (kind, code) in pl:
                f = {"kind": kind, "api": "Produce", "nth": nth}
                if code is not None:
                    f["code"] = code
                faults.append(f)
            out.append({"seed": 11, "nodes": 2, "parts": 2, "idem": idem, "acks": -1 if idem else 1, "linger_ms": 0,
                        "batch_size": 16384, "compression": None, "request_timeout_ms": 1500, "retry_backoff_ms": 20,
                        "produce_max": 7, "jitter": 0.0, "log_append": False,
                        "seq0": {"0": 0, "1": 2**31 - 400} if idem else {}, "stop_at": None, "faults": faults,
                        "tasks": txn_tasks if mode == "txn" else tasks,
                        **({"txn": True, "last_end": "abort"} if mode == "txn" else {})})
    return out


def single_flight_overlap(obs, part):
    """the clause itself on the observation: two produce calls holding the partition overlap?"""
    open_call = None
    for e in obs.trace:
        if e["ev"] == "x_send" and any(b["tp"] == [P.TOPIC, part] for b in e["batches"]):
            if open_call is not None:
                return f"call {e['call']} issued while call {open_call} is unresolved"
            open_call = e["call"]
        elif e["ev"] == "x_done" and e["call"] == open_call:
            open_call = None
    return None


def run(ctx):
    ctx.coverage["trusted_base"] = [
        "Lean 4.33.0 kernel; axioms propext, Classical.choice, Quot.sound only",
        "Env: Kafka's idempotent append (sequence check, five-batch duplicate window) as transcribed in "
        "Model/Producer.lean `Broker`; the simulator's decisions are re-derived by it on every trace and the "
        "derived log is compared with the simulator's log",
        "a request is applied by the broker between its transmission and the moment the client observes "
        "reply / drop / timeout, never later (no ghost application)",
        "harness/sim (simulated cluster, virtual time), harness/checks/prod_common.py (observation points: "
        "instance wrapper of client.send, future callbacks), projection onto one partition, line protocol, driver",
        "between two observed events the code is covered by the traces only (T-trace)",
    ]
    ctx.assumptions += [
        "c01_seq_range / c01_no_gap are proved for the Kafka-rule variant of increment_sequence_number and, for the "
        "code as it is, under 'seq0 + accepted records < 2^31' (…_partial; finding c01:seq-wrap-negative)",
        "c01_no_gap_partial assumes no batch is given up while waiting for a retry / before its first transmission "
        "(drain_by_nodes expiry with unknown leader; finding c01:expiry-leader-unknown-gap)",
        "progress is not part of C01's statement; c01_progress_partial shows on the model that one quiet round from a "
        "quiescent idle state is accepted and puts the whole queue into the log (idempotent: under the provisos of "
        "broker_ready); runs that do not finish are reported by C02",
        "the Env rule for DUPLICATE_SEQUENCE_NUMBER ('last sequence below the oldest cached base') is not wrap-aware: "
        "runs with non-retriable faults (which leave sequence gaps) do not start near 2^31",
        "c01_no_gap speaks of refusals; a reused sequence that hits the duplicate cache of another batch is rejected by "
        "the acceptor itself (guard sequence-reused, a ghost comparison of record ids)",
        "random fault schedules never leave a partition without a leader (leader changes go to live nodes), so that "
        "the expiry path of finding #10 is exercised only by its dedicated probe",
        "acks=0 is outside C01's quantifier (no reply, no retry); it is exercised by C02",
        "a transactional producer is modelled as an idempotent producer whose sequence numbers continue across its "
        "transactions; AddPartitionsToTxn / EndTxn / FindCoordinator are environment (C07/C16), their only trace in a "
        "partition history is the coordinator's marker, which takes one offset of the log (Ev.marker); whether "
        "aborted records are visible is not C01's matter",
    ]
    proved = ctx.prove(drivers=["akdriver"])
    env = P.Env(ctx.repo)

    # ---------------------------------------------------------------- T-diff: sequence arithmetic
    wrap_fix, neither = variant_of_increment(ctx, env)
    ctx.coverage["increment_variant"] = {True: "kafka-rule", False: "as-is (32-bit signed wrap)", None: "neither"}[wrap_fix]
    if wrap_fix is None:
        ctx.broken.append({"kind": "correspondence", "tie": "T-diff increment_sequence_number", "first": neither})
        ctx.violation("c01:increment-sequence-number",
                      f"increment_sequence_number({neither['counter']}, {neither['increment']}) = {neither['impl']}: neither "
                      f"Kafka's rule ({neither['kafka_rule_model']}) nor the known 32-bit wrap ({neither['as_is_model']})",
                      {"cases": [], "increment": neither})
        wrap_fix = False
    bad_flags = check_retriable_flags(ctx, env)
    if bad_flags:
        ctx.broken.append({"kind": "correspondence", "tie": "retriable flags of errors.py", "first": bad_flags[0]})
        ctx.violation("c01:retriable-flag:" + str(bad_flags[0].get("code", bad_flags[0].get("class"))),
                      f"error classification differs from the property's list of retriable faults: {bad_flags[0]}",
                      {"cases": [], "flags": bad_flags})

    # ---------------------------------------------------------------- scenarios
    if ctx.replay_cases is not None:
        scenarios = [c for c in ctx.replay_cases if isinstance(c, dict) and "tasks" in c]
    else:
        rng = ctx.rng("scenarios")
        n = 18000 if ctx.thorough else 900
        scenarios = [leader_probe_scenario()]
        if ctx.thorough:
            pl = placement_scenarios()
            ctx.coverage["exhaustive_fault_placements"] = len(pl)
            scenarios += pl
        for i in range(n):
            kind = ("idem", "plain", "txn", "mixed", "migrate", "idem", "txn", "clean", "migrate")[i % 9]
            sc = P.gen_scenario(rng, i, kind=kind, big=(i % 7 == 0))
            if sc["acks"] == 0:
                sc["acks"] = 1
            scenarios.append(sc)
    if ctx.thorough and ctx.replay_cases is None:
        results = run_parallel(ctx, scenarios, wrap_fix)
    else:
        results = [evaluate(env, sc, wrap_fix) for sc in scenarios]

    # ---------------------------------------------------------------- Lean acceptor + holds
    lines = []
    for r in results:
        for pr in r["parts"]:
            lines.append(pr["line"])
            lines.append(pr["holds_log"])
            lines.append(pr["holds_seq"])
    out = ctx.driver("akdriver", lines) if lines else []
    hist = {"accepted": 0, "rejected-client": 0, "rejected-env": 0}
    stats = {"events": 0, "sends": 0, "retransmissions": 0, "records": 0, "broker_errors": {}, "broker_decisions": {},
             "faults_fired": {}, "outcomes": {}, "configs": {}}
    k = 0
    mism = []
    for r in results:
        sc = r["sc"]
        stats["outcomes"][r["outcome"]] = stats["outcomes"].get(r["outcome"], 0) + 1
        for kk, vv in r["faults_fired"].items():
            stats["faults_fired"][kk] = stats["faults_fired"].get(kk, 0) + vv
        ck = ("transactional" if sc.get("txn") else "idempotent" if sc["idem"] else f"acks={sc['acks']}") + \
            (" stop-midway" if sc["stop_at"] is not None else "")
        stats["configs"][ck] = stats["configs"].get(ck, 0) + 1
        # a run that does not finish (SimTimeout) is C02's liveness clause; C01 states safety only and is
        # evaluated on whatever the run showed
        for pr in r["parts"]:
            res, hl, hs = out[k], out[k + 1], out[k + 2]
            k += 3
            nontriv = pr["retries"] >= 1 and pr["sends"] >= 3
            ctx.count(pr["line"], nontrivial=nontriv)
            stats["events"] += pr["events"]; stats["sends"] += pr["sends"]
            stats["retransmissions"] += pr["retries"]; stats["records"] += pr["nacc"]
            for c in pr["codes"]:
                stats["broker_errors"][str(c)] = stats["broker_errors"].get(str(c), 0) + 1
            for kk, vv in pr["decisions"].items():
                stats["broker_decisions"][kk] = stats["broker_decisions"].get(kk, 0) + vv
            ctx.coverage["traces_validated_against_impl"] += 1
            if len(ctx.coverage["samples"]) < 4 and nontriv:
                ctx.sample({"scenario": P.describe(sc), "partition": pr["part"], "line": pr["line"][:400], "model": res[:200]})
            probe = sc.get("probe")
            # --- the property itself on the ground truth
            wrap_reachable = sc["idem"] and (sc["seq0"].get(str(pr["part"]), 0) + pr["nacc"] >= M31)
            if hl != "true":
                ctx.violation("c01:log-order-loss-duplication",
                              f"partition log violates the order / at-most-once / acknowledged-once clause: log ids "
                              f"{pr['log_ids'][:60]} accepted 0..{pr['nacc'] - 1} acked {pr['acked'][:60]}",
                              {"cases": [sc], "partition": pr["part"], "log": pr["log_ids"], "batches": pr["batches"],
                               "acked": pr["acked"], "nacc": pr["nacc"], "holds": pr["holds_log"][:300]})
            if sc["idem"] and only_retriable(sc) and hs != "true":
                if probe == "leader-unknown" and not pr["wrap_seen"]:
                    ctx.violation("c01:expiry-leader-unknown-gap",
                                  "idempotent batch expired while its leader was unknown; next batch leaves a sequence gap",
                                  {"cases": [sc], "seqs": pr["seqs"], "codes": pr["codes"]})
                elif (not wrap_fix) and wrap_reachable and pr["wrap_seen"]:
                    ctx.violation("c01:seq-wrap-negative", "sequence counter passed 2^31-1 and went negative",
                                  {"cases": [sc], "seqs": pr["seqs"], "codes": pr["codes"]})
                else:
                    ctx.violation("c01:sequence-rule",
                                  f"under retriable faults only the producer sent base sequences {pr['seqs'][:12]} and the broker "
                                  f"answered {pr['codes'][:12]} (gap / reuse / out of range)",
                                  {"cases": [sc], "partition": pr["part"], "seqs": pr["seqs"], "codes": pr["codes"]})
            if pr["overlap"]:
                ctx.violation("c01:two-batches-in-flight", f"partition {pr['part']}: {pr['overlap']}",
                              {"cases": [sc], "partition": pr["part"]})
            # --- the tie
            if res.startswith("ok "):
                hist["accepted"] += 1
                mlog = res.split(" ")[1][4:]
                if mlog != pr["truth"]:
                    mism.append({"kind": "log", "sc": sc, "part": pr["part"], "model": mlog[:300], "sim": pr["truth"][:300]})
            elif res.startswith("rej "):
                _, idx, why = res.split(" ")
                kind = "rejected-client" if why.startswith("client:") else "rejected-env"
                hist[kind] += 1
                evs = pr["line"].split(" ")[7].split(";")
                i = int(idx)
                mism.append({"kind": why, "sc": sc, "part": pr["part"], "at": i, "events": evs[max(0, i - 6): i + 1]})
            else:
                raise HarnessError(f"driver answered {res!r} to {pr['line'][:200]}")
    ctx.coverage["acceptor"] = hist
    ctx.coverage["trace_stats"] = stats
    ctx.coverage["rule"] = (
        "one case = the history of one partition in one simulator run of the real producer: 1-4 concurrent send tasks x "
        "1-3 partitions x 1-3 brokers, batch size 120..16384, linger 0..10 ms, gzip or none, idempotent (acks=all), "
        "transactional (2-4 transactions per run, committed or aborted, writing to the same partitions; retriable "
        "faults also at AddPartitionsToTxn / EndTxn) or not idempotent (acks 1/all); 'migrate' runs: leader changes "
        "issued by the workload while replies are delayed 0.2-0.9 s and metadata_max_age_ms is 30-300; Produce v0..v8, sequence counters starting at 0 / anywhere / just below 2^31 / wrapping; "
        "faults at the n-th Produce/Metadata request: connection dropped before / after apply, reply lost (request "
        "timeout), NOT_LEADER / LEADER_NOT_AVAILABLE / UNKNOWN_TOPIC_OR_PARTITION / REQUEST_TIMED_OUT / "
        "NOT_ENOUGH_REPLICAS(_AFTER_APPEND) replies (a few with non-retriable codes), delayed replies, leader migration "
        "with stale metadata; stop() at a random time in a quarter of the runs.  non-trivial = >= 1 retransmission and "
        ">= 3 produce requests for the partition; distinct by the full event line")
    # ---------------------------------------------------------------- outcome of the tie
    if mism:
        client = [m for m in mism if str(m["kind"]).startswith("client:")]
        other = [m for m in mism if not str(m["kind"]).startswith("client:")]
        if client:
            m = client[0]
            ctx.broken.append({"kind": "correspondence", "tie": "T-trace producer vs AkVerif.Producer acceptor",
                               "rejected": len(client), "first": {k: v for k, v in m.items() if k != "sc"}})
            # the guard that failed names the mechanism; the failing history is the replay
            ctx.violation("c01:mechanism:" + m["kind"].split(":", 1)[1],
                          f"history of partition {m['part']} is not one the modelled mechanisms can produce: guard "
                          f"'{m['kind']}' failed at event {m['at']} {m['events'][-1]!r} (preceding: {m['events'][:-1]})",
                          {"cases": [m["sc"]], "partition": m["part"], "guard": m["kind"], "at": m["at"], "events": m["events"]})
        if other and not ctx.violations:
            m = other[0]
            raise HarnessError("simulated broker and Env model disagree (harness trouble, not a finding): "
                               + json.dumps({k: v for k, v in m.items() if k != "sc"})[:600]
                               + " scenario " + json.dumps(m["sc"])[:1500])
    if not proved:
        return


def evaluate(env, sc, wrap_fix):
    """run one scenario, project every partition; returns plain data (picklable)"""
    obs = P.run_scenario(env, sc)
    parts = []
    for part in range(sc["parts"]):
        line, ids, summ = P.project(obs, part, wrap_fix)
        nacc = len(ids)
        log_ids = [ids.get(u, P.BIG) for _o, u, _ts, _tt in obs.logs[part]]
        acked = [ids[u] for u, r in obs.results.items() if u in ids and r[0] == "O"]
        batches = [[ids.get(u, P.BIG) for u in b["uids"]] for b in obs.log_batches[part]]
        if sc["idem"]:
            hl = f"c01 holdsIdem {nacc} {fmt(log_ids)} {fmt(acked)}"
        else:
            hl = f"c01 holdsPlain {nacc} " + ("|".join(fmt(b) for b in batches) or "-") + f" {fmt(acked)}"
        hs = f"c01 holdsSeq {fmt(summ['seqs'])} {fmt(summ['codes'])}"
        parts.append({"part": part, "line": line, "holds_log": hl, "holds_seq": hs, "truth": P.truth_log(obs, part, ids),
                      "nacc": nacc, "log_ids": log_ids, "acked": acked, "batches": batches, "seqs": summ["seqs"],
                      "codes": summ["codes"], "events": summ["events"], "sends": summ["sends"], "retries": summ["retries"],
                      "wrap_seen": any(q < 0 for q in summ["seqs"]), "decisions": summ["decisions"],
                      "overlap": single_flight_overlap(obs, part) if sc["acks"] != 0 else None})
    fired = {}
    for e in obs.trace:
        if e["ev"] == "fault":
            kk = e["kind"] + (f":{e['code']}" if e.get("code") is not None else "") + ("" if e.get("api") == "Produce" else f"@{e.get('api')}")
            fired[kk] = fired.get(kk, 0) + 1
        elif e["ev"] == "env":
            fired["env:" + e["op"]] = fired.get("env:" + e["op"], 0) + 1
    return {"sc": sc, "outcome": obs.outcome, "where": obs.where, "parts": parts, "faults_fired": fired}


def fmt(xs):
    return ",".join(map(str, xs)) if xs else "-"


_ENV = None


def _worker(args):
    global _ENV
    repo, chunk, wrap_fix = args
    if _ENV is None:
        _ENV = P.Env(repo)
    return [evaluate(_ENV, sc, wrap_fix) for sc in chunk]


def run_parallel(ctx, scenarios, wrap_fix):
    import multiprocessing as mp
    chunks = [scenarios[i:i + 50] for i in range(0, len(scenarios), 50)]
    with mp.get_context("fork").Pool(min(14, len(chunks))) as pool:
        res = pool.map(_worker, [(str(ctx.repo), c, wrap_fix) for c in chunks])
    return [r for chunk in res for r in chunk]
