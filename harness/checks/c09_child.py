"""C09 worker: runs the record codec of the aiokafka on PYTHONPATH on a list of jobs.

usage: c09_child.py <jobs.json> <results.json> <expect: py|cy> <root the package must come from>

The parent starts it twice per phase: once with AIOKAFKA_NO_EXTENSIONS=1 (pure Python codec) and once
with PYTHONPATH pointing at a scratch copy whose extensions were rebuilt from the .pyx of the tree
under test.  Compression calls are recorded (input, output) so that the Lean models can use the very
same function values as their codec parameter.  Everything is hex / ints / None in JSON.
"""
import json
import sys


def main():
    jobs_path, out_path, expect, root = sys.argv[1:5]
    import gzip

    class _T:
        @staticmethod
        def time():
            return 0.0
    gzip.time = _T          # deterministic gzip headers (mtime)

    import aiokafka.codec as codec
    calls = []

    import aiokafka.record.default_records as dr0
    import aiokafka.record.legacy_records as lr0
    holders = [codec, dr0, lr0] + [m for n, m in list(sys.modules.items())
                                   if n in ("aiokafka.record._crecords.default_records",
                                            "aiokafka.record._crecords.legacy_records") and m is not None]

    def wrap(name):
        f = getattr(codec, name)

        def g(payload, *a, **k):
            data = bytes(payload)
            out = f(payload, *a, **k)
            calls.append((name, data.hex(), bytes(out).hex()))
            return out
        # `aiokafka/__init__` has already imported the record modules: rebind the name everywhere it was from-imported
        for h in holders:
            if hasattr(h, name):
                setattr(h, name, g)

    for n in ("gzip_encode", "snappy_encode", "lz4_encode", "zstd_encode",
              "gzip_decode", "snappy_decode", "lz4_decode", "zstd_decode"):
        wrap(n)

    import aiokafka.record.default_records as dr
    import aiokafka.record.legacy_records as lr
    import aiokafka.record.memory_records as mr
    import aiokafka.record.util as ut
    import aiokafka.util as au

    def origin(obj):
        mod = sys.modules[obj.__module__]
        return getattr(mod, "__file__", "") or ""

    info = {
        "no_extensions": bool(au.NO_EXTENSIONS),
        "builder_v2": dr.DefaultRecordBatchBuilder.__module__ + "." + dr.DefaultRecordBatchBuilder.__name__,
        "batch_v2": dr.DefaultRecordBatch.__module__, "legacy_builder": lr.LegacyRecordBatchBuilder.__module__,
        "legacy_batch": lr.LegacyRecordBatch.__module__, "memory": mr.MemoryRecords.__module__,
        "varint": getattr(ut.encode_varint, "__module__", "") + "." + getattr(ut.encode_varint, "__name__", ""),
        "files": sorted({origin(dr.DefaultRecordBatchBuilder), origin(dr.DefaultRecordBatch),
                         origin(lr.LegacyRecordBatchBuilder), origin(lr.LegacyRecordBatch),
                         origin(mr.MemoryRecords), dr.__file__}),
        "codecs": {"gzip": codec.has_gzip(), "snappy": codec.has_snappy(), "lz4": codec.has_lz4(),
                   "zstd": codec.has_zstd()},
    }
    is_cy = "_crecords" in info["builder_v2"] and "_crecords" in info["memory"] and "_crecords" in info["varint"] \
        and "_crecords" in info["legacy_builder"] and "_crecords" in info["batch_v2"] and "_crecords" in info["legacy_batch"]
    is_py = all("_crecords" not in info[k] for k in
                ("builder_v2", "batch_v2", "legacy_builder", "legacy_batch", "memory", "varint"))
    info["impl"] = "cy" if is_cy else "py" if is_py else "mixed"
    info["root_ok"] = all(f.startswith(root) for f in info["files"])

    def ob(x):
        return None if x is None else bytes.fromhex(x)

    def hx(x):
        return None if x is None else bytes(x).hex()

    def hdrs_in(hs):
        return [(k, ob(v)) for k, v in hs]

    def hdrs_out(hs):
        return [[k.encode("utf-8").hex(), hx(v)] for k, v in hs]

    def guarded(f):
        try:
            return f()
        except BaseException as e:  # noqa
            return {"exc": type(e).__name__, "msg": str(e)[:200]}

    def v2build(j):
        b = dr.DefaultRecordBatchBuilder(2, j["codec"], j["txn"], j["pid"], j["epoch"], j["seq"], j["batch_size"])
        trace = []
        for off, ts, k, v, hs in j["records"]:
            k, v, hs = ob(k), ob(v), hdrs_in(hs)
            sib = b.size_in_bytes(off, ts, k, v, hs)
            m = b.append(off, ts, k, v, hs)
            trace.append([sib, None if m is None else [m.offset, m.size, m.timestamp], b.size()])
        del calls[:]
        if j.get("set_state"):
            b.set_producer_state(*j["set_state"])
        out = bytes(b.build())
        return {"trace": trace, "bytes": out.hex(), "size": b.size(), "calls": list(calls),
                "pid": [b.producer_id, b.producer_epoch, b.base_sequence]}

    def sizeof(j):
        B = dr.DefaultRecordBatchBuilder
        k, v, hs = ob(j["key"]), ob(j["value"]), hdrs_in(j["headers"])
        return {"size_of": B.size_of(k, v, hs), "estimate": B.estimate_size_in_bytes(k, v, hs)}

    def read_v2_batch(batch):
        del calls[:]
        crc_ok = batch.validate_crc()
        hdr = {n: getattr(batch, n) for n in (
            "base_offset", "magic", "crc", "attributes", "last_offset_delta", "first_timestamp",
            "max_timestamp", "producer_id", "producer_epoch", "base_sequence", "next_offset",
            "compression_type", "timestamp_type", "is_transactional", "is_control_batch")}
        recs = []
        res = {"hdr": hdr, "crc_ok": bool(crc_ok)}
        try:
            for r in batch:
                recs.append([r.offset, r.timestamp, r.timestamp_type, hx(r.key), hx(r.value),
                             hdrs_out(r.headers), r.checksum])
            res["records"] = recs
        except BaseException as e:  # noqa
            res["exc"] = type(e).__name__
            res["partial"] = len(recs)
        res["calls"] = list(calls)
        return res

    def v2read(j):
        return read_v2_batch(dr.DefaultRecordBatch(bytes.fromhex(j["bytes"])))

    def lbuild(j):
        b = lr.LegacyRecordBatchBuilder(j["magic"], j["codec"], j["batch_size"])
        trace = []
        for off, ts, k, v in j["records"]:
            k, v = ob(k), ob(v)
            sib = b.size_in_bytes(off, ts, k, v)
            m = b.append(off, ts, k, v)
            trace.append([sib, None if m is None else [m.offset, m.crc, m.size, m.timestamp], b.size()])
        del calls[:]
        out = bytes(b.build())
        return {"trace": trace, "bytes": out.hex(), "size": b.size(), "calls": list(calls)}

    def read_legacy_batch(batch):
        del calls[:]
        res = {"crc_ok": bool(batch.validate_crc()), "next_offset": batch.next_offset}
        recs = []
        try:
            for r in batch:
                recs.append([r.offset, r.timestamp, r.timestamp_type, hx(r.key), hx(r.value), r.checksum,
                             list(r.headers)])
            res["records"] = recs
        except BaseException as e:  # noqa
            res["exc"] = type(e).__name__
            res["partial"] = len(recs)
        res["calls"] = list(calls)
        return res

    def lread(j):
        return read_legacy_batch(lr.LegacyRecordBatch(bytes.fromhex(j["bytes"]), j["magic"]))

    def split(j):
        """MemoryRecords over a buffer and over its tail truncations"""
        data = bytes.fromhex(j["bytes"])
        out = []
        for cut in j["cuts"]:           # cut = number of bytes kept
            buf = data[:cut]
            batches = []
            status = "done"
            try:
                m = mr.MemoryRecords(buf)
                sz = m.size_in_bytes()
                n = 0
                while m.has_next():
                    b = m.next_batch()
                    n += 1
                    if n > 1000:
                        status = "runaway"
                        break
                    if b is None:
                        status = "none-batch"
                        break
                    kind = type(b).__name__
                    if j.get("decode") and cut == len(data):
                        d = guarded(lambda: read_v2_batch(b) if "Default" in kind else read_legacy_batch(b))
                    else:
                        d = None
                    if "Default" in kind:
                        batches.append(["v2", b.magic, b.base_offset, d])
                    else:
                        batches.append(["legacy", None, b.next_offset - 1, d])
                if m.next_batch() is not None and status == "done":
                    status = "extra-batch"
            except BaseException as e:  # noqa
                status = "exc:" + type(e).__name__
                sz = len(buf)
            out.append({"cut": cut, "status": status, "batches": batches, "size_in_bytes": sz})
        return out

    def varint(j):
        enc = []
        for v in j["values"]:
            buf = bytearray()
            r = guarded(lambda: ut.encode_varint(v, buf.append))
            if isinstance(r, dict):
                enc.append(r)
            else:
                enc.append({"bytes": bytes(buf).hex(), "size": guarded(lambda: ut.size_of_varint(v))})
        dec = []
        for h in j["decode"]:
            r = guarded(lambda: ut.decode_varint(bytearray.fromhex(h), 0))
            dec.append(r if isinstance(r, dict) else [r[0], r[1]])
        return {"enc": enc, "dec": dec}

    def crc(j):
        import binascii
        return {"crc32c": [ut.calc_crc32c(bytes.fromhex(h)) for h in j["data"]],
                "crc32": [binascii.crc32(bytes.fromhex(h)) for h in j["data"]]}

    ops = {"v2build": v2build, "v2read": v2read, "lbuild": lbuild, "lread": lread, "split": split,
           "varint": varint, "crc": crc, "sizeof": sizeof}
    jobs = json.load(open(jobs_path))
    results = []
    for j in jobs:
        results.append(guarded(lambda: ops[j["op"]](j)))
    json.dump({"info": info, "results": results}, open(out_path, "w"))
    if info["impl"] != expect or not info["root_ok"]:
        sys.exit(3)


if __name__ == "__main__":
    main()
