"""Shared machinery of the transactional checks C07 / C16.

* `TxnEnv(repo)` imports the code under test (purging `sys.modules`) and the simulator.
* `run_api_case(env, calls, fault, seed)` drives the real transactional `AIOKafkaProducer` through a
  sequence of API calls against `SimCluster`, letting the system become quiescent (virtual sleep)
  after every call, with at most one injected fault, and returns the canonical observation text
  that the Lean API automaton (`AkVerif.Txn`, driver token `c16 run`) prints for the same case.
* canonicalisation rules: exceptions -> result classes, reply codes / faults -> request classes.

Calls (tokens):  b begin_transaction · s0 / s1 send to partition 0 / 1 · o send_offsets_to_transaction
                 (offsets map of 1, 2 or 3 partitions over two topics, all with the same offset)
                 k create_batch() (kept for a later t0/t1) · t0 / t1 send_batch of one record to partition
                 0 / 1, using the oldest batch made by k, else a fresh one (for the automaton: k = no
                 effect, t0/t1 = s0/s1; a Produce without the transactional flag is rendered PN…, never PR…)
                 c commit_transaction · a abort_transaction · x transaction() context exit without
                 exception · e context exit with an exception · r kill the producer and start a new
                 instance with the same transactional id
Faults (token `api:nth:kind`): api in AP AO OC ET PR (AddPartitionsToTxn, AddOffsetsToTxn,
                 TxnOffsetCommit, EndTxn, Produce), nth = 0-based ordinal among the requests of that
                 API, kind in retr (answered with a retriable code or connection dropped before the
                 request is applied), lost (applied, reply lost: connection dropped or request timeout),
                 abrt (authorization error), fatal (fencing / invalid txn state / txn-id authorization)
"""
import asyncio
import importlib
import logging
import sys

TOPIC = "t"
TOPIC2 = "u"             # second topic: only its partition 0 appears in offsets maps
GROUP = "g"
TXID = "tx"
SETTLE = 20.0            # virtual seconds between calls: > request timeout + back-offs
REQUEST_TIMEOUT_MS = 3000

API_TOK = {"AP": "AddPartitionsToTxn", "AO": "AddOffsetsToTxn", "OC": "TxnOffsetCommit",
           "ET": "EndTxn", "PR": "Produce"}
TOK_API = {v: k for k, v in API_TOK.items()}

# reply code -> class, per API (the handlers of sender.py)
RETRIABLE = {
    "AP": [14, 15, 16, 51, 3],
    "AO": [14, 15, 16, 51],
    "OC": [14, 15, 16, 7, 3],
    "ET": [14, 15, 16, 51],
    "PR": [6, 7, 5, 3, 19],
}
ABORTABLE = {"AP": [29], "AO": [30], "OC": [30]}
FATAL = {"AP": [47, 49, 48, 53], "AO": [47, 48, 53], "OC": [47, 53], "ET": [47, 48, 53],
         "PR": [45, 47]}      # at a Produce: sequence violation / fencing (fails the batch only, see C16)


def offsets_map(TP, size, off):
    """the offsets map of the n-th send_offsets call: 1, 2 or 3 partitions, two topics, one offset value;
    (TOPIC, 2) is always part of it (the automaton follows that one)"""
    keys = [TP(TOPIC, 2), TP(TOPIC2, 0), TP(TOPIC, 1)][:size]
    return {k: off for k in keys}


def applicable(api, kind):
    if kind in ("retr", "lost"):
        return True
    if kind == "abrt":
        return api in ABORTABLE
    if kind == "fatal":
        return api in FATAL
    return False


class TxnEnv:
    def __init__(self, repo):
        sys.path.insert(0, str(repo))
        for m in [m for m in sys.modules if m.startswith("aiokafka") or m == "sim" or m.startswith("sim.")]:
            del sys.modules[m]
        logging.disable(logging.CRITICAL)
        self.aiokafka = importlib.import_module("aiokafka")
        if not str(self.aiokafka.__file__).startswith(str(repo)):
            raise RuntimeError(f"aiokafka imported from {self.aiokafka.__file__}, not {repo}")
        self.errors = importlib.import_module("aiokafka.errors")
        self.structs = importlib.import_module("aiokafka.structs")
        self.tm = importlib.import_module("aiokafka.producer.transaction_manager")
        self.producer_mod = importlib.import_module("aiokafka.producer.producer")
        self.sim = importlib.import_module("sim")

    # ---- exception -> result class
    def classify(self, exc):
        E = self.errors
        if exc is None:
            return "ok"
        if isinstance(exc, (AssertionError, E.IllegalOperation)):
            return "refused"
        if isinstance(exc, (E.TopicAuthorizationFailedError, E.GroupAuthorizationFailedError)):
            return "abrt"
        if isinstance(exc, asyncio.CancelledError):
            return "cancelled"
        if isinstance(exc, E.KafkaError):
            return "fatal"
        return "other:" + type(exc).__name__

    def code_class(self, api, code):
        if code == 0:
            return "ok"
        if code in RETRIABLE.get(api, ()):
            return "retr"
        if code in ABORTABLE.get(api, ()):
            return "abrt"
        return "fatal"


def choose_fault(fault, rng):
    """fault = (api_tok, nth, kind) -> how it is realised: 'code<N>' | drop_before | drop_after | lose_reply"""
    api, _nth, kind = fault
    if kind == "retr":
        ch = rng.randrange(len(RETRIABLE[api]) + 1)
        return "drop_before" if ch == len(RETRIABLE[api]) else f"code{RETRIABLE[api][ch]}"
    if kind == "lost":
        return rng.choice(["drop_after", "lose_reply"])
    if kind == "abrt":
        return f"code{rng.choice(ABORTABLE[api])}"
    if kind == "fatal":
        return f"code{rng.choice(FATAL[api])}"
    raise ValueError(kind)


def make_fault(env, fault, what):
    api, nth, _kind = fault
    F = env.sim.Fault
    name = API_TOK[api]
    if what.startswith("code"):
        return F("error", api=name, nth=nth, code=int(what[4:]))
    return F(what, api=name, nth=nth)


async def kill_producer(p):
    """the process dies: no flush, no EndTxn; tasks cancelled, sockets closed"""
    p._closed = True
    st = p._sender.sender_task
    if st is not None and not st.done():
        st.cancel()
        try:
            await asyncio.wait([st], timeout=30)
        except Exception:  # noqa
            pass
    try:
        await asyncio.wait_for(p.client.close(), 30)
    except Exception:  # noqa
        pass


def canon_requests(env, trace, clients):
    """the transactional requests + Produce seen by the brokers, in arrival order, with how each ended"""
    out = []
    pend = {}          # (client, conn, corr) -> index in out
    first = sorted(clients)[0] if clients else None
    for e in trace:
        ev = e["ev"]
        if ev == "reply" and e["api"] == "InitProducerId" and e["client"] in clients and e["client"] != first:
            if (e.get("fields") or {}).get("error_code") == 0 and not e.get("fault"):
                out.append(["IN", "IN", "ok", None])
            continue
        if ev == "api":
            out.append(["CALL", "CALL", str(e["i"]), None])
            continue
        if ev == "request" and e["api"] in TOK_API and e["client"] in clients:
            api = TOK_API[e["api"]]
            f = e["fields"]
            if api == "AP":
                ps = sorted(p for t in f["topics"] for p in t["partitions"])
                head = "AP" + "+".join(map(str, ps))
            elif api == "AO":
                head = "AO"
            elif api == "OC":
                offs = sorted({pp["offset"] for t in f["topics"] for pp in t["partitions"]})
                head = "OC" + "+".join(map(str, offs))
            elif api == "ET":
                head = "ET" + ("c" if f["transaction_result"] else "a")
            else:
                # one entry per partition of the Produce request: each partition is answered on its own
                idxs = []
                for pp in sorted(f["partitions"], key=lambda pp: pp["partition"]):
                    idxs.append(len(out))
                    # PR = carries the transactional flag, PN = a plain (idempotent only) batch
                    out.append([api, ("PR" if pp["is_txn"] else "PN") + f"{pp['partition']}." +
                                "+".join(r for r in pp["records"]), "noreply", pp["partition"]])
                pend[(e["client"], e["conn"], e["corr"])] = idxs
                continue
            pend[(e["client"], e["conn"], e["corr"])] = [len(out)]
            out.append([api, head, "noreply", None])
        elif ev == "reply" and e["api"] in TOK_API and e["client"] in clients:
            idxs = pend.pop((e["client"], e["conn"], e["corr"]), None)
            if idxs is None:
                continue
            api = out[idxs[0]][0]
            if e.get("fault") in ("drop_after", "lose_reply"):
                for i in idxs:
                    out[i][2] = "lost"
                continue
            f = e.get("fields") or {}
            if api == "PR":
                by_part = {pp["partition"]: pp["error"] for pp in f["partitions"]}
                for i in idxs:
                    c = by_part.get(out[i][3], 0)
                    out[i][2] = env.code_class(api, c) if c else "ok"
                continue
            if api in ("AP", "OC"):
                codes = [pe["error_code"] for t in f["errors"] for pe in t["partition_errors"]]
            else:
                codes = [f["error_code"]]
            bad = [c for c in codes if c != 0 and c != 55]
            out[idxs[0]][2] = env.code_class(api, bad[0]) if bad else "ok"
        elif ev == "fault" and e.get("kind") == "drop_before" and e.get("api") in TOK_API and e.get("client") in clients:
            idxs = pend.pop((e["client"], e["conn"], e["corr"]), None)
            for i in idxs or []:
                out[i][2] = "retr"
    return [f"{x[1]}:{x[2]}" for x in out]


def split_by_call(reqs):
    """reqs with CALL:i markers -> (plain request list, {call index: [requests sent during that call]})"""
    plain, per, cur = [], {}, None
    for r in reqs:
        if r.startswith("CALL:"):
            cur = int(r[5:])
            per[cur] = []
        else:
            plain.append(r)
            if cur is not None:
                per[cur].append(r)
    return plain, per


def rc_view(cluster, part):
    """what a read-committed reader sees / what is still undecided, as record payload strings"""
    log = cluster.log((TOPIC, part))
    vis = [v.decode("latin-1") for (_o, _k, v, _t, _h) in cluster.read_committed((TOPIC, part))]
    allr = [v.decode("latin-1") for (_o, _k, v, _t, _h) in cluster.read_uncommitted((TOPIC, part))]
    lso = log.lso()
    opn = [v.decode("latin-1") for (o, _k, v, _t, _h) in cluster.read_uncommitted((TOPIC, part)) if o >= lso]
    return vis, opn, allr


async def api_case(env, cluster, calls, record, ovar=0):
    """run the call sequence; `record` collects results / futures"""
    AIOKafkaProducer = env.aiokafka.AIOKafkaProducer
    TP = env.structs.TopicPartition
    now_ms = env.sim.now_ms
    inc = 0
    clients = ["p0"]

    async def start():
        p = AIOKafkaProducer(bootstrap_servers="b0:9092", client_id=clients[-1], transactional_id=TXID,
                             request_timeout_ms=REQUEST_TIMEOUT_MS)
        await p.start()
        return p

    p = await start()
    nrec = 0
    noff = 0
    nocall = 0
    pool = []            # batch builders made by `k`, oldest first (they survive restarts of the producer: plain objects)
    futs = {}

    def watch(rid, fut):
        def cb(f):
            if f.cancelled():
                futs[rid] = "cancelled"
            else:
                futs[rid] = env.classify(f.exception())
        fut.add_done_callback(cb)

    try:
        for ci, call in enumerate(calls):
            exc = None
            cluster._ev("api", i=ci, call=call)
            try:
                if call == "b":
                    await p.begin_transaction()
                elif call in ("s0", "s1"):
                    rid = nrec
                    nrec += 1
                    try:
                        fut = await p.send(TOPIC, b"r%d" % rid, partition=int(call[1]), timestamp_ms=now_ms())
                    except BaseException:
                        nrec -= 1
                        raise
                    futs[rid] = "pending"
                    watch(rid, fut)
                elif call == "k":
                    pool.append(p.create_batch())
                elif call in ("t0", "t1"):
                    rid = nrec
                    nrec += 1
                    builder = pool.pop(0) if pool else p.create_batch()
                    if builder.append(key=None, value=b"r%d" % rid, timestamp=now_ms()) is None:
                        raise RuntimeError("harness: batch builder refused one small record")
                    try:
                        fut = await p.send_batch(builder, TOPIC, partition=int(call[1]))
                    except BaseException:
                        nrec -= 1
                        raise
                    futs[rid] = "pending"
                    watch(rid, fut)
                elif call == "o":
                    off = 100 + noff
                    size = 1 + (ovar + nocall) % 3
                    nocall += 1
                    noff += 1
                    try:
                        await p.send_offsets_to_transaction(offsets_map(TP, size, off), GROUP)
                    except (AssertionError, env.errors.IllegalOperation):
                        noff -= 1
                        raise
                elif call == "c":
                    await p.commit_transaction()
                elif call == "a":
                    await p.abort_transaction()
                elif call == "x":
                    await p.transaction().__aexit__(None, None, None)
                elif call == "e":
                    err = RuntimeError("application error inside the transaction block")
                    await p.transaction().__aexit__(RuntimeError, err, None)
                elif call == "r":
                    await kill_producer(p)
                    inc += 1
                    clients.append(f"p{inc}")
                    p = await start()
                else:
                    raise ValueError(call)
            except (Exception, AssertionError) as ex:  # noqa
                exc = ex
            record["res"].append(env.classify(exc))
            await asyncio.sleep(SETTLE)
        record["state"] = p._txn_manager.state.name
    finally:
        record["futs"] = dict(futs)
        record["clients"] = list(clients)
        await kill_producer(p)


def run_api_case(env, calls, fault, what="-", seed=1, ovar=0):
    """-> (canonical text, details dict);  `what` = how the fault is realised (see choose_fault);
    `ovar` shifts the sizes (1, 2, 3 partitions) of the offsets maps of the send_offsets calls"""
    sim = env.sim
    cluster = sim.SimCluster(nodes=1, topics={TOPIC: 3, TOPIC2: 2}, seed=seed)
    if fault is not None:
        cluster.faults.add(make_fault(env, fault, what))
    record = {"res": [], "futs": {}, "state": "?", "clients": ["p0"]}
    hang = None
    try:
        sim.run(api_case(env, cluster, calls, record, ovar), cluster, max_vt=SETTLE * (len(calls) + 2) + 600)
    except sim.SimTimeout as ex:
        hang = str(ex)[:200]
    reqs, per_call = split_by_call(canon_requests(env, cluster.trace, set(record["clients"])))
    st = {"READY": "ready", "IN_TRANSACTION": "inTxn", "ABORTABLE_ERROR": "abortable",
          "FATAL_ERROR": "fatal"}.get(record["state"], record["state"])
    parts = []
    views = {}
    for part in (0, 1):
        vis, opn, allr = rc_view(cluster, part)
        views[part] = (vis, opn, allr)
        parts.append(f"vis{part}=" + (",".join(vis) if vis else "-"))
        parts.append(f"open{part}=" + (",".join(opn) if opn else "-"))
    comm = cluster.committed(GROUP).get((TOPIC, 2))
    g = cluster.groups.get(GROUP)
    pend = None
    if g is not None:
        for _pid, d in g.pending_txn_offsets.items():
            if (TOPIC, 2) in d:
                pend = d[(TOPIC, 2)][0]
    futs = record["futs"]
    txt = ("res=" + (",".join(record["res"]) if record["res"] else "-")
           + " reqs=" + (";".join(reqs) if reqs else "-")
           + " futs=" + (",".join(f"r{i}:{futs[i]}" for i in sorted(futs)) if futs else "-")
           + f" st={st} " + " ".join(parts)
           + f" comm={comm if comm is not None else '-'} pend={pend if pend is not None else '-'}")
    if hang:
        txt = "hang:" + hang + " " + txt
    return txt, {"fault_as": what, "views": views, "trace_len": len(cluster.trace), "cluster": cluster,
                 "per_call": per_call, "res": list(record["res"]), "futs": dict(futs), "reqs": reqs}
