"""C02 — every send future resolves once, with the record's true coordinates.

Proof: lean/AkVerif/Props/C02.lean about `AkVerif.Done` (Model/Done.lean: MessageBatch.done /
done_noack / failure, per-version reply decoding, retry verdict) and about the acceptor
`AkVerif.Producer` (Model/Producer.lean: results due to every future, flush()/stop()).
Tie:
  * T-diff on the real `MessageBatch` (records with arbitrary timestamps; done / done_noack /
    failure / caller-side cancel in any order; every future read back);
  * T-diff on the real `SendProduceReqHandler.handle_response` with synthetic ProduceResponse
    v0..v8 objects (decoded fields, done / retry / fail verdict, resulting futures);
  * T-trace: the real producer on the simulator (acks 0/1/all, idempotent or not, CreateTime and
    LogAppendTime topics, Produce v0..v8, fault schedules of C01, flush()/stop() at random points)
    against the Lean acceptor.
Search: on every trace the result of every future is compared with the partition log of the
simulated cluster through the Lean `holdsCoord`; unresolved futures, futures pending when
flush()/stop() returned and runs that do not finish in bounded virtual time are reported.
"""
import asyncio
import itertools
import json
import time

from vlib import HarnessError
from checks import prod_common as P
from checks.c01 import variant_of_increment, leader_probe_scenario, only_retriable

TS = [1000, 2000, 3000]


# ------------------------------------------------------------------------------ MessageBatch
def batch_cases(ctx, rng):
    """(recs [(rel, uts)], ops) — exhaustive small space + random"""
    scripts = [
        ["D"], ["N"], ["F:1"], ["D", "D2"], ["D", "F:1"], ["F:1", "D"], ["N", "D"], ["D", "N"], ["F:1", "F:2"],
        ["C0", "D"], ["Clast", "D"], ["C0", "F:1"], ["C0", "N"], ["D", "C0"],
    ]
    cases = []
    for n in (1, 2, 3) + ((4,) if ctx.thorough else ()):
        for tss in itertools.product(TS, repeat=n):
            for bts in (-1, 5000):
                for ls in (None, 7):
                    for sc in scripts:
                        ops = []
                        for o in sc:
                            if o == "D":
                                ops.append(f"D:100:{bts}:{'n' if ls is None else ls}")
                            elif o == "D2":
                                ops.append("D:900:7777:n")
                            elif o == "C0":
                                ops.append("C:0")
                            elif o == "Clast":
                                ops.append(f"C:{n - 1}")
                            else:
                                ops.append(o)
                        cases.append((list(enumerate(tss)), ops))
    for _ in range(20000 if ctx.thorough else 300):
        n = rng.choice([1, 2, 5, 17, 60, 200]) if ctx.thorough else rng.choice([1, 2, 5, 17, 40])
        recs = [(i, rng.choice([rng.randrange(0, 10**13), 1000, -1])) for i in range(n)]
        ops = []
        for _ in range(rng.randrange(1, 5)):
            c = rng.random()
            if c < 0.45:
                ops.append(f"D:{rng.randrange(0, 10**6)}:{rng.choice([-1, -1, rng.randrange(0, 10**13)])}:"
                           f"{rng.choice(['n', str(rng.randrange(0, 1000))])}")
            elif c < 0.6:
                ops.append("N")
            elif c < 0.75:
                ops.append(f"F:{rng.randrange(1, 4)}")
            else:
                ops.append(f"C:{rng.randrange(0, n)}")
        cases.append((recs, ops))
    return cases


EXC = {1: "KafkaTimeoutError", 2: "NotLeaderForPartitionError", 3: "ProducerClosed"}


def run_batch_cases(env, cases):
    """drive the real MessageBatch; returns one canonical line per case"""
    TPc = env.structs.TopicPartition
    out = []

    def show(f, want_md=True):
        if not f.done():
            return "pending"
        if f.cancelled():
            return "cancelled"
        ex = f.exception()
        if ex is not None:
            code = [k for k, v in EXC.items() if v == type(ex).__name__]
            return f"err:{code[0] if code else 0}"
        r = f.result()
        if r is None:
            return "none"
        ls = "n" if r.log_start_offset is None else r.log_start_offset
        if (r.topic, r.partition) != ("t", 3):
            return f"wrong-partition:{r.topic}:{r.partition}"
        return f"md:{r.offset}:{r.timestamp}:{r.timestamp_type}:{ls}"

    async def one(recs, ops):
        builder = env.acc.BatchBuilder(1 << 20, 0)
        b = env.acc.MessageBatch(TPc("t", 3), builder, 30, 0)
        futs = []
        for rel, uts in recs:
            f = b.append(None, b"v%d" % rel, uts)
            if f is None:
                raise HarnessError("MessageBatch.append refused a record")
            futs.append(f)
        # what the batch recorded per record (relative offset, timestamp) is what done() uses
        for op in ops:
            t = op.split(":")
            if t[0] == "D":
                b.done(int(t[1]), int(t[2]), None if t[3] == "n" else int(t[3]))
            elif t[0] == "N":
                b.done_noack()
            elif t[0] == "F":
                b.failure(getattr(env.errors, EXC[int(t[1])])())
            elif t[0] == "C":
                futs[int(t[1])].cancel()
        await asyncio.sleep(0)
        return show(b.future) + " " + (",".join(show(f) for f in futs) or "-")

    async def all_():
        for recs, ops in cases:
            try:
                out.append(await one(recs, ops))
            except HarnessError:
                raise
            except Exception as ex:  # noqa
                out.append(f"exception:{type(ex).__name__}")
    loop = asyncio.new_event_loop()
    try:
        loop.run_until_complete(all_())
    finally:
        loop.close()
    return out


# ------------------------------------------------------------------------------ handle_response
class _FakeClient:
    def __init__(self):
        self.md = 0

    def force_metadata_update(self):
        self.md += 1


class _FakeSender:
    def __init__(self, idem):
        self.client = _FakeClient()
        self._txn_manager = object() if idem else None
        self._retry_backoff = 0.1
        self._message_accumulator = None
        self._acks = 1
        self._request_timeout_ms = 1000


def response_cases(ctx, rng):
    cases = []
    codes = [0, 0, 0, 3, 5, 6, 7, 19, 20, 2, 10, 29, 45, 46, 47]
    for v in range(0, 9):
        for code in sorted(set(codes)):
            for idem in (False, True):
                for expired in (False, True):
                    for ts in (-1, 123456):
                        cases.append({"v": v, "idem": idem, "parts": [
                            {"p": 0, "code": code, "off": 40 if code in (0, 46) else -1, "ts": ts, "ls": 3,
                             "expired": expired, "recs": [(0, 1000), (1, 2000), (2, 1500)], "has_batch": True}]})
    for _ in range(20000 if ctx.thorough else 400):
        v = rng.randrange(0, 9)
        parts = []
        for p in rng.sample(range(6), rng.randrange(1, 4)):
            code = rng.choice(codes)
            parts.append({"p": p, "code": code, "off": rng.randrange(0, 10**9) if code in (0, 46) else -1,
                          "ts": rng.choice([-1, -1, rng.randrange(0, 10**13)]), "ls": rng.randrange(0, 100),
                          "expired": rng.random() < 0.3,
                          "recs": [(i, rng.randrange(0, 10**13)) for i in range(rng.randrange(1, 6))],
                          "has_batch": rng.random() < 0.9})
        cases.append({"v": v, "idem": rng.random() < 0.5, "parts": parts})
    return cases


def run_response_cases(env, cases):
    TPc = env.structs.TopicPartition
    res = []

    def fut_state(f):
        if not f.done():
            return "pending"
        ex = f.exception()
        if ex is not None:
            return "fail"
        r = f.result()
        ls = "n" if r.log_start_offset is None else r.log_start_offset
        return f"md:{r.offset}:{r.timestamp}:{r.timestamp_type}:{ls}"

    async def one(case):
        v = case["v"]
        sender = _FakeSender(case["idem"])
        batches = {}
        futs = {}
        for part in case["parts"]:
            if not part["has_batch"]:
                continue
            b = env.acc.MessageBatch(TPc("t", part["p"]), env.acc.BatchBuilder(1 << 20, 0), 30, 0)
            futs[part["p"]] = [b.append(None, b"v", uts) for _rel, uts in part["recs"]]
            if part["expired"]:
                b._ctime = time.monotonic() - 1000
            batches[TPc("t", part["p"])] = b
        infos = []
        for part in case["parts"]:
            if v < 2:
                infos.append((part["p"], part["code"], part["off"]))
            elif v <= 4:
                infos.append((part["p"], part["code"], part["off"], part["ts"]))
            elif v <= 7:
                infos.append((part["p"], part["code"], part["off"], part["ts"], part["ls"]))
            else:
                infos.append((part["p"], part["code"], part["off"], part["ts"], part["ls"], [], None))
        cls = getattr(env.produce, f"ProduceResponse_v{v}")
        resp = cls(topics=[("t", infos)]) if v == 0 else cls(topics=[("t", infos)], throttle_time_ms=0)
        resp = cls.decode(resp.encode())          # what the client really sees: a decoded struct
        h = env.sender.SendProduceReqHandler(sender, batches)
        h.handle_response(resp)
        out = []
        for part in case["parts"]:
            if not part["has_batch"]:
                out.append(f"{part['p']}=nobatch")
                continue
            b = batches[TPc("t", part["p"])]
            if any(x is b for x in h._to_reenqueue):
                st = "retry"
            else:
                st = ",".join(fut_state(f) for f in futs[part["p"]])
            out.append(f"{part['p']}={st}")
        return " ".join(out)

    async def all_():
        for case in cases:
            try:
                res.append(await one(case))
            except Exception as ex:  # noqa
                res.append(f"exception:{type(ex).__name__}:{ex}")
    loop = asyncio.new_event_loop()
    try:
        loop.run_until_complete(all_())
    finally:
        loop.close()
    return res


def model_response_lines(case):
    """driver lines whose answers, assembled by `model_response`, give the model's outcome"""
    lines = []
    v = case["v"]
    for part in case["parts"]:
        if v < 2:
            fs = [part["p"], part["code"], part["off"]]
        elif v <= 4:
            fs = [part["p"], part["code"], part["off"], part["ts"]]
        else:
            fs = [part["p"], part["code"], part["off"], part["ts"], part["ls"]]
        lines.append(f"c02 info {v} " + ",".join(map(str, fs)))
        lines.append(f"c02 verdict {'T' if case['idem'] else 'F'} {'T' if part['expired'] else 'F'} {part['code']}")
    return lines


def model_response(case, answers, ctx_driver):
    """second stage: for the partitions whose verdict is `done`, ask the batch model for the futures"""
    out = []
    need = []
    for i, part in enumerate(case["parts"]):
        info, verdict = answers[2 * i], answers[2 * i + 1]
        if not part["has_batch"]:
            out.append(f"{part['p']}=nobatch")
        elif verdict == "retry":
            out.append(f"{part['p']}=retry")
        elif verdict == "fail":
            out.append(f"{part['p']}=" + ",".join("fail" for _ in part["recs"]))
        else:
            _p, _c, off, ts, ls = info.split(" ")
            need.append((len(out), part, f"c02 batch fixed " + ",".join(f"{r}:{u}" for r, u in part["recs"]) + f" D:{off}:{ts}:{ls}"))
            out.append(None)
    return out, need


def load_corpus():
    """minimised inputs of defects that were found and repaired (corpus/C02/*.json): run first, every time"""
    import pathlib
    out = []
    d = pathlib.Path(__file__).resolve().parent.parent.parent / "corpus" / "C02"
    for f in sorted(d.glob("*.json")):
        out += json.loads(f.read_text()).get("cases", [])
    return out


# ------------------------------------------------------------------------------ the check
def run(ctx):
    ctx.coverage["trusted_base"] = [
        "Lean 4.33.0 kernel; axioms propext, Classical.choice, Quot.sound only",
        "Env: partition log with Kafka's idempotent append (Model/Producer.lean `Broker`), re-derived on every trace and "
        "compared with the simulator's log; reply fields are those the simulated broker put on the wire",
        "harness/sim, harness/checks/prod_common.py (observation points: instance wrapper of client.send, future "
        "callbacks + sweeps), projection onto one partition, line protocol, driver",
        "a `send_batch()` future describes its batch: record i of the batch is taken to sit at base offset + i",
        "between two observed events the code is covered by the traces only (T-trace)",
    ]
    ctx.assumptions += [
        "the acceptor rejects (guard sequence-reused) a history in which the broker answers DUPLICATE_SEQUENCE_NUMBER or "
        "recognises a batch as the duplicate of ANOTHER batch: the code would then report success with coordinates that "
        "are not the record's; c01_no_gap shows such replies do not arise from the modelled producer",
        "c02_idempotent_never_failed_by_retriable_partial assumes no batch is given up while waiting for a retry / before "
        "its first transmission (drain_by_nodes expiry with unknown leader; finding c02:idempotent-failed-by-expiry)",
        "'within bounded time after faults cease' is c02_eventually_resolved_partial on the model (from a quiescent idle "
        "state one quiet round is accepted and resolves the whole queue; for the idempotent producer under the provisos "
        "of broker_ready); on the implementation it is a bounded virtual-time run (900 s), i.e. exploration",
        "LogAppendTime topics are exercised with Produce >= v2 only (v0/v1 replies carry no timestamp, the client "
        "cannot know the append time)",
        "random fault schedules never leave a partition without a leader; the expiry path is exercised by its probe",
        "transactional producers: commit/abort and the coordinator requests are environment (C07/C16); the marker the "
        "coordinator writes takes one offset (Ev.marker, tt = 2 in the model's log) - coordinates of records sent after "
        "it are checked against the log with the markers in place",
    ]
    proved = ctx.prove(drivers=["akdriver"])
    env = P.Env(ctx.repo)
    rng = ctx.rng("c02")

    # ---------------------------------------------------------------- T-diff MessageBatch
    if ctx.replay_cases is not None:
        bcases = [(c["recs"], c["ops"]) for c in ctx.replay_cases if isinstance(c, dict) and "ops" in c]
        bcases = [([tuple(r) for r in recs], ops) for recs, ops in bcases]
    else:
        corpus = load_corpus()
        bcases = [([tuple(r) for r in c["recs"]], c["ops"]) for c in corpus if "ops" in c] + batch_cases(ctx, rng)
    impl = run_batch_cases(env, bcases)
    lines = ["c02 batch fixed " + (",".join(f"{r}:{u}" for r, u in recs) or "-") + " " + (";".join(ops) or "-")
             for recs, ops in bcases]
    model = ctx.driver("akdriver", lines) if lines else []
    carried = None
    nb_bad = 0
    bhist = {}
    for (recs, ops), i, m, line in zip(bcases, impl, model, lines):
        ctx.count(line, nontrivial=len(recs) >= 2)
        for o in ops:
            bhist[o[0]] = bhist.get(o[0], 0) + 1
        if i != m:
            nb_bad += 1
            if carried is None:
                carried = ctx.driver("akdriver", [line.replace("c02 batch fixed", "c02 batch carried")])[0]
                first = {"recs": recs, "ops": ops, "impl": i, "model": m}
                if carried == i:
                    ctx.violation("c02:done-timestamp-carried",
                                  f"MessageBatch.done reports another record's timestamp (loop-carried variable): records "
                                  f"(rel, user ts) {recs[:6]} ops {ops} futures {i[:200]} required {m[:200]}",
                                  {"cases": [{"recs": recs, "ops": ops}], "observed": i, "required": m})
                else:
                    ctx.violation("c02:batch-futures",
                                  f"MessageBatch resolves its futures differently from done/done_noack/failure as modelled: "
                                  f"records {recs[:6]} ops {ops} futures {i[:200]} required {m[:200]}",
                                  {"cases": [{"recs": recs, "ops": ops}], "observed": i, "required": m})
    if nb_bad:
        ctx.broken.append({"kind": "correspondence", "tie": "T-diff MessageBatch vs AkVerif.Done.BatchSt", "mismatches": nb_bad})
    ctx.coverage["batch_scripts"] = {"cases": len(bcases), "ops": bhist}
    if bcases:
        ctx.sample({"batch": lines[len(lines) // 2][:200], "impl": impl[len(lines) // 2][:200]})

    # ---------------------------------------------------------------- T-diff handle_response
    if ctx.replay_cases is not None:
        rcases = [c for c in ctx.replay_cases if isinstance(c, dict) and "parts" in c and "v" in c]
    else:
        rcases = response_cases(ctx, rng)
    rimpl = run_response_cases(env, rcases)
    l1 = []
    for c in rcases:
        l1 += model_response_lines(c)
    a1 = ctx.driver("akdriver", l1) if l1 else []
    k = 0
    staged = []
    l2 = []
    for c in rcases:
        n = 2 * len(c["parts"])
        out, need = model_response(c, a1[k:k + n], None)
        k += n
        staged.append((out, need))
        l2 += [x[2] for x in need]
    a2 = ctx.driver("akdriver", l2) if l2 else []
    k = 0
    nr_bad = 0
    vhist = {}
    for c, i, (out, need) in zip(rcases, rimpl, staged):
        for pos, part, _line in need:
            out[pos] = f"{part['p']}=" + a2[k].split(" ")[1]
            k += 1
        m = " ".join(out)
        ctx.count(("resp", json.dumps(c, sort_keys=True)), nontrivial=True)
        for o in out:
            tag = "done" if "md:" in o else o.split("=")[1].split(",")[0]
            vhist[f"v{c['v']}:{tag}"] = vhist.get(f"v{c['v']}:{tag}", 0) + 1
        if i != m:
            nr_bad += 1
            if nr_bad == 1:
                ctx.violation("c02:handle-response",
                              f"handle_response v{c['v']} idem={c['idem']} {c['parts'][:2]}: futures {i[:240]} required {m[:240]}",
                              {"cases": [c], "observed": i, "required": m})
    if nr_bad:
        ctx.broken.append({"kind": "correspondence", "tie": "T-diff handle_response vs decodeInfo/verdict/doneLoop", "mismatches": nr_bad})
    ctx.coverage["handle_response"] = {"cases": len(rcases), "outcomes_by_version": dict(sorted(vhist.items()))}

    # ---------------------------------------------------------------- T-trace
    wrap_fix, _ = variant_of_increment(ctx, env)
    if wrap_fix is None:
        wrap_fix = False
    if ctx.replay_cases is not None:
        scenarios = [c for c in ctx.replay_cases if isinstance(c, dict) and "tasks" in c]
    else:
        n = 12000 if ctx.thorough else 540
        scenarios = [leader_probe_scenario()] + [c for c in load_corpus() if "tasks" in c]
        for i in range(n):
            kind = ("mixed", "acks0", "txn", "idem", "plain", "migrate", "mixed", "txn", "clean")[i % 9]
            sc = P.gen_scenario(rng, i, kind=kind, big=(i % 7 == 0))
            if i % 3 == 0 and sc["stop_at"] is None and not sc.get("txn"):
                sc["stop_at"] = rng.choice([5, 20, 50, 100, 300, 1000])
            scenarios.append(sc)
    if ctx.thorough and ctx.replay_cases is None:
        results = run_parallel(ctx, scenarios, wrap_fix)
    else:
        results = [evaluate(env, sc, wrap_fix) for sc in scenarios]
    lines = []
    for r in results:
        for pr in r["parts"]:
            lines.append(pr["line"])
            lines.append(pr["coords"])
    out = ctx.driver("akdriver", lines) if lines else []
    hist = {"accepted": 0, "rejected-client": 0, "rejected-env": 0}
    rhist = {}
    outcomes = {}
    mism = []
    k = 0
    for r in results:
        sc = r["sc"]
        outcomes[r["outcome"]] = outcomes.get(r["outcome"], 0) + 1
        if r["outcome"] == "sim-timeout":
            ctx.violation("c02:not-resolved-in-bounded-time",
                          f"run did not finish within 900 virtual seconds although faults had ceased: {r['where']}",
                          {"cases": [sc], "where": r["where"]})
        if r["unresolved"] and r["outcome"] == "ok":
            ctx.violation("c02:future-never-resolved",
                          f"stop() returned and the futures of accepted records {r['unresolved'][:8]} were never resolved",
                          {"cases": [sc], "unresolved": r["unresolved"]})
        if r["late"]:
            ctx.violation("c02:flush-returned-early",
                          f"{r['late'][0]['name']}() returned while futures of earlier records were pending: {r['late'][0]['late'][:8]}",
                          {"cases": [sc], "late": r["late"]})
        if r["multi"]:
            ctx.violation("c02:resolved-twice", f"done-callbacks of futures ran more than once: {r['multi'][:6]}",
                          {"cases": [sc], "multi": r["multi"]})
        if r["wrong_partition"]:
            ctx.violation("c02:wrong-partition", f"metadata names another topic/partition: {r['wrong_partition'][:4]}",
                          {"cases": [sc], "wrong": r["wrong_partition"]})
        if sc["acks"] == 0 and r["acks0_meta"]:
            ctx.violation("c02:acks0-metadata", f"acks=0 but futures resolved with metadata: {r['acks0_meta'][:4]}",
                          {"cases": [sc], "futures": r["acks0_meta"]})
        failed = r["failed"]
        if r["wrap_reachable"] and not wrap_fix:
            # finding c01:seq-wrap-negative: after the counter went negative the broker refuses the batches
            failed = [f for f in failed if f[1] != "OutOfOrderSequenceNumber"]
        if sc["idem"] and only_retriable(sc) and failed:
            if sc.get("probe") == "leader-unknown":
                ctx.violation("c02:idempotent-failed-by-expiry",
                              f"idempotent producer failed records {failed[:4]} under retriable faults only",
                              {"cases": [sc], "failed": failed})
            else:
                ctx.violation("c02:idempotent-record-failed",
                              f"idempotent producer failed records under retriable faults only: {failed[:4]}",
                              {"cases": [sc], "failed": failed})
        for kk, vv in r["result_kinds"].items():
            rhist[kk] = rhist.get(kk, 0) + vv
        for pr in r["parts"]:
            res, hc = out[k], out[k + 1]
            k += 2
            ctx.count(pr["line"], nontrivial=pr["nacc"] >= 2 and pr["sends"] >= 2)
            ctx.coverage["traces_validated_against_impl"] += 1
            if hc != "true":
                ctx.violation("c02:wrong-coordinates",
                              f"future of record {hc} names coordinates at which the partition log holds something else "
                              f"(partition {pr['part']}): futures {pr['coords'].split(' ')[3][:200]} log {pr['truth'][:200]}",
                              {"cases": [sc], "partition": pr["part"], "log": pr["truth"], "futures": pr["coords"].split(" ")[3]})
            if res.startswith("ok "):
                hist["accepted"] += 1
                if sc["acks"] != 0 and res.split(" ")[1][4:] != pr["truth"]:
                    mism.append({"kind": "log", "sc": sc, "part": pr["part"], "model": res[:300], "sim": pr["truth"][:300]})
            elif res.startswith("rej "):
                _, idx, why = res.split(" ")
                hist["rejected-client" if why.startswith("client:") else "rejected-env"] += 1
                evs = pr["line"].split(" ")[7].split(";")
                i = int(idx)
                mism.append({"kind": why, "sc": sc, "part": pr["part"], "at": i, "events": evs[max(0, i - 6): i + 1]})
            elif res == "bad-op" and "None" in (pr["line"] + pr["coords"]):
                # the implementation produced a value outside the vocabulary of the line protocol (e.g. a
                # timestamp of None in a result): that is an observation about the code, not harness trouble
                ctx.violation("c02:wrong-coordinates",
                              f"a future resolved with a non-integer coordinate (None) on partition {pr['part']}: "
                              f"{pr['coords'][:300]}",
                              {"cases": [sc], "partition": pr["part"], "futures": pr["coords"][:600]})
            else:
                raise HarnessError(f"driver answered {res!r}")
    ctx.coverage["acceptor"] = hist
    ctx.coverage["future_results"] = rhist
    ctx.coverage["run_outcomes"] = outcomes
    ctx.coverage["rule"] = (
        "T-diff MessageBatch: every batch of 1-3 (thorough 1-4) records over 3 timestamps x broker timestamp {-1, T} x "
        "log_start {none, n} x 14 op scripts of done/done_noack/failure/cancel, plus random batches up to 40 (200) records; "
        "T-diff handle_response: v0..v8 x 13 error codes x idempotent x expired x timestamp, plus random multi-partition "
        "replies; T-trace: one case = one partition history of a simulator run (configuration space of C01, transactional "
        "producers and leader migration under slow replies included, plus acks=0, "
        "LogAppendTime topics, send_batch, flush() inside tasks, stop() at a random time in > 1/3 of the runs). "
        "non-trivial (traces) = >= 2 records and >= 2 produce requests; distinct by canonical input")
    if mism:
        client = [m for m in mism if str(m["kind"]).startswith("client:")]
        other = [m for m in mism if not str(m["kind"]).startswith("client:")]
        if client:
            m = client[0]
            ctx.broken.append({"kind": "correspondence", "tie": "T-trace producer vs AkVerif.Producer acceptor",
                               "rejected": len(client), "first": {k: v for k, v in m.items() if k != "sc"}})
            ctx.violation("c02:mechanism:" + m["kind"].split(":", 1)[1],
                          f"history of partition {m['part']} is not one the modelled mechanisms can produce: guard "
                          f"'{m['kind']}' failed at event {m['at']} {m['events'][-1]!r} (preceding: {m['events'][:-1]})",
                          {"cases": [m["sc"]], "partition": m["part"], "guard": m["kind"], "at": m["at"], "events": m["events"]})
        if other and not ctx.violations:
            m = other[0]
            raise HarnessError("simulated broker and Env model disagree (harness trouble, not a finding): "
                               + json.dumps({k: v for k, v in m.items() if k != "sc"})[:600]
                               + " scenario " + json.dumps(m["sc"])[:1500])
    if not proved:
        return


def evaluate(env, sc, wrap_fix):
    obs = P.run_scenario(env, sc)
    parts = []
    for part in range(sc["parts"]):
        line, ids, summ = P.project(obs, part, wrap_fix)
        coords = [f"{ids[u]}/{r[1]}/{r[2]}/{r[3]}" for u, r in obs.results.items()
                  if u in ids and obs.recs[u]["tp"][1] == part and r[0] == "O"]
        truth = P.truth_log(obs, part, ids)
        parts.append({"part": part, "line": line, "truth": truth, "nacc": len(ids), "sends": summ["sends"],
                      "coords": f"c02 holdsCoords {truth} " + (",".join(coords) or "-")})
    unresolved = [u for u, r in obs.recs.items() if not r["done"]]
    late = [{"name": e["name"], "k": e["k"], "late": e["late"]} for e in obs.trace if e["ev"] == "x_wret" and e.get("late")]
    multi = [u for u, r in obs.recs.items() if r["callbacks"] > 1]
    wrongp = [[u, r] for u, r in obs.results.items() if r[0] == "O" and [r[4], r[5]] != obs.recs[u]["tp"]]
    acks0_meta = [[u, r] for u, r in obs.results.items() if r[0] == "O"]
    failed = [[u, r[1]] for u, r in obs.results.items() if r[0] == "F"]
    kinds = {}
    for r in obs.results.values():
        key = r[0] if r[0] != "F" else "F:" + r[1]
        kinds[key] = kinds.get(key, 0) + 1
    nrec = len(obs.recs)
    wrap_reachable = sc["idem"] and any(s0 + nrec >= 2 ** 31 for s0 in sc["seq0"].values())
    return {"sc": sc, "outcome": obs.outcome, "where": obs.where, "parts": parts, "unresolved": unresolved, "late": late,
            "multi": multi, "wrong_partition": wrongp, "acks0_meta": acks0_meta, "failed": failed,
            "result_kinds": kinds, "wrap_reachable": wrap_reachable}


_ENV = None


def _worker(args):
    global _ENV
    repo, chunk, wrap_fix = args
    if _ENV is None:
        _ENV = P.Env(repo)
    return [evaluate(_ENV, sc, wrap_fix) for sc in chunk]


def run_parallel(ctx, scenarios, wrap_fix):
    import multiprocessing as mp
    chunks = [scenarios[i:i + 50] for i in range(0, len(scenarios), 50)]
    with mp.get_context("fork").Pool(min(14, len(chunks))) as pool:
        res = pool.map(_worker, [(str(ctx.repo), c, wrap_fix) for c in chunks])
    return [r for chunk in res for r in chunk]
