"""Shared by c06.py and c19.py: loading the code under test, the client-side probe, owner
attribution of tasks/timers, and the translation of a member's history into the line protocol of
the Lean acceptor `AkVerif.Membership` (driver token `c06`).

The probe wraps `AIOKafkaClient.send` from outside (class attribute of the freshly imported
module, nothing in /repo is touched): every call is logged when it is made (`S`) and when its
outcome reaches the caller (`R`), in the client's own program order - the order the member
automaton is about.  The wire-level truth (what the simulated coordinator received) stays in
`cluster.trace` and is used for the statements about JoinGroup contents.
"""
import asyncio
import contextvars
import importlib
import sys

OWNER = contextvars.ContextVar("akverif_owner", default=None)

GROUP_APIS = {
    "FindCoordinatorRequest": "F", "JoinGroupRequest": "J", "SyncGroupRequest": "Y",
    "HeartbeatRequest": "H", "LeaveGroupRequest": "L", "OffsetCommitRequest": "C",
    "OffsetFetchRequest": "O",
}


class Env:
    """the code under test (imported from ctx.repo, never from the editable install) + simulator"""

    def __init__(self, repo):
        sys.path.insert(0, str(repo))
        for m in [m for m in sys.modules if m == "aiokafka" or m.startswith("aiokafka.") or m == "sim" or m.startswith("sim.")]:
            del sys.modules[m]
        self.aiokafka = importlib.import_module("aiokafka")
        self.client_mod = importlib.import_module("aiokafka.client")
        self.errors = importlib.import_module("aiokafka.errors")
        self.sim = importlib.import_module("sim")
        self.proto = importlib.import_module("sim.proto")
        assert self.aiokafka.__file__.startswith(str(repo)), self.aiokafka.__file__
        rng = importlib.import_module("aiokafka.coordinator.assignors.range")
        rr = importlib.import_module("aiokafka.coordinator.assignors.roundrobin")
        st = importlib.import_module("aiokafka.coordinator.assignors.sticky.sticky_assignor")
        self.assignors = {
            "range": rng.RangePartitionAssignor,
            "roundrobin": rr.RoundRobinPartitionAssignor,
            "sticky": st.StickyPartitionAssignor,
        }
        self.probe = None

    def install_probe(self, now_ms):
        """(re)arm the probe; returns the dict client_id -> event list of this run"""
        C = self.client_mod.AIOKafkaClient
        render = self.proto.render_struct
        KafkaError = self.errors.KafkaError
        st = getattr(C, "_akverif_probe", None)
        if st is None:
            st = C._akverif_probe = {"log": {}, "seq": 0, "now": now_ms}
            orig = C.send
            default_group = self.client_mod.ConnectionGroup.DEFAULT

            def fields_of(request):
                for cls in reversed(getattr(request, "_CLASSES", ())):
                    try:
                        return render(request.build(cls))
                    except Exception:  # noqa: BLE001
                        continue
                return {}

            async def send(self, node_id, request, *, group=default_group):
                name = type(request).__name__
                if name not in GROUP_APIS:
                    return await orig(self, node_id, request, group=group)
                st["seq"] += 1
                rid = st["seq"]
                log = st["log"].setdefault(self._client_id, [])
                log.append({"k": "S", "id": rid, "vt": st["now"](), "api": name, "node": node_id,
                            "f": fields_of(request)})
                try:
                    resp = await orig(self, node_id, request, group=group)
                except asyncio.CancelledError:
                    log.append({"k": "R", "id": rid, "vt": st["now"](), "exc": "cancelled"})
                    raise
                except KafkaError as e:
                    log.append({"k": "R", "id": rid, "vt": st["now"](), "exc": type(e).__name__})
                    raise
                except Exception as e:  # noqa: BLE001
                    log.append({"k": "R", "id": rid, "vt": st["now"](), "exc": "other:" + type(e).__name__})
                    raise
                log.append({"k": "R", "id": rid, "vt": st["now"](), "api": name, "f": render(resp)})
                return resp

            C.send = send
        st["log"] = {}
        st["seq"] = 0
        st["now"] = now_ms
        self.probe = st
        return st["log"]

    def mark(self, client_id, kind):
        """harness-side events of a member: U subscription change, M metadata change, Z/z stop"""
        self.probe["log"].setdefault(client_id, []).append({"k": kind, "vt": self.probe["now"]()})


def corpus_cases(prop, key):
    """cases of corpus/<prop>/*.json (minimised past failures, run before the generated cases)"""
    import json
    from pathlib import Path
    out = []
    for f in sorted((Path(__file__).resolve().parent.parent.parent / "corpus" / prop).glob("*.json")):
        for c in json.loads(f.read_text()).get("cases", []):
            out.append(c[key] if key else c)
    return out


def _codes_commit(f):
    return [p["error_code"] for t in f.get("topics", []) for p in t["partitions"]]


def member_tokens(log, group_id="g"):
    """probe events of one member -> tokens of the `c06 run` line; member ids become naturals"""
    mids = {"": 0, None: 0}

    def mid(s):
        if s not in mids:
            mids[s] = len(mids) - 1
        return mids[s]

    toks = []
    api_of = {}
    for e in log:
        k = e["k"]
        if k in ("U", "M", "Z", "z"):
            toks.append(k)
            continue
        if k == "S":
            f = e["f"]
            a = GROUP_APIS[e["api"]]
            if a == "F" and (f.get("coordinator_type", 0) != 0 or f.get("coordinator_key", f.get("consumer_group")) != group_id):
                continue
            api_of[e["id"]] = a
            gen, m, protos = -1, "", "-"
            if a == "J":
                m = f["member_id"]
                names = [p["protocol_name"] for p in f["group_protocols"]]
                protos = ",".join(names) if names else "-"
            elif a in ("Y", "H"):
                gen, m = f["generation_id"], f["member_id"]
            elif a == "L":
                m = f["member_id"]
            elif a == "C":
                gen, m = f["consumer_group_generation_id"], f["consumer_id"]
            node = e["node"] if isinstance(e["node"], int) else -9
            toks.append(f"S{e['id']}:{a}:{node}:{gen}:{mid(m)}:{protos}")
        else:
            a = api_of.get(e["id"])
            if a is None:
                continue
            if "exc" in e:
                x = e["exc"]
                toks.append(f"R{e['id']}:" + ("c" if x == "cancelled" else "x" if not x.startswith("other:") else "E-" + x))
                continue
            f = e["f"]
            if a == "J":
                code = f["error_code"]
                if code == 0:
                    toks.append(f"R{e['id']}:j:{f['generation_id']}:{mid(f['member_id'])}")
                elif code == 79:
                    toks.append(f"R{e['id']}:m:{mid(f['member_id'])}")
                else:
                    toks.append(f"R{e['id']}:k:{code}")
            elif a == "F":
                code = f["error_code"]
                toks.append(f"R{e['id']}:f:{f['coordinator_id']}" if code == 0 else f"R{e['id']}:k:{code}")
            elif a in ("C", "O"):
                cs = _codes_commit(f)
                if a == "O" and f.get("error_code"):
                    cs = [f["error_code"]]      # OffsetFetch v2+: a group-level error is in the top-level field only
                toks.append(f"R{e['id']}:k:" + (",".join(map(str, cs)) if cs else "-"))
            else:
                toks.append(f"R{e['id']}:k:{f['error_code']}")
    return toks


def owned(loop, owner, sim_call_type):
    """tasks / timer handles / ready callbacks whose context carries OWNER == owner and that are
    still alive; simulator-owned handles are skipped"""
    cur = asyncio.current_task(loop)
    tasks = []
    for t in asyncio.all_tasks(loop):
        if t is cur or t.done():
            continue
        try:
            o = t.get_context().get(OWNER)
        except Exception:  # noqa: BLE001
            o = None
        if o == owner:
            tasks.append(t)
    timers = []
    for h in list(loop._scheduled) + list(loop._ready):
        if h._cancelled or isinstance(h._callback, sim_call_type):
            continue
        ctx = getattr(h, "_context", None)
        if ctx is not None and ctx.get(OWNER) == owner:
            owner_task = getattr(h._callback, "__self__", None)
            if owner_task is cur:
                continue
            timers.append(h)
    return tasks, timers


def describe_task(t, await_chain):
    coro = t.get_coro()
    chain = [c for c in await_chain(coro) if not c.startswith("[")]
    name = getattr(coro, "__qualname__", str(coro))
    return name + (" @ " + chain[-1] if chain else "")


def describe_timer(h):
    cb = h._callback
    name = getattr(cb, "__qualname__", None) or getattr(getattr(cb, "func", None), "__qualname__", None) or type(cb).__name__
    return name
