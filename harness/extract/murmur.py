"""T-extract for C17: translate the *source text* of `aiokafka/partitioner.py` into Lean.

`murmur2(data)` is a straight-line integer program around one `for` loop and three `if`s.  The
translator walks its AST and emits `lean/AkVerif/Gen/MurmurSrc.lean`:

  init  length            the statements before the loop            -> initial `h`
  mix   h b0 b1 b2 b3     the loop body, `data[i4 + j]` read as `bj` -> next `h`
  tail  h e t0 t1 t2      the three `if extra_bytes >= n` blocks, `data[(length & ~3) + j]` = `tj`
  final h                 the statements after them                  -> returned value
  positiveMask / usesModLen  from `DefaultPartitioner.__call__`: `idx &= MASK; idx %= len(all_partitions)`

Every statement must be `name = expr` or `name op= expr` with `expr` built from names, integer
literals and `& ^ | + * % << >> //`; the control skeleton (loop over `range(length // 4)` with
`i4 = i * 4`, `extra_bytes = length % 4`, the `if`s comparing `extra_bytes` with a literal, the final
`return h`) is matched *syntactically*; anything else is an extraction error (the proof obligation
`c17_source_is_model` then fails to build and the check searches for a failing key).
`Props/C17.lean` proves the generated functions equal the hand-written model `pyMix`, `pyTail`,
`pyFinal`, `SEED ^^^ length` by `rfl`-style proofs, so a changed constant, shift, mask or a dropped
statement in the source breaks a theorem, not only a sampled comparison.
"""
import ast
from pathlib import Path

OPS = {ast.BitAnd: "&&&", ast.BitXor: "^^^", ast.BitOr: "|||", ast.Add: "+", ast.Mult: "*",
       ast.Mod: "%", ast.LShift: "<<<", ast.RShift: ">>>", ast.FloorDiv: "/"}


class Shape(Exception):
    pass


def _is_len_and_not3(e):
    """`length & ~3`"""
    return (isinstance(e, ast.BinOp) and isinstance(e.op, ast.BitAnd)
            and isinstance(e.left, ast.Name) and e.left.id == "length"
            and isinstance(e.right, ast.UnaryOp) and isinstance(e.right.op, ast.Invert)
            and isinstance(e.right.operand, ast.Constant) and e.right.operand.value == 3)


def expr(e, sub):
    """sub(index_expr) -> lean name for `data[index_expr]`"""
    if isinstance(e, ast.Constant) and isinstance(e.value, int) and not isinstance(e.value, bool):
        if e.value < 0:
            raise Shape("negative literal")
        return str(e.value)
    if isinstance(e, ast.Name):
        return e.id
    if isinstance(e, ast.BinOp) and type(e.op) in OPS:
        return f"({expr(e.left, sub)} {OPS[type(e.op)]} {expr(e.right, sub)})"
    if isinstance(e, ast.Subscript) and isinstance(e.value, ast.Name) and e.value.id == "data":
        return sub(e.slice)
    raise Shape(f"unsupported expression: {ast.dump(e)[:120]}")


def stmts(body, sub):
    """list of (name, lean_expr) for a block of plain / augmented assignments"""
    out = []
    for s in body:
        if isinstance(s, ast.Assign) and len(s.targets) == 1 and isinstance(s.targets[0], ast.Name):
            out.append((s.targets[0].id, expr(s.value, sub)))
        elif isinstance(s, ast.AugAssign) and isinstance(s.target, ast.Name) and type(s.op) in OPS:
            out.append((s.target.id, f"({s.target.id} {OPS[type(s.op)]} {expr(s.value, sub)})"))
        elif isinstance(s, ast.Expr) and isinstance(s.value, ast.Constant) and isinstance(s.value.value, str):
            continue  # docstring
        else:
            raise Shape(f"unsupported statement at line {getattr(s, 'lineno', '?')}: {type(s).__name__}")
    return out


def no_sub(_):
    raise Shape("data[...] outside the loop / tail")


def loop_sub(ix):
    # data[i4 + j]
    if (isinstance(ix, ast.BinOp) and isinstance(ix.op, ast.Add) and isinstance(ix.left, ast.Name)
            and ix.left.id == "i4" and isinstance(ix.right, ast.Constant) and ix.right.value in (0, 1, 2, 3)):
        return f"b{ix.right.value}"
    raise Shape(f"loop index not i4 + 0..3: {ast.dump(ix)[:100]}")


def tail_sub(ix):
    # data[length & ~3]  /  data[(length & ~3) + j]
    if _is_len_and_not3(ix):
        return "t0"
    if (isinstance(ix, ast.BinOp) and isinstance(ix.op, ast.Add) and _is_len_and_not3(ix.left)
            and isinstance(ix.right, ast.Constant) and ix.right.value in (1, 2)):
        return f"t{ix.right.value}"
    raise Shape(f"tail index not (length & ~3) + 0..2: {ast.dump(ix)[:100]}")


def lets(pairs, indent="  "):
    return "".join(f"{indent}let {n} := {e}\n" for n, e in pairs)


def extract(repo):
    src = (Path(repo) / "aiokafka" / "partitioner.py").read_text()
    mod = ast.parse(src)
    fn = next((n for n in mod.body if isinstance(n, ast.FunctionDef) and n.name == "murmur2"), None)
    if fn is None or [a.arg for a in fn.args.args] != ["data"]:
        raise Shape("murmur2(data) not found")
    body = [s for s in fn.body
            if not (isinstance(s, ast.Expr) and isinstance(s.value, ast.Constant))]
    # skeleton: length = len(data); <pre...>; for i in range(length4); extra_bytes = length % 4; if*; <post...>; return h
    s0 = body[0]
    if not (isinstance(s0, ast.Assign) and isinstance(s0.targets[0], ast.Name) and s0.targets[0].id == "length"
            and isinstance(s0.value, ast.Call) and getattr(s0.value.func, "id", None) == "len"
            and len(s0.value.args) == 1 and getattr(s0.value.args[0], "id", None) == "data"):
        raise Shape("first statement is not `length = len(data)`")
    fi = next((i for i, s in enumerate(body) if isinstance(s, ast.For)), None)
    if fi is None:
        raise Shape("no for loop")
    pre = stmts(body[1:fi], no_sub)
    if ("length4", "(length / 4)") not in pre:
        raise Shape("`length4 = length // 4` not found before the loop")
    loop = body[fi]
    if not (isinstance(loop.target, ast.Name) and loop.target.id == "i" and isinstance(loop.iter, ast.Call)
            and getattr(loop.iter.func, "id", None) == "range" and len(loop.iter.args) == 1
            and getattr(loop.iter.args[0], "id", None) == "length4" and not loop.orelse):
        raise Shape("loop is not `for i in range(length4)`")
    lb = loop.body
    if not (isinstance(lb[0], ast.Assign) and getattr(lb[0].targets[0], "id", None) == "i4"
            and expr(lb[0].value, no_sub) == "(i * 4)"):
        raise Shape("loop does not start with `i4 = i * 4`")
    mix = stmts(lb[1:], loop_sub)
    if any(n in ("i", "i4", "length", "length4", "data") for n, _ in mix):
        raise Shape("loop body assigns a control variable")
    rest = body[fi + 1:]
    if not (isinstance(rest[0], ast.Assign) and getattr(rest[0].targets[0], "id", None) == "extra_bytes"
            and expr(rest[0].value, no_sub) == "(length % 4)"):
        raise Shape("`extra_bytes = length % 4` not found after the loop")
    ifs = []
    j = 1
    while j < len(rest) and isinstance(rest[j], ast.If):
        t = rest[j].test
        if not (isinstance(t, ast.Compare) and getattr(t.left, "id", None) == "extra_bytes" and len(t.ops) == 1
                and isinstance(t.ops[0], (ast.GtE, ast.Gt, ast.Eq, ast.LtE, ast.Lt, ast.NotEq))
                and isinstance(t.comparators[0], ast.Constant) and isinstance(t.comparators[0].value, int)
                and not rest[j].orelse):
            raise Shape("tail `if` is not `extra_bytes <cmp> <literal>` without else")
        cmpop = {ast.GtE: "≥", ast.Gt: ">", ast.Eq: "=", ast.LtE: "≤", ast.Lt: "<", ast.NotEq: "≠"}[type(t.ops[0])]
        blk = stmts(rest[j].body, tail_sub)
        if any(n != "h" for n, _ in blk):
            raise Shape("tail block assigns something other than h")
        ifs.append((cmpop, t.comparators[0].value, blk))
        j += 1
    if not (isinstance(rest[-1], ast.Return) and getattr(rest[-1].value, "id", None) == "h"):
        raise Shape("function does not end with `return h`")
    post = stmts(rest[j:-1], no_sub)
    # DefaultPartitioner.__call__: idx = murmur2(key); idx &= MASK; idx %= len(all_partitions); return all_partitions[idx]
    cls = next((n for n in mod.body if isinstance(n, ast.ClassDef) and n.name == "DefaultPartitioner"), None)
    call = next((n for n in cls.body if isinstance(n, ast.FunctionDef) and n.name == "__call__"), None) if cls else None
    if call is None:
        raise Shape("DefaultPartitioner.__call__ not found")
    tailc = [s for s in call.body if not isinstance(s, (ast.Expr, ast.If))]
    d = [ast.unparse(s) for s in tailc]
    mask = None
    if (len(tailc) == 4 and d[0] == "idx = murmur2(key)" and isinstance(tailc[1], ast.AugAssign)
            and isinstance(tailc[1].op, ast.BitAnd) and isinstance(tailc[1].value, ast.Constant)
            and getattr(tailc[1].target, "id", None) == "idx"
            and d[2] == "idx %= len(all_partitions)" and d[3] == "return all_partitions[idx]"):
        mask = int(tailc[1].value.value)
    else:
        raise Shape("keyed branch of __call__ is not `idx = murmur2(key); idx &= M; idx %= len(all_partitions); return all_partitions[idx]`")
    return dict(pre=pre, mix=mix, ifs=ifs, post=post, mask=mask)


def lean_file(x):
    pre = [(n, e) for n, e in x["pre"] if n != "length4"]
    pre_consts = [(n, e) for n, e in pre if n != "h"]
    out = ["/-! GENERATED by harness/extract/murmur.py from the source text of aiokafka/partitioner.py — do not edit -/",
           "set_option linter.unusedVariables false",
           "namespace AkVerif.Gen.Murmur", "",
           "/-- the statements before the loop: the initial `h` -/",
           "def init (length : Nat) : Nat :=", lets(pre) + "  h", "",
           "/-- the loop body; `bj` = `data[i4 + j]` -/",
           "def mix (h b0 b1 b2 b3 : Nat) : Nat :=", lets(pre_consts) + lets(x["mix"]) + "  h", "",
           "/-- the `if extra_bytes …` blocks; `e` = `length % 4`, `tj` = `data[(length & ~3) + j]` -/",
           "def tail (h e t0 t1 t2 : Nat) : Nat :="]
    t = lets(pre_consts)
    for cmpop, lit, blk in x["ifs"]:
        t += f"  let h := if e {cmpop} {lit} then (\n" + lets(blk, "    ") + "    h) else h\n"
    out += [t + "  h", "",
            "/-- the statements after the tail: the returned value -/",
            "def final (h : Nat) : Nat :=", lets(pre_consts) + lets(x["post"]) + "  h", "",
            "/-- `idx &= positiveMask` in `DefaultPartitioner.__call__`, followed by `idx %= len(all_partitions)` -/",
            f"def positiveMask : Nat := {x['mask']}", "",
            "/-- the same program as closed data: section name, then (assigned variable, expression) -/",
            "def prog : List (String × List (String × String)) := ["]
    secs = [("pre", x["pre"]), ("loop", x["mix"])]
    secs += [(f"if extra_bytes {c} {l}", b) for c, l, b in x["ifs"]]
    secs += [("post", x["post"]), ("call", [("idx &=", str(x["mask"]))])]
    rows = []
    for name, pairs in secs:
        body = ",\n".join(f'    ("{n}", "{e}")' for n, e in pairs)
        rows.append(f'  ("{name}", [\n{body}])')
    out += [",\n".join(rows) + "]", "", "end AkVerif.Gen.Murmur", ""]
    return "\n".join(out)


def broken_file(msg):
    """extraction failed: a file that still compiles but makes `c17_source_is_model` unprovable"""
    m = msg.replace("-/", "- /")
    return "\n".join([
        f"/-! GENERATED by harness/extract/murmur.py — EXTRACTION FAILED: {m} -/",
        "namespace AkVerif.Gen.Murmur",
        "def init (_length : Nat) : Nat := 0",
        "def mix (_h _b0 _b1 _b2 _b3 : Nat) : Nat := 0",
        "def tail (_h _e _t0 _t1 _t2 : Nat) : Nat := 0",
        "def final (_h : Nat) : Nat := 0",
        "def positiveMask : Nat := 0",
        "def prog : List (String × List (String × String)) := []",
        "end AkVerif.Gen.Murmur", ""])


def regenerate(repo, lean_dir):
    path = Path(lean_dir) / "AkVerif" / "Gen" / "MurmurSrc.lean"
    try:
        txt = lean_file(extract(repo))
        err = None
    except (Shape, SyntaxError, StopIteration, IndexError, AttributeError, OSError) as e:
        txt = broken_file(repr(e))
        err = repr(e)
    if not path.exists() or path.read_text() != txt:
        path.write_text(txt)
    return err


if __name__ == "__main__":
    import sys
    print(lean_file(extract(sys.argv[1] if len(sys.argv) > 1 else "/repo")))
