"""T-extract for C09: struct format strings, offsets, attribute masks and the CRC-32C table of the
record codec, regenerated from /repo's working tree into lean/AkVerif/Gen/Layouts.lean.

* pure-Python modules are imported (class attributes are read as the interpreter computed them);
* `.pyx` / `.pxi` files cannot be imported unbuilt: their `DEF NAME = expr` lines are parsed and the
  (integer, `+`-only) expressions evaluated in file order.
"""
import ast
import importlib
import re
import sys
from pathlib import Path


def _eval_def(expr, env):
    node = ast.parse(expr.strip(), mode="eval").body

    def ev(n):
        if isinstance(n, ast.Constant) and isinstance(n.value, int):
            return n.value
        if isinstance(n, ast.Name):
            return env[n.id]
        if isinstance(n, ast.BinOp) and isinstance(n.op, (ast.Add, ast.Sub, ast.Mult)):
            a, b = ev(n.left), ev(n.right)
            return a + b if isinstance(n.op, ast.Add) else a - b if isinstance(n.op, ast.Sub) else a * b
        if isinstance(n, ast.UnaryOp) and isinstance(n.op, ast.USub):
            return -ev(n.operand)
        raise ValueError(f"unsupported DEF expression: {expr!r}")
    return ev(node)


def pyx_defs(path, env=None):
    """ordered [(name, value)] of the DEF lines of a .pyx/.pxi file"""
    env = dict(env or {})
    out = []
    for line in Path(path).read_text().splitlines():
        m = re.match(r"^DEF\s+(\w+)\s*=\s*([^#]+)", line)
        if m:
            try:
                v = _eval_def(m.group(2), env)
            except Exception:
                continue
            env[m.group(1)] = v
            out.append((m.group(1), v))
    return out


def extract(repo):
    repo = Path(repo)
    sys.path.insert(0, str(repo))
    for m in [m for m in sys.modules if m.startswith("aiokafka")]:
        del sys.modules[m]
    dr = importlib.import_module("aiokafka.record.default_records")
    lr = importlib.import_module("aiokafka.record.legacy_records")
    mr = importlib.import_module("aiokafka.record.memory_records")
    c32 = importlib.import_module("aiokafka.record._crc32c")
    if not str(dr.__file__).startswith(str(repo)):
        raise RuntimeError(f"aiokafka imported from {dr.__file__}")
    D, L, M = dr.DefaultRecordBase, lr.LegacyRecordBase, mr._MemoryRecordsPy
    B = dr._DefaultRecordBatchBuilderPy
    py = [
        ("v2.HEADER_STRUCT.size", D.HEADER_STRUCT.size),
        ("v2.ATTRIBUTES_OFFSET", D.ATTRIBUTES_OFFSET), ("v2.CRC_OFFSET", D.CRC_OFFSET),
        ("v2.AFTER_LEN_OFFSET", D.AFTER_LEN_OFFSET),
        ("v2.CODEC_MASK", D.CODEC_MASK), ("v2.CODEC_NONE", D.CODEC_NONE), ("v2.CODEC_GZIP", D.CODEC_GZIP),
        ("v2.CODEC_SNAPPY", D.CODEC_SNAPPY), ("v2.CODEC_LZ4", D.CODEC_LZ4), ("v2.CODEC_ZSTD", D.CODEC_ZSTD),
        ("v2.TIMESTAMP_TYPE_MASK", D.TIMESTAMP_TYPE_MASK), ("v2.TRANSACTIONAL_MASK", D.TRANSACTIONAL_MASK),
        ("v2.CONTROL_MASK", D.CONTROL_MASK), ("v2.NO_PARTITION_LEADER_EPOCH", D.NO_PARTITION_LEADER_EPOCH),
        ("v2.MAX_RECORD_OVERHEAD", B.MAX_RECORD_OVERHEAD),
        ("legacy.HEADER_STRUCT_V0.size", L.HEADER_STRUCT_V0.size),
        ("legacy.HEADER_STRUCT_V1.size", L.HEADER_STRUCT_V1.size),
        ("legacy.LOG_OVERHEAD", L.LOG_OVERHEAD), ("legacy.CRC_OFFSET", L.CRC_OFFSET),
        ("legacy.MAGIC_OFFSET", L.MAGIC_OFFSET),
        ("legacy.RECORD_OVERHEAD_V0", L.RECORD_OVERHEAD_V0), ("legacy.RECORD_OVERHEAD_V1", L.RECORD_OVERHEAD_V1),
        ("legacy.KEY_OFFSET_V0", L.KEY_OFFSET_V0), ("legacy.KEY_OFFSET_V1", L.KEY_OFFSET_V1),
        ("legacy.KEY_LENGTH", L.KEY_LENGTH), ("legacy.VALUE_LENGTH", L.VALUE_LENGTH),
        ("legacy.CODEC_MASK", L.CODEC_MASK), ("legacy.CODEC_GZIP", L.CODEC_GZIP),
        ("legacy.CODEC_SNAPPY", L.CODEC_SNAPPY), ("legacy.CODEC_LZ4", L.CODEC_LZ4),
        ("legacy.TIMESTAMP_TYPE_MASK", L.TIMESTAMP_TYPE_MASK),
        ("memory.LENGTH_OFFSET", M.LENGTH_OFFSET), ("memory.LOG_OVERHEAD", M.LOG_OVERHEAD),
        ("memory.MAGIC_OFFSET", M.MAGIC_OFFSET), ("memory.MIN_SLICE", M.MIN_SLICE),
    ]
    formats = [
        ("v2.HEADER_STRUCT", D.HEADER_STRUCT.format),
        ("legacy.HEADER_STRUCT_V0", L.HEADER_STRUCT_V0.format),
        ("legacy.HEADER_STRUCT_V1", L.HEADER_STRUCT_V1.format),
    ]
    cdir = repo / "aiokafka" / "record" / "_crecords"
    consts = pyx_defs(cdir / "consts.pxi")
    cenv = dict(consts)
    cy = [("consts." + k, v) for k, v in consts if not k.endswith("FREELIST_SIZE")]
    for stem in ("default_records", "legacy_records", "memory_records"):
        cy += [(f"{stem}.{k}", v) for k, v in pyx_defs(cdir / f"{stem}.pyx", cenv)]
    table = list(c32.CRC_TABLE)
    return {"py": py, "formats": formats, "cy": cy, "crc_table": table,
            "crc_init": c32.CRC_INIT}


def lean_text(x):
    def pairs(ps):
        return ",\n  ".join(f'("{k}", {v})' if v >= 0 else f'("{k}", ({v}))' for k, v in ps)
    fm = ",\n  ".join(f'("{k}", "{v}")' for k, v in x["formats"])
    tbl = ",\n  ".join(", ".join(str(v) for v in x["crc_table"][i:i + 8]) for i in range(0, len(x["crc_table"]), 8))
    return f"""import AkVerif.Model.Wire
/-! GENERATED by harness/extract/layouts.py from /repo's working tree — do not edit -/
namespace AkVerif.Layouts

/-- integer class attributes of default_records.py / legacy_records.py / memory_records.py -/
def pyConsts : List (String × Int) := [
  {pairs(x["py"])}]

/-- `struct.Struct` format strings -/
def pyFormats : List (String × String) := [
  {fm}]

/-- `DEF` constants of consts.pxi and the three .pyx files, expressions evaluated -/
def cyConsts : List (String × Int) := [
  {pairs(x["cy"])}]

/-- `_crc32c.CRC_TABLE` -/
def pyCrcTable : List Nat := [
  {tbl}]

def pyCrcInit : Nat := {x["crc_init"]}

end AkVerif.Layouts
"""


def write(repo, path):
    x = extract(repo)
    text = lean_text(x)
    p = Path(path)
    if not p.exists() or p.read_text() != text:
        p.write_text(text)
    return x
