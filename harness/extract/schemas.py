"""T-extract for C11: walk every Struct subclass of /repo's working tree and emit its SCHEMA as
(a) the line-protocol type text and (b) a Lean term, plus the request/response/builder tables.
Runs inside the check process after `aiokafka` has been imported from /repo."""
import importlib
import pkgutil


def load(repo):
    import sys
    sys.path.insert(0, str(repo))
    for m in [m for m in sys.modules if m.startswith("aiokafka")]:
        del sys.modules[m]
    import aiokafka.protocol as pkg
    if not str(pkg.__file__).startswith(str(repo)):
        raise RuntimeError(f"aiokafka imported from {pkg.__file__}")
    mods = {}
    for mi in pkgutil.iter_modules(pkg.__path__):
        mods[mi.name] = importlib.import_module(f"aiokafka.protocol.{mi.name}")
    mods["coordinator.protocol"] = importlib.import_module("aiokafka.coordinator.protocol")
    mods["sticky"] = importlib.import_module("aiokafka.coordinator.assignors.sticky.sticky_assignor")
    return mods


def all_subclasses(c):
    seen, out, todo = set(), [], [c]
    while todo:
        x = todo.pop()
        for s in x.__subclasses__():
            if s not in seen:
                seen.add(s)
                out.append(s)
                todo.append(s)
    return out


class Unsupported(Exception):
    pass


def ty_of(field, T):
    """-> (text, lean) for a schema field object/class"""
    prim = {
        T.Int8: ("i8", ".int8"), T.Int16: ("i16", ".int16"), T.Int32: ("i32", ".int32"),
        T.Int64: ("i64", ".int64"), T.UInt32: ("u32", ".uint32"), T.Float64: ("f64", ".float64"),
        T.Boolean: ("b", ".bool"), T.Bytes: ("y", ".bytes"), T.CompactBytes: ("cy", ".cbytes"),
        T.UnsignedVarInt32: ("uv", ".uvarint"), T.VarInt32: ("v32", ".varint32"),
        T.VarInt64: ("v64", ".varint64"), T.TaggedFields: ("tg", ".tagged"),
    }
    if isinstance(field, type):
        if field in prim:
            return prim[field]
        raise Unsupported(f"type {field!r}")
    if type(field) is T.CompactString:
        if field.encoding.lower().replace("-", "") != "utf8":
            raise Unsupported("encoding")
        return ("cs", ".cstring")
    if type(field) is T.String:
        if field.encoding.lower().replace("-", "") != "utf8":
            raise Unsupported("encoding")
        return ("s", ".string")
    if type(field) is T.CompactArray:
        a, b = ty_of(field.array_of, T)
        return ("C" + a, f"(.carray {b})")
    if type(field) is T.Array:
        a, b = ty_of(field.array_of, T)
        return ("A" + a, f"(.array {b})")
    if type(field) is T.Schema:
        parts = [ty_of(f, T) for f in field.fields]
        return ("S(" + ",".join(p[0] for p in parts) + ")",
                "(.struct [" + ", ".join(p[1] for p in parts) + "])")
    raise Unsupported(f"field {field!r}")


def extract(repo):
    mods = load(repo)
    T = mods["types"]
    Struct = mods["struct"].Struct
    api = mods["api"]
    entries = []
    skipped = []
    for cls in sorted(all_subclasses(Struct), key=lambda c: (c.__module__, c.__qualname__)):
        if "SCHEMA" not in cls.__dict__ and not getattr(cls, "SCHEMA", None):
            continue
        sch = cls.SCHEMA
        if not isinstance(sch, T.Schema):
            continue
        if cls in (api.RequestStruct, api.Response) or cls.__dict__.get("__abstractmethods__"):
            pass
        try:
            txt, lean = ty_of(sch, T)
        except Unsupported as e:
            skipped.append((cls.__qualname__, str(e)))
            continue
        kind = "other"
        key = ver = -1
        resp = ""
        flex = False
        if issubclass(cls, api.RequestStruct) and isinstance(getattr(cls, "API_VERSION", None), int):
            kind = "req"
            key, ver = cls.API_KEY, cls.API_VERSION
            resp = cls.RESPONSE_TYPE.__qualname__
            flex = bool(cls.FLEXIBLE_VERSION)
        elif issubclass(cls, api.Response) and isinstance(getattr(cls, "API_VERSION", None), int):
            kind = "resp"
            key, ver = cls.API_KEY, cls.API_VERSION
        elif cls.__dict__.get("SCHEMA") is None:
            continue
        entries.append(dict(name=cls.__qualname__, module=cls.__module__, kind=kind, key=key, ver=ver,
                            resp=resp, flex=flex, ty=txt, lean=lean, cls=cls,
                            names=list(sch.names)))
    builders = []
    for cls in sorted(all_subclasses(api.Request), key=lambda c: c.__qualname__):
        if not hasattr(cls, "_CLASSES") or not isinstance(getattr(cls, "API_KEY", None), int):
            continue
        builders.append(dict(name=cls.__qualname__, key=cls.API_KEY,
                             classes=[c.__qualname__ for c in cls._CLASSES],
                             versions=[c.API_VERSION for c in cls._CLASSES],
                             keys=[c.API_KEY for c in cls._CLASSES],
                             allow_unknown=bool(cls.ALLOW_UNKNOWN_API_VERSION), cls=cls))
    return mods, entries, builders, skipped


def lean_file(entries, builders):
    out = ["import AkVerif.Model.Wire",
           "/-! GENERATED by harness/extract/schemas.py from /repo's working tree — do not edit -/",
           "namespace AkVerif.Gen", "open AkVerif.Wire", "",
           "structure SchemaEntry where",
           "  name : String", "  kind : Nat  -- 0 request, 1 response, 2 other", "  apiKey : Int", "  version : Int",
           "  flexible : Bool", "  respName : String", "  ty : Ty", "",
           "structure BuilderEntry where", "  name : String", "  apiKey : Int", "  versions : List Nat",
           "  classKeys : List Int", "  allowUnknown : Bool", "", "def schemas : List SchemaEntry := ["]
    kinds = {"req": 0, "resp": 1, "other": 2}
    rows = []
    for e in entries:
        rows.append(f'  ⟨"{e["name"]}", {kinds[e["kind"]]}, {e["key"]}, {e["ver"]}, '
                    f'{"true" if e["flex"] else "false"}, "{e["resp"]}", {e["lean"][1:-1] if e["lean"].startswith("(") else e["lean"]}⟩')
    out.append(",\n".join(rows))
    out.append("]")
    out.append("")
    out.append("def builders : List BuilderEntry := [")
    rows = []
    for b in builders:
        rows.append(f'  ⟨"{b["name"]}", {b["key"]}, {b["versions"]}, {b["keys"]}, '
                    f'{"true" if b["allow_unknown"] else "false"}⟩')
    out.append(",\n".join(rows))
    out.append("]")
    out.append("end AkVerif.Gen")
    return "\n".join(out) + "\n"
