#!/usr/bin/env python3
"""regenerates every generated Lean table (lean/AkVerif/Gen/*.lean) from the given working tree.

Run by vlib.Ctx.prove() of EVERY check, in a process of its own: a table left behind by an earlier
run against a different tree (another change under test) must never decide a later run.  A table is
rewritten only when its content changes; a failing extractor leaves its file alone (the check that
owns the table reports the extraction error itself)."""
import sys
from pathlib import Path

HERE = Path(__file__).resolve()
VERIF = HERE.parent.parent.parent
sys.path.insert(0, str(HERE.parent.parent))


def main():
    repo = Path(sys.argv[1])
    lean = VERIF / "lean"
    import logging
    logging.disable(logging.CRITICAL)
    done = []
    try:
        from extract import schemas as X
        _mods, entries, builders, _skipped = X.extract(repo)
        p = lean / "AkVerif" / "Gen" / "Schemas.lean"
        txt = X.lean_file(entries, builders)
        if not p.exists() or p.read_text() != txt:
            p.write_text(txt)
            done.append("Schemas*")
        else:
            done.append("Schemas")
    except Exception as e:  # noqa: BLE001
        print(f"schemas: {e!r}")
    try:
        from extract import layouts
        layouts.write(repo, lean / "AkVerif" / "Gen" / "Layouts.lean")
        done.append("Layouts")
    except Exception as e:  # noqa: BLE001
        print(f"layouts: {e!r}")
    try:
        from extract import txntable
        txntable.regenerate(repo, lean)
        done.append("TxnTable")
    except Exception as e:  # noqa: BLE001
        print(f"txntable: {e!r}")
    try:
        from extract import murmur
        err = murmur.regenerate(repo, lean)
        done.append("MurmurSrc" if err is None else "MurmurSrc(extraction failed)")
        if err:
            print(f"murmur: {err}")
    except Exception as e:  # noqa: BLE001
        print(f"murmur: {e!r}")
    print("regenerated:", ",".join(done))


if __name__ == "__main__":
    main()
