#!/usr/bin/env python3
"""regenerates the seeded-changes table and the findings table of DESIGN.md (between markers)"""
import json, glob, os, re
V = os.path.dirname(os.path.dirname(os.path.abspath(__file__)))

def seeds_table():
    rows = ["| seed | property | the change (short) | detected by the quick check | signature(s) that fired |", "|---|---|---|---|---|"]
    for d in sorted(glob.glob(f"{V}/seeded/*/")):
        mp = d + "meta.json"
        if not os.path.exists(mp):
            continue
        m = json.load(open(mp))
        det = m.get("detection")
        if det is None:
            detected = "yes" if m.get("detected_by") else "?"
            sig = (m.get("detected_by") or "")[:110]
        else:
            detected = "yes" if det["detected"] else "**no**"
            if m.get("neutralised_by_fix") and not det["detected"]:
                detected = "n/a (harmless after fix " + m["neutralised_by_fix"]["commit"] + ")"
            sig = ", ".join(f["signature"] for f in det["fired"][:2])[:110]
        ch = re.sub(r"\s+", " ", m.get("change", ""))
        ch = ch.replace("see notes.md (written by the seeding sub-agent): ", "").replace("|", "/")[:150]
        rows.append(f"| {m['id']} | {m['property']} | {ch} | {detected} | {sig} |")
    return "\n".join(rows)

def findings_table():
    kf = json.load(open(f"{V}/known_findings.json"))
    rows = ["| property | status | commit | what |", "|---|---|---|---|"]
    for k in kf:
        txt = (k.get("line") or k.get("text") or "").replace("|", "/")
        txt = re.sub(r"^fixed: property=\S+ \S+ ", "", txt)[:260]
        rows.append(f"| {k['property']} | {k['status']} | {k.get('commit','')} | {txt} |")
    return "\n".join(rows)

def overview_table():
    man = json.load(open(f"{V}/MANIFEST.json"))
    kf = json.load(open(f"{V}/known_findings.json"))
    props = {json.loads(l)["id"]: json.loads(l)["title"] for l in open(f"{V}/properties.jsonl") if l.strip()}
    rows = ["| id | property | level | theorems in Props | `_partial` theorems | fixed defects | known findings | seeds caught |",
            "|---|---|---|---|---|---|---|---|"]
    seeds = {}
    for d in glob.glob(f"{V}/seeded/*/meta.json"):
        m = json.load(open(d))
        det = m.get("detection")
        ok = bool(m.get("detected_by")) if det is None else det["detected"]
        neutral = bool(m.get("neutralised_by_fix")) and not ok
        a = seeds.setdefault(m["property"], [0, 0, 0])
        a[0] += 1; a[1] += int(ok); a[2] += int(neutral)
    for c in man["checks"]:
        pid = c["property_id"]
        src = open(f"{V}/lean/AkVerif/Props/{pid}.lean").read()
        ths = re.findall(r"^theorem\s+(\S+)", src, re.M)
        part = [t for t in ths if "partial" in t]
        nf = sum(1 for k in kf if k["property"] == pid and k["status"] == "fixed")
        nk = sum(1 for k in kf if k["property"] == pid and k["status"] == "known")
        sd = seeds.get(pid, [0, 0, 0])
        sdt = f"{sd[1]}/{sd[0]}" + (f" (+{sd[2]} harmless after a fix)" if sd[2] else "")
        rows.append(f"| {pid} | {props[pid][:70]} | {c['level_claimed']['category']} | {len(ths)} | {', '.join(part) or '—'} | {nf} | {nk} | {sdt} |")
    rows.append(f"| | | | | | **{sum(1 for k in kf if k['status']=='fixed')}** | **{sum(1 for k in kf if k['status']=='known')}** | |")
    return "\n".join(rows)

def main():
    p = f"{V}/DESIGN.md"
    s = open(p).read()
    for name, fn in (("SEEDS", seeds_table), ("FINDINGS", findings_table), ("OVERVIEW", overview_table)):
        a, b = f"<!-- {name}-BEGIN -->", f"<!-- {name}-END -->"
        if a in s and b in s:
            s = s[:s.index(a) + len(a)] + "\n" + fn() + "\n" + s[s.index(b):]
    open(p, "w").write(s)

if __name__ == "__main__":
    main()
