#!/usr/bin/env python3
"""regenerates the seeded-changes table and the findings table of DESIGN.md (between markers)"""
import json, glob, os, re
V = os.path.dirname(os.path.dirname(os.path.abspath(__file__)))

def seeds_table():
    rows = ["| seed | property | the change (short) | detected by the quick check | signature(s) that fired |", "|---|---|---|---|---|"]
    for d in sorted(glob.glob(f"{V}/seeded/*/")):
        mp = d + "meta.json"
        if not os.path.exists(mp):
            continue
        m = json.load(open(mp))
        det = m.get("detection")
        if det is None:
            detected = "yes" if m.get("detected_by") else "?"
            sig = (m.get("detected_by") or "")[:110]
        else:
            detected = "yes" if det["detected"] else "**no**"
            if m.get("neutralised_by_fix") and not det["detected"]:
                detected = "n/a (harmless after fix " + m["neutralised_by_fix"]["commit"] + ")"
            sig = ", ".join(f["signature"] for f in det["fired"][:2])[:110]
        ch = re.sub(r"\s+", " ", m.get("change", ""))
        ch = ch.replace("see notes.md (written by the seeding sub-agent): ", "").replace("|", "/")[:150]
        rows.append(f"| {m['id']} | {m['property']} | {ch} | {detected} | {sig} |")
    return "\n".join(rows)

def findings_table():
    kf = json.load(open(f"{V}/known_findings.json"))
    rows = ["| property | status | commit | what |", "|---|---|---|---|"]
    for k in kf:
        txt = (k.get("line") or k.get("text") or "").replace("|", "/")
        txt = re.sub(r"^fixed: property=\S+ \S+ ", "", txt)[:260]
        rows.append(f"| {k['property']} | {k['status']} | {k.get('commit','')} | {txt} |")
    return "\n".join(rows)

def main():
    p = f"{V}/DESIGN.md"
    s = open(p).read()
    for name, fn in (("SEEDS", seeds_table), ("FINDINGS", findings_table)):
        a, b = f"<!-- {name}-BEGIN -->", f"<!-- {name}-END -->"
        if a in s and b in s:
            s = s[:s.index(a) + len(a)] + "\n" + fn() + "\n" + s[s.index(b):]
    open(p, "w").write(s)

if __name__ == "__main__":
    main()
