"""minimal virtual-time asyncio loop + in-memory transport (used by the C12 tie; the full cluster
simulator lives in harness/sim/)"""
import asyncio
import heapq


class VTLoop(asyncio.SelectorEventLoop):
    def __init__(self):
        super().__init__()
        self._vt = 0.0
        self.auto_advance = False      # True: jump to the next timer when idle
        self.transports = []

    def time(self):
        return self._vt

    def _run_once(self):
        if self.auto_advance and not self._ready and self._scheduled:
            while self._scheduled and self._scheduled[0]._cancelled:
                h = heapq.heappop(self._scheduled)
                h._scheduled = False
            if self._scheduled and self._scheduled[0]._when > self._vt:
                self._vt = self._scheduled[0]._when
        super()._run_once()

    def advance(self, dt):
        """move the clock; due timers fire on the next loop iterations"""
        self._vt += dt

    async def settle(self, rounds=12):
        for _ in range(rounds):
            await asyncio.sleep(0)

    async def create_connection(self, protocol_factory, host=None, port=None, **kw):
        proto = protocol_factory()
        tr = MemTransport(self, proto)
        self.transports.append(tr)
        self.call_soon(proto.connection_made, tr)
        await asyncio.sleep(0)
        return tr, proto


class MemTransport(asyncio.Transport):
    def __init__(self, loop, proto):
        super().__init__()
        self.loop, self.proto = loop, proto
        self.closing = False
        self.written = bytearray()

    def write(self, data):
        self.written += bytes(data)

    def is_closing(self):
        return self.closing

    def close(self):
        if not self.closing:
            self.closing = True
            self.loop.call_soon(self.proto.connection_lost, None)

    def abort(self):
        self.close()

    def get_extra_info(self, name, default=None):
        return default

    # --- what the peer does
    def feed(self, data: bytes):
        if not self.closing:
            self.proto.data_received(data)

    def peer_eof(self):
        if not self.closing:
            self.closing = True
            self.proto.eof_received()
            self.loop.call_soon(self.proto.connection_lost, None)

    def peer_reset(self):
        if not self.closing:
            self.closing = True
            self.loop.call_soon(self.proto.connection_lost, ConnectionResetError("reset by peer"))
