-- This module serves as the root of the `AkVerif` library.
-- Import modules here that should be built as part of the library.
import AkVerif.Basic
