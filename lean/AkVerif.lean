-- root of the AkVerif library: models, lemmas, property theorems
import AkVerif.Model.Util
import AkVerif.Props.C17
import AkVerif.Props.C14
import AkVerif.Props.C11
import AkVerif.Props.C12
import AkVerif.Props.C15
import AkVerif.Props.C18
import AkVerif.Props.C08
import AkVerif.Props.C03
import AkVerif.Props.C13
import AkVerif.Props.C04
import AkVerif.Props.C05
import AkVerif.Props.C01
import AkVerif.Props.C02
import AkVerif.Props.C09
import AkVerif.Props.C16
import AkVerif.Props.C07
