import AkVerif.Lemmas.Scram
/-!
# C18 — SCRAM login proves the password and authenticates the server

Theorems about the model `AkVerif.Scram` (`Model/Scram.lean`) of `aiokafka.conn.ScramAuthenticator`.
`H`, `HMAC`, `Hi`, base64 and UTF-8 encoding are uninterpreted (`Crypto β`); every theorem about the
client alone holds for EVERY interpretation; the honest-exchange theorems need the `Laws`
(base64 round trip, no `,` in base64 text, equal HMAC output lengths, XOR cancellation — the
last one proved for byte lists in `scram_honest_server_accepts_bytes`).

Outside the model (trusted, see evidence): that nobody without the password can produce
`HMAC(ServerKey, AuthMessage)` — the theorems reduce "never completes with a server that does not
know the password" to exactly that signature being presented.
-/
namespace AkVerif.Scram
variable {β : Type}

/-! ## the client's messages are valid RFC 5802 messages -/

/-- **user names with `,` and `=`**: for every user name the escaped form is a valid RFC 5802
    `saslname` (no raw `,`, every `=` starts `=2C`/`=3D`) and un-escapes to the user name -/
theorem scram_saslname_roundtrip (u : Str) :
    unesc (saslName u) = some u ∧ ',' ∉ saslName u ∧ validSaslName (saslName u) = true :=
  ⟨unesc_saslName u, comma_not_mem_saslName u, validSaslName_saslName u⟩

/-- **client-first**: the message is `n,,n=<saslname>,r=<nonce>`, the transcript starts with the
    bare part, and an RFC 5802 server parses back exactly this user and this nonce (the client's
    own nonce is `uuid4().hex`, hence without `,`) -/
theorem scram_client_first_wellformed (C : Crypto β) (user pw cn : Str) (hcn : ',' ∉ cn) :
    (start C user pw cn).2 = cs!"n,," ++ (cs!"n=" ++ saslName user ++ cs!",r=" ++ cn) ∧
    (start C user pw cn).1.auth = clientFirstBare user cn ∧
    (start C user pw cn).1.nonce = cn ∧
    parseClientFirst (start C user pw cn).2 = some (user, cn, clientFirstBare user cn) :=
  ⟨rfl, rfl, rfl, parseClientFirst_start user cn hcn⟩

/-- **client-final**: whenever the client answers a server-first message `sf`, its answer is
    `c=biws,r=<combined nonce>,p=<base64 proof>` with
    `proof = ClientKey XOR HMAC(H(ClientKey), AuthMessage)`, `ClientKey = HMAC(Hi(pw, salt, i),
    "Client Key")`, and `AuthMessage = client-first-bare "," sf "," client-final-without-proof` —
    the RFC 5802 §3 definitions — where salt and `i` are the ones in `sf` -/
theorem scram_client_final_wellformed (C : Crypto β) (user pw cn sf : Str) (st2 : St2 β) (m2 : Str)
    (h : onServerFirst C (start C user pw cn).1 sf = .ok (st2, m2)) :
    ∃ s64 salt istr i, attr 's' sf = some s64 ∧ C.b64dec s64 = some salt ∧
      attr 'i' sf = some istr ∧ pyInt istr = some (Int.ofNat i) ∧ 1 ≤ i ∧ i < 2 ^ 31 ∧
      attr 'r' sf = some st2.nonce ∧
      st2.auth = clientFirstBare user cn ++ ',' :: sf ++ ',' :: finalWithoutProof st2.nonce ∧
      m2 = finalWithoutProof st2.nonce ++ cs!",p=" ++ C.b64enc st2.proof ∧
      st2.proof =
        C.xor (C.hmac (C.hi (C.utf8 pw) salt i) (C.utf8 clientKeyLabel))
          (C.hmac (C.H (C.hmac (C.hi (C.utf8 pw) salt i) (C.utf8 clientKeyLabel))) (C.utf8 st2.auth)) := by
  obtain ⟨n, s64, salt, istr, i, h1, _, h3, h4, h5, h6, h7, h8, h9⟩ :=
    (onServerFirst_ok_iff C _ sf _).1 h
  have hi : i = Int.ofNat i.toNat := by
    have : 0 ≤ i := by omega
    simp [Int.toNat_of_nonneg this]
  refine ⟨s64, salt, istr, i.toNat, h3, h4, h5, by rw [h6, ← hi], by omega, by omega, ?_⟩
  simp only [derive, start, Prod.mk.injEq] at h9
  obtain ⟨rfl, rfl⟩ := h9
  refine ⟨h1, ?_, ?_, rfl⟩
  · simp [finalWithoutProof]
  · simp [finalWithoutProof]

/-! ## a server that knows the password accepts -/

/-- **honest exchange** (any lawful interpretation of the crypto functions): for EVERY user name,
    password, salt, iteration count `1 ≤ i < 2^31` and nonces without `,`, an RFC 5802 server
    holding `salt, i, StoredKey, ServerKey` derived from the same password (i) parses the client's
    messages, (ii) computes the same AuthMessage, (iii) verifies the client proof
    (`H(proof XOR ClientSignature) = StoredKey`), and (iv) the client accepts the server's
    signature and completes.  No hypothesis on the user name: escaping makes `,`/`=` harmless. -/
theorem scram_honest_server_accepts [DecidableEq β] (C : Crypto β) (len : β → Nat) (L : Laws C len)
    (db : Str → Option (Cred β)) (ext user pw cn : Str) (salt : β) (i : Nat)
    (hcn : ',' ∉ cn) (hext : ',' ∉ ext) (hi1 : 1 ≤ i) (hi2 : i < 2 ^ 31)
    (hdb : db user = some (mkCred C pw salt i)) :
    exchange C db ext user pw cn = .completed := by
  have hsn : ',' ∉ cn ++ ext := by simp [hcn, hext]
  have hsrv1 : serverFirst C db ext (cs!"n,," ++ clientFirstBare user cn)
      = some ({ cred := mkCred C pw salt i, nonce := cn ++ ext,
                authPrefix := clientFirstBare user cn ++ ',' :: sfText (cn ++ ext) (C.b64enc salt) (natDec i) },
              sfText (cn ++ ext) (C.b64enc salt) (natDec i)) := by
    unfold serverFirst
    rw [parseClientFirst_start user cn hcn]
    dsimp only
    rw [hdb]
    rfl
  have hcl1 : onServerFirst C { pw := C.utf8 pw, nonce := cn, auth := clientFirstBare user cn }
        (sfText (cn ++ ext) (C.b64enc salt) (natDec i))
      = .ok (derive C (C.utf8 pw)
          (clientFirstBare user cn ++ ',' :: sfText (cn ++ ext) (C.b64enc salt) (natDec i)
            ++ cs!",c=biws,r=" ++ (cn ++ ext)) (cn ++ ext) salt i) := by
    rw [onServerFirst_ok_iff]
    obtain ⟨a1, a2, a3⟩ := attrs_sfText (cn ++ ext) (C.b64enc salt) (natDec i) hsn
      (L.b64_nocomma salt) (comma_not_mem_natDec i)
    exact ⟨cn ++ ext, C.b64enc salt, salt, natDec i, (i : Int), a1, isPrefixOf_append cn ext, a2,
      L.b64_rt salt, a3, pyInt_natDec i, by omega, by omega, by simp⟩
  -- the client's AuthMessage …
  generalize hauth : clientFirstBare user cn ++ ',' :: sfText (cn ++ ext) (C.b64enc salt) (natDec i)
            ++ cs!",c=biws,r=" ++ (cn ++ ext) = auth at hcl1
  -- … is the one the server assembles from what it received and sent
  have hauth' : (clientFirstBare user cn ++ ',' :: sfText (cn ++ ext) (C.b64enc salt) (natDec i))
      ++ ',' :: cs!"c=biws" ++ ',' :: (cs!"r=" ++ (cn ++ ext)) = auth := by
    rw [← hauth]; simp
  have hsrv2 : serverFinal C
        (SrvSt.mk (mkCred C pw salt i) (cn ++ ext)
          (clientFirstBare user cn ++ ',' :: sfText (cn ++ ext) (C.b64enc salt) (natDec i)))
        (derive C (C.utf8 pw) auth (cn ++ ext) salt i).2
      = some ('v' :: '=' :: C.b64enc (C.hmac (mkCred C pw salt i).serverKey (C.utf8 auth))) := by
    unfold serverFinal
    simp only [derive]
    rw [splitOn_clientFinal _ _ hsn (L.b64_nocomma _)]
    dsimp only
    rw [stripPre_append, stripPre_append]
    simp only [ne_eq, not_true_eq_false, if_false, L.b64_rt]
    rw [hauth']
    have hx := L.xor_cancel (C.hmac (C.hi (C.utf8 pw) salt i) (C.utf8 clientKeyLabel))
      (C.hmac (C.H (C.hmac (C.hi (C.utf8 pw) salt i) (C.utf8 clientKeyLabel))) (C.utf8 auth))
      (L.hmac_len _ _ _ _)
    simp [mkCred, hx]
  have hcl2 : onServerFinal C (derive C (C.utf8 pw) auth (cn ++ ext) salt i).1
      ('v' :: '=' :: C.b64enc (C.hmac (mkCred C pw salt i).serverKey (C.utf8 auth))) = .ok () := by
    rw [onServerFinal_ok_iff]
    exact ⟨_, attr_v _ (L.b64_nocomma _), by rw [L.b64_rt]; rfl⟩
  unfold exchange
  simp only [start]
  rw [hsrv1]
  dsimp only
  rw [hcl1]
  dsimp only
  rw [hsrv2]
  dsimp only
  rw [hcl2]

/-- the same over BYTE LISTS with the real `_xor_bytes` (zip-truncating XOR): what remains assumed
    of `hashlib`/`hmac`/`base64` is only that they are functions, that HMAC digests have one length,
    that base64 text has no `,` and decodes back -/
theorem scram_honest_server_accepts_bytes (utf8 : Str → List UInt8) (H : List UInt8 → List UInt8)
    (hmac : List UInt8 → List UInt8 → List UInt8) (hi : List UInt8 → List UInt8 → Nat → List UInt8)
    (b64enc : List UInt8 → Str) (b64dec : Str → Option (List UInt8)) (hlen : Nat)
    (h_rt : ∀ x, b64dec (b64enc x) = some x) (h_nc : ∀ x, ',' ∉ b64enc x)
    (h_len : ∀ k m, (hmac k m).length = hlen)
    (db : Str → Option (Cred (List UInt8))) (ext user pw cn : Str) (salt : List UInt8) (i : Nat)
    (hcn : ',' ∉ cn) (hext : ',' ∉ ext) (hi1 : 1 ≤ i) (hi2 : i < 2 ^ 31)
    (hdb : db user = some (mkCred (bytesCrypto utf8 H hmac hi b64enc b64dec) pw salt i)) :
    exchange (bytesCrypto utf8 H hmac hi b64enc b64dec) db ext user pw cn = .completed :=
  scram_honest_server_accepts _ List.length
    (bytesCrypto_laws utf8 H hmac hi b64enc b64dec hlen h_rt h_nc h_len) db ext user pw cn salt i
    hcn hext hi1 hi2 hdb

/-! ## the client aborts unless the server nonce extends its own -/

/-- if the client goes on after server-first, the `r=` attribute of that message starts with the
    client's nonce (and becomes the combined nonce) -/
theorem scram_nonce_prefix_checked (C : Crypto β) (st : St1 β) (sf : Str) (st2 : St2 β) (m2 : Str)
    (h : onServerFirst C st sf = .ok (st2, m2)) :
    ∃ n, attr 'r' sf = some n ∧ st.nonce <+: n ∧ st2.nonce = n := by
  obtain ⟨n, _, salt, _, i, h1, h2, _, _, _, _, _, _, h9⟩ := (onServerFirst_ok_iff C st sf _).1 h
  refine ⟨n, h1, List.isPrefixOf_iff_prefix.1 h2, ?_⟩
  simp only [derive, Prod.mk.injEq] at h9
  rw [h9.1]

/-- contrapositive, for every server-first message whatsoever (malformed, nonce missing, nonce
    not extending): the client raises, and the login never completes — whatever comes next -/
theorem scram_bad_nonce_aborts [DecidableEq β] (C : Crypto β) (user pw cn sf sfin : Str)
    (h : nonceExtends cn sf = false) :
    (∃ e, onServerFirst C (start C user pw cn).1 sf = .error e) ∧
    (∃ e, clientRun C user pw cn sf sfin = .abort1 e) := by
  have key : ∃ e, onServerFirst C (start C user pw cn).1 sf = .error e := by
    cases hr : onServerFirst C (start C user pw cn).1 sf with
    | error e => exact ⟨e, rfl⟩
    | ok r =>
      obtain ⟨n, h1, h2, _⟩ := scram_nonce_prefix_checked C _ sf r.1 r.2 hr
      have : nonceExtends cn sf = true := by
        unfold nonceExtends
        rw [h1]
        exact List.isPrefixOf_iff_prefix.2 h2
      rw [h] at this; cases this
  refine ⟨key, ?_⟩
  obtain ⟨e, he⟩ := key
  exact ⟨e, by unfold clientRun; rw [he]⟩

/-- the precise reason when a nonce is present but wrong -/
theorem scram_wrong_nonce_reason (C : Crypto β) (st : St1 β) (sf n : Str)
    (h1 : attr 'r' sf = some n) (h2 : ¬ st.nonce <+: n) :
    onServerFirst C st sf = .error .nonce := by
  have hf : st.nonce.isPrefixOf n = false := by
    cases hx : st.nonce.isPrefixOf n with
    | true => exact absurd (List.isPrefixOf_iff_prefix.1 hx) h2
    | false => rfl
  unfold onServerFirst
  unfold attr at h1
  cases hp : parseAttrs sf with
  | none => rw [hp] at h1; cases h1
  | some ps =>
    rw [hp] at h1
    dsimp only at h1 ⊢
    rw [h1]
    dsimp only
    rw [hf]
    rfl

/-! ## the client completes only on the signature derived from the password -/

/-- **completion ⇔ signature**: the login completes exactly when the server nonce extends the
    client's and the `v=` attribute of server-final decodes to
    `HMAC(HMAC(Hi(password, salt, i), "Server Key"), AuthMessage)` for the salt and iteration count
    the client was given and the RFC 5802 AuthMessage of the messages as exchanged
    (`passwordSignature`).  Holds for every interpretation of the crypto functions. -/
theorem scram_completes_iff_signature [DecidableEq β] (C : Crypto β) (user pw cn sf sfin : Str) :
    clientRun C user pw cn sf sfin = .completed ↔
    ∃ n v64 sig, attr 'r' sf = some n ∧ cn <+: n ∧
      attr 'v' sfin = some v64 ∧ C.b64dec v64 = some sig ∧
      passwordSignature C pw (clientFirstBare user cn) sf (finalWithoutProof n) = some sig := by
  unfold clientRun
  constructor
  · intro h
    cases hr : onServerFirst C (start C user pw cn).1 sf with
    | error e => rw [hr] at h; cases h
    | ok r =>
      rw [hr] at h
      dsimp only at h
      cases hf : onServerFinal C r.1 sfin with
      | error e => rw [hf] at h; cases h
      | ok u =>
        obtain ⟨n, s64, salt, istr, i, h1, h2, h3, h4, h5, h6, h7, h8, h9⟩ :=
          (onServerFirst_ok_iff C _ sf r).1 hr
        obtain ⟨v64, hv1, hv2⟩ := (onServerFinal_ok_iff C r.1 sfin).1 (by rw [hf])
        refine ⟨n, v64, r.1.serverSig, h1, List.isPrefixOf_iff_prefix.1 h2, hv1, hv2, ?_⟩
        have hrange : ¬ (i < 1 ∨ 2 ^ 31 ≤ i) := by omega
        unfold passwordSignature
        rw [h3, h5]
        dsimp only
        rw [h4, h6]
        dsimp only
        rw [if_neg hrange, h9]
        simp [derive, start, finalWithoutProof]
  · rintro ⟨n, v64, sig, h1, h2, hv1, hv2, hps⟩
    unfold passwordSignature at hps
    cases h3 : attr 's' sf with
    | none => rw [h3] at hps; cases hps
    | some s64 =>
      cases h5 : attr 'i' sf with
      | none => rw [h3, h5] at hps; cases hps
      | some istr =>
        rw [h3, h5] at hps
        dsimp only at hps
        cases h4 : C.b64dec s64 with
        | none => rw [h4] at hps; cases hps
        | some salt =>
          cases h6 : pyInt istr with
          | none => rw [h4, h6] at hps; cases hps
          | some i =>
            rw [h4, h6] at hps
            dsimp only at hps
            by_cases hrange : i < 1 ∨ 2 ^ 31 ≤ i
            · rw [if_pos hrange] at hps; cases hps
            · rw [if_neg hrange] at hps
              have hok := (onServerFirst_ok_iff C (start C user pw cn).1 sf _).2
                ⟨n, s64, salt, istr, i, h1, List.isPrefixOf_iff_prefix.2 h2, h3, h4, h5, h6,
                  by omega, by omega, rfl⟩
              rw [hok]
              dsimp only
              have hsig : (derive C (start C user pw cn).1.pw
                  ((start C user pw cn).1.auth ++ ',' :: sf ++ cs!",c=biws,r=" ++ n) n salt
                  i.toNat).1.serverSig = sig := by
                rw [← Option.some.injEq, ← hps]
                simp [derive, start, finalWithoutProof]
              have hfin := (onServerFinal_ok_iff C (derive C (start C user pw cn).1.pw
                  ((start C user pw cn).1.auth ++ ',' :: sf ++ cs!",c=biws,r=" ++ n) n salt
                  i.toNat).1 sfin).2 ⟨v64, hv1, by rw [hv2, hsig]⟩
              rw [hfin]

/-- **wrong signature ⇒ abort**: any server-final whose `v=` does not decode to the expected
    signature (flipped bits, truncation, other key, other transcript, missing, malformed) makes
    `process_server_final_message` raise -/
theorem scram_wrong_signature_aborts [DecidableEq β] (C : Crypto β) (st : St2 β) (sfin : Str)
    (h : ∀ v64, attr 'v' sfin = some v64 → C.b64dec v64 ≠ some st.serverSig) :
    ∃ e, onServerFinal C st sfin = .error e := by
  cases hf : onServerFinal C st sfin with
  | error e => exact ⟨e, rfl⟩
  | ok u =>
    obtain ⟨v64, h1, h2⟩ := (onServerFinal_ok_iff C st sfin).1 (by rw [hf])
    exact absurd h2 (h v64 h1)

/-! ## the statement on observations (what the check evaluates on the real client's behaviour) -/

/-- `holds` says what the property says -/
theorem scram_holds_iff (o : Obs) :
    holds o = true ↔
      ((nonceExtends o.cnonce o.sf = false → o.aborted1 = true) ∧
       (o.completed = true → o.sigOk = true ∧ o.aborted1 = false ∧ nonceExtends o.cnonce o.sf = true)) := by
  unfold holds
  cases nonceExtends o.cnonce o.sf <;> cases o.aborted1 <;> cases o.completed <;> cases o.sigOk <;> simp

/-- the model's own behaviour satisfies `holds`, for every interpretation and every pair of
    server messages: `sigOk` being "`v=` decodes to the password-derived signature" -/
theorem scram_model_satisfies_holds [DecidableEq β] (C : Crypto β) (user pw cn sf sfin : Str)
    (sigOk : Bool)
    (hsig : sigOk = true ↔ ∃ n v64 sig, attr 'r' sf = some n ∧ attr 'v' sfin = some v64 ∧
      C.b64dec v64 = some sig ∧
      passwordSignature C pw (clientFirstBare user cn) sf (finalWithoutProof n) = some sig) :
    holds { cnonce := cn, sf := sf,
            aborted1 := (match onServerFirst C (start C user pw cn).1 sf with
                         | .error _ => true | .ok _ => false),
            completed := decide (clientRun C user pw cn sf sfin = .completed),
            sigOk := sigOk } = true := by
  rw [scram_holds_iff]
  dsimp only
  constructor
  · intro hne
    obtain ⟨⟨e, he⟩, _⟩ := scram_bad_nonce_aborts C user pw cn sf sfin hne
    rw [he]
  · intro hc
    have hc' : clientRun C user pw cn sf sfin = .completed := by simpa using hc
    obtain ⟨n, v64, sig, h1, h2, h3, h4, h5⟩ := (scram_completes_iff_signature C user pw cn sf sfin).1 hc'
    refine ⟨hsig.2 ⟨n, v64, sig, h1, h3, h4, h5⟩, ?_, ?_⟩
    · unfold clientRun at hc'
      cases hr : onServerFirst C (start C user pw cn).1 sf with
      | error e => rw [hr] at hc'; cases hc'
      | ok r => rfl
    · unfold nonceExtends
      rw [h1]
      exact List.isPrefixOf_iff_prefix.2 h2

/-! ## non-vacuity: a lawful toy interpretation and concrete runs -/

/-- toy crypto over `Nat` (length 0 for everything, base64 = unary) — only to show that the
    hypotheses of the theorems are satisfiable and the runs below are not vacuous -/
def toyCrypto : Crypto Nat :=
  { utf8 := fun s => s.length, H := fun x => x + 1, hmac := fun k m => 3 * k + m + 7,
    hi := fun p s i => p + 2 * s + i, xor := Nat.xor,
    b64enc := fun n => List.replicate n 'A', b64dec := fun s => some s.length }

theorem toyCrypto_laws : Laws toyCrypto (fun _ => 0) where
  b64_rt := by intro x; simp [toyCrypto]
  b64_nocomma := by
    intro x h
    have := List.eq_of_mem_replicate h
    cases this
  hmac_len := by intros; rfl
  xor_cancel := by
    intro a b _
    show (a ^^^ b) ^^^ b = a
    rw [Nat.xor_assoc, Nat.xor_self, Nat.xor_zero]

/-- a user name with `,` and `=` logs in against the honest server (hypotheses of
    `scram_honest_server_accepts` met by a concrete state) -/
example : exchange toyCrypto (fun u => if u = cs!"a,b=c" then some (mkCred toyCrypto cs!"pw" 5 4096) else none)
    cs!"SRV" cs!"a,b=c" cs!"pw" cs!"abc123" = .completed :=
  scram_honest_server_accepts toyCrypto _ toyCrypto_laws _ _ _ _ _ 5 4096 (by decide) (by decide)
    (by decide) (by decide) (by simp)

/-- a server nonce that does not extend the client's: abort (hypothesis of `scram_bad_nonce_aborts`
    met), here with reason `nonce` -/
example : nonceExtends cs!"abc123" cs!"r=abX123SRV,s=AAAAA,i=4096" = false ∧
    clientRun toyCrypto ['u'] cs!"pw" cs!"abc123" cs!"r=abX123SRV,s=AAAAA,i=4096"
      cs!"v=AAAA" = .abort1 .nonce := by
  decide

/-- a wrong signature: abort with reason `signature` (the accepting run is the honest exchange above) -/
example :
    clientRun toyCrypto ['u'] cs!"pw" cs!"abc" cs!"r=abcS,s=AAAAA,i=2" cs!"v=A"
      = .abort2 .signature := by
  decide

end AkVerif.Scram
