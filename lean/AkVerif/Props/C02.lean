import AkVerif.Lemmas.Producer
import AkVerif.Lemmas.Done
/-!
# C02 — every send future resolves once, with the record's true coordinates

Two layers: `AkVerif.Done` (what `MessageBatch.done / done_noack / failure` and
`handle_response` do to the futures of one batch; tied to the real classes by T-diff) and the
acceptor `AkVerif.Producer` (which result every future of a partition's history gets, and when
`flush()` / `stop()` may return; tied to the real producer by T-trace).
-/
namespace AkVerif.Done

/-! ## `MessageBatch.done` -/

/-- **coordinates**: a future that `done(base, ts, logStart)` resolves names its own record's
    offset (`base` + relative offset) and timestamp (the record's own one when the broker
    answered `-1`, else the broker's), with the timestamp type the broker applied -/
theorem c02_done_coordinates (base ts : Int) (ls : Option Int) :
    ∀ (futs : List (Option Result)) (recs : List (Int × Int)), futs.length = recs.length →
      ∀ (i : Nat) (rel uts : Int), recs[i]? = some (rel, uts) → futs[i]? = some none →
        (doneLoop base ts ls futs recs)[i]? =
          some (some (.md { off := base + rel, ts := if ts = -1 then uts else ts,
                            tt := if ts = -1 then 0 else 1, logStart := ls })) := by
  intro futs
  induction futs with
  | nil => intro recs _ i rel uts _ hf; simp at hf
  | cons f fs ih =>
    intro recs hl i rel uts hr hf
    cases recs with
    | nil => simp at hl
    | cons r rs =>
      obtain ⟨rel', uts'⟩ := r
      cases i with
      | zero =>
        simp only [List.getElem?_cons_zero, Option.some.injEq, Prod.mk.injEq] at hr hf
        obtain ⟨rfl, rfl⟩ := hr
        subst hf
        simp [doneLoop, recMeta, tsType]
      | succ j =>
        simp only [List.getElem?_cons_succ] at hr hf
        simp only [doneLoop, List.getElem?_cons_succ]
        exact ih rs (by simpa using hl) j rel uts hr hf

/-- … and a future that was already done (cancelled by the caller, failed) is left alone -/
theorem c02_done_keeps_resolved (base ts : Int) (ls : Option Int) :
    ∀ (futs : List (Option Result)) (recs : List (Int × Int)), futs.length = recs.length →
      ∀ (i : Nat) (r : Result), futs[i]? = some (some r) →
        (doneLoop base ts ls futs recs)[i]? = some (some r) := by
  intro futs
  induction futs with
  | nil => intro recs _ i r hf; simp at hf
  | cons f fs ih =>
    intro recs hl i r hf
    cases recs with
    | nil => simp at hl
    | cons x rs =>
      obtain ⟨rel', uts'⟩ := x
      cases i with
      | zero =>
        simp only [List.getElem?_cons_zero, Option.some.injEq] at hf
        subst hf
        simp [doneLoop]
      | succ j =>
        simp only [List.getElem?_cons_succ] at hf
        simp only [doneLoop, List.getElem?_cons_succ]
        exact ih rs (by simpa using hl) j r hf

/-- the loop as it was before the repair violates the coordinates clause: on a CreateTime topic
    the second record of a batch is reported with the first record's timestamp (kernel-checked;
    the check recognises this variant on the real class as `c02:done-timestamp-carried`) -/
theorem c02_done_carried_counterexample :
    doneLoopCarried 100 none 0 (-1) [none, none] [(0, 1000), (1, 2000)]
      = [some (.md ⟨100, 1000, 0, none⟩), some (.md ⟨101, 1000, 0, none⟩)] ∧
    doneLoop 100 (-1) none [none, none] [(0, 1000), (1, 2000)]
      = [some (.md ⟨100, 1000, 0, none⟩), some (.md ⟨101, 2000, 0, none⟩)] := by
  decide

/-! ## a batch resolves every future exactly once -/

/-- **resolved once**: whatever is called on the batch afterwards (`done`, `done_noack`,
    `failure`, in any order and any number of times, cancellations by the caller), a record future
    that has a result keeps exactly that result -/
theorem c02_batch_result_is_final (b : BatchSt) (h : b.WF) (ops : List Op) (i : Nat) (r : Result)
    (hr : b.futs[i]? = some (some r)) : (b.run ops).futs[i]? = some (some r) := by
  induction ops generalizing b with
  | nil => exact hr
  | cons o os ih =>
    refine ih (b.step o) (step_wf b o h) ?_
    unfold BatchSt.WF at h
    cases o with
    | done base ts ls => exact c02_done_keeps_resolved base ts ls b.futs b.recs h i r hr
    | doneCarried base ts ls => exact doneLoopCarried_keeps base ls _ b.futs b.recs ts h i r hr
    | noack => simp [BatchSt.step, List.getElem?_map, hr, setIfNone]
    | failure e => simp [BatchSt.step, List.getElem?_map, hr, setIfNone]
    | cancel j => exact cancelAt_keeps j i b.futs r hr
    | cancelBatch => exact hr

/-- the batch future likewise -/
theorem c02_batch_future_is_final (b : BatchSt) (ops : List Op) (r : Result)
    (hr : b.bfut = some r) : (b.run ops).bfut = some r := by
  induction ops generalizing b with
  | nil => exact hr
  | cons o os ih =>
    refine ih (b.step o) ?_
    cases o <;> simp [BatchSt.step, hr, setIfNone]

/-- **every outstanding future is covered**: after `done`, `done_noack` or `failure` no future of
    the batch (records and the batch future) is pending -/
theorem c02_batch_covers_all (b : BatchSt) (h : b.WF) (op : Op)
    (hop : (∃ base ts ls, op = .done base ts ls) ∨ op = .noack ∨ ∃ e, op = .failure e) :
    (b.step op).bfut.isSome = true ∧ ∀ f ∈ (b.step op).futs, f.isSome = true := by
  unfold BatchSt.WF at h
  rcases hop with ⟨base, ts, ls, rfl⟩ | rfl | ⟨e, rfl⟩
  · refine ⟨?_, doneLoop_all_some base ts ls b.futs b.recs h⟩
    simp only [BatchSt.step, setIfNone]; cases b.bfut <;> rfl
  · refine ⟨?_, ?_⟩
    · simp only [BatchSt.step, setIfNone]; cases b.bfut <;> rfl
    · intro f hf
      simp only [BatchSt.step, List.mem_map] at hf
      obtain ⟨g, _, rfl⟩ := hf
      cases g <;> rfl
  · refine ⟨?_, ?_⟩
    · simp only [BatchSt.step, setIfNone]; cases b.bfut <;> rfl
    · intro f hf
      simp only [BatchSt.step, List.mem_map] at hf
      obtain ⟨g, _, rfl⟩ := hf
      cases g <;> rfl

/-- **acks = 0**: `done_noack` gives every pending future `None`, never metadata -/
theorem c02_noack_no_metadata (recs : List (Int × Int)) :
    ((BatchSt.fresh recs).step .noack).bfut = some .noMeta ∧
      ∀ f ∈ ((BatchSt.fresh recs).step .noack).futs, f = some .noMeta := by
  refine ⟨rfl, ?_⟩
  intro f hf
  simp only [BatchSt.step, BatchSt.fresh, List.map_map, List.mem_map] at hf
  obtain ⟨_, _, rfl⟩ := hf
  rfl

/-! ## `handle_response` -/

/-- **reply layout per version**: v0/v1 carry no timestamp (the client takes the record's own one:
    `-1`) and no log start offset; v2–v4 carry the timestamp; v5 and later the log start offset too -/
theorem c02_response_fields_v01 (v : Nat) (hv : v < 2) (p c o : Int) :
    decodeInfo v [p, c, o] = some ⟨p, c, o, -1, none⟩ := by
  simp [decodeInfo, hv]

theorem c02_response_fields_v24 (v : Nat) (h2 : 2 ≤ v) (h4 : v ≤ 4) (p c o t : Int) :
    decodeInfo v [p, c, o, t] = some ⟨p, c, o, t, none⟩ := by
  have : ¬ v < 2 := by omega
  simp [decodeInfo, this, h4]

theorem c02_response_fields_v5 (v : Nat) (h5 : 5 ≤ v) (p c o t l : Int) :
    decodeInfo v [p, c, o, t, l] = some ⟨p, c, o, t, some l⟩ := by
  have h1 : ¬ v < 2 := by omega
  have h2 : ¬ v ≤ 4 := by omega
  simp [decodeInfo, h1, h2]

/-- every fault the property calls retriable is classified retriable -/
theorem c02_property_faults_retriable : ∀ code ∈ propertyRetriable, retriable code = true := by
  decide

/-- **idempotent producer**: a retriable error code never fails the batch, expired or not -/
theorem c02_idempotent_verdict (expired : Bool) (code : Int) (hr : retriable code = true) :
    verdict true expired code = .retry := by
  have h0 : code ≠ 0 := by intro h; subst h; revert hr; decide
  have h46 : code ≠ 46 := by intro h; subst h; revert hr; decide
  simp [verdict, h0, h46, hr]

/-- without idempotence an expired batch is failed (the property allows it) -/
example : verdict false true 6 = .fail ∧ verdict false false 6 = .retry ∧ verdict true true 6 = .retry := by
  decide

end AkVerif.Done

namespace AkVerif.Producer
open AkVerif.Done

/-! ## histories of the producer -/

/-- **resolved at most once**: no record gets two results -/
theorem c02_resolve_once {c : Cfg} (hs : SeqHyp c) {s : St} {tr : List Ev}
    (h : run c (St.init c) tr = .ok s) : (s.resolved.map (·.1)).Nodup :=
  (inv_run hs h).i4.resolvedNodup

/-- every accepted record is either still pending or resolved, never both, never neither -/
theorem c02_resolved_or_pending {c : Cfg} (hs : SeqHyp c) {s : St} {tr : List Ev}
    (h : run c (St.init c) tr = .ok s) (id : Nat) :
    (id < s.nAcc ↔ (id ∈ s.unres ∨ id ∈ s.resolved.map (·.1))) ∧
      ¬ (id ∈ s.unres ∧ id ∈ s.resolved.map (·.1)) :=
  ⟨(inv_run hs h).i4.complete id, fun hx => (inv_run hs h).i4.disj id hx.2 hx.1⟩

/-- **flush() / stop() return only after every earlier record is resolved**: in an accepted
    history, when the call `k` returns, every record accepted before the call has its result -/
theorem c02_flush_after_resolved {c : Cfg} (hs : SeqHyp c) {s : St} (pre mid : List Ev) (k : Nat)
    (h : run c (St.init c) (pre ++ Ev.waitCall k :: (mid ++ [Ev.waitRet k])) = .ok s) :
    ∀ id, id < accCount pre → id ∈ s.resolved.map (·.1) := by
  obtain ⟨s1, hr1, hr2⟩ := run_append_ok h
  obtain ⟨s2, hs2, hr3⟩ := run_cons_ok hr2
  obtain ⟨s3, hr4, hr5⟩ := run_append_ok hr3
  obtain ⟨s4, hs4, hr6⟩ := run_cons_ok hr5
  injection hr6 with hr6; subst hr6
  have hn1 : s1.nAcc = accCount pre := by
    have := run_nAcc pre _ s1 hr1; simpa [St.init] using this
  have hm2 : (k, s1.nAcc) ∈ s2.marks := by
    cases step_sound hs2 with
    | waitCall _ hk => exact List.mem_cons_self
  have hm3 := run_marks_mono mid s2 s3 hr4 _ hm2
  have hi3 : Inv c s3 := by
    have h23 : run c s1 (Ev.waitCall k :: mid) = .ok s3 := by
      unfold run; rw [hs2]; exact hr4
    exact inv_run hs (run_append_intro hr1 h23)
  cases step_sound hs4 with
  | waitRet _ m hm hall =>
    have := find_mark s3.marks k s1.nAcc hi3.i6.marksNodup hm3
    rw [this] at hm; injection hm with hm; subst hm
    intro id hid
    rcases (hi3.i4.complete id).mp (by
      have := (run_le _ _ _ hr4).nAcc
      have h2 : s2.nAcc = s1.nAcc := by cases step_sound hs2; rfl
      omega) with hu | hr
    · have := hall id hu
      simp only at this
      omega
    · exact hr

/-- **true coordinates**: a future resolved with metadata `(off, ts, tt)` for record `id` names the
    offset at which the broker's log holds that very record — the accepted record with that id — and
    the timestamp stored there: the record's own timestamp on a CreateTime topic (`tt = 0`), the
    append time on a LogAppendTime topic (`tt = 1`) -/
theorem c02_coordinates {c : Cfg} (hs : SeqHyp c) {s : St} {tr : List Ev}
    (h : run c (St.init c) tr = .ok s) (id : Nat) (off ts : Int) (tt : Nat)
    (hr : (id, Res.ok off ts tt) ∈ s.resolved) :
    0 ≤ off ∧ s.br.log[off.toNat]? = some { id := id, ts := ts, tt := tt } ∧
      ∃ r ∈ s.accepted, r.id = id ∧ ∃ ats, ts = (if ats = -1 then r.uts else ats) ∧ tt = tsType ats := by
  have hi := inv_run hs h
  obtain ⟨h0, hl⟩ := hi.i5.coords _ (Or.inr hr) off ts tt rfl
  refine ⟨h0, hl, ?_⟩
  have hk : tt ≤ 1 := hi.i10 _ (Or.inr hr) off ts tt rfl
  rcases hi.i8.logSub _ (List.mem_of_getElem? hl) with hm | ⟨r, hra, ats, he⟩
  · simp only [markerRec, LogRec.mk.injEq] at hm
    omega
  · simp only [storeRec, LogRec.mk.injEq] at he
    exact ⟨r, hra, he.1.symm, ats, he.2.1, he.2.2⟩

/-- an accepted record is determined by its id: the `r` above is the record the caller sent -/
theorem accepted_ids_unique {c : Cfg} (hs : SeqHyp c) {s : St} {tr : List Ev}
    (h : run c (St.init c) tr = .ok s) : (s.accepted.map (·.id)).Nodup := by
  rw [(inv_run hs h).i1.ids]; exact List.nodup_range

/-- **acks = 0**: no future is resolved with metadata -/
theorem c02_acks0_no_metadata {c : Cfg} (hs : SeqHyp c) {s : St} {tr : List Ev}
    (h : run c (St.init c) tr = .ok s) (h0 : c.acks0 = true) (id : Nat) (r : Res)
    (hr : (id, r) ∈ s.resolved) : r = .noMeta ∨ r = .fail := by
  have := (inv_run hs h).i6.acks0 h0 (id, r) (Or.inr hr)
  cases r with
  | ok o t k => exact absurd rfl (this o t k)
  | noMeta => exact Or.inl rfl
  | fail => exact Or.inr rfl

/-- **idempotent producer, retriable faults alone never fail a record** — for the code as it is
    only under the proviso that no batch is given up while it waits for a retry or before its
    first transmission (`s.gaveUp = 0`): `drain_by_nodes` expires batches whose leader is unknown
    even for the idempotent producer (`c02_expiry_counterexample`, known finding).
    `honly`: every reply seen carried no error or a retriable error code. -/
theorem c02_idempotent_never_failed_by_retriable_partial {c : Cfg} (hs : SeqHyp c) (_hidem : c.idem = true)
    {s : St} {tr : List Ev} (h : run c (St.init c) tr = .ok s)
    (honly : ∀ fs info, Ev.done (.fields fs) ∈ tr → decodeInfo c.version fs = some info →
      info.code = 0 ∨ retriable info.code = true)
    (hgave : s.gaveUp = 0) : ∀ id, (id, Res.fail) ∉ s.resolved := by
  have hf : s.fatal = 0 := fatal_zero_of_retriable tr _ s h rfl honly
  intro id hm
  exact (inv_run hs h).i6.noFail hf hgave (id, .fail) (Or.inr hm) rfl

/-- the proviso is needed (kernel-checked): record 1 of an idempotent producer is failed although
    the only faults were a NOT_LEADER reply and an unknown leader -/
theorem c02_expiry_counterexample :
    let c : Cfg := { idem := true, acks0 := false, wrapFix := false, pid := 1, epoch := 0, seq0 := 0, version := 7 }
    let tr : List Ev :=
      [.acc 0 0 1, .send 1 0 0 [0], .apply 0 1 .append 0 (-1), .done (.fields [0, 0, 0, -1, 0]),
       .resolved 0 (.ok 0 1 0),
       .acc 0 1 2, .send 1 0 1 [1], .apply 1 1 (.err 6) (-1) (-1), .done (.fields [0, 6, -1, -1, -1]),
       .resolved 1 .fail]
    ∃ s, run c (St.init c) tr = .ok s ∧ s.fatal = 0 ∧ (1, Res.fail) ∈ s.resolved ∧ retriable 6 = true := by
  refine ⟨_, rfl, ?_⟩
  decide

/-- **resolved within bounded time after faults cease — partial**: on the model, one quiet round
    from a quiescent idle state of any accepted history is again accepted and resolves every queued
    record with metadata; nothing stays queued or due.  (Same provisos as `c01_progress_partial` for
    the idempotent producer.)  On the implementation this clause is only explored: every simulator
    run must finish within 900 virtual seconds once the fault schedule is exhausted. -/
theorem c02_eventually_resolved_partial {c : Cfg} (hs : SeqHyp c) {s : St} {tr : List Ev}
    (h : run c (St.init c) tr = .ok s) (hacks : c.acks0 = false) (hidle : s.phase = .idle)
    (hdue : s.due = []) (hne : s.pending ≠ [])
    (hbroker : c.idem = true → s.fatal = 0 ∧ s.gaveUp = 0 ∧ SeqOK c s.drained ∧
      s.br.recent.find? (seqMatch s.nextSeq (seqAdd s.nextSeq (s.pending.length - 1))) = none) :
    ∃ s', run c (St.init c) (tr ++ quietRound c s) = .ok s' ∧ s'.pending = [] ∧ s'.phase = .idle ∧
      s'.due = [] ∧ ∀ r ∈ s.pending, ∃ o t k, (r.id, Res.ok o t k) ∈ s'.resolved := by
  have hi := inv_run hs h
  obtain ⟨s', hr, h1, h2, h3, _, h5⟩ := quiet_round_accepted hi hacks hidle hdue hne (by
    intro hidem
    obtain ⟨hf, hg, hok, hcache⟩ := hbroker hidem
    exact broker_ready hi hidem hacks hidle hf hg hok hcache)
  exact ⟨s', run_append_intro h hr, h1, h2, h3, h5⟩

/-! ## non-vacuity: flush() around a retried batch on a LogAppendTime topic, Produce v2 -/
example :
    let c : Cfg := { idem := false, acks0 := false, wrapFix := false, pid := -1, epoch := -1, seq0 := 0, version := 2 }
    let tr : List Ev :=
      [.acc 0 0 10, .acc 0 1 11, .waitCall 1, .send (-1) (-1) 0 [0, 1], .done .exc,
       .send (-1) (-1) 0 [0, 1], .apply 0 2 .append 0 777, .done (.fields [0, 0, 0, 777]),
       .resolved 0 (.ok 0 777 1), .resolved 1 (.ok 1 777 1), .waitRet 1]
    ∃ s, run c (St.init c) tr = .ok s ∧ s.resolved = [(1, .ok 1 777 1), (0, .ok 0 777 1)] ∧ s.unres = [] ∧
      s.br.log = [⟨0, 777, 1⟩, ⟨1, 777, 1⟩] := by
  refine ⟨_, rfl, ?_⟩
  decide

end AkVerif.Producer
