import AkVerif.Lemmas.C09Aux
import AkVerif.Model.Layout
import AkVerif.Gen.Layouts
/-!
C09 — record batches round-trip and both codec implementations agree.

Models: `Model/Varint`, `Model/Crc`, `Model/V2`, `Model/Legacy`, `Model/Split` (what each models is
written at the top of the file).  Tie: `harness/checks/c09.py` (T-diff against the pure-Python and
the freshly rebuilt Cython codec; T-extract `Gen/Layouts.lean`).

Clause → theorem:
* round trip, every format / codec / attribute combination: `varint_roundtrip`, `v2_roundtrip`,
  `legacy_roundtrip_plain`, `legacy_roundtrip_wrapper`
* bytes are a well-formed Kafka batch: `v2_header_wellformed` (+ `headerOK_sound` for the
  executable form), `layouts_py`, `layouts_formats`, `layouts_cy`, `crc32c_table_eq_bitwise`
* the two implementations agree: `encode_varint_agree`, `size_of_varint_eq_length`,
  `py_build_eq_spec`, `cy_build_eq_spec`, `impl_read_roundtrip`, `cross_decode`,
  `legacy_build_eq_spec`, `legacy_impl_read_plain`, `legacy_impl_read_wrapper`
* concatenation of any mix of formats, trailing partial batch ignored: `split_concat`,
  `split_mixed_formats`, `legacy_set_split`; the code as it was found: `split_cy_absolute_magic_counterexample`
* size accounting and limit: `size_in_bytes_exact`, `append_none_iff_py`, `append_none_iff_cy`,
  `size_eq_build_length`, `built_within_batch_size_py`, `built_within_batch_size_cy`,
  `estimate_is_upper_bound`
-/
namespace AkVerif.C09
open AkVerif.Wire AkVerif.Varint AkVerif.Crc AkVerif.V2 AkVerif.Legacy AkVerif.Split AkVerif.C09Aux

/-! ## varints and checksums -/

/-- both encoders produce the canonical zig-zag base-128 bytes -/
theorem encode_varint_agree (i : Int) :
    encodeVarintPy i = encVarint i ∧ encodeVarintCy i = encVarint i :=
  ⟨encodeVarintPy_eq i, encodeVarintCy_eq i⟩

/-- every decoder inverts every encoder on the whole int64 range, whatever follows in the buffer -/
theorem varint_roundtrip (i : Int) (h : int64 i) (rest : Bytes) :
    decodeVarintPy (encodeVarintPy i ++ rest) = some (i, rest) ∧
    decodeVarintCy (encodeVarintPy i ++ rest) = some (i, rest) ∧
    decodeVarintPy (encodeVarintCy i ++ rest) = some (i, rest) ∧
    decodeVarintCy (encodeVarintCy i ++ rest) = some (i, rest) ∧
    decVarint (encVarint i ++ rest) = some (i, rest) := by
  rw [encodeVarintPy_eq, encodeVarintCy_eq]
  exact ⟨decodeVarintPy_encVarint i h rest, decodeVarintCy_encVarint i h rest,
    decodeVarintPy_encVarint i h rest, decodeVarintCy_encVarint i h rest, decVarint_encVarint i h rest⟩

example : int64 (-(2 ^ 63)) ∧ int64 (2 ^ 63 - 1) := by decide

/-- `size_of_varint` (the Python ladder and the C loop) is the number of bytes `encode_varint` writes: 1..10 -/
theorem size_of_varint_eq_length (i : Int) (h : int64 i) :
    sizeOfVarintPy i = (encodeVarintPy i).length ∧ sizeOfVarintCy i = (encodeVarintCy i).length ∧
    1 ≤ (encodeVarintPy i).length ∧ (encodeVarintPy i).length ≤ 10 := by
  rw [encodeVarintPy_eq, encodeVarintCy_eq]
  exact ⟨sizeOfVarintPy_eq i h, sizeOfVarintCy_eq i, encVarint_length_pos i, encVarint_length_le i h⟩

/-- the table in `_crc32c.py` is the CRC-32C table, and the table-driven loop computes the
    bit-at-a-time definition on every byte string -/
theorem crc32c_table_eq_bitwise :
    Layouts.pyCrcTable = mkTable castagnoli ∧
    ∀ bs : Bytes, (∀ b ∈ bs, b < 256) → crcTableDriven Layouts.pyCrcTable bs = some (crc32c bs) := by
  have h : Layouts.pyCrcTable = mkTable castagnoli := by decide +kernel
  exact ⟨h, fun bs hb => by rw [h]; exact crcTableDriven_eq bs hb⟩

/-- the checksum definitions on the standard check string "123456789" -/
theorem crc_check_values :
    crc32c [0x31, 0x32, 0x33, 0x34, 0x35, 0x36, 0x37, 0x38, 0x39] = 0xE3069283 ∧
    crc32 [0x31, 0x32, 0x33, 0x34, 0x35, 0x36, 0x37, 0x38, 0x39] = 0xCBF43926 := by decide +kernel

/-! ## layouts (T-extract) -/

theorem layouts_py : Layouts.pyConsts = Layout.expectedPy := by decide +kernel
theorem layouts_formats : Layouts.pyFormats = Layout.expectedFormats := by decide +kernel
theorem layouts_cy : Layouts.cyConsts = Layout.expectedCy := by decide +kernel

/-! ## v2 batches -/

/-- decoding what the format's encoder produced yields the same keys, values, headers, offsets and
    timestamps (under LogAppendTime: the batch's MaxTimestamp for every record) — for every codec
    satisfying `decompress (compress x) = x` and every attribute combination -/
theorem v2_roundtrip (C : Codec) (hC : C.Lawful) (c : Cfg) (recs : List Rec) (h : WFBatch C c recs) :
    ∃ hd, specRead C (specBuild C c recs) = some (hd, stamped c recs) :=
  ⟨_, specRead_specBuild C hC c recs h⟩

/-- the bytes are a well-formed Kafka batch: Length, Magic, CRC-32C over the bytes from Attributes
    on, attribute bits, LastOffsetDelta, First/MaxTimestamp, producer fields, RecordCount -/
theorem v2_header_wellformed (C : Codec) (c : Cfg) (recs : List Rec) (h : WFBatch C c recs) :
    HeaderOK (specBuild C c recs) c recs ∧ V2.validateCrc (specBuild C c recs) = some true :=
  ⟨headerOK_spec C c recs h, validateCrc_spec C c recs h⟩

/-- the checker the harness evaluates on implementation bytes decides exactly `HeaderOK` -/
theorem headerOK_sound (bs : Bytes) (c : Cfg) (recs : List Rec) :
    headerOK bs c recs = true ↔ HeaderOK bs c recs := headerOK_iff bs c recs


example : specRead idCodec (specBuild idCodec demoCfg demoRecs) =
    some (headerOf idCodec demoCfg demoRecs, demoRecs) := by decide +kernel

example : headerOK (specBuild idCodec demoCfg demoRecs) demoCfg demoRecs = true := by decide +kernel

example : WFBatch idCodec demoCfg demoRecs := by decide +kernel

/-- under LogAppendTime every record comes back with the batch's MaxTimestamp -/
example : (specRead idCodec (specBuild idCodec { demoCfg with logAppend := true, appendTime := 77 } demoRecs)).map
    (fun p => p.2.map (·.ts)) = some [77, 77] := by decide +kernel

/-- the Python builder writes the batch of the format definition for the records it accepted -/
theorem py_build_eq_spec (C : Codec) (c : BCfg) (rs : List Rec) (hne : pyAccepted c {} rs ≠ []) :
    (pyBuild C c (pyRun c {} rs).2).1 =
      specBuild C (pyCfgOf C c (pyRun c {} rs).2) (pyAccepted c {} rs) := by
  have hinv := pyRun_inv c rs {} [] pyInv_init
  simp only [List.nil_append] at hinv
  exact pyBuild_eq_spec C c _ _ hinv hne

/-- the Cython builder writes the batch of the format definition for the records it accepted
    (timestamps other than the sentinel `-1`) -/
theorem cy_build_eq_spec (C : Codec) (c : BCfg) (rs : List Rec) (hts : ∀ r ∈ rs, r.ts ≠ -1)
    (hne : cyAccepted c {} rs ≠ []) :
    (cyBuild C c (cyRun c {} rs).2).1 = specBuild C (cyCfgOf c) (cyAccepted c {} rs) := by
  have hinv := cyRun_inv c rs hts {} [] cyInv_init (by simp)
  simp only [List.nil_append] at hinv
  exact cyBuild_eq_spec C c _ _ hinv hne

/-- both readers return exactly the stored records of every well-formed batch of the format -/
theorem impl_read_roundtrip (C : Codec) (hC : C.Lawful) (c : Cfg) (recs : List Rec) (h : WFBatch C c recs) :
    pyRead C (specBuild C c recs) = some (headerOf C c recs, stamped c recs) ∧
    cyRead C (specBuild C c recs) = some (headerOf C c recs, stamped c recs) :=
  ⟨implRead_specBuild _ goodDv_py C hC c recs h, implRead_specBuild _ goodDv_cy C hC c recs h⟩

/-- the compiled and the pure-Python codec decode each other's output identically: whatever one
    builder wrote, both readers (and the format's decoder) return the accepted records -/
theorem cross_decode (C : Codec) (hC : C.Lawful) (c : BCfg) (rs : List Rec) (hts : ∀ r ∈ rs, r.ts ≠ -1)
    (hpy : pyAccepted c {} rs ≠ []) (hcy : cyAccepted c {} rs ≠ [])
    (wpy : WFBatch C (pyCfgOf C c (pyRun c {} rs).2) (pyAccepted c {} rs))
    (wcy : WFBatch C (cyCfgOf c) (cyAccepted c {} rs)) :
    (∃ h, cyRead C (pyBuild C c (pyRun c {} rs).2).1 = some (h, pyAccepted c {} rs) ∧
          pyRead C (pyBuild C c (pyRun c {} rs).2).1 = some (h, pyAccepted c {} rs) ∧
          specRead C (pyBuild C c (pyRun c {} rs).2).1 = some (h, pyAccepted c {} rs)) ∧
    (∃ h, pyRead C (cyBuild C c (cyRun c {} rs).2).1 = some (h, cyAccepted c {} rs) ∧
          cyRead C (cyBuild C c (cyRun c {} rs).2).1 = some (h, cyAccepted c {} rs) ∧
          specRead C (cyBuild C c (cyRun c {} rs).2).1 = some (h, cyAccepted c {} rs)) := by
  rw [py_build_eq_spec C c rs hpy, cy_build_eq_spec C c rs hts hcy]
  have s1 : stamped (pyCfgOf C c (pyRun c {} rs).2) (pyAccepted c {} rs) = pyAccepted c {} rs := by
    simp [stamped, pyCfgOf]
  have s2 : stamped (cyCfgOf c) (cyAccepted c {} rs) = cyAccepted c {} rs := by simp [stamped, cyCfgOf]
  have r1 := impl_read_roundtrip C hC _ _ wpy
  have r2 := impl_read_roundtrip C hC _ _ wcy
  rw [s1] at r1
  rw [s2] at r2
  refine ⟨⟨_, r1.2, r1.1, ?_⟩, ⟨_, r2.1, r2.2, ?_⟩⟩
  · have := specRead_specBuild C hC _ _ wpy; rwa [s1] at this
  · have := specRead_specBuild C hC _ _ wcy; rwa [s2] at this


example : (pyRun demoB {} demoScript).1.map (·.isSome) = [true, true, false] ∧
    pyAccepted demoB {} demoScript = demoScript.take 2 ∧ cyAccepted demoB {} demoScript = demoScript.take 2 ∧
    (∀ r ∈ demoScript, r.ts ≠ -1) := by decide +kernel

example : WFBatch idCodec (pyCfgOf idCodec demoB (pyRun demoB {} demoScript).2) (pyAccepted demoB {} demoScript) ∧
    WFBatch idCodec (cyCfgOf demoB) (cyAccepted demoB {} demoScript) := by decide +kernel

example : cyRead idCodec (pyBuild idCodec demoB (pyRun demoB {} demoScript).2).1 =
    pyRead idCodec (cyBuild idCodec demoB (cyRun demoB {} demoScript).2).1 := by decide +kernel

/-! ## v0 / v1 messages -/

/-- the builder's buffer is the message set of the accepted records, and `build()` wraps it as
    the format prescribes -/
theorem legacy_build_eq_spec (C : Codec) (c : LCfg) (rs : List In) :
    lBuild C c (lRun c [] rs).2 =
      (if c.codec ≠ 0 then specWrapper C c.magic c.codec false 0 0 (lAccepted c [] rs)
       else specSet c.magic 0 (lAccepted c [] rs)) := by
  rw [lRun_eq c rs []]
  simp only [List.nil_append]
  exact lBuild_eq C c _

/-- an uncompressed message decodes to its record (format decoder) -/
theorem legacy_roundtrip_plain (C : Codec) (m : Nat) (la : Bool) (o ts : Int) (k v : Option Bytes)
    (hw : WFMsg m (wrapperAttrs 0 la) o ts k v) :
    specReadBatch C m (encMsg m (wrapperAttrs 0 la) o ts k v) = some [plainOut m la o ts k v] :=
  specRead_plain C m la o ts k v hw

/-- a compressed wrapper decodes to its inner records: relative offsets made absolute from the
    wrapper's offset (magic 1, only when that is non-negative), the wrapper's timestamp under
    LogAppendTime -/
theorem legacy_roundtrip_wrapper (C : Codec) (hC : C.Lawful) (m codec : Nat) (la : Bool) (wo wt : Int)
    (inner : List In) (last : Int) (hcodec : 0 < codec ∧ codec < 8) (hin : ∀ r ∈ inner, WFIn m r)
    (hlast : lastInOffset inner = some last)
    (hw : WFMsg m (wrapperAttrs codec la) wo wt none (some (C.compress codec (specSet m 0 inner)))) :
    specReadBatch C m (specWrapper C m codec la wo wt inner) = some (wrapperOuts m la wo wt inner last) :=
  specRead_wrapper C hC m codec la wo wt inner last hcodec hin hlast hw

/-- both implementation readers agree with the format decoder on plain messages -/
theorem legacy_impl_read_plain (C : Codec) (m : Nat) (la : Bool) (o ts : Int) (k v : Option Bytes)
    (hw : WFMsg m (wrapperAttrs 0 la) o ts k v) :
    pyReadBatch C m (encMsg m (wrapperAttrs 0 la) o ts k v) = some [plainOut m la o ts k v] ∧
    cyReadBatch C m (encMsg m (wrapperAttrs 0 la) o ts k v) = some [plainOut m la o ts k v] :=
  ⟨implRead_plain true C m la o ts k v hw, implRead_plain false C m la o ts k v hw⟩

/-- … and on compressed wrappers -/
theorem legacy_impl_read_wrapper (C : Codec) (hC : C.Lawful) (m codec : Nat) (la : Bool) (wo wt : Int)
    (inner : List In) (last : Int) (hcodec : 0 < codec ∧ codec < 8) (hin : ∀ r ∈ inner, WFIn m r)
    (hlast : lastInOffset inner = some last)
    (hw : WFMsg m (wrapperAttrs codec la) wo wt none (some (C.compress codec (specSet m 0 inner)))) :
    pyReadBatch C m (specWrapper C m codec la wo wt inner) = some (wrapperOuts m la wo wt inner last) ∧
    cyReadBatch C m (specWrapper C m codec la wo wt inner) = some (wrapperOuts m la wo wt inner last) :=
  ⟨implRead_wrapper true C hC m codec la wo wt inner last hcodec hin hlast hw,
   implRead_wrapper false C hC m codec la wo wt inner last hcodec hin hlast hw⟩


example : specReadBatch idCodec 1 (specWrapper idCodec 1 2 true 41 99 demoIns) =
    some (wrapperOuts 1 true 41 99 demoIns 1) := by decide +kernel

example : (wrapperOuts 1 true 41 99 demoIns 1).map (fun o => (o.offset, o.ts)) =
    [(40, some 99), (41, some 99)] := by decide +kernel

/-! ## the splitter -/

/-- a buffer concatenating valid batches of any mix of formats, followed by nothing or by a partial
    batch, is cut into exactly those batches, each tagged with its own magic byte — by the Python
    splitter and by the (repaired) Cython splitter -/
theorem split_concat (bs : List Bytes) (hv : ∀ b ∈ bs, ValidBatch b) (tail : Bytes)
    (ht : tail = [] ∨ PartialTail tail) :
    memoryRecordsPy (bs.flatten ++ tail) = (bs.map tagged, .done) ∧
    memoryRecordsCy false (bs.flatten ++ tail) = (bs.map tagged, .done) :=
  ⟨splitPy_concat bs hv tail ht _ (fuel_suffices bs hv tail),
   splitCy_concat _ bs hv tail ht _ (fuel_suffices bs hv tail)⟩

/-- batches of the three format definitions are valid batches carrying their magic: so any mix of
    v0/v1 messages and v2 batches is split (and then, by the round-trip theorems, decoded) batch by batch -/
theorem split_mixed_formats :
    (∀ (C : Codec) (c : Cfg) (recs : List Rec), WFBatch C c recs →
      ValidBatch (specBuild C c recs) ∧ magicByte (specBuild C c recs) = 2) ∧
    (∀ (m a : Nat) (o ts : Int) (k v : Option Bytes), WFMsg m a o ts k v →
      ValidBatch (encMsg m a o ts k v) ∧ magicByte (encMsg m a o ts k v) = m) :=
  ⟨fun C c recs h => ⟨v2_valid C c recs h, magic_v2 C c recs⟩,
   fun m a o ts k v h => ⟨legacy_valid m a o ts k v h, magic_legacy m a o ts k v h.hmagic⟩⟩

/-- an uncompressed v0/v1 build is a message set: the splitters hand out its messages one by one
    (each then decodes to its record by `legacy_impl_read_plain`) -/
theorem legacy_set_split (m : Nat) (recs : List In) (h : ∀ r ∈ recs, WFIn m r) :
    memoryRecordsPy (specSet m 0 recs) =
      (recs.map (fun r => tagged (encMsg m 0 r.offset r.ts r.key r.value)), .done) ∧
    memoryRecordsCy false (specSet m 0 recs) =
      (recs.map (fun r => tagged (encMsg m 0 r.offset r.ts r.key r.value)), .done) := by
  have hflat : specSet m 0 recs = (recs.map fun r => encMsg m 0 r.offset r.ts r.key r.value).flatten ++ [] := by
    induction recs with
    | nil => rfl
    | cons r rs ih =>
      have := ih (fun y hy => h y (by simp [hy]))
      simp only [List.append_nil] at this
      simp [specSet, this]
  have hv : ∀ b ∈ recs.map (fun r => encMsg m 0 r.offset r.ts r.key r.value), ValidBatch b := by
    intro b hb
    obtain ⟨r, hr, rfl⟩ := List.mem_map.mp hb
    exact legacy_valid m 0 r.offset r.ts r.key r.value (h r hr)
  have := split_concat _ hv [] (Or.inl rfl)
  rw [← hflat, List.map_map] at this
  exact this


example : memoryRecordsPy (miniV1 ++ miniV2 ++ miniV1.take 20) = ([(1, miniV1), (2, miniV2)], .done) := by
  decide +kernel

/-- the Cython splitter as it was found (`buf[MAGIC_OFFSET]`, absolute): the second batch of a
    v1-then-v2 buffer is handed to the legacy parser — the clause fails for that code -/
theorem split_cy_absolute_magic_counterexample :
    memoryRecordsCy true (miniV1 ++ miniV2) = ([(1, miniV1), (1, miniV2)], .done) ∧
    memoryRecordsCy false (miniV1 ++ miniV2) = ([(1, miniV1), (2, miniV2)], .done) := by
  decide +kernel

/-! ## size accounting and the batch-size limit -/

/-- `size_in_bytes` is the number of bytes `append` adds, and the size reported in the metadata -/
theorem size_in_bytes_exact :
    (∀ (s : PyB) (r : Rec), int64 (pyTsDelta s r) → int64 r.offset → optLenOK r.key → optLenOK r.value →
      lenOK r.headers.length → (∀ x ∈ r.headers, hdrOK x) →
      lenOK (encRecordBody (pyTsDelta s r) r.offset r).length →
      pySize (pyPut s r) = pySize s + pySizeInBytes s r ∧ pyRequired s r = pySizeInBytes s r) ∧
    (∀ (s : CyB) (r : Rec), cySize (cyPut s r) = cySize s + cySizeInBytes s r) := by
  refine ⟨fun s r hd ho hk hv hn hh hl => ?_, fun s r => cyPut_size s r⟩
  obtain ⟨h1, h2⟩ := pySizeInBytes_eq s r hd ho hk hv hn hh hl
  exact ⟨by rw [pyPut_size, h1], h2⟩

/-- Python: `append` returns `None` exactly when a record was already written and the record
    would push the buffer beyond `batch_size`; nothing changes then -/
theorem append_none_iff_py (c : BCfg) (s : PyB) (r : Rec) :
    ((pyAppend c s r).1 = none ↔
      (s.firstTs.isSome = true ∧ ((pyRequired s r + pySize s : Nat) : Int) > c.batchSize)) ∧
    ((pyAppend c s r).1 = none → (pyAppend c s r).2 = s) := by
  unfold pyAppend
  by_cases h : pyRejects c s r
  · simp only [if_pos h]; unfold pyRejects at h; simp [h.1]; omega
  · simp only [if_neg h]; unfold pyRejects at h; simp
    intro hA
    have hB : ¬ (((pyRequired s r + pySize s : Nat) : Int) > c.batchSize) := fun hB => h ⟨hA, hB⟩
    omega

/-- Cython: `append` returns `None` exactly when the offset is not 0 and the buffer would reach `batch_size` -/
theorem append_none_iff_cy (c : BCfg) (s : CyB) (r : Rec) :
    ((cyAppend c s r).1 = none ↔
      (r.offset ≠ 0 ∧ ((cySize s + cySizeInBytes s r : Nat) : Int) ≥ c.batchSize)) ∧
    ((cyAppend c s r).1 = none → (cyAppend c s r).2 = s) := by
  unfold cyAppend
  by_cases h : cyRejects c s r
  · simp only [if_pos h]; unfold cyRejects at h; simp [h.1]; omega
  · simp only [if_neg h]; unfold cyRejects at h; simp
    intro hA
    have hB : ¬ (((cySize s + cySizeInBytes s r : Nat) : Int) ≥ c.batchSize) := fun hB => h ⟨hA, hB⟩
    omega

/-- `size()` after `build()` is `len(build())`; without compression `size()` before `build()` already is -/
theorem size_eq_build_length (C : Codec) (c : BCfg) :
    (∀ s : PyB, (pyBuild C c s).1.length = pySize (pyBuild C c s).2 ∧
      (c.codec = 0 → (pyBuild C c s).1.length = pySize s)) ∧
    (∀ s : CyB, (cyBuild C c s).1.length = cySize (cyBuild C c s).2 ∧
      (c.codec = 0 → (cyBuild C c s).1.length = cySize s)) := by
  constructor
  · intro s
    unfold pyBuild
    simp only [writeHeader_length, pySize]
    refine ⟨trivial, fun h0 => ?_⟩
    simp [h0]
  · intro s
    unfold cyBuild
    simp only [writeHeader_length, cySize]
    refine ⟨trivial, fun h0 => ?_⟩
    simp [h0]

/-- Python: a batch holding two or more records never exceeds `batch_size` before compression -/
theorem built_within_batch_size_py (c : BCfg) (rs : List Rec)
    (hsmall : ∀ r ∈ rs, ∀ d : Int, int64 ((encRecordBody d r.offset r).length : Int))
    (h2 : 2 ≤ (pyAccepted c {} rs).length) : (pySize (pyRun c {} rs).2 : Int) ≤ c.batchSize := by
  have := pyRun_limit c rs hsmall {} [] pyInv_init (by simp)
  simp only [List.nil_append] at this
  exact this h2

/-- Cython: with the producer's offsets (0 for the first record, non-zero afterwards) a batch holding
    two or more records stays strictly below `batch_size` before compression -/
theorem built_within_batch_size_cy (c : BCfg) (r0 : Rec) (rs : List Rec) (hoff : ∀ r ∈ rs, r.offset ≠ 0)
    (h2 : 2 ≤ (cyAccepted c {} (r0 :: rs)).length) : (cySize (cyRun c {} (r0 :: rs)).2 : Int) < c.batchSize := by
  simp only [cyRun, cyAccepted] at h2 ⊢
  cases hp : cyAppend c {} r0 with
  | mk m s1 =>
    rw [hp] at h2
    cases m with
    | none =>
      have := cyRun_limit c rs hoff s1 0 (by omega)
      simp only at h2 ⊢
      exact this (by omega)
    | some m =>
      have := cyRun_limit c rs hoff s1 1 (by omega)
      simp only [List.length_cons] at h2
      simp only
      exact this (by omega)

/-- `estimate_size_in_bytes` (61 + 21 + size_of) is an upper bound of header + record for every
    in-range timestamp delta and offset -/
theorem estimate_is_upper_bound (d o : Int) (r : Rec) (hd : int64 d) (ho : int32 o)
    (hl : lenOK (encRecordBody d o r).length) :
    61 + (encRecord (r.ts - d) (r.offset - o) r).length ≤ estimateSize (cySizeOf r.key r.value r.headers) := by
  unfold estimateSize encRecord
  have e1 : r.ts - (r.ts - d) = d := by omega
  have e2 : r.offset - (r.offset - o) = o := by omega
  rw [e1, e2]
  have := record_le_estimate d o r hd ho hl
  omega

end AkVerif.C09
