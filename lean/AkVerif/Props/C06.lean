import AkVerif.Lemmas.Membership
import AkVerif.Lemmas.GroupSys
/-!
# C06 — group membership converges and is not disturbed by the member itself

Theorems about the member acceptor `AkVerif.Membership` (`Model/Membership.lean`): a history is a list of
the member's own `client.send` calls and their outcomes; `accepts cfg {} tr` says the history is a
behaviour of the modelled code (the run-time check evaluates exactly this on the history recorded
from the real `GroupCoordinator`).
-/
namespace AkVerif.Membership

/-- the check run on the recorded history (set simulation in the driver) decides `accepts` -/
theorem c06_check_is_accepts (cfg : List String) (tr : List Ev) :
    firstReject cfg [{}] tr 0 = none ↔ accepts cfg {} tr = true := by
  rw [firstReject_none_iff cfg tr [{}] 0 (by simp), accepts_iff]
  unfold alive
  simp

/-- **every JoinGroup advertises all configured strategies, in preference order** -/
theorem c06_join_advertises_all (cfg : List String) (tr : List Ev)
    (h : accepts cfg {} tr = true) :
    ∀ id r, Ev.send id r ∈ tr → r.api = Api.join → r.protos = cfg :=
  (joinAllB_iff cfg tr).mp (joinAll_of_alive cfg tr {} (accepts_iff.mp h))

/-- … in the executable form evaluated on the implementation's history -/
theorem c06_join_advertises_all_holds (cfg : List String) (tr : List Ev)
    (h : accepts cfg {} tr = true) : joinAllB cfg tr = true :=
  joinAll_of_alive cfg tr {} (accepts_iff.mp h)

/-- **a successful JoinGroup is followed by that member's SyncGroup** for that generation, with
    the member id the reply assigned — the next JoinGroup/SyncGroup request after the reply is
    that SyncGroup — unless a fault (failed request, reply with an error code) or a subscription
    change intervenes (`between` excludes them; a subscription change before the reply counts
    when no JoinGroup reply was seen since, because the rejoin under way may predate it) -/
theorem c06_join_then_sync (cfg : List String) (tr : List Ev) (h : accepts cfg {} tr = true)
    {pre mid post : List Ev} {id id' : Nat} {g : Int} {m : Nat} {r : Req}
    (heq : tr = pre ++ Ev.recv id (.joined g m) :: (mid ++ Ev.send id' r :: post))
    (hjoin : isJoinId id (scanAfter {} pre).inflight = true)
    (hsub : (scanAfter {} pre).subChanged = false)
    (hmid : ∀ e ∈ mid, between e = true)
    (hreq : r.api = Api.join ∨ r.api = Api.sync) :
    r.api = Api.sync ∧ r.gen = g ∧ r.mid = m :=
  sync_follows_join
    (joinThenSync_of_alive cfg tr {} {} (Or.inr ⟨rfl, rfl, by intro p hp; cases hp⟩) (accepts_iff.mp h))
    heq hjoin hsub hmid hreq

/-- … in the executable form evaluated on the implementation's history -/
theorem c06_join_then_sync_holds (cfg : List String) (tr : List Ev)
    (h : accepts cfg {} tr = true) : joinThenSyncB {} tr = true :=
  joinThenSync_of_alive cfg tr {} {} (Or.inr ⟨rfl, rfl, by intro p hp; cases hp⟩) (accepts_iff.mp h)

/-- **the member does not disturb the group by itself**: once it is in a generation, knows its
    coordinator and has no reason to rejoin (`Settled`), then as long as every reply is free of
    errors and nobody changes subscription / metadata or stops the consumer, it sends nothing
    but Heartbeat, OffsetCommit and OffsetFetch — no JoinGroup, SyncGroup, LeaveGroup or
    FindCoordinator — and stays settled -/
theorem c06_no_self_disturbance (cfg : List String) (c : Core) (tr : List Ev)
    (hs : Settled c) (hcalm : ∀ e ∈ tr, calm e = true) (h : runs cfg c tr ≠ []) :
    (∀ id r, Ev.send id r ∈ tr → routine r.api) ∧ ∀ c' ∈ runs cfg c tr, Settled c' :=
  ⟨(settled_runs cfg tr c hs hcalm).2 h, (settled_runs cfg tr c hs hcalm).1⟩

/-! ## non-vacuity and the repaired defect -/

def cfg2 : List String := ["range", "roundrobin"]

/-- a member joining a v4+ broker: lookup, MEMBER_ID_REQUIRED round, join, sync, heartbeat -/
def joinHistory : List Ev :=
  [ .send 1 { api := .findCoord, node := 1 }, .recv 1 (.coordinator 0),
    .send 2 { api := .join, node := 0, mid := 0, protos := cfg2 }, .recv 2 (.memberId 1),
    .send 3 { api := .join, node := 0, mid := 1, protos := cfg2 }, .recv 3 (.joined 1 1),
    .send 4 { api := .sync, node := 0, gen := 1, mid := 1 }, .recv 4 (.codes [0]),
    .send 5 { api := .heartbeat, node := 0, gen := 1, mid := 1 }, .recv 5 (.codes [0]) ]

example : accepts cfg2 {} joinHistory = true := by decide +kernel

/-- … and it ends settled: the hypotheses of `c06_no_self_disturbance` are reachable -/
example : ∃ c ∈ runs cfg2 {} joinHistory, Settled c := by
  refine ⟨{ mid := 1, gen := 1, coord := some 0, noAssign := false }, by decide +kernel, ?_⟩
  exact { assigned := rfl, noRejoin := rfl, noMd := rfl, coordKnown := rfl, noJoin := rfl,
          noLeave := rfl, open_ := rfl, running := rfl,
          inflightRoutine := by intro p hp; cases hp }

/-- the history of the code before the repair (JoinGroup sent from inside the assignor loop: first
    only `range`, and after the success another JoinGroup instead of SyncGroup) is not a behaviour
    of the model, and violates both statements -/
theorem c06_nested_join_loop_rejected :
    let tr : List Ev :=
      [ .send 1 { api := .findCoord, node := 1 }, .recv 1 (.coordinator 0),
        .send 2 { api := .join, node := 0, mid := 0, protos := ["range"] }, .recv 2 (.joined 1 1),
        .send 3 { api := .join, node := 0, mid := 1, protos := cfg2 }, .recv 3 (.joined 2 1),
        .send 4 { api := .sync, node := 0, gen := 2, mid := 1 } ]
    accepts cfg2 {} tr = false ∧ joinAllB cfg2 tr = false ∧ joinThenSyncB {} tr = false := by
  decide +kernel

end AkVerif.Membership

namespace AkVerif.GroupSys

/-! ## convergence (model level) -/

/-- **convergence of the closed system, partial**: members abstracted to the phase of their
    rejoin (counted), the coordinator's join / sync barrier, a quiet environment.  From every
    well-formed state and under *every* schedule (no fairness needed: each request makes
    progress): (a) at most `rank` requests of the rebalance protocol are ever made — a member the
    coordinator does not know yet costs one rebalance of everybody; (b) when no request is
    possible any more every member is synced in the latest generation; (c) a converged group
    makes no further request of the rebalance protocol (only heartbeats): no further rebalance.

    PARTIAL: the real members are tied to this system only through the phases the member
    automaton `AkVerif.Membership` goes through (bridge lemmas below) and through the bounded
    virtual-time observation of the implementation; assignments (coverage) are the assignor's
    business (C14) and are checked on the observation. -/
theorem c06_converges_partial (s : Sys) (hw : WF s) :
    (∀ as s', exec s as = some s' → as.length ≤ rank (4 * total s + 3) s) ∧
    (∀ as s', exec s as = some s' → (∀ a, step s' a = none) → converged s') ∧
    (∀ as s', exec s as = some s' → converged s' → ∀ a, step s' a = none) := by
  refine ⟨?_, ?_, ?_⟩
  · intro as s' h
    have := exec_rank (4 * total s + 3) as s s' hw (by omega) h
    omega
  · intro as s' h hstuck
    apply Classical.byContradiction
    intro hn
    obtain ⟨a, ha⟩ := progress (exec_wf as s s' hw h) hn
    rw [hstuck a] at ha
    cases ha
  · intro as s' h hc a
    exact converged_quiescent (exec_wf as s s' hw h) hc a

/-- non-vacuity: two members unknown to the coordinator, one stable member of an old generation;
    a schedule that converges in 8 requests (bound: rank = 2·15 = 30) -/
example :
    WF { phase := .stable, out := 2, stable := 1 } ∧
    rank (4 * total { phase := .stable, out := 2, stable := 1 } + 3) { phase := .stable, out := 2, stable := 1 } = 30 ∧
    exec { phase := .stable, out := 2, stable := 1 }
        [.joinOut, .joinOut, .heartbeat, .join, .complete, .syncFollower, .syncLeader, .syncFollower]
      = some { phase := .stable, stable := 3 } := by
  refine ⟨by simp [WF], by decide, by decide⟩

end AkVerif.GroupSys

namespace AkVerif.Membership

/-! ## the abstract moves are moves of the member automaton -/

/-- `heartbeat` of the closed system: REBALANCE_IN_PROGRESS makes the member want to rejoin -/
theorem c06_bridge_told_to_rejoin (c : Core) (n : Int) :
    onReply c { api := .heartbeat, node := n, gen := c.gen, mid := c.mid } (.codes [27]) = [needRejoin c] := by
  simp [onReply, isOk]

/-- `join` / `joinOut`: a member that knows its coordinator and has a reason to rejoin (no
    assignment yet, or told to) can send the JoinGroup — with its current member id and all
    configured strategies -/
theorem c06_bridge_join_enabled (cfg : List String) (c : Core) (n : Int)
    (hc : c.coord = some n) (hr : c.noAssign = true ∨ c.rejoinFut = true)
    (hj : c.joinOk = none) (hl : c.leaveSent = false) :
    sendOk cfg c { api := .join, node := n, mid := c.mid, protos := cfg } = true := by
  rcases hr with hr | hr <;> simp [sendOk, coordFor, hc, hr, hj, hl]

/-- `syncLeader` / `syncFollower`: the successful JoinGroup reply enables exactly the SyncGroup
    carrying the generation and member id of the reply -/
theorem c06_bridge_sync_enabled (cfg : List String) (c : Core) (n : Int) (g : Int) (m : Nat)
    (hc : c.coord = some n) (hd : c.dirty = false) (hl : c.leaveSent = false) :
    ∀ c' ∈ onReply c { api := .join, node := n, mid := c.mid, protos := cfg } (.joined g m),
      sendOk cfg c' { api := .sync, node := n, gen := g, mid := m } = true := by
  intro c' hc'
  simp only [onReply, hd, Bool.false_eq_true, if_false, List.mem_singleton] at hc'
  subst hc'
  simp [sendOk, coordFor, joinReply, hc, hl]

end AkVerif.Membership
