import AkVerif.Lemmas.ConsumeRun
/-!
# C13 — consumption starts at the committed offset, else per auto_offset_reset; seek wins

Theorems about `AkVerif.Consume.step` (`Model/Consume.lean`): per partition the automaton

    awaitingCommitted (pos = none, strat = none)  |  awaitingReset st (pos = none, strat = some st)
    valid p (pos = some p)                         |  error (a `FetchError` entry in `buf`)

driven by what `Fetcher._update_fetch_positions` sees when it resumes (`committed v`,
`offsets sent off`), by fetch answers (`reply f outOfRange`) and by the user (`seek`, `seekTo`).
`policy` is `auto_offset_reset` (`none` = "none"), `start` records every value the position is given
other than by consumption.  `gd = true` is the repaired code (a ListOffsets answer is applied only
if the partition still waits for the strategy it was asked for), `gd = false` the code before the
`fix:` commit; the checks decide which one the tree is.
-/
namespace AkVerif.Consume

/-! ## the automaton, step by step -/

/-- just (re)assigned, the committed offset arrives: the position becomes the committed offset -/
theorem c13_committed_present (gd : Bool) (policy : Option Int) (s : PSt)
    (h1 : s.pos = none) (h2 : s.strat = none) (c : Nat) :
    (step gd policy s (Op.committed (some c))).1.pos = some c ∧
    (step gd policy s (Op.committed (some c))).1.start = some c ∧
    (step gd policy s (Op.committed (some c))).1.strat = none := by
  simp [step, h1, h2, PSt.resetTo]

/-- no committed offset, policy earliest / latest: a reset with that strategy becomes pending -/
theorem c13_committed_absent_policy (gd : Bool) (st : Int) (s : PSt)
    (h1 : s.pos = none) (h2 : s.strat = none) :
    (step gd (some st) s (Op.committed none)).1.pos = none ∧
    (step gd (some st) s (Op.committed none)).1.strat = some st := by
  simp [step, h1, h2, PSt.resetOrError, PSt.awaitReset]

/-- no committed offset, policy none: NoOffsetForPartition (code 2) is queued for the caller and the
    position stays invalid -/
theorem c13_committed_absent_none (gd : Bool) (s : PSt)
    (h1 : s.pos = none) (h2 : s.strat = none) (h3 : s.buf = none) :
    (step gd none s (Op.committed none)).1.buf = some (Entry.err 2) ∧
    (step gd none s (Op.committed none)).1.pos = none ∧
    (step gd none s Op.raise).2 = Res.nothing ∧
    (step gd none (step gd none s (Op.committed none)).1 Op.raise).2 = Res.raised 2 := by
  simp [step, h1, h2, h3, PSt.resetOrError, PSt.setError]

/-- a pending reset for `st` is completed by the broker's answer for `st`: the position becomes
    what the broker reported (log start for earliest, log end / last stable offset for latest) -/
theorem c13_reset_completes (gd : Bool) (policy : Option Int) (s : PSt) (st : Int) (off : Nat)
    (h2 : s.strat = some st) :
    (step gd policy s (Op.offsets st off)).1.pos = some off ∧
    (step gd policy s (Op.offsets st off)).1.start = some off ∧
    (step gd policy s (Op.offsets st off)).1.strat = none := by
  simp [step, h2, PSt.resetTo]

/-- the broker reports the current position out of range, policy earliest / latest: the position
    is invalidated and a reset with the policy's strategy becomes pending -/
theorem c13_out_of_range_policy (gd : Bool) (st : Int) (s : PSt) (p : Nat)
    (ha : s.active = true) (hp : s.pos = some p) :
    (step gd (some st) s (Op.reply p Reply.outOfRange)).1.pos = none ∧
    (step gd (some st) s (Op.reply p Reply.outOfRange)).1.strat = some st := by
  simp [step, ha, hp, PSt.resetOrError, PSt.awaitReset]

/-- … policy none: OffsetOutOfRange (code 1) is queued for the caller, the position is kept -/
theorem c13_out_of_range_none (gd : Bool) (s : PSt) (p : Nat)
    (ha : s.active = true) (hp : s.pos = some p) (hb : s.buf = none) :
    (step gd none s (Op.reply p Reply.outOfRange)).1.buf = some (Entry.err 1) ∧
    (step gd none s (Op.reply p Reply.outOfRange)).1.pos = some p := by
  simp [step, ha, hp, hb, PSt.resetOrError, PSt.setError]

/-- an out-of-range answer for an offset that is no longer the position is ignored -/
theorem c13_out_of_range_stale (gd : Bool) (policy : Option Int) (s : PSt) (f : Nat)
    (hp : s.pos ≠ some f) : (step gd policy s (Op.reply f Reply.outOfRange)).1 = s := by
  have : (s.pos != some f) = true := by simpa using hp
  by_cases ha : s.active = true <;> simp [step, ha, this]

/-! ## where consumption starts when the user does not seek -/

/-- histories without seek / seek_to_*: lookups, answers, hand-outs, pauses, fetch answers of any
    kind (including out-of-range), from a freshly assigned partition -/
def Reach13 (gd : Bool) (cmt : Option Nat) (policy : Option Int) (B : Int → Nat) (s : PSt) : Prop :=
  ∃ ops, (∀ op ∈ ops, EnvOp cmt policy B op) ∧ s = run gd policy {} ops

/-- **committed, else policy**: every value the position is ever given is the group's committed
    offset or the broker's answer for the policy's strategy; a pending reset always uses the
    policy's strategy; a valid position always stems from one of the two -/
theorem c13_start (gd : Bool) (cmt : Option Nat) (policy : Option Int) (B : Int → Nat) {s : PSt}
    (h : Reach13 gd cmt policy B s) :
    (∀ x, s.start = some x → cmt = some x ∨ ∃ st, policy = some st ∧ x = B st) ∧
    (∀ st, s.strat = some st → policy = some st) ∧
    (∀ p, s.pos = some p → ∃ x, s.start = some x) := by
  obtain ⟨ops, he, rfl⟩ := h
  have hi := run_startInv gd cmt policy B {} ops
    ⟨fun _ h => (by cases h), fun _ h => (by cases h), fun _ h => (by cases h)⟩ he
  exact ⟨hi.start, hi.strat, hi.valid⟩

/-- **the committed offset wins**: with a committed offset `c` and as long as the broker does not
    report the position out of range, the only start position is `c` and no reset is ever pending -/
theorem c13_start_committed (gd : Bool) (policy : Option Int) (B : Int → Nat) (c : Nat) (ops : List Op)
    (he : ∀ op ∈ ops, EnvOp (some c) policy B op) (hn : ∀ op ∈ ops, NoOOR op) :
    (run gd policy {} ops).strat = none ∧ ∀ x, (run gd policy {} ops).start = some x → x = c := by
  have hi := run_committedInv gd policy B c {} ops ⟨rfl, fun _ h => (by cases h)⟩ he hn
  exact ⟨hi.strat, hi.start⟩

/-- **no committed offset**: every start position is the broker's answer for the policy -/
theorem c13_start_reset (gd : Bool) (st : Int) (B : Int → Nat) {s : PSt}
    (h : Reach13 gd none (some st) B s) : ∀ x, s.start = some x → x = B st := by
  intro x hx
  rcases (c13_start gd none (some st) B h).1 x hx with h' | ⟨st', h1, h2⟩
  · cases h'
  · injection h1 with h1; subst h1; exact h2

/-- **policy none, nothing committed**: the position never becomes valid (the caller gets
    NoOffsetForPartition, see `c13_committed_absent_none`) -/
theorem c13_start_none (gd : Bool) (B : Int → Nat) {s : PSt} (h : Reach13 gd none none B s) :
    s.pos = none ∧ s.start = none := by
  obtain ⟨h1, _, h3⟩ := c13_start gd none none B h
  have hs : s.start = none := by
    cases hx : s.start with
    | none => rfl
    | some x =>
      rcases h1 x hx with h' | ⟨st, h', _⟩
      · cases h'
      · cases h'
  refine ⟨?_, hs⟩
  cases hp : s.pos with
  | none => rfl
  | some p =>
    obtain ⟨x, hx⟩ := h3 p hp
    rw [hs] at hx; cases hx

/-! ## an explicit seek always takes precedence -/

/-- **seek(x) wins, whatever lookup or reset is in flight**: after `seek x` the position is valid,
    no reset is pending and the start position stays `x` through any later committed-offset answer,
    ListOffsets answer (for any strategy), fetch answer for any offset, hand-out, pause — until the
    next seek / seek_to_* / out-of-range answer.  Holds for both variants of the code. -/
theorem c13_seek_precedence (gd : Bool) (policy : Option Int) (s : PSt) (x : Nat) (ops : List Op)
    (hk : ∀ op ∈ ops, KeepsStart op) :
    Settled x (run gd policy (step gd policy s (Op.seek x)).1 ops) :=
  run_settled gd policy x _ ops (by simp [Settled, step]) hk

/-- nothing but consumption moves the position after a seek: stale answers leave it at `x` -/
theorem c13_seek_position_stays (gd : Bool) (policy : Option Int) (s : PSt) (x : Nat) (v : Option Nat)
    (sent : Int) (off f : Nat) (hf : f ≠ x) (resp : List Batch) :
    (run gd policy (step gd policy s (Op.seek x)).1
      [Op.committed v, Op.offsets sent off, Op.reply f (Reply.data resp), Op.reply f Reply.outOfRange]).pos
      = some x := by
  have hxf : ¬ x = f := fun h => hf h.symm
  by_cases ha : s.active = true <;> simp [run, step, ha, hxf]

/-- **seek_to_beginning / seek_to_end win** (repaired code): after `seek_to st`, whatever else is
    in flight, the partition keeps waiting for `st` until an answer *asked for `st`* arrives, and
    then settles on exactly that answer — an answer asked for another strategy never completes it -/
theorem c13_seek_to_precedence (policy : Option Int) (s : PSt) (st : Int) (ops : List Op)
    (hk : ∀ op ∈ ops, KeepsStart op) :
    Waiting st (run true policy (step true policy s (Op.seekTo st)).1 ops) ∨
    ∃ off ∈ answersFor st ops, Settled off (run true policy (step true policy s (Op.seekTo st)).1 ops) :=
  run_waiting policy st _ ops (by simp [Waiting, step, PSt.awaitReset]) hk

/-- the code before the repair violated it (kernel-checked witness): the initial lookup for
    `latest` is in flight, the user calls seek_to_beginning, the answer for `latest` (log end 30)
    arrives — and is taken as the result of seek_to_beginning -/
theorem c13_unguarded_counterexample :
    (run false (some (-1)) {} [Op.committed none, Op.seekTo (-2), Op.offsets (-1) 30]).pos = some 30 ∧
    (run true (some (-1)) {} [Op.committed none, Op.seekTo (-2), Op.offsets (-1) 30]).pos = none ∧
    (run true (some (-1)) {} [Op.committed none, Op.seekTo (-2), Op.offsets (-1) 30]).strat = some (-2) := by
  decide

/-! ## the property on observations (`holdsC13`) -/

/-- without a seek the first valid position must be the committed offset … -/
theorem c13_holds_committed (c p : Nat) (policy : Option Int) :
    holdsC13 (some c) policy [Obs13.assigned, Obs13.valid p] = true ↔ p = c := by
  by_cases h : p = c <;> simp [holdsC13, orun13, ostep13, h]

/-- … or, with nothing committed, the broker's answer for the policy's strategy -/
theorem c13_holds_reset (st : Int) (b p : Nat) :
    holdsC13 none (some st) [Obs13.assigned, Obs13.report st b, Obs13.valid p] = true ↔ p = b := by
  by_cases h : b = p
  · subst h; simp [holdsC13, orun13, ostep13, lastReport]
  · have h' : ¬ p = b := fun e => h e.symm
    simp [holdsC13, orun13, ostep13, lastReport, h, h']

/-- after a seek no reset may complete: any later `valid` observation is a violation -/
theorem c13_holds_seek_wins (cmt : Option Nat) (policy : Option Int) (x p : Nat) (st : Int) (b : Nat) :
    holdsC13 cmt policy [Obs13.assigned, Obs13.seek x, Obs13.report st b, Obs13.valid p] = false := by
  simp [holdsC13, orun13, ostep13]

/-! ## non-vacuity -/

example : Reach13 true none (some (-2)) (fun _ => 10)
    (run true (some (-2)) {} [Op.committed none, Op.offsets (-2) 10]) :=
  ⟨_, by
    intro op hop
    simp only [List.mem_cons, List.not_mem_nil, or_false] at hop
    rcases hop with rfl | rfl
    · rfl
    · exact ⟨rfl, rfl⟩, rfl⟩

example : (run true (some (-2)) {} [Op.committed none, Op.offsets (-2) 10]).pos = some 10 := by decide

example : (run true (some (-1)) {} [Op.committed (some 4), Op.reply 4 Reply.outOfRange,
    Op.offsets (-1) 30]).pos = some 30 := by decide

example : answersFor (-2) [Op.offsets (-1) 30, Op.offsets (-2) 10] = [10] := by decide

end AkVerif.Consume
