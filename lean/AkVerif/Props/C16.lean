import AkVerif.Lemmas.Txn
import AkVerif.Gen.TxnTable
/-!
# C16 — the transactional API is a strict state machine with recoverable and fatal errors

Theorems about the API automaton `AkVerif.Txn.step` (`Model/Txn.lean`): the transactional
`AIOKafkaProducer` between quiescent points, driven by any sequence of calls
`begin · send p · send_offsets · commit · abort · context exit (clean / by exception) · restart`,
with any one fault (retriable / lost reply / abortable / fatal) at any transactional request.
-/
namespace AkVerif.Txn

/-! ## the transition table of the source is the table of the model (T-extract) -/

/-- `Gen/TxnTable.lean` is regenerated from `TransactionState.is_transition_valid` on every run -/
theorem txn_table_eq : Gen.txnTable = transitionTable := by decide

theorem txn_names_eq : Gen.txnStateNames = TState.all.map TState.name := by decide

/-- the guards of the API automaton are rows of that table: a call is accepted exactly when the
    manager's `_transition_to` it starts with is valid (quiescent states only) -/
theorem c16_guards_are_table (st : TState)
    (hq : st = .ready ∨ st = .inTxn ∨ st = .abortable ∨ st = .fatal) :
    (st = .ready ↔ transitionValid st .inTxn = true) ∧
    (st = .inTxn ↔ transitionValid st .committing = true) ∧
    ((st = .inTxn ∨ st = .abortable) ↔ transitionValid st .aborting = true) := by
  rcases hq with h | h | h | h <;> subst h <;> decide

/-! ## calls out of order -/

/-- the protocol order: which call the manager accepts in which state -/
def legal (st : TState) : Call → Bool
  | .begin => st == .ready
  | .send _ => st == .inTxn
  | .sendOffsets => st == .inTxn
  | .commit => st == .inTxn
  | .exitOk => st == .inTxn
  | .abort => st == .inTxn || st == .abortable
  | .exitExc => st == .inTxn || st == .abortable || st == .fatal
  | .restart => true

/-- **a call out of order raises and has no effect**: nothing is sent, the cluster, the manager,
    the futures are untouched; only the raised result is recorded.  (After an abortable error
    `commit` raises that error — see `c16_abortable_commit_raises`.) -/
theorem c16_out_of_order_no_effect (s : Sys) (c : Call) (h : legal s.st c = false) :
    ∃ r, step s c = s.result r ∧ r ≠ .ok := by
  have hr : ∃ r, s.refuse = s.result r ∧ r ≠ .ok := by
    unfold Sys.refuse
    by_cases hf : s.st = .fatal
    · exact ⟨.dead, by simp [hf], by simp⟩
    · exact ⟨.refused, by simp [hf], by simp⟩
  cases c with
  | begin =>
    have : s.st ≠ .ready := by simpa [legal] using h
    simp only [step, this, if_false]; exact hr
  | send p =>
    have : s.st ≠ .inTxn := by simpa [legal] using h
    simp only [step, this, if_false]; exact hr
  | sendOffsets =>
    have : s.st ≠ .inTxn := by simpa [legal] using h
    simp only [step, this, if_false]; exact hr
  | commit =>
    have h1 : s.st ≠ .inTxn := by simpa [legal] using h
    simp only [step, h1, if_false]
    by_cases ha : s.st = .abortable
    · simp only [ha, if_true]; exact ⟨.abrt, rfl, by simp⟩
    · simp only [ha, if_false]; exact hr
  | exitOk =>
    have h1 : s.st ≠ .inTxn := by simpa [legal] using h
    simp only [step, h1, if_false]
    by_cases ha : s.st = .abortable
    · simp only [ha, if_true]; exact ⟨.abrt, rfl, by simp⟩
    · simp only [ha, if_false]; exact hr
  | abort =>
    have h1 : ¬ (s.st = .inTxn ∨ s.st = .abortable) := by simpa [legal] using h
    simp only [step, h1, if_false]; exact hr
  | exitExc =>
    simp only [legal, Bool.or_eq_false_iff, beq_eq_false_iff_ne] at h
    obtain ⟨⟨h1, h2⟩, h3⟩ := h
    simp only [step, h1, h2, h3, or_self, if_false]; exact hr
  | restart => simp [legal] at h

/-- … and `s.result r` really changes nothing but the list of results -/
theorem c16_result_only (s : Sys) (r : Res) :
    (s.result r).toCore = s.toCore ∧ (s.result r).reqs = s.reqs ∧ (s.result r).futs = s.futs ∧
    (s.result r).cnt = s.cnt := ⟨rfl, rfl, rfl, rfl⟩

/-! ## abortable errors -/

/-- after an abortable error `commit` (and a clean context exit) raise that error, nothing else
    happens -/
theorem c16_abortable_commit_raises (s : Sys) (h : s.st = .abortable) :
    step s .commit = s.result .abrt ∧ step s .exitOk = s.result .abrt := by
  simp [step, h]

/-- the manager is in the abortable state only after the scheduled fault has fired (so it cannot
    strike again) -/
theorem c16_abortable_entered {s : Sys} (hr : Reachable s) (c : Call)
    (h : (step s c).st = .abortable) : Fired (step s c) := by
  have := (reachable_inv hr).2.2.1
  exact step_ab s c this h

/-- **abort recovers**: in the abortable state `abort` returns normally, the coordinator has no
    transaction open afterwards, and a new transaction `begin · send p · commit` succeeds: all three
    calls return, the record is acknowledged and a read-committed reader is given it — while
    nothing of the aborted transaction is ever given to that reader -/
theorem c16_abortable_recovers {s : Sys} (hr : Reachable s) (hst : s.st = .abortable) (p : Nat) :
    (step s .abort).st = .ready ∧ (step s .abort).res = .ok :: s.res ∧
    (step s .abort).env.ongoing = false ∧
    (run (step s .abort) [.begin, .send p, .commit]).st = .ready ∧
    (run (step s .abort) [.begin, .send p, .commit]).res = .ok :: .ok :: .ok :: .ok :: s.res ∧
    (s.nRec, FRes.ok) ∈ (run (step s .abort) [.begin, .send p, .commit]).futs ∧
    (∃ q, s.nRec ∈ visible ((run (step s .abort) [.begin, .send p, .commit]).env.logs q)) ∧
    (∀ r, r ∈ s.cur → ∀ q, r ∉ visible ((run (step s .abort) [.begin, .send p, .commit]).env.logs q)) := by
  obtain ⟨hi, _, hab, _⟩ := reachable_inv hr
  have hq : Quiet s := Quiet.of_fired (hab hst)
  have hbn : s.burnt = [] := (reachable_kinv hr).burnt_nil_of_abortable hst
  -- abort
  have h1def := step_abort_live s (Or.inr hst)
  obtain ⟨hs1, hr1, hf1, hn1, hg1, hb1, ho1, hi1, hq1, hbu1⟩ := end_happy s false hq hi (Or.inr hst)
  rw [← h1def] at hs1 hr1 hf1 hn1 hg1 hb1 ho1 hi1 hq1 hbu1
  refine ⟨hs1, hr1, ho1, ?_⟩
  obtain ⟨hs4, hr4, hf4, hg4, hb4, hi4⟩ :=
    new_txn_happy (step s .abort) p hq1 (hbu1.trans hbn) hi1 hs1
  refine ⟨hs4, ?_, ?_, ?_, ?_⟩
  · rw [hr4, hr1]
  · rw [hf4, hn1]; exact List.mem_cons_self
  · rw [hn1] at hg4
    exact hi4.good_vis _ hg4
  · intro r hr' q
    have : r ∈ (run (step s .abort) [.begin, .send p, .commit]).bad := by
      rw [hb4, hb1]
      simp only [Bool.false_eq_true, if_false, List.mem_append]
      exact Or.inl hr'
    exact (hi4.bad_gone r this q).1

/-! ## fatal errors -/

/-- **fatal is final**: after a fatal error every transactional call raises (leaving a
    `transaction()` block by an exception lets that exception pass), and nothing happens any more:
    no request, no change in the cluster, no change of the futures -/
theorem c16_fatal_is_final (s : Sys) (h : s.st = .fatal) (c : Call) (hc : c ≠ .restart) :
    step s c = s.result (if c = .exitExc then .ok else .dead) := by
  cases c <;> simp [step, h, Sys.refuse] at hc ⊢

/-- … for any number of further calls: the cluster, the request log and the futures stay as they
    were when the error struck -/
theorem c16_fatal_nothing_more_written (cs : List Call) : ∀ (s : Sys), s.st = .fatal →
    (∀ c, c ∈ cs → c ≠ .restart) →
    (run s cs).toCore = s.toCore ∧ (run s cs).reqs = s.reqs ∧ (run s cs).futs = s.futs := by
  induction cs with
  | nil => intro s _ _; exact ⟨rfl, rfl, rfl⟩
  | cons c cs ih =>
    intro s h hc
    have h1 := c16_fatal_is_final s h c (hc c List.mem_cons_self)
    have hrun : run s (c :: cs) = run (step s c) cs := rfl
    rw [hrun, h1]
    exact ih (s.result _) h (fun c' hc' => hc c' (List.mem_cons_of_mem _ hc'))

/-- **`_partial`** — what is missing from “after a fatal error (fencing, sequence violation, …)
    every later call fails and nothing more is written”: the theorems above are about errors the
    *transaction manager* is told about (every transactional request).  A fencing / sequence error
    answered to a **Produce** request only fails that batch (`SendProduceReqHandler.handle_response`
    calls `batch.failure`, nothing raises into the sender task; tests/test_sender.py pins this):
    the manager stays in `inTxn`.  Guard of the partial statement: the error reaches the manager,
    i.e. `s.st = .fatal`. -/
theorem c16_fatal_is_final_partial (s : Sys) (h : s.st = .fatal) (c : Call) (hc : c ≠ .restart) :
    (step s c).st = .fatal ∧ (step s c).env = s.env ∧ (step s c).reqs = s.reqs := by
  rw [c16_fatal_is_final s h c hc]
  exact ⟨h, rfl, rfl⟩

/-- kernel-checked witness: `OUT_OF_ORDER_SEQUENCE_NUMBER` / `INVALID_PRODUCER_EPOCH` answered to
    the first Produce — the send fails with that error, yet `commit_transaction()` returns normally,
    EndTxn(COMMIT) is written, and the next transaction's send to that partition fails again (the
    sequence numbers of the failed batch stay consumed) while its commit returns once more -/
theorem c16_produce_error_not_fatal_counterexample :
    let s := run (init (some ⟨.produce, 0, .fatal⟩)) [.begin, .send 0, .commit, .begin, .send 0, .commit]
    s.res.reverse = [.ok, .ok, .ok, .ok, .ok, .ok] ∧ s.futs.reverse = [(0, .fatal), (1, .fatal)] ∧
    s.st = .ready ∧
    s.reqs.reverse = [.addParts 0 .ok, .produce 0 0 .fatal, .endTxn true .ok,
                      .addParts 0 .ok, .produce 0 1 .fatal, .endTxn true .ok] := by
  decide

/-- the send that was pending when the fatal error struck fails with it -/
theorem c16_fatal_fails_pending_send (s : Sys) (p : Nat) (hst : s.st = .inTxn)
    (h : (step s (.send p)).st = .fatal) : (s.nRec, FRes.fatal) ∈ (step s (.send p)).futs := by
  have hdef : step s (.send p) = sendAccepted ({ s with nRec := s.nRec + 1 }.result .ok) p s.nRec := by
    simp [step, hst, doSend]
  rw [hdef] at h ⊢
  obtain ⟨⟨o, ho, hfat⟩, _⟩ := sendAccepted_futs ({ s with nRec := s.nRec + 1 }.result .ok) p s.nRec
  have : o = .fatal := hfat h (by show s.st ≠ .fatal; simp [hst])
  subst this
  rw [ho]; exact List.mem_cons_self

/-- no send future is ever left pending at a quiescent point: every accepted record has an outcome -/
theorem c16_no_future_left_pending {s : Sys} (hr : Reachable s) (r : Nat) (h : r < s.nRec) :
    ∃ o, (r, o) ∈ s.futs :=
  (reachable_inv hr).2.2.2 r h

/-! ## non-vacuity: concrete runs (kernel-evaluated) -/

/-- out of order: `commit` on a fresh producer is refused, nothing is sent -/
example : (run (init none) [.commit]).res = [.refused] ∧ (run (init none) [.commit]).reqs = [] := by
  decide

/-- an abortable error at AddOffsetsToTxn: send_offsets and commit raise it, abort sends
    EndTxn(ABORT) for the partition that was registered, the next transaction commits -/
example :
    let s := run (init (some ⟨.addOffs, 0, .abrt⟩))
      [.begin, .send 0, .sendOffsets, .commit, .abort, .begin, .send 0, .commit]
    s.res.reverse = [.ok, .ok, .abrt, .abrt, .ok, .ok, .ok, .ok] ∧
    s.reqs.reverse = [.addParts 0 .ok, .produce 0 0 .ok, .addOffs .abrt, .endTxn false .ok,
                      .addParts 0 .ok, .produce 0 1 .ok, .endTxn true .ok] ∧
    visible (s.env.logs 0) = [1] ∧ s.st = .ready := by
  decide

/-- a reachable abortable state (hypothesis of `c16_abortable_recovers`) -/
example : Reachable (run (init (some ⟨.addParts, 0, .abrt⟩)) [.begin, .send 0]) ∧
    (run (init (some ⟨.addParts, 0, .abrt⟩)) [.begin, .send 0]).st = .abortable :=
  ⟨⟨_, _, rfl⟩, by decide⟩

/-- a reachable fatal state: fenced at EndTxn; later calls are dead, nothing more is sent -/
example :
    let s := run (init (some ⟨.endTxn, 0, .fatal⟩)) [.begin, .send 1, .commit, .begin, .abort, .exitExc]
    s.st = .fatal ∧ s.res.reverse = [.ok, .ok, .fatal, .dead, .dead, .ok] ∧
    s.reqs.reverse = [.addParts 1 .ok, .produce 1 0 .ok, .endTxn true .fatal] := by
  decide

end AkVerif.Txn
