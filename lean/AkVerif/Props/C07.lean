import AkVerif.Lemmas.Txn
import AkVerif.Lemmas.TxnTrace
/-!
# C07 — transactions are atomic and follow the transactional protocol order

Part 1 (this section): theorems about the API automaton `AkVerif.Txn.step` — every program of
transactional calls (including killing and restarting the producer), any one fault at any
transactional request, against the environment model `Env` (coordinator, group offsets, partition
logs with control markers).
-/
namespace AkVerif.Txn

/-! ## atomicity -/

/-- **read-committed atomicity.**  In every reachable state, for every partition:
    * what a read-committed reader is given are acknowledged records of transactions whose
      `commit_transaction()` returned (`good`), and every such record is given to it;
    * no acknowledged record of a transaction that was aborted or fenced (`bad`), and no record of
      the transaction still in progress or failed (`cur`), is given to it;
    * the group's committed offset is the offset of the last committed transaction that sent
      offsets; offsets of an aborted / failed / open transaction are not committed. -/
theorem c07_atomic {s : Sys} (hr : Reachable s) :
    (∀ p r, r ∈ visible (s.env.logs p) → r ∈ s.good) ∧
    (∀ r, r ∈ s.good → ∃ p, r ∈ visible (s.env.logs p)) ∧
    (∀ r, r ∈ s.bad → ∀ p, r ∉ visible (s.env.logs p)) ∧
    (∀ r, r ∈ s.cur → ∀ p, r ∉ visible (s.env.logs p)) ∧
    s.env.commOff = s.goodOff := by
  obtain ⟨hi, _, _, _⟩ := reachable_inv hr
  exact ⟨hi.vis_good, hi.good_vis, fun r h p => (hi.bad_gone r h p).1, hi.cur_hidden, hi.off_comm⟩

/-- what `good` / `bad` mean, in terms of the API: `commit` returning moves the acknowledged
    records of the running transaction to `good`, `abort` returning moves them to `bad` -/
theorem c07_commit_books_good (s : Sys) (hq : Quiet s) (hi : Inv s.toCore) (hst : s.st = .inTxn) :
    (step s .commit).res = .ok :: s.res ∧ (step s .commit).good = s.cur ++ s.good ∧
    (step s .commit).bad = s.bad := by
  rw [step_commit_inTxn s hst]
  obtain ⟨_, hr, _, _, hg, hb, _, _, _⟩ := end_happy s true hq hi (Or.inl hst)
  exact ⟨hr, by simpa using hg, by simpa using hb⟩

theorem c07_abort_books_bad (s : Sys) (hq : Quiet s) (hi : Inv s.toCore)
    (hst : s.st = .inTxn ∨ s.st = .abortable) :
    (step s .abort).res = .ok :: s.res ∧ (step s .abort).bad = s.cur ++ s.bad ∧
    (step s .abort).good = s.good := by
  rw [step_abort_live s hst]
  obtain ⟨_, hr, _, _, hg, hb, _, _, _⟩ := end_happy s false hq hi hst
  exact ⟨hr, by simpa using hb, by simpa using hg⟩

/-- killing the producer and starting a new one fences the transaction in progress: its records
    become `bad` (and by `c07_atomic` are never given to a read-committed reader) -/
theorem c07_restart_fences (s : Sys) :
    (step s .restart).bad = s.cur ++ s.bad ∧ (step s .restart).good = s.good ∧
    (step s .restart).st = .ready := by
  refine ⟨?_, ?_, rfl⟩
  · show (s.toCore.settle false).bad = _; rw [settle_bad]; rfl
  · show (s.toCore.settle false).good = _; rw [settle_good]; rfl

/-! ## protocol order, on the request log -/

/-- the request log of every reachable state is in protocol order (`chk` accepts it) -/
theorem c07_protocol_order {s : Sys} (hr : Reachable s) : orderOk s.reqs = true := by
  obtain ⟨_, ⟨o, h, _⟩, _, _⟩ := reachable_inv hr
  simp [orderOk, h]

/-- **never a Produce before the coordinator acknowledged the partition**: wherever a Produce for
    partition `p` sits in the log (`later ++ produce :: earlier`, newest first), the requests before
    it contain an acknowledged AddPartitionsToTxn for `p` that no EndTxn / restart has cleared since -/
theorem c07_produce_after_add {s : Sys} (hr : Reachable s) (later earlier : List Req) (p r : Nat)
    (c : Code) (h : s.reqs = later ++ Req.produce p r c :: earlier) :
    ∃ o, chk earlier = some o ∧ p ∈ o.reg ∧ o.ending = false := by
  have hok := c07_protocol_order hr
  rw [h] at hok
  obtain ⟨o, h1, h2⟩ := chk_split later earlier _ hok
  refine ⟨o, h1, ?_⟩
  simp only [ordStep] at h2
  by_cases hc : p ∈ o.reg ∧ ¬ o.ending = true
  · exact ⟨hc.1, by simpa using hc.2⟩
  · rw [if_neg hc] at h2; cases h2

/-- **never an EndTxn while a batch of the transaction is unacknowledged** -/
theorem c07_end_after_acks {s : Sys} (hr : Reachable s) (later earlier : List Req) (b : Bool)
    (c : Code) (h : s.reqs = later ++ Req.endTxn b c :: earlier) :
    ∃ o, chk earlier = some o ∧ o.unacked = [] := by
  have hok := c07_protocol_order hr
  rw [h] at hok
  obtain ⟨o, h1, h2⟩ := chk_split later earlier _ hok
  refine ⟨o, h1, ?_⟩
  simp only [ordStep] at h2
  by_cases hc : o.unacked = []
  · exact hc
  · rw [if_neg hc] at h2; cases h2

/-- **no transactional data outside an open transaction**: once an EndTxn was acknowledged (or a
    new incarnation registered) nothing is registered any more, so a Produce directly after it —
    before a new AddPartitionsToTxn is acknowledged — is never in a reachable log -/
theorem c07_no_txn_data_outside_txn (earlier : List Req) (b : Bool) (p r : Nat) (c : Code) :
    orderOk (Req.produce p r c :: Req.endTxn b .ok :: earlier) = false ∧
    orderOk (Req.produce p r c :: Req.init :: earlier) = false ∧
    orderOk [Req.produce p r c] = false := by
  refine ⟨?_, ?_, by simp [orderOk, chk, ordStep]⟩
  · simp only [orderOk, chk_cons]
    cases chk earlier with
    | none => rfl
    | some o =>
      simp only [Option.bind, ordStep]
      by_cases hu : o.unacked = [] <;> simp [hu]
  · simp only [orderOk, chk_cons]
    cases chk earlier with
    | none => rfl
    | some o => simp [Option.bind, ordStep]

/-- TxnOffsetCommit is sent only after AddOffsetsToTxn was acknowledged in the open transaction -/
theorem c07_offsets_after_add {s : Sys} (hr : Reachable s) (later earlier : List Req) (off : Nat)
    (c : Code) (h : s.reqs = later ++ Req.offsCommit off c :: earlier) :
    ∃ o, chk earlier = some o ∧ o.grp = true := by
  have hok := c07_protocol_order hr
  rw [h] at hok
  obtain ⟨o, h1, h2⟩ := chk_split later earlier _ hok
  refine ⟨o, h1, ?_⟩
  simp only [ordStep] at h2
  by_cases hc : o.grp = true ∧ ¬ o.ending = true
  · exact hc.1
  · rw [if_neg hc] at h2; cases h2

/-! ## retriable faults only -/

/-- **when only retriable faults occur every transaction ends the way the application asked.**
    If the scheduled fault is of a retriable kind (retriable error code or connection dropped
    before the request was applied; reply lost after it was applied), then whatever the program:
    the manager is never in an error state, no call ever raised an error (only out-of-order calls
    are refused), no send failed — so by `c07_commit_books_good` / `c07_abort_books_bad` every
    `commit` commits and every `abort` aborts.

    `_partial`: the liveness clause of the property is about time (“once the faults cease”); the
    model has no clock and one fault per run.  On the implementation side the clause is checked by
    bounded virtual-time runs with several retriable faults (harness/checks/c07.py). -/
theorem c07_retriable_only_completes_partial (f : Fault) (hk : f.kind = .retr ∨ f.kind = .lost)
    (cs : List Call) :
    let s := run (init (some f)) cs
    (s.st = .ready ∨ s.st = .inTxn) ∧ (∀ r, r ∈ s.res → r = .ok ∨ r = .refused) ∧
    (∀ x, x ∈ s.futs → x.2 = .ok) := by
  have hq : Quiet (init (some f)) := by
    apply Quiet.of_benign
    intro g hg
    simp only [init, Option.some.injEq] at hg
    subst hg
    exact hk
  have hb : Smooth (init (some f)) := by
    refine ⟨Or.inl rfl, ?_, ?_, rfl⟩
    · intro r hr; cases hr
    · intro x hx; cases hx
  have := run_smooth cs _ hq init_inv hb
  exact ⟨this.st_ok, this.res_ok, this.futs_ok⟩

/-- … and without any fault, of course -/
theorem c07_fault_free_completes (cs : List Call) :
    let s := run (init none) cs
    (s.st = .ready ∨ s.st = .inTxn) ∧ (∀ r, r ∈ s.res → r = .ok ∨ r = .refused) ∧
    (∀ x, x ∈ s.futs → x.2 = .ok) := by
  have hq : Quiet (init none) := fun g hg => by simp [init] at hg
  have hb : Smooth (init none) := by
    refine ⟨Or.inl rfl, ?_, ?_, rfl⟩
    · intro r hr; cases hr
    · intro x hx; cases hx
  have := run_smooth cs _ hq init_inv hb
  exact ⟨this.st_ok, this.res_ok, this.futs_ok⟩

/-! ## non-vacuity (kernel-evaluated runs) -/

/-- two partitions, offsets, commit; then an aborted transaction; then a fenced one -/
example :
    let s := run (init none)
      [.begin, .send 0, .send 1, .sendOffsets, .commit, .begin, .send 0, .abort,
       .begin, .send 1, .restart, .begin, .send 1, .commit]
    visible (s.env.logs 0) = [0] ∧ visible (s.env.logs 1) = [1, 4] ∧ s.good = [4, 1, 0] ∧
    s.bad = [3, 2] ∧ s.env.commOff = some 100 ∧ orderOk s.reqs = true := by
  decide

/-- a lost reply at EndTxn: the retry is answered by the completed state, the commit returns -/
example :
    let s := run (init (some ⟨.endTxn, 0, .lost⟩)) [.begin, .send 0, .commit]
    s.res = [.ok, .ok, .ok] ∧ visible (s.env.logs 0) = [0] ∧
    s.reqs.reverse = [.addParts 0 .ok, .produce 0 0 .ok, .endTxn true .lost, .endTxn true .ok] := by
  decide


/-!
# Part 2 — histories with concurrency, any faults, killed and replaced producers (T-trace)

Theorems about the trace acceptor `tstep` / `trun` (`Model/TxnTrace.lean`).  A history of a real
run is fed to the acceptor by `harness/checks/c07.py`; `accepts tr` is what that check decides.
-/

/-- **atomicity of every accepted history.**  Whatever the interleaving of send tasks, faults and
    incarnations: every acknowledged record of a transaction whose `commit_transaction()` returned
    is given to a read-committed reader; no record of a transaction whose `abort_transaction()`
    returned, or that was fenced by a new incarnation before the coordinator committed it, is ever
    given to it; and a read-committed reader is given nothing but records of transactions the
    coordinator committed. -/
theorem c07_trace_atomic (tr : List Ev) (s : TSt) (h : trun {} tr = .ok s) :
    (∀ r, r ∈ s.appGood → ∃ p, r ∈ visible (s.env.logs p)) ∧
    (∀ r, r ∈ s.appBad → ∀ p, r ∉ visible (s.env.logs p)) ∧
    (∀ p r, r ∈ visible (s.env.logs p) → r ∈ s.good) ∧
    s.env.commOff = s.goodOff := by
  have hi := trun_inv tr {} s tinit_inv h
  refine ⟨?_, ?_, hi.eg.vis_good, hi.eg.off_comm⟩
  · intro r hr
    exact hi.eg.good_vis r (hi.good_sub r hr)
  · intro r hr p hv
    rcases hi.bad_sub r hr with h1 | h1
    · exact (hi.eg.bad_gone r h1 p).1 hv
    · exact h1 p (data_of_mem_scan _ _ (Or.inl hv))

/-- **produce only after the coordinator added the partition, and only inside a transaction**:
    wherever a Produce of the incarnation owning the id sits in an accepted history, at that moment
    the coordinator has an ongoing transaction with that partition registered and the application
    is inside begin … commit/abort -/
theorem c07_trace_produce_after_add (a b : List Ev) (i p : Nat) (s : TSt)
    (h : trun {} (a ++ Ev.produceReq i p :: b) = .ok s) :
    ∃ s1, trun {} a = .ok s1 ∧
      (s1.isLive i = true → s1.inTx = true ∧ s1.env.ongoing = true ∧ p ∈ s1.env.parts) := by
  obtain ⟨s1, s2, h1, h2, _⟩ := trun_split a {} s _ b h
  refine ⟨s1, h1, ?_⟩
  intro hl
  simp only [tstep, hl, Bool.not_true, Bool.false_eq_true, if_false] at h2
  split at h2
  · cases h2
  · next hin =>
    split at h2
    · cases h2
    · next hreg =>
      have hreg' : s1.env.ongoing = true ∧ p ∈ s1.env.parts := by simpa using hreg
      exact ⟨by simpa using hin, hreg'.1, hreg'.2⟩

/-- **… never before the acknowledgement reached the client**: wherever the client hands a
    Produce for partition `p` to a connection in an accepted history, it has — inside the running
    transaction — already received the coordinator's ok reply of AddPartitionsToTxn for `p` -/
theorem c07_trace_produce_after_ack (a b : List Ev) (i p : Nat) (s : TSt)
    (h : trun {} (a ++ Ev.produceSend i p :: b) = .ok s) :
    ∃ s1, trun {} a = .ok s1 ∧ (s1.isLive i = true → s1.inTx = true ∧ p ∈ s1.known) := by
  obtain ⟨s1, s2, h1, h2, _⟩ := trun_split a {} s _ b h
  refine ⟨s1, h1, ?_⟩
  intro hl
  simp only [tstep, hl, Bool.not_true, Bool.false_eq_true, if_false] at h2
  split at h2
  · cases h2
  · next hin =>
    split at h2
    · cases h2
    · next hk => exact ⟨by simpa using hin, by simpa using hk⟩

/-- … and what the client counts as acknowledged really was registered by the coordinator, in
    the running transaction, when the acknowledgement arrived -/
theorem c07_trace_ack_is_registered (a b : List Ev) (i p : Nat) (s : TSt)
    (h : trun {} (a ++ Ev.regAck i p :: b) = .ok s) :
    ∃ s1, trun {} a = .ok s1 ∧
      (s1.isLive i = true → s1.inTx = true ∧ s1.env.ongoing = true ∧ p ∈ s1.env.parts) := by
  obtain ⟨s1, s2, h1, h2, _⟩ := trun_split a {} s _ b h
  refine ⟨s1, h1, ?_⟩
  intro hl
  simp only [tstep, hl, Bool.not_true, Bool.false_eq_true, if_false] at h2
  split at h2
  · cases h2
  · next hreg =>
    have hreg' : s1.env.ongoing = true ∧ p ∈ s1.env.parts := by simpa using hreg
    split at h2
    · cases h2
    · next hin => exact ⟨by simpa using hin, hreg'.1, hreg'.2⟩

/-- **records are written only into the transaction they belong to**: every append in an accepted
    history happens while the coordinator has that partition registered in an ongoing transaction,
    for a record the application handed to `send()` in its running transaction, not yet written,
    before the transaction's EndTxn -/
theorem c07_trace_no_txn_data_outside_txn (a b : List Ev) (i p r : Nat) (s : TSt)
    (h : trun {} (a ++ Ev.append i p r :: b) = .ok s) :
    ∃ s1, trun {} a = .ok s1 ∧ s1.env.ongoing = true ∧ p ∈ s1.env.parts ∧ s1.inTx = true ∧
      r ∈ s1.mine ∧ r ∉ s1.app ∧ s1.fate = none := by
  obtain ⟨s1, s2, h1, h2, _⟩ := trun_split a {} s _ b h
  refine ⟨s1, h1, ?_⟩
  simp only [tstep] at h2
  split at h2
  · cases h2
  · split at h2
    · cases h2
    · next e' ha =>
      obtain ⟨hon, hp, _⟩ := append_logs _ _ _ _ ha
      split at h2
      · cases h2
      · next hin =>
        split at h2
        · cases h2
        · next hm =>
          split at h2
          · cases h2
          · next hna =>
            split at h2
            · cases h2
            · next hf =>
              refine ⟨hon, hp, by simpa using hin, by simpa using hm, hna, ?_⟩
              cases hfa : s1.fate with
              | none => rfl
              | some c => rw [hfa] at hf; simp at hf

/-- **the transactional flag is set in every batch the producer writes**: no accepted history
    contains the append of a batch of the transactional producer without the flag (such a batch —
    e.g. one built by `create_batch()` outside a transaction — would be readable at once and survive
    `abort_transaction()`) -/
theorem c07_trace_txn_flag_in_every_batch (a b : List Ev) (i p r : Nat) (s : TSt) :
    trun {} (a ++ Ev.appendPlain i p r :: b) ≠ .ok s := by
  intro h
  obtain ⟨s1, s2, _, h2, _⟩ := trun_split a {} s _ b h
  simp only [tstep] at h2
  cases h2

/-- **EndTxn only after every batch was acknowledged, with the result the application asked for** -/
theorem c07_trace_end_after_acks (a b : List Ev) (i : Nat) (c : Bool) (s : TSt)
    (h : trun {} (a ++ Ev.endReq i c :: b) = .ok s) :
    ∃ s1, trun {} a = .ok s1 ∧
      (s1.isLive i = true → s1.inTx = true ∧ s1.unres = [] ∧ s1.intent = some c) := by
  obtain ⟨s1, s2, h1, h2, _⟩ := trun_split a {} s _ b h
  refine ⟨s1, h1, ?_⟩
  intro hl
  simp only [tstep, hl, Bool.not_true, Bool.false_eq_true, if_false] at h2
  split at h2
  · cases h2
  · next hin =>
    split at h2
    · cases h2
    · next hint =>
      split at h2
      · cases h2
      · next hu =>
        exact ⟨by simpa using hin, by simpa using hu, by simpa using hint⟩

/-- non-vacuity: two concurrent sends, a lost reply (the second `acked` comes late), commit; then a
    transaction fenced by a new incarnation; the history is accepted -/
example :
    ∃ s, trun {} [.fence, .init 0, .begin 0, .accept 0 0 0, .accept 0 1 1, .regOk 0 0, .regOk 0 1,
                  .regAck 0 0, .regAck 0 1, .produceSend 0 1,
                  .produceReq 0 1, .append 0 1 1, .produceSend 0 0, .produceReq 0 0, .append 0 0 0, .acked 0 1, .acked 0 0,
                  .commitCall 0, .endReq 0 true, .ended 0 true, .commitOk 0,
                  .begin 0, .accept 0 2 0, .regOk 0 0, .produceReq 0 0, .append 0 0 2,
                  .fence, .init 1] = .ok s ∧
      s.appGood = [0, 1] ∧ s.appBad = [2] ∧ visible (s.env.logs 0) = [0] ∧ visible (s.env.logs 1) = [1] := by
  refine ⟨_, rfl, ?_⟩
  decide

/-- … and the history of the defect that was repaired (abort returns although the coordinator
    still has the transaction open, with data) is rejected at `abortOk` -/
example :
    (rejectedAt [.fence, .init 0, .begin 0, .accept 0 0 0, .regOk 0 0, .produceReq 0 0, .append 0 0 0,
                 .acked 0 0, .abortCall 0, .abortOk 0]).map (·.1) = some 9 := by
  decide

end AkVerif.Txn
