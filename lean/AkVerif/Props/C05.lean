import AkVerif.Lemmas.Member
/-!
# C05 — within a generation partitions have one owner; revoked partitions go silent

Theorems about every history accepted by the member / coordinator acceptor `AkVerif.Group.Member`
(`Model/Member.lean`).  A history is a list of events `Ev` (`Model/GroupEv.lean`); `accepts tr`
says that every event passed the guard of the mechanism it belongs to.  All statements quantify
over all accepted histories of any length, any number of members, partitions and generations.

`Since X B pre` : an event satisfying `X` occurs in `pre` and no `B` event occurs after it.
`epochB m`      : `m` adopts an assignment (`asgS m ..`) or its subscription changes (`sub m`).
`gateB m`       : `epochB m`, or `m`'s revoke callback starts (`revS m`), or `m` left the group by
                  itself (`leaveR m`).
`prepB m`       : `m` adopts an assignment or a revoke callback of `m` starts.
`FetchedIn m p lo hi pre` : `pre = a ++ fR m p lo hi :: b` with no `epochB m` event in `b` and
                  `Since (· = fS m p lo) (epochB m) a` — the fetch reply and the request it answers
                  both lie after `m`'s latest adoption / subscription change.
-/
namespace AkVerif.Group.Member
open AkVerif.Group

/-! ## adopted = distributed -/

/-- **adopt exactly**: the partitions a member adopts (argument of `on_partitions_assigned`) for
    generation `g` are exactly what the leader's accepted SyncGroup of generation `g` gave that
    member — or nothing, when the member's own subscription changed while it was adopting (the
    new subscription has no assignment yet; code: "the await below can change subscription"). -/
theorem c05_adopt_exactly {pre post : List Ev} {m g : Nat} {tps : List Nat}
    (h : accepts (pre ++ .asgS m g tps :: post) = true) :
    ∃ M a, .genStart g M ∈ pre ∧ m ∈ M.map (·.1) ∧ .distribute g a ∈ pre ∧
      (tps = lookupD a m ∨ (tps = [] ∧ .sub m ∈ pre)) := by
  obtain ⟨s, _, I, hg, _⟩ := reach_of_accepts h
  simp only [guard] at hg
  split at hg
  · rename_i g' tps' hs
    obtain ⟨G, a, h1, h2, h3, h4⟩ := I.synced m g' tps' hs
    obtain ⟨_, k2, _, k4⟩ := I.gens g' G h1
    simp at hg
    obtain ⟨⟨_, rfl⟩, hc⟩ := hg
    refine ⟨G.members, a, k2, h4, (k4 a h2).1, ?_⟩
    rcases hc with ⟨rfl, _⟩ | ⟨hsub, rfl⟩
    · exact Or.inl h3.symm
    · exact Or.inr ⟨rfl, I.subch m hsub⟩
  · simp at hg

/-- **never under a superseded subscription**: a non-empty assignment is adopted only while the
    member's subscription is still the one its registered JoinGroup advertised — the topics last
    observed as its subscription (`subT`) are the topics of a `joinS` of that member; a subscription
    that changed while the member waited for the SyncGroup answer makes it re-join instead -/
theorem c05_adopt_under_current_subscription {pre post : List Ev} {m g : Nat} {tps : List Nat}
    (h : accepts (pre ++ .asgS m g tps :: post) = true) :
    tps = [] ∨ ∃ t, Since (· = .subT m t) (isSubT m) pre ∧ .joinS m t true ∈ pre := by
  obtain ⟨s, _, I, hg, _⟩ := reach_of_accepts h
  simp only [guard] at hg
  split at hg
  · rename_i g' tps' hs
    simp at hg
    obtain ⟨_, hc⟩ := hg
    rcases hc with ⟨_, h0 | ⟨hj, ht⟩⟩ | ⟨_, rfl⟩
    · exact Or.inl h0
    · exact Or.inr ⟨_, I.subT m _ ht, I.joined m hj⟩
    · exact Or.inl rfl
  · simp at hg

/-- **`assignment()` = what was adopted**: a non-empty value of `assignment()` is the argument of
    the member's latest `on_partitions_assigned`, with no subscription change since -/
theorem c05_assignment_is_adopted {pre post : List Ev} {m : Nat} {tps : List Nat}
    (h : accepts (pre ++ .snap m tps :: post) = true) :
    tps = [] ∨ ∃ g, Since (· = .asgS m g tps) (epochB m) pre := by
  obtain ⟨s, _, I, hg, _⟩ := reach_of_accepts h
  simp [guard] at hg
  subst hg
  by_cases hc : (s.mem m).cur = []
  · exact Or.inl hc
  · exact Or.inr (I.cur m hc)

/-- **disjoint in a generation**: two different members never adopt the same partition for the
    same generation -/
theorem c05_disjoint_in_generation {tr : List Ev} {m1 m2 g : Nat} {t1 t2 : List Nat}
    (h : accepts tr = true) (h1 : .asgS m1 g t1 ∈ tr) (h2 : .asgS m2 g t2 ∈ tr) (hne : m1 ≠ m2) :
    ∀ p, p ∈ t1 → p ∉ t2 := by
  intro p hp1 hp2
  obtain ⟨sF, IF⟩ := final_inv h
  obtain ⟨pre1, post1, rfl⟩ := List.append_of_mem h1
  obtain ⟨M1, a1, _, _, d1, c1⟩ := c05_adopt_exactly h
  obtain ⟨pre2, post2, e2⟩ := List.append_of_mem h2
  rw [e2] at h
  obtain ⟨M2, a2, _, _, d2, c2⟩ := c05_adopt_exactly h
  have d1' : Ev.distribute g a1 ∈ pre1 ++ Ev.asgS m1 g t1 :: post1 := List.mem_append_left _ d1
  have d2' : Ev.distribute g a2 ∈ pre1 ++ Ev.asgS m1 g t1 :: post1 := by
    rw [e2]; exact List.mem_append_left _ d2
  obtain ⟨G1, g1, as1⟩ := IF.distT g a1 d1'
  obtain ⟨G2, g2, as2⟩ := IF.distT g a2 d2'
  rw [g1] at g2
  cases g2
  rw [as1] at as2
  cases as2
  have hv := ((IF.gens g G1 g1).2.2.2 a1 as1).2
  simp only [validAssign, Bool.and_eq_true, nodupB_iff] at hv
  rcases c1 with rfl | ⟨rfl, _⟩
  · rcases c2 with rfl | ⟨rfl, _⟩
    · obtain ⟨v1, hv1, hq1⟩ := lookupD_mem hp1
      obtain ⟨v2, hv2, hq2⟩ := lookupD_mem hp2
      exact flat_disjoint hv.1.2 hv.2 hv1 hv2 hne hq1 hq2
    · cases hp2
  · cases hp1

/-- **only subscribed**: every adopted partition belongs to a topic the member advertised in the
    JoinGroup that put it into that generation -/
theorem c05_only_subscribed {pre post : List Ev} {m g : Nat} {tps : List Nat}
    (h : accepts (pre ++ .asgS m g tps :: post) = true) :
    ∃ M topics, .genStart g M ∈ pre ∧ (m, topics) ∈ M ∧ .joinS m topics true ∈ pre ∧
      ∀ p ∈ tps, topicOf p ∈ topics := by
  obtain ⟨s, _, I, hg, _⟩ := reach_of_accepts h
  simp only [guard] at hg
  split at hg
  · rename_i g' tps' hs
    obtain ⟨G, a, h1, h2, h3, h4⟩ := I.synced m g' tps' hs
    obtain ⟨_, k2, k3, k4⟩ := I.gens g' G h1
    simp at hg
    obtain ⟨⟨_, rfl⟩, hc⟩ := hg
    have hv := (k4 a h2).2
    simp only [validAssign, Bool.and_eq_true] at hv
    obtain ⟨t0, ht0⟩ : ∃ t0, (m, t0) ∈ G.members := by
      simp at h4; exact h4
    by_cases hne : tps = []
    · subst hne
      exact ⟨G.members, t0, k2, ht0, k3 m t0 ht0, by simp⟩
    · rcases hc with ⟨rfl, _⟩ | ⟨_, rfl⟩
      · -- some partition was handed out: use the topics the leader's check looked up
        obtain ⟨p0, hp0⟩ := List.exists_mem_of_ne_nil _ hne
        rw [← h3] at hp0
        obtain ⟨v, hv1, _⟩ := lookupD_mem hp0
        have := List.all_eq_true.1 hv.1.1 (m, v) hv1
        simp only at this
        split at this
        · rename_i topics hl
          refine ⟨G.members, topics, k2, lookup?_mem hl, k3 m topics (lookup?_mem hl), ?_⟩
          intro p hp
          rw [← h3] at hp
          obtain ⟨v', hv1', hp'⟩ := lookupD_mem hp
          have h' := List.all_eq_true.1 hv.1.1 (m, v') hv1'
          simp only [hl] at h'
          have := List.all_eq_true.1 h' p hp'
          simpa using this
        · cases this
      · exact absurd rfl hne
  · simp at hg

/-! ## the delivery gate -/

/-- a record of `p` is handed to the application only while the member's latest gate event is an
    adoption that contains `p`: no revoke callback has started and the subscription has not
    changed since -/
theorem c05_delivery_needs_live_assignment {pre post : List Ev} {m p o : Nat}
    (h : accepts (pre ++ .deliver m p o :: post) = true) :
    ∃ g tps, Since (· = .asgS m g tps) (gateB m) pre ∧ p ∈ tps := by
  obtain ⟨s, _, I, hg, _⟩ := reach_of_accepts h
  simp [guard] at hg
  obtain ⟨g, hs⟩ := I.gate m hg.1.1
  exact ⟨g, _, hs, hg.1.2⟩

/-- **silent after revoke**: after `on_partitions_revoked` begins, nothing (of any partition) is
    returned until a later `on_partitions_assigned`, and then only partitions it includes -/
theorem c05_silent_after_revoke {pre mid post : List Ev} {m p o : Nat}
    (h : accepts (pre ++ .revS m :: (mid ++ .deliver m p o :: post)) = true) :
    ∃ mid1 mid2 g tps, mid = mid1 ++ .asgS m g tps :: mid2 ∧ p ∈ tps ∧
      ∀ e ∈ mid2, gateB m e = false := by
  have h' : accepts ((pre ++ .revS m :: mid) ++ .deliver m p o :: post) = true := by
    simpa using h
  obtain ⟨g, tps, ⟨a, x, b, hab, rfl, hb⟩, hp⟩ := c05_delivery_needs_live_assignment h'
  have hy : Ev.revS m ∉ b := by
    intro hin
    have := hb _ hin
    simp [gateB, isRevS] at this
  obtain ⟨c, hc⟩ := split_after hab hy (by simp)
  exact ⟨c, b, g, tps, hc, hp, hb⟩

/-- … and the same after a subscription change -/
theorem c05_silent_after_subscription_change {pre mid post : List Ev} {m p o : Nat}
    (h : accepts (pre ++ .sub m :: (mid ++ .deliver m p o :: post)) = true) :
    ∃ mid1 mid2 g tps, mid = mid1 ++ .asgS m g tps :: mid2 ∧ p ∈ tps ∧
      ∀ e ∈ mid2, gateB m e = false := by
  have h' : accepts ((pre ++ .sub m :: mid) ++ .deliver m p o :: post) = true := by
    simpa using h
  obtain ⟨g, tps, ⟨a, x, b, hab, rfl, hb⟩, hp⟩ := c05_delivery_needs_live_assignment h'
  have hy : Ev.sub m ∉ b := by
    intro hin
    have := hb _ hin
    simp [gateB, isSub] at this
  obtain ⟨c, hc⟩ := split_after hab hy (by simp)
  exact ⟨c, b, g, tps, hc, hp, hb⟩

/-- … and after the member left the group by itself (its application did not poll for
    `max_poll_interval_ms`): whatever is still buffered belongs to partitions the rest of the
    group has taken over; nothing is returned until a later adoption -/
theorem c05_silent_after_leave {pre mid post : List Ev} {m p o : Nat}
    (h : accepts (pre ++ .leaveR m :: (mid ++ .deliver m p o :: post)) = true) :
    ∃ mid1 mid2 g tps, mid = mid1 ++ .asgS m g tps :: mid2 ∧ p ∈ tps ∧
      ∀ e ∈ mid2, gateB m e = false := by
  have h' : accepts ((pre ++ .leaveR m :: mid) ++ .deliver m p o :: post) = true := by
    simpa using h
  obtain ⟨g, tps, ⟨a, x, b, hab, rfl, hb⟩, hp⟩ := c05_delivery_needs_live_assignment h'
  have hy : Ev.leaveR m ∉ b := by
    intro hin
    have := hb _ hin
    simp [gateB, isLeave] at this
  obtain ⟨c, hc⟩ := split_after hab hy (by simp)
  exact ⟨c, b, g, tps, hc, hp, hb⟩

/-- **stale data is never delivered**: a delivered record was returned by a Fetch that was issued
    — and answered — after the member's latest adoption and subscription change -/
theorem c05_stale_data_never_delivered {pre post : List Ev} {m p o : Nat}
    (h : accepts (pre ++ .deliver m p o :: post) = true) :
    ∃ lo hi, FetchedIn m p lo hi pre ∧ lo ≤ o ∧ o ≤ hi := by
  obtain ⟨s, _, I, hg, _⟩ := reach_of_accepts h
  simp [guard] at hg
  obtain ⟨p', lo, hi, hin, hr⟩ := hg.2
  simp [inRange] at hr
  obtain ⟨⟨rfl, h1⟩, h2⟩ := hr
  exact ⟨lo, hi, I.fetched m p' lo hi hin, h1, h2⟩

/-! ## revoke before assign, group-wide -/

/-- a JoinGroup request is sent only after the member's revoke callback returned, with no
    adoption and no further revoke callback in between -/
theorem c05_join_after_revoke {pre post : List Ev} {m : Nat} {t : List Nat} {pk : Bool}
    (h : accepts (pre ++ .joinS m t pk :: post) = true) : Since (· = .revE m) (prepB m) pre := by
  obtain ⟨s, _, I, hg, _⟩ := reach_of_accepts h
  simp [guard] at hg
  exact I.prep m hg.1

/-- an assign callback for generation `g` presupposes that the coordinator formed `g` -/
theorem c05_assign_needs_generation {pre post : List Ev} {m g : Nat} {tps : List Nat}
    (h : accepts (pre ++ .asgS m g tps :: post) = true) :
    ∃ M, .genStart g M ∈ pre ∧ m ∈ M.map (·.1) := by
  obtain ⟨M, _, h1, h2, _⟩ := c05_adopt_exactly h
  exact ⟨M, h1, h2⟩

/-- **revoke before assign, group-wide**: when the coordinator forms generation `g`, every member
    of `g` has finished its `on_partitions_revoked` callback (and has neither adopted anything
    nor started another revoke callback since); by `c05_assign_needs_generation` every
    `on_partitions_assigned` for `g` comes later still -/
theorem c05_revoke_before_assign_groupwide {pre post : List Ev} {g : Nat}
    {M : List (Nat × List Nat)} (h : accepts (pre ++ .genStart g M :: post) = true) :
    ∀ m ∈ M.map (·.1), Since (· = .revE m) (prepB m) pre := by
  obtain ⟨s, _, I, hg, _⟩ := reach_of_accepts h
  simp [guard] at hg
  intro m hm
  simp at hm
  obtain ⟨t, ht⟩ := hm
  exact I.prep m (I.wait m (hg.2 m t ht).1).1

/-- a member that takes part in a rebalance is not dropped in the middle of it: the coordinator does
    not expire the session of a live member while its `on_partitions_revoked` callback runs (the
    heartbeat task keeps running during the join preparation), so the join barrier — which waits
    for every member it knows — cannot complete, and nobody's `on_partitions_assigned` for the
    resulting generation can start, while that callback is still running -/
theorem c05_no_expiry_during_revoke {pre post : List Ev} {m : Nat}
    (h : accepts (pre ++ .expire m :: post) = true) :
    ¬ Since (· = .revS m) (isRevE m) pre ∨ .gone m ∈ pre := by
  obtain ⟨s, _, I, hg, _⟩ := reach_of_accepts h
  by_cases hs : Since (· = .revS m) (isRevE m) pre
  · right
    have h1 := I.inrev m hs
    simp [guard, h1] at hg
    exact I.dead m hg
  · exact Or.inl hs

/-- the two together, on one history: generation formed, then an assign callback for it — every
    member's revoke callback ended before the generation was formed -/
theorem c05_revoke_before_assign {pre mid post : List Ev} {g m' : Nat}
    {M : List (Nat × List Nat)} {tps : List Nat}
    (h : accepts (pre ++ .genStart g M :: (mid ++ .asgS m' g tps :: post)) = true) :
    ∀ m ∈ M.map (·.1), ∃ a b, pre = a ++ .revE m :: b ∧ ∀ e ∈ b, prepB m e = false := by
  intro m hm
  obtain ⟨a, x, b, hab, rfl, hb⟩ := c05_revoke_before_assign_groupwide h m hm
  exact ⟨a, b, hab, hb⟩

/-- generations are formed once: the members an assign callback can rely on are unique -/
theorem c05_generation_unique {tr : List Ev} {g : Nat} {M1 M2 : List (Nat × List Nat)}
    (h : accepts tr = true) (h1 : .genStart g M1 ∈ tr) (h2 : .genStart g M2 ∈ tr) : M1 = M2 := by
  obtain ⟨sF, IF⟩ := final_inv h
  obtain ⟨G1, g1, m1⟩ := IF.gensT g M1 h1
  obtain ⟨G2, g2, m2⟩ := IF.gensT g M2 h2
  rw [g1] at g2; cases g2
  rw [← m1, ← m2]

/-! ## non-vacuity: a two-member history with a rebalance is accepted -/

def demo : List Ev :=
  [ .subT 0 [0], .subT 1 [0], .revS 0, .revE 0, .joinS 0 [0] true, .genStart 1 [(0, [0])], .joinR 0 (some 1),
    .distribute 1 [(0, [0, 1])], .syncR 0 1 [0, 1], .asgS 0 1 [0, 1], .snap 0 [0, 1], .asgE 0,
    .fS 0 0 0, .fR 0 0 0 4, .deliver 0 0 0, .deliver 0 0 1,
    -- a second member arrives
    .revS 1, .revE 1, .joinS 1 [0] true,
    .revS 0, .revE 0, .joinS 0 [0] true,
    .genStart 2 [(0, [0]), (1, [0])], .joinR 0 (some 2), .joinR 1 (some 2),
    .distribute 2 [(0, [0]), (1, [1])], .syncR 0 2 [0], .syncR 1 2 [1],
    .asgS 1 2 [1], .asgS 0 2 [0], .fS 0 0 2, .fR 0 0 2 4, .deliver 0 0 2 ]

example : accepts demo = true := by decide

/-- … and the gate is not vacuous: delivering while the revoke callback runs is rejected -/
example : accepts [ .subT 0 [0], .revS 0, .revE 0, .joinS 0 [0] true, .genStart 1 [(0, [0])], .joinR 0 (some 1),
    .distribute 1 [(0, [0])], .syncR 0 1 [0], .asgS 0 1 [0], .asgE 0, .fS 0 0 0, .fR 0 0 0 4,
    .revS 0, .deliver 0 0 0 ] = false := by decide

/-- … adopting after the subscription changed behind the JoinGroup is rejected -/
example : accepts [ .sub 0, .subT 0 [0], .revS 0, .revE 0, .joinS 0 [0] true, .genStart 1 [(0, [0])],
    .joinR 0 (some 1), .distribute 1 [(0, [0])], .sub 0, .subT 0 [0, 1], .syncR 0 1 [0],
    .asgS 0 1 [0] ] = false := by decide

/-- … a member that left the group by itself and then hands out buffered records is rejected -/
example : accepts [ .subT 0 [0], .revS 0, .revE 0, .joinS 0 [0] true, .genStart 1 [(0, [0])], .joinR 0 (some 1),
    .distribute 1 [(0, [0])], .syncR 0 1 [0], .asgS 0 1 [0], .asgE 0, .fS 0 0 0, .fR 0 0 0 4,
    .leaveR 0, .deliver 0 0 0 ] = false := by decide

/-- … a session that runs out while the revoke callback runs is rejected, unless the member is dead -/
example : accepts [ .revS 0, .expire 0 ] = false ∧ accepts [ .revS 0, .gone 0, .expire 0 ] = true ∧
    accepts [ .revS 0, .revE 0, .expire 0 ] = true := by decide

/-- … overlapping assignments are rejected at the leader's SyncGroup -/
example : accepts [ .revS 0, .revE 0, .joinS 0 [0] true, .revS 1, .revE 1, .joinS 1 [0] true,
    .genStart 1 [(0, [0]), (1, [0])], .distribute 1 [(0, [0, 1]), (1, [1])] ] = false := by decide

/-- … data fetched before an adoption is not deliverable after it -/
example : accepts [ .subT 0 [0], .revS 0, .revE 0, .joinS 0 [0] true, .genStart 1 [(0, [0])], .joinR 0 (some 1),
    .distribute 1 [(0, [0])], .syncR 0 1 [0], .asgS 0 1 [0], .asgE 0, .fS 0 0 0, .fR 0 0 0 4,
    .revS 0, .revE 0, .joinS 0 [0] true, .genStart 2 [(0, [0])], .joinR 0 (some 2),
    .distribute 2 [(0, [0])], .syncR 0 2 [0], .asgS 0 2 [0], .deliver 0 0 0 ] = false := by decide

end AkVerif.Group.Member
