import AkVerif.Model.Sticky
import AkVerif.Props.C11
import AkVerif.Lemmas.StickyFix
/-!
# C15 — sticky assignor keeps assignments that need not move  (PARTIAL)

The sticky assignor's algorithm is not modelled (yet): what is proved here is
(1) what a `true` verdict of the three executable statements means (`…_sound`), and
(2) that the previous assignment survives the real user-data encoding
    (`StickyAssignorUserDataV1`, an instance of the generic wire round trip of C11, read from the
    regenerated schema table).
The check evaluates the statements on the library's consecutive results for every explored input.
Missing for a full proof: `∀ input, unchangedB (sticky prev-round) (sticky next-round)` etc. for a
Lean port of `StickyAssignmentExecutor`.
-/
namespace AkVerif.Sticky
open AkVerif.Assign AkVerif.Wire

theorem survivorsKeepB_sound (prev cur : Output) (survivors : List Member)
    (h : survivorsKeepB prev cur survivors = true)
    (t : Topic) (p : Nat) (htp : (t, p) ∈ allPartitions prev)
    (a : Member) (ha : a ∈ ownersOf prev t p) (hs : a ∈ survivors) :
    ownersOf cur t p = [a] := by
  unfold survivorsKeepB at h
  simp only [List.all_eq_true, Bool.or_eq_true, Bool.not_eq_true', beq_iff_eq] at h
  rcases h (t, p) htp a ha with h1 | h1
  · have : survivors.contains a = true := by simpa using hs
    rw [this] at h1; cases h1
  · exact h1

theorem noOldToOldB_sound (prev cur : Output) (oldMembers : List Member)
    (h : noOldToOldB prev cur oldMembers = true)
    (t : Topic) (p : Nat) (htp : (t, p) ∈ allPartitions cur)
    (b : Member) (hb : b ∈ ownersOf cur t p) (ho : b ∈ oldMembers)
    (a : Member) (ha : a ∈ ownersOf prev t p) : a = b := by
  unfold noOldToOldB at h
  simp only [List.all_eq_true, Bool.or_eq_true, Bool.not_eq_true', beq_iff_eq,
    List.isEmpty_iff] at h
  rcases h (t, p) htp b hb with (h1 | h1) | h1
  · have : oldMembers.contains b = true := by simpa using ho
    rw [this] at h1; cases h1
  · rw [h1] at ha; cases ha
  · rw [h1] at ha; simpa using ha

theorem unchangedB_sound (prev cur : Output) (h : unchangedB prev cur = true)
    (t : Topic) (p : Nat) (htp : (t, p) ∈ allPartitions prev ∨ (t, p) ∈ allPartitions cur) :
    ownersOf cur t p = ownersOf prev t p := by
  unfold unchangedB at h
  simp only [Bool.and_eq_true, List.all_eq_true, beq_iff_eq] at h
  rcases htp with h1 | h1
  · exact h.1 (t, p) h1
  · exact (h.2 (t, p) h1).symm

/-- the user-data struct that carries the previous assignment between rounds -/
def userDataTy : Option Ty := (Gen.schemas.find? (·.name == "StickyAssignorUserDataV1")).map (·.ty)

/-- it is what the code says it is: `[(topic, [partition])], generation` -/
theorem userData_schema :
    userDataTy.map (tyEq · (.struct [.array (.struct [.string, .array .int32]), .int32]))
      = some true := by
  decide +kernel

/-- previous assignments survive the real encoding: decode (encode v) = v -/
theorem userData_roundtrip (t : Ty) (_ht : userDataTy = some t) (v : Val) (bs : Bytes)
    (h : encode t v = some bs) : decode t bs = some (v, []) := by
  have := wire_roundtrip t v bs [] h
  simpa using this

/-- **clause (a), partial**: for the Lean port of the sticky assignor (tied to the code by T-diff on
    every explored round), a complete assignment that the code's own `_is_balanced` accepts — after
    the consumers that cannot take part are set aside — is a fixpoint of `balance`: every consumer
    keeps exactly its list.  What is missing for the full clause: that the result of a first round
    always satisfies this hypothesis (it does on every explored input, the check counts it:
    `fixpoint_hypothesis_held`), and the normal-form step from lists to the sorted output items. -/
theorem c15_fixpoint_partial (fuel : Nat) (s : StickyAlg.St)
    (hc2p : (StickyAlg.keysOf s.c2p).Nodup) (hne : s.cur ≠ [])
    (hun : ∀ p ∈ s.unassigned, (StickyAlg.consumersOf s p).isEmpty = true)
    (hf : s.failed = none)
    (hb : StickyAlg.isBalanced (StickyAlg.setAsideFixed
      (StickyAlg.assignUnassigned { s with subs := s.cur.map (·.1) })).1 = true) :
    ∃ s', StickyAlg.balance (fuel + 1) s = some s' ∧ s'.failed = none ∧
      ∀ x, StickyAlg.curOf s' x = StickyAlg.curOf s x :=
  StickyAlg.balance_fixpoint fuel s hc2p hne hun hf hb

example : survivorsKeepB [(0, [(0, [0, 1])]), (1, [(0, [2])])] [(0, [(0, [0, 1, 2])])] [0] = true := by
  decide
example : noOldToOldB [(0, [(0, [0, 1, 2])])] [(0, [(0, [0, 1])]), (1, [(0, [2])])] [0] = true := by
  decide
example : noOldToOldB [(0, [(0, [0, 1])]), (1, [(0, [2])])] [(0, [(0, [0])]), (1, [(0, [1, 2])])] [0, 1]
    = false := by decide

end AkVerif.Sticky
