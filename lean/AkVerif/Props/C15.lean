import AkVerif.Model.Sticky
import AkVerif.Lemmas.WireRT
import AkVerif.Gen.Schemas
import AkVerif.Lemmas.StickyInit
/-!
# C15 — sticky assignor keeps assignments that need not move  (PARTIAL)

About the Lean port of `StickyAssignmentExecutor` (`Model/StickyAlg.lean`, tied to the code by
byte-identical T-diff on every explored round):

* `c15_identical_subscriptions_keep` — clauses (a) and (b) when all members subscribe to the same
  topics and no member is new: for every cluster layout, every number of members and partitions,
  every oracle and every fuel ≥ 1 the assignor returns normally and every member keeps every
  partition of its previous assignment; partitions of departed members and new partitions are
  handed out without moving anything between members.  Hypotheses (`GoodPrev`, sizes within one)
  are what a valid balanced previous round leaves behind; `c15_keep_hypotheses_decidable` makes
  them a test (`keepHyp`) the check runs on every explored second round.
* `c15_keeps_when_fill_balanced_partial`, `c15_fixpoint_partial` — arbitrary subscriptions,
  conditional on the code's own `_is_balanced` accepting the assignment once the unassigned
  partitions are handed out.
* what a `true` verdict of the three executable statements means (`…_sound`), and that the
  previous assignment survives the real user-data encoding (instance of C11's round trip on the
  regenerated schema).

Missing for a full proof: clause (c) (new members: nothing moves between old members — depends on
the order in which `_perform_reassignments` visits partitions) and clause (a) for non-identical
subscriptions without the `_is_balanced` hypothesis; for these the executable statements are
evaluated on the library's consecutive results for every explored input.
-/
namespace AkVerif.Sticky
open AkVerif.Assign AkVerif.Wire

theorem survivorsKeepB_sound (prev cur : Output) (survivors : List Member)
    (h : survivorsKeepB prev cur survivors = true)
    (t : Topic) (p : Nat) (htp : (t, p) ∈ allPartitions prev)
    (a : Member) (ha : a ∈ ownersOf prev t p) (hs : a ∈ survivors) :
    ownersOf cur t p = [a] := by
  unfold survivorsKeepB at h
  simp only [List.all_eq_true, Bool.or_eq_true, Bool.not_eq_true', beq_iff_eq] at h
  rcases h (t, p) htp a ha with h1 | h1
  · have : survivors.contains a = true := by simpa using hs
    rw [this] at h1; cases h1
  · exact h1

theorem noOldToOldB_sound (prev cur : Output) (oldMembers : List Member)
    (h : noOldToOldB prev cur oldMembers = true)
    (t : Topic) (p : Nat) (htp : (t, p) ∈ allPartitions cur)
    (b : Member) (hb : b ∈ ownersOf cur t p) (ho : b ∈ oldMembers)
    (a : Member) (ha : a ∈ ownersOf prev t p) : a = b := by
  unfold noOldToOldB at h
  simp only [List.all_eq_true, Bool.or_eq_true, Bool.not_eq_true', beq_iff_eq,
    List.isEmpty_iff] at h
  rcases h (t, p) htp b hb with (h1 | h1) | h1
  · have : oldMembers.contains b = true := by simpa using ho
    rw [this] at h1; cases h1
  · rw [h1] at ha; cases ha
  · rw [h1] at ha; simpa using ha

theorem unchangedB_sound (prev cur : Output) (h : unchangedB prev cur = true)
    (t : Topic) (p : Nat) (htp : (t, p) ∈ allPartitions prev ∨ (t, p) ∈ allPartitions cur) :
    ownersOf cur t p = ownersOf prev t p := by
  unfold unchangedB at h
  simp only [Bool.and_eq_true, List.all_eq_true, beq_iff_eq] at h
  rcases htp with h1 | h1
  · exact h.1 (t, p) h1
  · exact (h.2 (t, p) h1).symm

/-- the user-data struct that carries the previous assignment between rounds -/
def userDataTy : Option Ty := (Gen.schemas.find? (·.name == "StickyAssignorUserDataV1")).map (·.ty)

/-- it is what the code says it is: `[(topic, [partition])], generation` -/
theorem userData_schema :
    userDataTy.map (tyEq · (.struct [.array (.struct [.string, .array .int32]), .int32]))
      = some true := by
  decide +kernel

/-- previous assignments survive the real encoding: decode (encode v) = v -/
theorem userData_roundtrip (t : Ty) (_ht : userDataTy = some t) (v : Val) (bs : Bytes)
    (h : encode t v = some bs) : decode t bs = some (v, []) := by
  have := wireRoundtrip_core t v bs [] h
  simpa using this

/-- **clause (a), partial**: for the Lean port of the sticky assignor (tied to the code by T-diff on
    every explored round), a complete assignment that the code's own `_is_balanced` accepts — after
    the consumers that cannot take part are set aside — is a fixpoint of `balance`: every consumer
    keeps exactly its list.  What is missing for the full clause: that the result of a first round
    always satisfies this hypothesis (it does on every explored input, the check counts it:
    `fixpoint_hypothesis_held`), and the normal-form step from lists to the sorted output items. -/
theorem c15_fixpoint_partial (fuel : Nat) (s : StickyAlg.St)
    (hc2p : (StickyAlg.keysOf s.c2p).Nodup) (hne : s.cur ≠ [])
    (hun : ∀ p ∈ s.unassigned, (StickyAlg.consumersOf s p).isEmpty = true)
    (hf : s.failed = none)
    (hb : StickyAlg.isBalanced (StickyAlg.setAsideFixed
      (StickyAlg.assignUnassigned { s with subs := s.cur.map (·.1) })).1 = true) :
    ∃ s', StickyAlg.balance (fuel + 1) s = some s' ∧ s'.failed = none ∧
      ∀ x, StickyAlg.curOf s' x = StickyAlg.curOf s x :=
  StickyAlg.balance_fixpoint fuel s hc2p hne hun hf hb

/-- **nothing moves when the filled assignment is balanced** (arbitrary subscriptions): if the
    code's own `_is_balanced` accepts the assignment once the unassigned partitions are handed out
    (and the consumers that cannot take part are set aside), `balance` returns with every consumer's
    previous list as a prefix of its new list — partitions are only added, none moves -/
theorem c15_keeps_when_fill_balanced_partial (fuel : Nat) (s : StickyAlg.St)
    (hc2p : (StickyAlg.keysOf s.c2p).Nodup) (hne : s.cur ≠ []) (hf : s.failed = none)
    (hb : StickyAlg.isBalanced (StickyAlg.setAsideFixed
      (StickyAlg.assignUnassigned { s with subs := s.cur.map (·.1) })).1 = true) :
    ∃ s', StickyAlg.balance (fuel + 1) s = some s' ∧ s'.failed = none ∧
      ∀ x, StickyAlg.curOf s x <+: StickyAlg.curOf s' x := by
  obtain ⟨s', h1, h2, _, h3⟩ := StickyAlg.balance_keeps_when_fill_balanced fuel s hc2p hne hf hb
  exact ⟨s', h1, h2, h3⟩

/-- **clauses (a) and (b) for identical subscriptions, no new member** — the whole port, from the
    members' user data to the returned assignment: every member keeps every partition it held -/
theorem c15_identical_subscriptions_keep (fuel : Nat) (parts : List (Topic × List Nat))
    (members : List StickyAlg.MemberIn) (oracle : List StickyAlg.TP)
    (G : StickyAlg.GoodPrev parts members) (hne : members ≠ [])
    (hsame : ∀ a ∈ members, ∀ b ∈ members, a.subs = b.subs)
    (hw : ∀ a ∈ members, ∀ b ∈ members, a.prev.length ≤ b.prev.length + 1) :
    ∃ out left, StickyAlg.assign (fuel + 1) parts members oracle = .ok out left ∧
      ∀ m ∈ members, ∀ p ∈ m.prev, ∃ items ps, (m.id, items) ∈ out ∧ (p.1, ps) ∈ items ∧ p.2 ∈ ps :=
  StickyAlg.assign_keeps_identical fuel parts members oracle G hne hsame hw

/-- the hypotheses of `c15_identical_subscriptions_keep` are decided by `keepHyp` (run by the check
    on every explored second round; evidence: `keep_hypothesis_held`) -/
theorem c15_keep_hypotheses_decidable (fuel : Nat) (parts : List (Topic × List Nat))
    (members : List StickyAlg.MemberIn) (oracle : List StickyAlg.TP)
    (h : StickyAlg.keepHyp parts members = true) :
    ∃ out left, StickyAlg.assign (fuel + 1) parts members oracle = .ok out left ∧
      ∀ m ∈ members, ∀ p ∈ m.prev, ∃ items ps, (m.id, items) ∈ out ∧ (p.1, ps) ∈ items ∧ p.2 ∈ ps := by
  obtain ⟨h1, h2, h3, h4⟩ := StickyAlg.keepHyp_sound parts members h
  exact StickyAlg.assign_keeps_identical fuel parts members oracle h2 h1 h3 h4

/-- non-vacuity: three members held 0,1 | 2 | 3 of a four-partition topic, the third left -/
example : StickyAlg.keepHyp [(0, [0, 1, 2, 3])]
    [{ id := 0, subs := [0], prev := [(0, 0), (0, 1)] }, { id := 1, subs := [0], prev := [(0, 2)] }] = true := by
  decide

example : survivorsKeepB [(0, [(0, [0, 1])]), (1, [(0, [2])])] [(0, [(0, [0, 1, 2])])] [0] = true := by
  decide
example : noOldToOldB [(0, [(0, [0, 1, 2])])] [(0, [(0, [0, 1])]), (1, [(0, [2])])] [0] = true := by
  decide
example : noOldToOldB [(0, [(0, [0, 1])]), (1, [(0, [2])])] [(0, [(0, [0])]), (1, [(0, [1, 2])])] [0, 1]
    = false := by decide

end AkVerif.Sticky
