import AkVerif.Lemmas.WireRT
import AkVerif.Gen.Schemas
/-!
# C11 — API messages encode to the Kafka wire format and negotiate versions safely

`wire_roundtrip` is generic in the schema, so it covers every struct of the regenerated table
`Gen.schemas` (and any struct added later) at once.  Table facts below are re-decided by the kernel
every time the table is regenerated from `/repo`.
-/
namespace AkVerif.Wire

/-- decoding what was encoded returns the original value and leaves the rest of the stream
    (proved by mutual induction over the schema type in `Lemmas/WireRT.lean`) -/
theorem wire_roundtrip (t : Ty) (v : Val) (bs rest : Bytes) (h : encode t v = some bs) :
    decode t (bs ++ rest) = some (v, rest) :=
  wireRoundtrip_core t v bs rest h

theorem rtMany (t : Ty) (vs : List Val) (bs rest : Bytes) (h : encodeMany t vs = some bs) :
    decodeMany t vs.length (bs ++ rest) = some (vs, rest) :=
  rtMany_core t vs bs rest h

theorem rtFields (ts : List Ty) (vs : List Val) (bs rest : Bytes)
    (h : encodeFields ts vs = some bs) : decodeFields ts (bs ++ rest) = some (vs, rest) :=
  rtFields_core ts vs bs rest h

/-- every struct the library defines round-trips (instance of the generic theorem over the
    regenerated table) -/
theorem every_schema_roundtrips (e : Gen.SchemaEntry) (_ : e ∈ Gen.schemas) (v : Val)
    (bs rest : Bytes) (h : encode e.ty v = some bs) : decode e.ty (bs ++ rest) = some (v, rest) :=
  wire_roundtrip e.ty v bs rest h

/-! ## layout of the primitives (Kafka protocol guide: big-endian two's complement, base-128) -/

/-- a fixed-width integer occupies exactly `n` bytes, each a byte, most significant first, and
    their big-endian value is the integer modulo `256^n` -/
theorem fixed_int_layout (n : Nat) (i : Int) (bs : Bytes) (h : encInt n i = some bs) :
    bs.length = n ∧ (∀ b ∈ bs, b < 256) ∧ (beVal bs : Int) = i % (2 ^ (8 * n) : Int) := by
  unfold encInt at h
  split at h
  · injection h with h; subst h
    refine ⟨beBytes_length _ _, beBytes_lt _ _, ?_⟩
    rw [beVal_beBytes]
    have hp : (256 : Nat) ^ n = 2 ^ (8 * n) := by
      rw [show (256 : Nat) = 2 ^ 8 by rfl, ← Nat.pow_mul]
    have hpos : (0 : Int) < 2 ^ (8 * n) := Int.pow_pos (by decide)
    have h0 : 0 ≤ i % (2 ^ (8 * n) : Int) := Int.emod_nonneg _ (by omega)
    have h1 : i % (2 ^ (8 * n) : Int) < 2 ^ (8 * n) := Int.emod_lt_of_pos _ hpos
    rw [hp, Nat.mod_eq_of_lt]
    · omega
    · have : ((2 ^ (8 * n) : Nat) : Int) = (2 : Int) ^ (8 * n) := by simp
      omega
  · cases h

/-- unsigned varint layout: groups of seven bits, least significant first, continuation bit on
    every byte but the last -/
theorem uvarint_layout (v : Nat) :
    encUV v = if v < 128 then [v] else (v % 128 + 128) :: encUV (v / 128) := by
  rw [encUV]

/-! ## version negotiation -/

/-- the version placed in the header is one the client implements and lies in the broker's range -/
theorem prepare_in_broker_range (cls : List Nat) (a : Bool) (lo hi v : Nat)
    (h : prepare cls a (some (lo, hi)) = .version v) : v ∈ cls ∧ lo ≤ v ∧ v ≤ hi := by
  unfold prepare at h
  simp only at h
  split at h
  · rename_i w hw
    injection h with h; subst h
    have := List.find?_some hw
    have hm := List.mem_of_find?_eq_some hw
    simp only [Bool.and_eq_true, decide_eq_true_eq] at this
    exact ⟨List.mem_reverse.mp hm, this.1, this.2⟩
  · cases h

/-- … and it is the highest such version, when `_CLASSES` is listed in increasing version order -/
theorem prepare_highest_common (cls : List Nat) (a : Bool) (lo hi v : Nat)
    (hs : cls.Pairwise (· < ·))
    (h : prepare cls a (some (lo, hi)) = .version v) :
    ∀ w ∈ cls, lo ≤ w → w ≤ hi → w ≤ v := by
  unfold prepare at h
  simp only at h
  split at h
  · rename_i u hu
    injection h with h; subst h
    intro w hw h1 h2
    rcases Nat.lt_or_ge u w with hlt | hge
    · exfalso
      -- w > u is in range and comes earlier in the reversed list: find? would have returned it
      rw [List.find?_eq_some_iff_append] at hu
      obtain ⟨_, as, bs', heq, hall⟩ := hu
      have hwr : w ∈ cls.reverse := List.mem_reverse.mpr hw
      rw [heq] at hwr
      rcases List.mem_append.mp hwr with hin | hin
      · have := hall w hin
        simp [h1, h2] at this
      · rcases List.mem_cons.mp hin with rfl | hin'
        · omega
        · have hp : cls.reverse.Pairwise (· > ·) := List.pairwise_reverse.mpr hs
          rw [heq, List.pairwise_append] at hp
          have := (List.pairwise_cons.mp hp.2.1).1 w hin'
          omega
    · exact hge
  · cases h

/-- disjoint ranges are rejected (never a version outside the broker's range) -/
theorem prepare_disjoint_rejected (cls : List Nat) (a : Bool) (lo hi : Nat)
    (h : ∀ w ∈ cls, ¬ (lo ≤ w ∧ w ≤ hi)) : prepare cls a (some (lo, hi)) = .noCommonVersion := by
  unfold prepare
  simp only
  split
  · rename_i w hw
    have := List.find?_some hw
    have hm := List.mem_of_find?_eq_some hw
    simp only [Bool.and_eq_true, decide_eq_true_eq] at this
    exact absurd this (h w (List.mem_reverse.mp hm))
  · rfl

/-! ## facts about the regenerated tables (kernel-decided on every run) -/

def findSchema (name : String) : Option Gen.SchemaEntry := Gen.schemas.find? (·.name == name)

/-- the response struct declared for API `(key, version)` -/
def responseOf (key version : Int) : Option Gen.SchemaEntry :=
  Gen.schemas.find? (fun r => r.kind == 1 && r.apiKey == key && r.version == version)

/-- every request struct's `RESPONSE_TYPE` has the API key of the request and *the schema of the
    response struct of the request's own version* (the class may be an alias with an identical
    schema, e.g. ApiVersionRequest_v2 → ApiVersionResponse_v1) -/
def pairingOk : Bool :=
  Gen.schemas.all fun e =>
    e.kind != 0 ||
    match findSchema e.respName, responseOf e.apiKey e.version with
    | some r, some r' => r.kind == 1 && r.apiKey == e.apiKey && tyEq r.ty r'.ty
    | _, _ => false

theorem reply_schema_matches_request : pairingOk = true := by decide +kernel

/-- a flexible request struct ends in a tagged-fields buffer, and so does its response -/
def lastIsTagged : Ty → Bool
  | .struct ts => match ts.getLast? with | some .tagged => true | _ => false
  | _ => false

def flexibleOk : Bool :=
  Gen.schemas.all fun e =>
    e.kind != 0 || !e.flexible ||
    (lastIsTagged e.ty &&
      match findSchema e.respName with
      | some r => lastIsTagged r.ty
      | none => false)

theorem flexible_structs_carry_tagged_fields : flexibleOk = true := by decide +kernel

/-- the struct classes of every request builder share its API key and are listed in strictly
    increasing version order (the precondition of `prepare_highest_common`) -/
def increasing : List Nat → Bool
  | a :: b :: r => decide (a < b) && increasing (b :: r)
  | _ => true

def buildersOk : Bool :=
  Gen.builders.all fun b => b.classKeys.all (· == b.apiKey) && increasing b.versions && !b.versions.isEmpty

theorem builder_classes_sorted : buildersOk = true := by decide +kernel

/-- the request / response headers as Kafka defines them (protocol guide, "Headers"): request header
    v1 = api_key INT16, api_version INT16, correlation_id INT32, client_id NULLABLE_STRING; v2 = the
    same — the client id stays a non-compact string — plus tagged fields; response header
    v0 = correlation_id INT32; v1 = the same plus tagged fields -/
def kafkaHeaders : List (String × Ty) :=
  [ ("RequestHeader_v1", .struct [.int16, .int16, .int32, .string]),
    ("RequestHeader_v2", .struct [.int16, .int16, .int32, .string, .tagged]),
    ("ResponseHeader_v0", .struct [.int32]),
    ("ResponseHeader_v1", .struct [.int32, .tagged]) ]

def headersOk : Bool :=
  kafkaHeaders.all fun (n, t) =>
    match findSchema n with
    | some e => tyEq e.ty t
    | none => false

theorem headers_match_kafka : headersOk = true := by decide +kernel

/-! ## non-vacuity -/
example : ∃ bs, encode .varint32 (.int (-3)) = some bs ∧ bs = [5] := by
  refine ⟨[5], ?_, rfl⟩
  rw [encode]; simp [Val.asInt, encVarint32, zig, encUV]
example : prepare [0, 1, 2, 3] false (some (2, 7)) = .version 3 := by decide
example : prepare [0, 1] false (some (2, 7)) = .noCommonVersion := by decide

end AkVerif.Wire
