import AkVerif.Lemmas.Commit
/-!
# C04 — committed offsets never pass undelivered records; at-least-once across crash / rebalance

Theorems about every history accepted by the position / commit acceptor `AkVerif.Group.Commit`
(`Model/Commit.lean`), for every visibility predicate `P.vis` and log start `P.logStart`, any
number of members (killed, stopped or rebalanced anywhere: a killed member is simply one whose
events stop), partitions, generations and commits (accepted or refused by the coordinator).

`Since X B pre` : an event satisfying `X` occurs in `pre` and no `B` event occurs after it.
`epochB m`      : `m` adopts an assignment (`asgS m ..`) or its subscription changes (`sub m`).
`StartedAt m p st pre` : since `m`'s latest adoption / subscription change the coordinator answered
                  `m` that `st` is the committed offset of `p` (`offer m p st .committed`), or it answered
                  "no committed offset" (`noOffset m p`) and the reset position is `st`
                  (`offer m p st .reset`).
-/
namespace AkVerif.Group.Commit
open AkVerif.Group

/-- **commit behind delivery**: whatever a member commits for a partition — auto-commit, `commit()`,
    the commit before a rebalance or on `stop()`; accepted by the coordinator or not — lies at or
    after a position `st` the member was started at, and every visible record from `st` up to the
    committed offset has already been handed to the application by that member -/
theorem c04_commit_behind_delivery {P : Params} {pre post : List Ev} {m p c : Nat} {ok : Bool}
    (h : accepts P (pre ++ .commit m p c ok :: post) = true) :
    ∃ st, (∃ src, .offer m p st src ∈ pre) ∧ st ≤ c ∧
      ∀ k, st ≤ k → k < c → P.vis p k = true → .deliver m p k ∈ pre := by
  obtain ⟨s, I, hg⟩ := reach_of_accepts h
  obtain ⟨_, st, hoff, hmine⟩ := commit_guard_ok I hg
  exact ⟨st, hoff, hmine.1, fun k a b d => I.dl m p k (hmine.2 k a b d)⟩

/-- **no loss**, commits: below any committed offset, every visible record from the log start on
    has been delivered by some member of the group -/
theorem c04_no_loss_commit {P : Params} {pre post : List Ev} {m p c : Nat} {ok : Bool}
    (h : accepts P (pre ++ .commit m p c ok :: post) = true) :
    ∀ k, P.logStart p ≤ k → k < c → P.vis p k = true → ∃ m', .deliver m' p k ∈ pre := by
  obtain ⟨s, I, hg⟩ := reach_of_accepts h
  obtain ⟨hsafe, _⟩ := commit_guard_ok I hg
  intro k a b d
  obtain ⟨m', hm⟩ := hsafe k a b d
  exact ⟨m', I.dl m' p k hm⟩

/-- **no loss**, ownership epochs: the offset a new owner is started at — by induction over the
    ownership epochs, whoever owned the partition before, however they ended (crash, stop,
    rebalance) — has every visible record below it already delivered by an earlier owner.
    Together with `c04_redelivery_only_above_commit` (an owner delivers from its start upwards,
    skipping nothing visible) no visible record is ever passed over by the group. -/
theorem c04_no_loss {P : Params} {pre post : List Ev} {m p v : Nat} {src : Src}
    (h : accepts P (pre ++ .offer m p v src :: post) = true) :
    ∀ k, P.logStart p ≤ k → k < v → P.vis p k = true → ∃ m', .deliver m' p k ∈ pre := by
  obtain ⟨s, I, hg⟩ := reach_of_accepts h
  intro k a b d
  simp only [guard] at hg
  cases src with
  | committed =>
    simp at hg
    obtain ⟨m', hm⟩ := (I.store p v hg).1 k a b d
    exact ⟨m', I.dl m' p k hm⟩
  | reset => simp at hg; omega

/-- the committed offset a new owner is given is one some member really committed -/
theorem c04_start_is_a_commit {P : Params} {pre post : List Ev} {m p v : Nat}
    (h : accepts P (pre ++ .offer m p v .committed :: post) = true) :
    ∃ m', .commit m' p v true ∈ pre := by
  obtain ⟨s, I, hg⟩ := reach_of_accepts h
  simp [guard] at hg
  exact (I.store p v hg).2

/-- **redelivery only above the commit**: a record is delivered to a member only at or above the
    offset that member was started at in its current ownership epoch (the committed offset it was
    given when it took the partition over, or the reset position) — so a record is delivered again
    only if it lies at or above that offset -/
theorem c04_redelivery_only_above_commit {P : Params} {pre post : List Ev} {m p o : Nat}
    (h : accepts P (pre ++ .deliver m p o :: post) = true) :
    ∃ st, StartedAt m p st pre ∧ st ≤ o := by
  obtain ⟨s, I, hg⟩ := reach_of_accepts h
  simp only [guard, Bool.and_eq_true] at hg
  obtain ⟨_, hg⟩ := hg
  split at hg
  · rename_i st q hbd
    simp at hg
    obtain ⟨b1, _, b3⟩ := bound_ok I hbd
    exact ⟨st, b3, by have := b1.1; omega⟩
  · cases hg

/-- the reset position is used only when the coordinator said there is no committed offset: a reset
    answer that a member could start from (it owns `p` and has no position yet) is preceded, in the
    same ownership epoch, by `noOffset` -/
theorem c04_reset_only_without_commit {P : Params} {pre post : List Ev} {m p o : Nat}
    (h : accepts P (pre ++ .deliver m p o :: post) = true) :
    ∃ st, st ≤ o ∧
      (Since (· = .offer m p st .committed) (epochB m) pre ∨
       (Since (· = .offer m p st .reset) (epochB m) pre ∧ Since (· = .noOffset m p) (epochB m) pre)) := by
  obtain ⟨st, h1, h2⟩ := c04_redelivery_only_above_commit h
  exact ⟨st, h2, h1⟩

/-- … and nothing visible is skipped on the way: when `o` is delivered, every visible record
    between the epoch's start and `o` has been delivered by this member before -/
theorem c04_no_skip {P : Params} {pre post : List Ev} {m p o : Nat}
    (h : accepts P (pre ++ .deliver m p o :: post) = true) :
    ∃ st, StartedAt m p st pre ∧ st ≤ o ∧
      ∀ k, st ≤ k → k < o → P.vis p k = true → .deliver m p k ∈ pre := by
  obtain ⟨s, I, hg⟩ := reach_of_accepts h
  simp only [guard, Bool.and_eq_true] at hg
  obtain ⟨_, hg⟩ := hg
  split at hg
  · rename_i st q hbd
    simp at hg
    obtain ⟨b1, _, b3⟩ := bound_ok I hbd
    refine ⟨st, b3, by have := b1.1; omega, ?_⟩
    intro k h1 h2 h3
    by_cases hk : k < q
    · exact I.dl m p k (b1.2 k h1 hk h3)
    · have := noVis_spec hg.2 (by omega : q ≤ k) h2
      rw [this] at h3; cases h3
  · cases hg

/-- **at-least-once for the group as a whole**: when a record at offset `o` is handed to the
    application by any member, every visible record of that partition from the log start up to
    `o` has already been handed out by *some* member of the group — whatever crashes, stops,
    rebalances and refused commits lie in between.  (Chains `c04_no_skip` for the running
    ownership epoch with `c04_no_loss` for the offset that epoch was started at.) -/
theorem c04_group_at_least_once {P : Params} {pre post : List Ev} {m p o : Nat}
    (h : accepts P (pre ++ .deliver m p o :: post) = true) :
    ∀ k, P.logStart p ≤ k → k < o → P.vis p k = true → ∃ m', .deliver m' p k ∈ pre := by
  obtain ⟨st, hst, _, hskip⟩ := c04_no_skip h
  intro k h1 h2 h3
  by_cases hk : st ≤ k
  · exact ⟨m, hskip k hk h2 h3⟩
  · have key : ∀ src, Since (· = .offer m p st src) (epochB m) pre → ∃ m', Ev.deliver m' p k ∈ pre := by
      intro src hs
      obtain ⟨a, x, b, rfl, hx, _⟩ := hs
      subst hx
      have h' : accepts P (a ++ .offer m p st src :: (b ++ .deliver m p o :: post)) = true := by
        simpa [List.append_assoc] using h
      obtain ⟨m', hm'⟩ := c04_no_loss h' k h1 (by omega) h3
      exact ⟨m', by simp [hm']⟩
    rcases hst with hs | ⟨hs, _⟩
    · exact key _ hs
    · exact key _ hs

/-- every delivery happens in an ownership epoch that was started either at an offset some member
    of the group had successfully committed before, or at the log start (reset after "no committed
    offset"): a member never starts from a position of its own invention -/
theorem c04_start_is_commit_or_log_start {P : Params} {pre post : List Ev} {m p o : Nat}
    (h : accepts P (pre ++ .deliver m p o :: post) = true) :
    ∃ st, st ≤ o ∧ ((∃ m', .commit m' p st true ∈ pre) ∨ st = P.logStart p) := by
  obtain ⟨st, hst, hle⟩ := c04_redelivery_only_above_commit h
  refine ⟨st, hle, ?_⟩
  rcases hst with hs | ⟨hs, _⟩
  · obtain ⟨a, x, b, rfl, hx, _⟩ := hs
    subst hx
    have h' : accepts P (a ++ .offer m p st .committed :: (b ++ .deliver m p o :: post)) = true := by
      simpa [List.append_assoc] using h
    obtain ⟨m', hm'⟩ := c04_start_is_a_commit h'
    exact Or.inl ⟨m', by simp [hm']⟩
  · obtain ⟨a, x, b, rfl, hx, _⟩ := hs
    subst hx
    have h' : accepts P (a ++ .offer m p st .reset :: (b ++ .deliver m p o :: post)) = true := by
      simpa [List.append_assoc] using h
    obtain ⟨s, I, hg⟩ := reach_of_accepts h'
    simp [guard] at hg
    exact Or.inr hg.1

/-! ## non-vacuity -/

def allVis : Params := { vis := fun _ _ => true, logStart := fun _ => 0 }

/-- member 0 owns p0, delivers 0..2, commits 2 (accepted), is killed having delivered 2;
    member 1 takes over from the committed offset 2 and re-delivers record 2 -/
example : accepts allVis
    [ .asgS 0 1 [0], .noOffset 0 0, .offer 0 0 0 .reset, .deliver 0 0 0, .deliver 0 0 1, .commit 0 0 2 true,
      .deliver 0 0 2, .gone 0,
      .asgS 1 2 [0], .offer 1 0 2 .committed, .deliver 1 0 2, .deliver 1 0 3, .commit 1 0 4 true ]
    = true := by decide

/-- committing past an undelivered record is rejected -/
example : accepts allVis
    [ .asgS 0 1 [0], .noOffset 0 0, .offer 0 0 0 .reset, .deliver 0 0 0, .commit 0 0 2 true ] = false := by decide

/-- a new owner that skips a record is rejected -/
example : accepts allVis
    [ .asgS 0 1 [0], .noOffset 0 0, .offer 0 0 0 .reset, .deliver 0 0 0, .commit 0 0 1 true,
      .asgS 1 2 [0], .offer 1 0 1 .committed, .deliver 1 0 2 ] = false := by decide

/-- a member that resets although it was given a committed offset is rejected -/
example : accepts allVis
    [ .asgS 0 1 [0], .noOffset 0 0, .offer 0 0 0 .reset, .deliver 0 0 0, .commit 0 0 1 true,
      .asgS 1 2 [0], .offer 1 0 1 .committed, .offer 1 0 0 .reset ] = false := by decide

/-- positions may move over invisible offsets (a control batch at offset 1) -/
example : accepts { vis := fun _ k => k != 1, logStart := fun _ => 0 }
    [ .asgS 0 1 [0], .noOffset 0 0, .offer 0 0 0 .reset, .deliver 0 0 0, .deliver 0 0 2, .commit 0 0 3 true ]
    = true := by decide

end AkVerif.Group.Commit
