import AkVerif.Lemmas.ConsumeRun
/-!
# C03 — the consumer yields each visible record once, in offset order, from its position

Theorems about the model `AkVerif.Consume` (`Model/Consume.lean`) of
`PartitionRecords._unpack_records`, `FetchResult`, `TopicPartitionState` and the guards of
`Fetcher._proc_fetch_request / seek_to / next_record / fetched_records`.

`vis` is the ground truth: the offsets of the records a reader must see, in log order
(`visible L` for a log `L`); `inWin a e o` means `a ≤ o < e`.
-/
namespace AkVerif.Consume

/-! ## one response: `_unpack_records` -/

/-- **exactly the visible records at or after the fetch offset, in order**: for every well-formed
    response (any mix of compaction gaps, empty batches, control batches, a first batch that starts
    before the fetch offset — the compressed v0/v1 wrapper case) whose first batch ends after the
    fetch offset `f`, the generator yields the visible records with offset `≥ f`, none skipped,
    none repeated, and leaves `next_fetch_offset` at the end of the last batch -/
theorem c03_unpack {resp : List Batch} (hw : WFLog resp) (f : Nat)
    (hhead : ∀ b ∈ resp.head?, f < b.next) :
    drain f (items resp) = ((visible resp).filter (fun o => decide (f ≤ o)), lastNext f resp) := by
  apply drain_items hw f
  cases resp with
  | nil => intro b hb; cases hb
  | cons b r =>
    intro c hc
    have hb : f < b.next := hhead b (by simp)
    rcases List.mem_cons.mp hc with rfl | hc'
    · exact hb
    · have := (List.pairwise_cons.mp hw.order).1 c hc'
      have := (hw.each c hc).range
      omega

/-- the yielded offsets are strictly increasing (no record twice, none out of order) -/
theorem c03_unpack_increasing {resp : List Batch} (hw : WFLog resp) (f : Nat)
    (hhead : ∀ b ∈ resp.head?, f < b.next) : Inc (drain f (items resp)).1 := by
  rw [c03_unpack hw f hhead]
  exact (visible_inc hw).filter _

/-- **one fetch round against the log**: an honest answer (a non-empty run of whole batches starting
    at the batch that contains the position — Kafka's Fetch, cut anywhere) yields exactly the visible
    records of the log in `[pos, pos')` and moves the position strictly forward to `pos'` -/
theorem c03_fetch_round {L : List Batch} (hw : WFLog L) (pos : Nat) (resp : List Batch)
    (hh : Honest L pos resp) :
    (drain pos (items resp)).1 = (visible L).filter (inWin pos (drain pos (items resp)).2) ∧
    pos < (drain pos (items resp)).2 := by
  obtain ⟨h1, h2, h3⟩ := honest_drain hw pos resp hh
  exact ⟨h1, by rw [h2]; exact h3⟩

/-- … hence every honest answer is a *good* buffer for the ground truth `visible L` — the
    assumption `HonestOp` that the state-machine theorems below make about fetch answers -/
theorem c03_honest_is_good {L : List Batch} (hw : WFLog L) (pos : Nat) (resp : List Batch)
    (hh : Honest L pos resp) : HonestOp (visible L) (Op.reply pos (Reply.data resp)) := by
  obtain ⟨h1, h2, h3⟩ := honest_drain hw pos resp hh
  right
  exact ⟨h1, by show pos ≤ (drain pos (items resp)).2; rw [h2]; omega⟩

/-- **any cut policy**: however the broker cuts the log into answers, iterating fetch / drain from
    `s` delivers exactly the visible records of `[s, end)`, each once, in increasing order -/
theorem c03_iterate {L : List Batch} (hw : WFLog L) (s : Nat) (rs : List (List Batch))
    (hr : HonestRun L s rs) :
    (iterate s rs).1 = (visible L).filter (inWin s (iterate s rs).2) ∧ Inc (iterate s rs).1 := by
  obtain ⟨h1, _⟩ := iterate_spec hw s rs hr
  exact ⟨h1, by rw [h1]; exact (visible_inc hw).filter _⟩

/-- … and once the end of the log is reached, everything visible from `s` on has been delivered -/
theorem c03_iterate_complete {L : List Batch} (hw : WFLog L) (s : Nat) (rs : List (List Batch))
    (hr : HonestRun L s rs) (hend : ∀ b ∈ L, b.next ≤ (iterate s rs).2) :
    (iterate s rs).1 = (visible L).filter (fun o => decide (s ≤ o)) := by
  rw [(iterate_spec hw s rs hr).1]
  apply filter_inWin_eq
  intro o ho
  obtain ⟨b, hb, _, h2⟩ := visible_bounds hw ho
  have := hend b hb
  omega

/-- **progress (model side; the implementation side is a bounded run, hence `_partial`)**: while a
    batch ends after the position the broker has an honest answer, and every round of the iteration
    moves the position strictly forward — the iteration cannot stall before the end of the log.
    Not proved: that the real fetch loop issues these fetches within bounded time once faults cease. -/
theorem c03_progress_partial {L : List Batch} (hw : WFLog L) (s : Nat) :
    ((∃ b ∈ L, s < b.next) → ∃ resp, Honest L s resp) ∧
    (∀ rs, HonestRun L s rs → s + rs.length ≤ (iterate s rs).2) :=
  ⟨exists_honest L s, fun rs hr => (iterate_spec hw s rs hr).2⟩

/-! ## the partition state machine: getone / getall / seek / pause against fetch answers -/

/-- states reachable from a fresh partition state by any operation sequence — answers arriving for
    any offset at any time, hand-outs, seeks, pauses, lookups — in an honest environment -/
def Reach (vis : List Nat) (s : PSt) : Prop :=
  ∃ gd policy ops, (∀ op ∈ ops, HonestOp vis op) ∧ s = run gd policy {} ops

theorem reach_inv {vis : List Nat} (hv : Inc vis) {s : PSt} (h : Reach vis s) : Inv vis s := by
  obtain ⟨gd, policy, ops, ho, rfl⟩ := h
  exact run_inv hv gd policy {} ops (init_inv vis) ho

/-- **exactly the visible records from the start position, once, in order, none skipped**: in every
    reachable state the records handed out since the start position `st` (the last seek target or
    reset result) are precisely the visible records of `[st, position)` in log order -/
theorem c03_delivered_exactly {vis : List Nat} (hv : Inc vis) {s : PSt} (h : Reach vis s)
    (p st : Nat) (hp : s.pos = some p) (hs : s.start = some st) :
    s.delivered.reverse = vis.filter (inWin st p) :=
  ((reach_inv hv h).deliv p st hp hs).2

/-- **position() bounds**: never behind one past the last returned record, never ahead of a visible
    record that has not been returned -/
theorem c03_position_inv {vis : List Nat} (hv : Inc vis) {s : PSt} (h : Reach vis s)
    (p st : Nat) (hp : s.pos = some p) (hs : s.start = some st) :
    (∀ o ∈ s.delivered, o < p) ∧ (∀ o ∈ vis, st ≤ o → o < p → o ∈ s.delivered) := by
  have hd := c03_delivered_exactly hv h p st hp hs
  constructor
  · intro o ho
    have : o ∈ s.delivered.reverse := List.mem_reverse.mpr ho
    rw [hd] at this
    have := (List.mem_filter.mp this).2
    simp at this; omega
  · intro o ho h1 h2
    have : o ∈ vis.filter (inWin st p) := List.mem_filter.mpr ⟨ho, by simp; omega⟩
    rw [← hd] at this
    exact List.mem_reverse.mp this

/-- **position() equals the sought offset right after a seek** (and a new start begins) -/
theorem c03_position_after_seek (gd : Bool) (policy : Option Int) (s : PSt) (x : Nat) :
    (step gd policy s (Op.seek x)).1.pos = some x ∧ (step gd policy s (Op.seek x)).1.start = some x ∧
    (step gd policy s (Op.seek x)).1.delivered = [] ∧ (step gd policy s (Op.seek x)).1.buf = none := by
  simp [step]

/-- **a seek takes effect for the very next record, whatever is in flight**: after `seek x`, let
    anything happen except another seek / seek_to_* / an out-of-range answer — late answers of
    fetches sent for the old position, late committed-offset and ListOffsets answers, hand-outs,
    pauses.  Then the start is still `x`, and what has been handed out is exactly the visible records
    of `[x, position)`: in particular the first record handed out is the first visible one `≥ x`. -/
theorem c03_seek_next {vis : List Nat} (hv : Inc vis) (gd : Bool) (policy : Option Int) {s : PSt}
    (h : Reach vis s) (x : Nat) (ops : List Op) (ho : ∀ op ∈ ops, HonestOp vis op)
    (hk : ∀ op ∈ ops, KeepsStart op) :
    ∃ p, (run gd policy (step gd policy s (Op.seek x)).1 ops).pos = some p ∧ x ≤ p ∧
      (run gd policy (step gd policy s (Op.seek x)).1 ops).delivered.reverse = vis.filter (inWin x p) ∧
      (∀ o, (run gd policy (step gd policy s (Op.seek x)).1 ops).delivered.reverse.head? = some o →
        firstGE vis x = some o) := by
  have hi0 : Inv vis (step gd policy s (Op.seek x)).1 :=
    step_inv hv gd policy (reach_inv hv h) (Op.seek x) (by simp [HonestOp])
  have hi := run_inv hv gd policy _ ops hi0 ho
  have hst : Settled x (step gd policy s (Op.seek x)).1 := by simp [Settled, step]
  obtain ⟨k1, k2, _⟩ := run_settled gd policy x _ ops hst hk
  cases hp : (run gd policy (step gd policy s (Op.seek x)).1 ops).pos with
  | none => simp [hp] at k2
  | some p =>
    obtain ⟨d1, d2⟩ := hi.deliv p x hp k1
    refine ⟨p, rfl, d1, d2, ?_⟩
    intro o hh
    rw [d2] at hh
    cases hf : vis.filter (inWin x p) with
    | nil => simp [hf] at hh
    | cons a ys =>
      simp [hf] at hh
      subst hh
      exact firstGE_of_filter_head hv x p a ys hf

/-- **nothing from a paused partition**: `getone` / `getall` on a paused partition hand out nothing
    and leave the delivered sequence as it was (the buffered data is dropped and re-fetched later) -/
theorem c03_paused_silent (gd : Bool) (policy : Option Int) (s : PSt) (hp : s.paused = true) (max : Nat) :
    (step gd policy s Op.getone).2 = Res.nothing ∧
    (step gd policy s Op.getone).1.delivered = s.delivered ∧
    (step gd policy s (Op.getall max)).2 = Res.nothing ∧
    (step gd policy s (Op.getall max)).1.delivered = s.delivered := by
  have hc : ∀ g, s.check g = some false := by
    intro g
    unfold PSt.check
    by_cases ha : s.active = true <;> simp [ha, hp]
  simp only [step]
  cases hb : s.buf with
  | none => simp
  | some e =>
    cases e with
    | err c => simp
    | res g => simp [PSt.getone, PSt.getall, hc g]

/-- … and nothing once the assignment is gone (revoked partitions go silent) -/
theorem c03_unassigned_silent (gd : Bool) (policy : Option Int) (s : PSt) (ha : s.active = false) (max : Nat) :
    (step gd policy s Op.getone).2 = Res.nothing ∧ (step gd policy s (Op.getall max)).2 = Res.nothing := by
  have hc : ∀ g, s.check g = some false := by
    intro g; unfold PSt.check; simp [ha]
  simp only [step]
  cases hb : s.buf with
  | none => simp
  | some e =>
    cases e with
    | err c => simp
    | res g => simp [PSt.getone, PSt.getall, hc g]

/-- **nothing from a partition filtered out by the `partitions` argument**: a record returned by
    `next_record(partitions)` belongs to one of the named partitions … -/
theorem c03_filter_arg (gd : Bool) (policy : Option Int) (st st' : FSt) (filter : List Nat)
    (hne : filter ≠ []) (tp o : Nat)
    (h : st.nextRecord gd policy filter = (st', FRes.handed tp o)) : tp ∈ filter :=
  nextLoop_filter gd policy filter hne st.order st st' tp o h

/-- … and so does every list returned by `fetched_records(partitions, …)` -/
theorem c03_filter_arg_many (gd : Bool) (policy : Option Int) (st st' : FSt) (filter : List Nat)
    (hne : filter ≠ []) (max : Nat) (l : List (Nat × List Nat))
    (h : st.fetchedRecords gd policy filter max = (st', FRes.recs l)) : ∀ x ∈ l, x.1 ∈ filter := by
  have := manyLoop_filter gd policy filter hne st.order max [] st st' l (by simp) h
  intro x hx
  exact this x hx

/-! ## the property on observations (`holdsC03`, evaluated on what the implementation did) -/

/-- what the executable checker decides for one segment — a seek to `x` followed by deliveries:
    it accepts exactly when the delivered offsets are the first visible records at or after `x`,
    in order, none skipped, none repeated -/
theorem c03_holds_segment {vis : List Nat} (hv : Inc vis) (x : Nat) (ds : List Nat) :
    holdsC03 vis (Obs.seek x :: ds.map Obs.deliver) = true ↔
      ds = (vis.filter (fun o => decide (x ≤ o))).take ds.length :=
  holds_segment hv x ds

/-! ## non-vacuity -/

/-- a well-formed log with a compaction gap, an empty batch, a control batch and a wrapper-like
    first batch that starts before the fetch offset; fetched at 6 in two cuts -/
def exLog : List Batch :=
  [⟨5, 10, false, [5, 6, 8]⟩, ⟨10, 12, false, []⟩, ⟨12, 13, true, [12]⟩, ⟨13, 16, false, [13, 15]⟩]

theorem exLog_wf : WFLog exLog := by
  refine ⟨?_, by simp [exLog]⟩
  intro b hb
  simp only [exLog, List.mem_cons, List.not_mem_nil, or_false] at hb
  rcases hb with rfl | rfl | rfl | rfl <;> exact ⟨by decide, by decide, by decide⟩

example : Honest exLog 6 (exLog.take 2) :=
  ⟨[], exLog.drop 2, by decide, by decide, by simp, by simp [exLog]⟩

example : drain 6 (items (exLog.take 2)) = ([6, 8], 12) := by decide
example : drain 12 (items (exLog.drop 2)) = ([13, 15], 16) := by decide
example : HonestRun exLog 6 [exLog.take 2, exLog.drop 2] := by
  refine ⟨⟨[], exLog.drop 2, by decide, by decide, by simp, by simp [exLog]⟩, ?_, trivial⟩
  have : (drain 6 (items (exLog.take 2))).2 = 12 := by decide
  rw [this]
  exact ⟨exLog.take 2, [], by decide, by decide, by decide, by simp [exLog]⟩

/-- a reachable state: seek 6, answer for 6, one record out, a late answer for an old offset, a
    seek to 13 while the buffer still holds data, the answer for 13, getall -/
def exOps : List Op :=
  [Op.seek 6, Op.reply 6 (Reply.data (exLog.take 2)), Op.getone,
   Op.reply 0 (Reply.data (exLog.take 1)), Op.seek 13,
   Op.reply 13 (Reply.data (exLog.drop 3)), Op.getall 0]

example : Reach (visible exLog) (run false none {} exOps) := by
  refine ⟨false, none, exOps, ?_, rfl⟩
  intro op hop
  simp only [exOps, List.mem_cons, List.not_mem_nil, or_false] at hop
  rcases hop with rfl | rfl | rfl | rfl | rfl | rfl | rfl
  · trivial
  · right; exact ⟨by decide, by decide⟩
  · trivial
  · right; exact ⟨by decide, by decide⟩
  · trivial
  · right; exact ⟨by decide, by decide⟩
  · trivial

example :
    (run false none {} exOps).delivered = [15, 13] ∧ (run false none {} exOps).pos = some 16 ∧
    (run false none {} exOps).start = some 13 := by decide

example : holdsC03 (visible exLog) [Obs.seek 6, Obs.position 6, Obs.deliver 6, Obs.deliver 8,
    Obs.position 12, Obs.deliver 13] = true := by decide
example : holdsC03 (visible exLog) [Obs.seek 6, Obs.deliver 8] = false := by decide

end AkVerif.Consume
