import AkVerif.Lemmas.Assign
import AkVerif.Lemmas.StickyAlg
import AkVerif.Lemmas.StickyOwn
/-!
# C14 — assignors give each subscribed partition exactly one subscribed owner, balanced

Range and round-robin are modelled (`Model/Assign.lean`) and proved here for every input.
The sticky assignor is *not* modelled: for it the executable statement
(`coverB`, `nothingElseB`, `kip54B`) is evaluated on the library's output, and the theorems at the
end of this file say what a `true` verdict means (`…_sound`).  That part is therefore partial.
-/
namespace AkVerif.Assign

/-! ## range -/

/-- concatenating, in consumer order, what the subscribed consumers of `t` get yields exactly
    the sorted partition list of `t` -/
theorem range_concat (inp : Input) (t : Topic) (ps : List Nat)
    (hn : (memberIds inp).Nodup) (hps : lookupParts inp t = some ps)
    (hcs : consumersFor inp t ≠ []) :
    (consumersFor inp t).flatMap (fun c => rangeFor inp c t) = isort ps := by
  have hnd := consumersFor_nodup inp t hn
  have hpos : 0 < (consumersFor inp t).length := List.length_pos_iff.mpr hcs
  have : (consumersFor inp t).flatMap (fun c => rangeFor inp c t)
      = (consumersFor inp t).flatMap
          (fun c => rangeSlice (isort ps) (consumersFor inp t).length
            ((consumersFor inp t).idxOf c)) := by
    apply flatMap_congr'
    intro c hc
    simp [rangeFor, hps, hc]
  rw [this, flatMap_idxOf _ hnd, slices_tile _ _ hpos]

/-- exact cover, with multiplicity: every partition is handed out exactly as often as it occurs
    in the metadata (once, metadata being a set) -/
theorem range_exact_cover (inp : Input) (t : Topic) (ps : List Nat)
    (hn : (memberIds inp).Nodup) (hps : lookupParts inp t = some ps)
    (hcs : consumersFor inp t ≠ []) (p : Nat) :
    ((consumersFor inp t).flatMap (fun c => rangeFor inp c t)).count p = ps.count p := by
  rw [range_concat inp t ps hn hps hcs]
  exact (isortK_perm id ps).count_eq p

theorem count_flatMap_unique {l : List Nat} {f : Nat → List Nat} {p : Nat}
    (hc : (l.flatMap f).count p ≤ 1) {a b : Nat} (ha : a ∈ l) (hb : b ∈ l)
    (hpa : p ∈ f a) (hpb : p ∈ f b) (hl : l.Nodup) : a = b := by
  induction l with
  | nil => cases ha
  | cons x xs ih =>
    rw [List.flatMap_cons, List.count_append] at hc
    rw [List.nodup_cons] at hl
    have pos_of_mem : ∀ c, c ∈ xs → p ∈ f c → 0 < (xs.flatMap f).count p := by
      intro c hc1 hc2
      exact List.count_pos_iff.mpr (List.mem_flatMap.mpr ⟨c, hc1, hc2⟩)
    rcases List.mem_cons.mp ha with rfl | ha' <;> rcases List.mem_cons.mp hb with rfl | hb'
    · rfl
    · have h1 : 0 < (f a).count p := List.count_pos_iff.mpr hpa
      have h2 := pos_of_mem b hb' hpb
      omega
    · have h1 : 0 < (f b).count p := List.count_pos_iff.mpr hpb
      have h2 := pos_of_mem a ha' hpa
      omega
    · exact ih (by omega) ha' hb' hl.2

/-- a partition has one owner only -/
theorem range_unique_owner (inp : Input) (t : Topic) (ps : List Nat)
    (hn : (memberIds inp).Nodup) (hps : lookupParts inp t = some ps) (hnd : ps.Nodup)
    (a b : Member) (p : Nat) (ha : p ∈ rangeFor inp a t) (hb : p ∈ rangeFor inp b t) : a = b := by
  have mem_cs : ∀ c, p ∈ rangeFor inp c t → c ∈ consumersFor inp t := by
    intro c hc
    unfold rangeFor at hc
    rw [hps] at hc
    simp only at hc
    split at hc
    · assumption
    · cases hc
  have hac := mem_cs a ha
  have hcs : consumersFor inp t ≠ [] := List.ne_nil_of_mem hac
  have hcount := range_exact_cover inp t ps hn hps hcs p
  have hle : ps.count p ≤ 1 := List.nodup_iff_count.mp hnd p
  have hle' : ((consumersFor inp t).flatMap (fun c => rangeFor inp c t)).count p ≤ 1 := by
    rw [hcount]; exact hle
  exact count_flatMap_unique (f := fun c => rangeFor inp c t) hle' hac (mem_cs b hb) ha hb
    (consumersFor_nodup inp t hn)

/-- every partition of a subscribed topic with metadata has an owner -/
theorem range_has_owner (inp : Input) (t : Topic) (ps : List Nat)
    (hn : (memberIds inp).Nodup) (hps : lookupParts inp t = some ps)
    (hcs : consumersFor inp t ≠ []) (p : Nat) (hp : p ∈ ps) :
    ∃ c, subscribed inp c t = true ∧ p ∈ rangeFor inp c t := by
  have h := range_exact_cover inp t ps hn hps hcs p
  have : 0 < ps.count p := List.count_pos_iff.mpr hp
  have hm : p ∈ (consumersFor inp t).flatMap (fun c => rangeFor inp c t) :=
    List.count_pos_iff.mp (by omega)
  obtain ⟨c, hc, hpc⟩ := List.mem_flatMap.mp hm
  exact ⟨c, (mem_consumersFor inp t c).mp hc, hpc⟩

/-- nothing else: whatever a member gets is a partition of a topic it subscribed to -/
theorem range_nothing_else (inp : Input) (m : Member) (t : Topic) (p : Nat)
    (h : p ∈ rangeFor inp m t) :
    subscribed inp m t = true ∧ ∃ ps, lookupParts inp t = some ps ∧ p ∈ ps := by
  unfold rangeFor at h
  split at h
  · cases h
  · rename_i ps hps
    simp only at h
    split at h
    · rename_i hm
      refine ⟨(mem_consumersFor inp t m).mp hm, ps, hps, ?_⟩
      unfold rangeSlice at h
      have h1 := List.mem_of_mem_take h
      have h2 := List.mem_of_mem_drop h1
      exact (mem_isortK id ps p).mp h2
    · cases h

/-- within a topic the loads of two subscribed members differ by at most one -/
theorem range_balanced_per_topic (inp : Input) (t : Topic) (a b : Member)
    (ha : subscribed inp a t = true) (hb : subscribed inp b t = true) :
    (rangeFor inp a t).length ≤ (rangeFor inp b t).length + 1 := by
  have hac := (mem_consumersFor inp t a).mpr ha
  have hbc := (mem_consumersFor inp t b).mpr hb
  unfold rangeFor
  split
  · simp
  · rename_i ps _
    simp only [hac, hbc, if_true]
    have hpos : 0 < (consumersFor inp t).length := List.length_pos_iff.mpr (List.ne_nil_of_mem hac)
    rw [rangeSlice_length _ _ _ hpos (List.idxOf_lt_length_iff.mpr hac),
        rangeSlice_length _ _ _ hpos (List.idxOf_lt_length_iff.mpr hbc)]
    exact rLen_balanced _ _ _ _

/-- the answer compared with the library (`rangeOutput`) consists of exactly the `rangeFor` values
    the theorems above speak about -/
theorem rangeOutput_items (inp : Input) (m : Member) (items : List (Topic × List Nat))
    (hm : (m, items) ∈ rangeOutput inp) (t : Topic) (ps : List Nat) (hi : (t, ps) ∈ items) :
    ps = rangeFor inp m t := by
  unfold rangeOutput at hm
  obtain ⟨ms, _, heq⟩ := List.mem_map.mp hm
  injection heq with e1 e2
  subst e1; subst e2
  obtain ⟨t', _, heq'⟩ := List.mem_map.mp hi
  injection heq' with e3 e4
  subst e3; exact e4.symm

/-! ## round robin -/

/-- each partition is handed out exactly once, in sorted order -/
theorem rr_exact_cover (ms : List (Member × List Topic)) (tps : List (Topic × Nat)) (pos : Nat)
    (owners : List (Nat × (Topic × Nat))) (h : rrLoop ms tps pos = some owners) :
    owners.map (·.2) = tps := by
  induction tps generalizing pos owners with
  | nil => simp [rrLoop] at h; simp [h]
  | cons tp rest ih =>
    obtain ⟨t, p⟩ := tp
    unfold rrLoop at h
    split at h
    · cases h
    · split at h
      · cases h
      · rename_i r hr
        injection h with h; subst h
        simp [ih _ _ hr]

/-- the owner of a partition is a member subscribed to its topic -/
theorem rr_owner_subscribed (ms : List (Member × List Topic)) (tps : List (Topic × Nat)) (pos : Nat)
    (owners : List (Nat × (Topic × Nat))) (h : rrLoop ms tps pos = some owners)
    (j : Nat) (t : Topic) (p : Nat) (hm : (j, (t, p)) ∈ owners) :
    ∃ m, ms[j]? = some m ∧ m.2.contains t = true := by
  induction tps generalizing pos owners with
  | nil => simp [rrLoop] at h; subst h; cases hm
  | cons tp rest ih =>
    obtain ⟨t', p'⟩ := tp
    unfold rrLoop at h
    split at h
    · cases h
    · rename_i j' hj'
      split at h
      · cases h
      · rename_i r hr
        injection h with h; subst h
        rcases List.mem_cons.mp hm with heq | hin
        · injection heq with h1 h2; injection h2 with h2 h3; subst h1; subst h2
          exact rrFind_spec ms _ _ _ _ hj'
        · exact ih _ _ hr hin

theorem cyclic_reach (len pos i : Nat) (hi : i < len) :
    ∃ k, k < len ∧ (pos + k) % len = i := by
  have hlen : 0 < len := by omega
  have hr : pos % len < len := Nat.mod_lt _ hlen
  have hpos : pos = len * (pos / len) + pos % len := (Nat.div_add_mod pos len).symm
  by_cases h : pos % len ≤ i
  · refine ⟨i - pos % len, by omega, ?_⟩
    have : pos + (i - pos % len) = i + len * (pos / len) := by omega
    rw [this, Nat.add_mul_mod_self_left, Nat.mod_eq_of_lt hi]
  · refine ⟨i + len - pos % len, by omega, ?_⟩
    have : pos + (i + len - pos % len) = i + len * (pos / len + 1) := by
      rw [Nat.mul_add]; omega
    rw [this, Nat.add_mul_mod_self_left, Nat.mod_eq_of_lt hi]

/-- termination: the `while` loop of the round-robin assignor makes at most `|members|` calls to
    `next()` per partition, provided every listed topic has a subscriber (true by construction:
    the topics come from the members' subscriptions) -/
theorem rr_terminates (ms : List (Member × List Topic)) (tps : List (Topic × Nat)) (pos : Nat)
    (hsub : ∀ tp ∈ tps, ∃ m ∈ ms, m.2.contains tp.1 = true) :
    ∃ owners, rrLoop ms tps pos = some owners := by
  induction tps generalizing pos with
  | nil => exact ⟨[], rfl⟩
  | cons tp rest ih =>
    obtain ⟨t, p⟩ := tp
    obtain ⟨m, hm, hc⟩ := hsub (t, p) List.mem_cons_self
    obtain ⟨i, hi, hget⟩ := List.getElem_of_mem hm
    obtain ⟨k, hk, hkmod⟩ := cyclic_reach ms.length pos i hi
    have hlen : 0 < ms.length := by omega
    obtain ⟨j, hj⟩ := rrFind_some ms t ms.length pos k hk hlen
      ⟨m, by rw [hkmod, List.getElem?_eq_getElem hi, hget], hc⟩
    obtain ⟨r, hr⟩ := ih (j + 1) (fun tp h => hsub tp (List.mem_cons_of_mem _ h))
    exact ⟨(j, (t, p)) :: r, by simp [rrLoop, hj, hr]⟩

/-- for every input whatsoever the round-robin loop terminates (no hypothesis: the topics it walks
    over are, by construction, topics somebody subscribed to) -/
theorem rr_terminates_input (inp : Input) : ∃ owners, rrOwners inp = some owners := by
  unfold rrOwners
  apply rr_terminates
  intro tp htp
  unfold allTopicPartitions at htp
  obtain ⟨t, ht, hin⟩ := List.mem_flatMap.mp htp
  have htp1 : tp.1 = t := by
    split at hin
    · cases hin
    · obtain ⟨p, _, rfl⟩ := List.mem_map.mp hin; rfl
  unfold allTopics at ht
  rw [mem_usort] at ht
  obtain ⟨ms, hms, hts⟩ := List.mem_flatMap.mp ht
  refine ⟨ms, (mem_isortK _ _ _).mpr hms, ?_⟩
  rw [htp1]; simpa using hts

/-- … and hands out exactly the sorted list of all partitions of subscribed topics -/
theorem rr_exact_cover_input (inp : Input) (owners : List (Nat × (Topic × Nat)))
    (h : rrOwners inp = some owners) : owners.map (·.2) = allTopicPartitions inp :=
  rr_exact_cover _ _ _ _ h

/-- identical subscriptions: the `k`-th partition (in sorted order) goes to member
    `(pos + k) mod m` of the sorted member list — plain round robin, nobody is skipped -/
theorem rr_identical_owner (ms : List (Member × List Topic)) (tps : List (Topic × Nat)) (pos : Nat)
    (hlen : 0 < ms.length)
    (hall : ∀ tp ∈ tps, ∀ m ∈ ms, m.2.contains tp.1 = true) :
    ∃ owners, rrLoop ms tps pos = some owners ∧
      ∀ k (hk : k < owners.length), (owners[k]).1 = (pos + k) % ms.length := by
  induction tps generalizing pos with
  | nil => exact ⟨[], rfl, by intro k hk; cases hk⟩
  | cons tp rest ih =>
    obtain ⟨t, p⟩ := tp
    have hlt : pos % ms.length < ms.length := Nat.mod_lt _ hlen
    have hfind : rrFind ms t ms.length pos = some (pos % ms.length) := by
      obtain ⟨f, hf⟩ : ∃ f, ms.length = f + 1 := ⟨ms.length - 1, by omega⟩
      have hc := hall (t, p) List.mem_cons_self (ms[pos % ms.length]) (List.getElem_mem hlt)
      conv => lhs; rw [hf]
      unfold rrFind
      rw [List.getElem?_eq_getElem hlt]
      simp only [hc, if_true]
    obtain ⟨r, hr, hidx⟩ := ih (pos % ms.length + 1) (fun tp h => hall tp (List.mem_cons_of_mem _ h))
    refine ⟨(pos % ms.length, (t, p)) :: r, by simp [rrLoop, hfind, hr], ?_⟩
    intro k hk
    cases k with
    | zero => simp
    | succ k =>
      simp only [List.getElem_cons_succ]
      rw [hidx k (by simpa using hk)]
      have e1 : pos % ms.length + 1 + k = pos % ms.length + (k + 1) := by omega
      rw [e1, Nat.mod_add_mod]

/-! ### loads under plain round robin differ by at most one -/

def rrCount (n m a : Nat) : Nat := ((List.range n).filter (fun k => k % m == a)).length

theorem rrCount_succ (n m a : Nat) :
    rrCount (n+1) m a = rrCount n m a + (if n % m = a then 1 else 0) := by
  unfold rrCount
  rw [List.range_succ, List.filter_append, List.length_append]
  by_cases h : n % m = a <;> simp [h]

theorem rrCount_formula (m : Nat) (hm : 0 < m) (n : Nat) :
    ∃ q r, r < m ∧ n = m * q + r ∧ ∀ a, a < m → rrCount n m a = q + (if a < r then 1 else 0) := by
  induction n with
  | zero => exact ⟨0, 0, hm, by simp, by intro a _; simp [rrCount]⟩
  | succ n ih =>
    obtain ⟨q, r, hr, hn, hc⟩ := ih
    have hmod : n % m = r := by rw [hn, Nat.mul_add_mod]; exact Nat.mod_eq_of_lt hr
    by_cases h : r + 1 < m
    · refine ⟨q, r + 1, h, by omega, ?_⟩
      intro a ha
      rw [rrCount_succ, hc a ha, hmod]
      split <;> split <;> split <;> omega
    · refine ⟨q + 1, 0, hm, by rw [Nat.mul_add]; omega, ?_⟩
      intro a ha
      rw [rrCount_succ, hc a ha, hmod]
      simp only [Nat.not_lt_zero, if_false]
      split <;> split <;> omega

/-- round robin with identical subscriptions keeps member loads within one of each other -/
theorem rr_balanced_identical (n m a b : Nat) (hm : 0 < m) (ha : a < m) (hb : b < m) :
    rrCount n m a ≤ rrCount n m b + 1 := by
  obtain ⟨q, r, _, _, hc⟩ := rrCount_formula m hm n
  rw [hc a ha, hc b hb]
  split <;> split <;> omega

/-! ## what a `true` verdict of the executable statement means (used for the sticky assignor) -/

theorem coverB_sound (inp : Input) (out : Output) (h : coverB inp out = true)
    (t : Topic) (ht : t ∈ allTopics inp) (ps : List Nat) (hps : lookupParts inp t = some ps)
    (p : Nat) (hp : p ∈ ps) :
    (out.flatMap fun mo => (mo.2.filter (·.1 == t)).flatMap (·.2)).count p = 1 := by
  unfold coverB at h
  rw [List.all_eq_true] at h
  have h1 := h t ht
  rw [hps] at h1
  simp only [List.all_eq_true, beq_iff_eq] at h1
  exact h1 p hp

theorem nothingElseB_sound (inp : Input) (out : Output) (h : nothingElseB inp out = true)
    (m : Member) (items : List (Topic × List Nat)) (hm : (m, items) ∈ out)
    (t : Topic) (ps : List Nat) (hi : (t, ps) ∈ items) (p : Nat) (hp : p ∈ ps) :
    subscribed inp m t = true ∧ ∃ all, lookupParts inp t = some all ∧ p ∈ all := by
  unfold nothingElseB at h
  simp only [List.all_eq_true, Bool.and_eq_true] at h
  obtain ⟨h1, h2⟩ := h (m, items) hm (t, ps) hi p hp
  refine ⟨h1, ?_⟩
  simp only at h2
  split at h2
  · cases h2
  · rename_i all hall
    exact ⟨all, hall, by simpa using h2⟩

/-- KIP-54: if `b` is subscribed to a topic of which `a` holds a partition, then `a` holds
    fewer than two more partitions than `b` -/
theorem kip54B_sound (inp : Input) (out : Output) (h : kip54B inp out = true)
    (a : Member) (items : List (Topic × List Nat)) (ha : (a, items) ∈ out)
    (t : Topic) (ps : List Nat) (hi : (t, ps) ∈ items) (hne : ps ≠ [])
    (b : Member) (hb : b ∈ memberIds inp) (hs : subscribed inp b t = true) :
    loadOf out a < loadOf out b + 2 := by
  unfold kip54B at h
  simp only [List.all_eq_true, Bool.or_eq_true, List.isEmpty_iff] at h
  rcases h (a, items) ha (t, ps) hi with h1 | h1
  · exact absurd h1 hne
  · rcases h1 b hb with h2 | h2
    · simp [hs] at h2
    · simpa using h2

/-! ## sticky assignor: the Lean port (`Model/StickyAlg.lean`, tied to the code by T-diff) -/

open AkVerif.StickyAlg in
/-- **nothing else is assigned** — for every cluster, every list of members (any subscriptions,
    any previous assignment carried in the user data), every oracle for the one set-iteration
    choice and every fuel: whatever the port of `StickyPartitionAssignor.assign` hands to a member
    is a partition listed in the metadata of a topic that member subscribes to.
    (Invariant `Pot`: current assignment, owner map and movement records only ever mention
    potential partitions; preserved by assignment, movement incl. the swap-avoiding
    `get_partition_to_be_moved`, the revert, and the fixed-consumer bookkeeping.) -/
theorem sticky_nothing_else (fuel : Nat) (parts : List (Topic × List Nat)) (members : List MemberIn)
    (oracle : List TP) (hparts : (parts.map (·.1)).Nodup)
    (out : Output) (left : Nat) (h : StickyAlg.assign fuel parts members oracle = .ok out left)
    (m : Member) (items : List (Topic × List Nat)) (hm : (m, items) ∈ out)
    (t : Topic) (ps : List Nat) (hi : (t, ps) ∈ items) (p : Nat) (hp : p ∈ ps) :
    ∃ mem, members.find? (·.id == m) = some mem ∧ t ∈ mem.subs ∧
      ∃ all, alGet parts t = some all ∧ p ∈ all := by
  unfold StickyAlg.assign at h
  simp only at h
  have hpot0 := initState_pot parts members oracle hparts
  generalize hs0 : populatePartitionsToReassign (populateSortedPartitions (initState parts members oracle)) = s0 at h hpot0
  have hc0 : s0.c2p = members.map (fun m => (m.id, potentialOf parts m)) := by
    rw [← hs0]
    show (populateSortedPartitions (initState parts members oracle)).c2p = _
    rw [(populateSorted_fields _).2.2.1, initState_c2p]
  cases hb : balance fuel s0 with
  | none => rw [hb] at h; cases h
  | some s1 =>
    rw [hb] at h
    simp only at h
    have hb1 := balance_pot fuel s0 s1 hpot0 hb
    split at h
    · cases h
    · split at h
      · cases h
      · injection h with h1 _
        subst h1
        obtain ⟨mem, hmem, heq⟩ := List.mem_map.mp hm
        injection heq with e1 e2
        subst e1; subst e2
        -- the item lists only partitions held by the member …
        have hheld : ∀ k ∈ ps, (t, k) ∈ curOf s1 mem.id := by
          have := finalFor_sound (curOf s1 mem.id) [] (curOf s1 mem.id)
            (by intro x hx; cases hx) (by intro q hq; exact hq) (t, ps) hi
          exact this
        -- … which are potential partitions of that member
        have hpot : (t, p) ∈ potOf s1 mem.id := mem_curOf s1 hb1.1 mem.id (t, p) (hheld p hp)
        unfold potOf alGetD at hpot
        rw [hb1.2, hc0, alGet_map_find] at hpot
        cases hfind : members.find? (·.id == mem.id) with
        | none => simp [hfind] at hpot
        | some m0 =>
          simp only [hfind, Option.map_some, Option.getD_some] at hpot
          refine ⟨m0, rfl, ?_⟩
          unfold potentialOf at hpot
          obtain ⟨t', ht', hin⟩ := List.mem_flatMap.mp hpot
          cases hget : alGet parts t' with
          | none => simp [hget] at hin
          | some all =>
            simp only [hget] at hin
            obtain ⟨k, hk, heq⟩ := List.mem_map.mp hin
            injection heq with e1 e2
            subst e1; subst e2
            exact ⟨(StickyAlg.mem_isort_iff _ _).mp ht', all, hget, hk⟩

open AkVerif.StickyAlg in
/-- **every subscribed partition has exactly one owner** — for every cluster (topics and
    partition ids without repetition), every list of members with distinct ids (any subscriptions,
    any previous assignment in the user data), every oracle and every fuel: if the port of
    `StickyPartitionAssignor.assign` returns an assignment, then each partition of each topic that
    has metadata and at least one subscriber is handed to some member, and never to two different
    members.  (Invariant `Own`: the consumers' lists and the owner map describe the same function,
    without duplicates; preserved by `_assign_partition`, `_move_partition`, the set-aside and
    re-insertion of fixed consumers and the revert; established for the state built from the user
    data.)  Together with `sticky_nothing_else` this is the validity clause of C14 for the sticky
    assignor; termination (fuel) and KIP-54 balance remain unproved. -/
theorem sticky_exact_cover (fuel : Nat) (parts : List (Topic × List Nat)) (members : List MemberIn)
    (oracle : List TP) (hparts : (parts.map (·.1)).Nodup) (hps : ∀ tps ∈ parts, tps.2.Nodup)
    (hmem : (members.map (·.id)).Nodup)
    (out : Output) (left : Nat) (h : StickyAlg.assign fuel parts members oracle = .ok out left)
    (t : Topic) (all : List Nat) (ht : (t, all) ∈ parts) (p : Nat) (hp : p ∈ all)
    (hsub : ∃ m ∈ members, t ∈ m.subs) :
    (∃ m items ps, (m, items) ∈ out ∧ (t, ps) ∈ items ∧ p ∈ ps) ∧
    (∀ m1 i1 ps1 m2 i2 ps2, (m1, i1) ∈ out → (t, ps1) ∈ i1 → p ∈ ps1 →
      (m2, i2) ∈ out → (t, ps2) ∈ i2 → p ∈ ps2 → m1 = m2) := by
  unfold StickyAlg.assign at h
  simp only at h
  obtain ⟨hpre, hcov⟩ := initState_preBalance parts members oracle hparts hps hmem
  have hf := populateSorted_fields (initState parts members oracle)
  generalize hs0 : populatePartitionsToReassign (populateSortedPartitions (initState parts members oracle)) = s0 at h hpre hcov
  -- facts about the static tables of s0
  have hc2p : s0.c2p = members.map (fun m => (m.id, potentialOf parts m)) := by
    rw [← hs0]
    show (populateSortedPartitions (initState parts members oracle)).c2p = _
    rw [hf.2.2.1, initState_c2p]
  have hp2c : s0.p2c = (initState parts members oracle).p2c := by
    rw [← hs0]; show (populateSortedPartitions (initState parts members oracle)).p2c = _; rw [hf.2.2.2.1]
  have hcurkeys : ∀ m ∈ members, m.id ∈ keysOf s0.cur := by
    intro m hm
    have := (initState_ownCore parts members oracle).2 m hm
    rw [← hs0]
    have hk : keysOf (populatePartitionsToReassign (populateSortedPartitions (initState parts members oracle))).cur
        = keysOf (populateSortedPartitions (initState parts members oracle)).cur := by
      unfold populatePartitionsToReassign keysOf; simp [List.map_map, Function.comp_def]
    rw [hk, hf.1]; exact this
  cases hb : balance fuel s0 with
  | none => rw [hb] at h; cases h
  | some s1 =>
    rw [hb] at h
    simp only at h
    split at h
    · cases h
    · rename_i hfail
      split at h
      · cases h
      · injection h with h1 _
        have hok : s1.failed = none := by assumption
        obtain ⟨hown, _, hassigned, hkept⟩ := balance_own fuel s0 s1 hpre hb hok
        -- (t, p) is a partition with a potential consumer
        obtain ⟨m0, hm0, htm0⟩ := hsub
        have hget : alGet parts t = some all := alGet_of_mem_nodup parts t all hparts ht
        have hpotm0 : (t, p) ∈ potentialOf parts m0 := by
          unfold potentialOf
          apply List.mem_flatMap.mpr
          refine ⟨t, (mem_isort_iff _ _).mpr htm0, ?_⟩
          simp only [hget]
          exact List.mem_map.mpr ⟨p, hp, rfl⟩
        have hpot0 : (t, p) ∈ potOf s0 m0.id := by
          unfold potOf alGetD
          rw [hc2p, alGet_map_find]
          have hfind : members.find? (·.id == m0.id) = some m0 := by
            -- ids are distinct, so the first member with this id is m0 itself
            have : ∀ (l : List MemberIn), (l.map (·.id)).Nodup → m0 ∈ l → l.find? (·.id == m0.id) = some m0 := by
              intro l
              induction l with
              | nil => intro _ h; cases h
              | cons a r ih =>
                intro hn hin
                simp only [List.map_cons, List.nodup_cons] at hn
                rcases List.mem_cons.mp hin with rfl | hin'
                · simp
                · have hne : (a.id == m0.id) = false := by
                    apply Bool.eq_false_iff.mpr; intro he
                    have : a.id = m0.id := by simpa using he
                    exact hn.1 (this ▸ List.mem_map.mpr ⟨m0, hin', rfl⟩)
                  simp only [List.find?_cons, hne]
                  exact ih hn.2 hin'
            exact this members hmem hm0
          rw [hfind]; exact hpotm0
        have hp2c' : s0.p2c = (subscribedTps parts members).map
            (fun tp => (tp, (members.filter (fun m => (potentialOf parts m).contains tp)).map (·.id))) := by
          rw [hp2c]; rfl
        have hall : (t, p) ∈ subscribedTps parts members := by
          unfold subscribedTps
          refine List.mem_filter.mpr ⟨List.mem_flatMap.mpr ⟨(t, all), ht, List.mem_map.mpr ⟨p, hp, rfl⟩⟩, ?_⟩
          exact List.any_eq_true.mpr ⟨m0, hm0, by simpa using htm0⟩
        have hkeysp2c : keysOf s0.p2c = subscribedTps parts members := by
          rw [hp2c']; unfold keysOf; simp [List.map_map, Function.comp_def]
        have hkeyp2c : (t, p) ∈ keysOf s0.p2c := by rw [hkeysp2c]; exact hall
        have hcons : (consumersOf s0 (t, p)).isEmpty = false := by
          unfold consumersOf alGetD
          have hg : alGet s0.p2c (t, p)
              = some ((members.filter (fun m => (potentialOf parts m).contains (t, p))).map (·.id)) := by
            apply alGet_of_mem_nodup
            · show (keysOf s0.p2c).Nodup
              rw [hkeysp2c]; unfold subscribedTps
              exact List.Nodup.sublist List.filter_sublist (allTps_nodup parts hparts hps)
            · rw [hp2c']; exact List.mem_map.mpr ⟨(t, p), hall, rfl⟩
          rw [hg]
          simp only [Option.getD_some]
          apply Bool.eq_false_iff.mpr
          intro hnil
          have hnil' : (members.filter (fun m => (potentialOf parts m).contains (t, p))) = [] := by
            simpa using hnil
          have : m0 ∈ members.filter (fun m => (potentialOf parts m).contains (t, p)) :=
            List.mem_filter.mpr ⟨hm0, by simpa using hpotm0⟩
          rw [hnil'] at this; cases this
        -- owned after balance
        have howned : (alGet s1.owner (t, p)).isSome := by
          rcases hcov (t, p) (by rw [← hp2c]; exact hkeyp2c) with hun | hown0
          · exact hassigned (t, p) hun hcons ⟨m0.id, hcurkeys m0 hm0, by simpa using hpot0⟩
          · exact hkept (t, p) hown0
        obtain ⟨c, hc⟩ := Option.isSome_iff_exists.mp howned
        obtain ⟨psc, hpsc, hpin⟩ := hown.OH (t, p) c hc
        simp only [List.append_nil] at hpsc
        have hcur : psc = curOf s1 c := entry_curOf s1 [] hown c psc hpsc
        -- c is a member id: its list is non-empty and potential, hence c2p has it … we only need out
        have hcmem : ∃ m ∈ members, m.id = c := by
          have hpotc := mem_curOf s1 (balance_pot fuel s0 s1 hpre.pot hb).1 c (t, p) (hcur ▸ hpin)
          unfold potOf alGetD at hpotc
          rw [(balance_pot fuel s0 s1 hpre.pot hb).2, hc2p, alGet_map_find] at hpotc
          cases hfind : members.find? (·.id == c) with
          | none => simp [hfind] at hpotc
          | some m =>
            have := List.find?_some hfind
            exact ⟨m, List.mem_of_find?_eq_some hfind, by simpa using this⟩
        obtain ⟨mc, hmc, hmcid⟩ := hcmem
        subst h1
        refine ⟨?_, ?_⟩
        · have := finalFor_complete (curOf s1 mc.id) [] (t, p) (by simp [keysOf]) (Or.inr (by rw [hmcid, ← hcur]; exact hpin))
          obtain ⟨psi, hpsi, hpp⟩ := this
          exact ⟨mc.id, finalFor s1 mc.id, psi, List.mem_map.mpr ⟨mc, hmc, rfl⟩, hpsi, hpp⟩
        · intro m1 i1 ps1 m2 i2 ps2 h1 h1t h1p h2 h2t h2p
          obtain ⟨a, _, ea⟩ := List.mem_map.mp h1
          obtain ⟨b, _, eb⟩ := List.mem_map.mp h2
          injection ea with ea1 ea2
          injection eb with eb1 eb2
          subst ea2; subst eb2
          have held1 : (t, p) ∈ curOf s1 a.id :=
            finalFor_sound (curOf s1 a.id) [] (curOf s1 a.id) (by intro x hx; cases hx) (fun q hq => hq) (t, ps1) h1t p h1p
          have held2 : (t, p) ∈ curOf s1 b.id :=
            finalFor_sound (curOf s1 b.id) [] (curOf s1 b.id) (by intro x hx; cases hx) (fun q hq => hq) (t, ps2) h2t p h2p
          -- a held partition is owned by its holder
          have ownerOf : ∀ (x : Member), (t, p) ∈ curOf s1 x → alGet s1.owner (t, p) = some x := by
            intro x hx
            have hxk : x ∈ keysOf s1.cur := by
              unfold curOf at hx
              rw [alGetD_def] at hx
              cases hg : alGet s1.cur x with
              | none => rw [hg] at hx; cases hx
              | some l => exact List.mem_map.mpr ⟨(x, l), alGet_mem _ _ _ hg, rfl⟩
            have := hown.HO (x, curOf s1 x) (by simpa using curOf_entry s1 x hxk) (t, p) hx
            exact this
          have o1 := ownerOf a.id held1
          have o2 := ownerOf b.id held2
          rw [o1] at o2; injection o2 with o2
          rw [← ea1, ← eb1]; exact o2

/-! ## non-vacuity: concrete inputs meet the hypotheses and the models compute -/
def exInp : Input := ⟨[(0, [0, 1, 2]), (1, [0, 1])], [(1, [0, 1]), (0, [0])]⟩
example : (memberIds exInp).Nodup ∧ consumersFor exInp 0 ≠ [] := by decide
example : rangeOutput exInp = [(1, [(0, [2]), (1, [0, 1])]), (0, [(0, [0, 1])])] := by decide
example : rrOutput exInp = some [(1, [(0, [1]), (1, [0, 1])]), (0, [(0, [0, 2])])] := by decide
example : coverB exInp (rangeOutput exInp) = true ∧ nothingElseB exInp (rangeOutput exInp) = true
    ∧ kip54B exInp [(1, [(0, [1]), (1, [0, 1])]), (0, [(0, [0, 2])])] = true := by decide

end AkVerif.Assign
