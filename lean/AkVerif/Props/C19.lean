import AkVerif.Lemmas.Membership
import AkVerif.Lemmas.Shutdown
/-!
# C19 — stop() always terminates within a bound and leaves nothing running

Theorems about the shutdown model `AkVerif.Shutdown` (`Model/Shutdown.lean`) and about the
closing phase of the member acceptor `AkVerif.Membership`.
-/
namespace AkVerif.Shutdown

/-! ## stop() returns within a bound -/

/-- **consumer**: wherever the coordination routine is when `stop()` is called, whatever the
    member's state, whatever the environment answers and however long it takes to answer,
    `stop()` is over within `consumerBound` = (8 + 2·nodes)·(3·request timeout) + 3·backoff -/
theorem c19_consumer_stop_bounded (cfg : Cfg) (pos : Pos) (fl : Flags) (env : Script) :
    consumerStop cfg pos fl env ≤ consumerBound cfg :=
  consumerStop_le cfg pos fl env

/-- the mechanism: while closing `commit_offsets` makes one request, never a retry -/
theorem c19_no_commit_retry_while_closing (cfg : Cfg) (env : Script) :
    (commitLoop cfg true env).2.1 = 1 ∧ (commitLoop cfg true env).1 ≤ sendMax cfg :=
  ⟨(commitLoop_closing cfg env).2, (commitLoop_closing cfg env).1⟩

/-- the wait for the application to consume a pushed error ends at once when `close()` was
    requested, consumed or not — so `Pos.errorWait` costs nothing in `c19_consumer_stop_bounded` -/
theorem c19_error_wait_ends_when_closing (consumed : Bool) : errorWait true consumed = some 0 := by
  simp [errorWait]

/-- … and only then: an error nobody looks at keeps the routine parked (the closing flag has to
    be part of the wait) -/
theorem c19_error_wait_needs_the_closing_flag : errorWait false false = none := by
  simp [errorWait]

/-- the defect that was repaired (commit retried for ever once closing): for every bound there is
    an environment — a coordinator that stays unreachable — that keeps the old loop busy longer -/
theorem c19_old_commit_loop_unbounded (cfg : Cfg) (hb : 0 < cfg.backoff) (bound : Nat) :
    ∃ env : Script, bound < (commitLoopOld cfg env).1 := by
  refine ⟨List.replicate (bound + 1) ⟨Ans.retriable, 0⟩, ?_⟩
  have h := (commitLoopOld_retriables cfg 0 (bound + 1)).1
  have : bound + 1 ≤ (bound + 1) * cfg.backoff := Nat.le_mul_of_pos_right _ hb
  omega

/-- **plain producer**: every batch is delivered, failed or expired (request timeout) — `stop()`
    is over within `producerBound` = request timeout + 2·(3·request timeout + backoff).

    The full statement (`∀ idem`) is false of the code as it is, see the counterexample below:
    batches of an idempotent / transactional producer never expire. -/
theorem c19_producer_stop_bounded_partial (cfg : Cfg) (parts : List (List Script)) :
    producerStop cfg false parts ≤ producerBound cfg :=
  producerStop_le cfg parts

/-- **idempotent producer, counterexample**: one unsent batch and brokers that stay unreachable
    keep `stop()` waiting longer than any bound (known finding) -/
theorem c19_idempotent_producer_stop_unbounded (cfg : Cfg) (hb : 0 < cfg.backoff) (bound : Nat) :
    ∃ env : Script, bound < producerStop cfg true [[env]] := by
  refine ⟨List.replicate (bound + 1) ⟨Ans.retriable, 0⟩, ?_⟩
  have : bound + 1 ≤ (bound + 1) * cfg.backoff := Nat.le_mul_of_pos_right _ hb
  simp only [producerStop, flushAll, List.foldl_cons, List.foldl_nil, flushQueue,
    flushBatch_idem_retriables]
  omega

/-- kernel-checked instance: request timeout 3 s, backoff 100 ms, 1000 retriable failures:
    the idempotent producer waits 100 s and counting, the plain one gives up after 3.1 s -/
theorem c19_idempotent_witness :
    flushBatch ⟨3000, 100, 3⟩ true 0 (List.replicate 1000 ⟨Ans.retriable, 0⟩) = 100000 ∧
    flushBatch ⟨3000, 100, 3⟩ false 0 (List.replicate 1000 ⟨Ans.retriable, 0⟩) = 3100 := by
  decide +kernel

/-! ## nothing is left alive -/

/-- **consumer**: whatever tasks, timers and connections the consumer had — any number of pending
    fetch tasks in any state, any number of connections — nothing of it survives `stop()` -/
theorem c19_nothing_left_consumer (alive : List Res) (h : ∀ r ∈ alive, consumerRes r = true) :
    consumerRelease alive = [] := by
  apply List.eq_nil_iff_forall_not_mem.mpr
  intro r hr
  have h1 := consumerRelease_clean alive r hr
  have h2 : r ∈ alive := by
    simp only [consumerRelease, List.mem_filter] at hr
    exact hr.1.1.1
  rw [h r h2] at h1
  cases h1

theorem c19_nothing_left_producer (alive : List Res) (h : ∀ r ∈ alive, producerRes r = true) :
    producerRelease alive = [] := by
  apply List.eq_nil_iff_forall_not_mem.mpr
  intro r hr
  have h1 := producerRelease_clean alive r hr
  have h2 : r ∈ alive := by
    simp only [producerRelease, List.mem_filter] at hr
    exact hr.1.1
  rw [h r h2] at h1
  cases h1

/-- the defect that was repaired (`Fetcher.close()` let `CancelledError` escape when a fetch task
    slept in its retry backoff): the connection, its reader and the metadata task stayed alive -/
theorem c19_old_fetcher_close_leaks :
    consumerReleaseOld [.coordinationTask, .fetchTask, .pendingFetch true, .mdSyncTask, .connection 0]
      = [.pendingFetch true, .mdSyncTask, .connection 0] := by
  decide

/-! ## later calls fail with the documented error -/

theorem c19_later_calls_fail (c : Call) : later true c ≠ Result.proceeds := by
  cases c <;> simp [later]

theorem c19_later_calls_documented :
    later true .getone = .consumerStopped ∧ later true .getmany = .consumerStopped ∧
    later true .iterate = .consumerStopped ∧ later true .send = .producerClosed ∧
    later true .sendAndWait = .producerClosed ∧ later true .sendBatch = .producerClosed := by
  decide

example : later false .send = .proceeds := rfl

end AkVerif.Shutdown

namespace AkVerif.Membership

/-! ## the closing phase of a group member -/

/-- **the member leaves**: in a history of the modelled code `stop()` returns only after a
    LeaveGroup was sent since `stop()` was called — unless the member was not in a generation or
    did not know its coordinator (coordinator marked dead, lookups are not made while closing) -/
theorem c19_left_group (cfg : List String) (tr : List Ev)
    (h : accepts cfg {} (tr ++ [Ev.stopReturned]) = true) :
    ∃ c ∈ runs cfg {} tr, c.closing = true ∧
      (leftB false tr = true ∨ c.gen ≤ 0 ∨ c.coord = none) := by
  have hal := accepts_iff.mp h
  -- some state after `tr` accepts `stopReturned`
  have key : ∀ (tr : List Ev) (c0 : Core), runs cfg c0 (tr ++ [Ev.stopReturned]) ≠ [] →
      ∃ c ∈ runs cfg c0 tr, stepN cfg c Ev.stopReturned ≠ [] := by
    intro tr
    induction tr with
    | nil =>
      intro c0 h0
      obtain ⟨c1, hc1, _⟩ := runs_cons_alive.mp h0
      exact ⟨c0, by simp [runs], fun hn => by rw [hn] at hc1; cases hc1⟩
    | cons e es ih =>
      intro c0 h0
      obtain ⟨c1, hc1, h1⟩ := runs_cons_alive.mp h0
      obtain ⟨c, hc, hs⟩ := ih c1 h1
      exact ⟨c, mem_runs_cons.mpr ⟨c1, hc1, hc⟩, hs⟩
  obtain ⟨c, hc, hs⟩ := key tr {} hal
  refine ⟨c, hc, ?_⟩
  have hl := (left_of_runs cfg tr {} c hc (by intro h'; cases h')).1
  unfold stepN at hs
  by_cases hst : c.stopped = true
  · simp [hst] at hs
  · rw [if_neg hst] at hs
    simp only at hs
    split at hs
    · rename_i hg
      simp only [Bool.and_eq_true, Bool.or_eq_true, decide_eq_true_eq, Option.isNone_iff_eq_none] at hg
      refine ⟨hg.1, ?_⟩
      rcases hg.2 with (hls | hgen) | hco
      · left; rw [hl] at hls; simpa using hls
      · right; left; exact hgen
      · right; right; exact hco
    · exact absurd rfl hs

/-- **no coordinator lookup once closing** (what makes the wait for the coordination task finite) -/
theorem c19_no_lookup_while_closing (cfg : List String) (tr : List Ev)
    (h : accepts cfg {} tr = true) : noLookupB false tr = true :=
  noLookup_of_alive cfg tr {} (accepts_iff.mp h)

/-- non-vacuity: a member in generation 1 is stopped, commits, leaves, `stop()` returns -/
example :
    accepts ["range"] {}
      [ .send 1 { api := .findCoord, node := 1 }, .recv 1 (.coordinator 0),
        .send 2 { api := .join, node := 0, mid := 0, protos := ["range"] }, .recv 2 (.joined 1 1),
        .send 3 { api := .sync, node := 0, gen := 1, mid := 1 }, .recv 3 (.codes [0]),
        .stopCalled,
        .send 4 { api := .commit, node := 0, gen := 1, mid := 1 }, .recv 4 (.codes [0, 0]),
        .send 5 { api := .leave, node := 0, mid := 1 }, .recv 5 (.codes [0]),
        .stopReturned ] = true := by decide +kernel

/-- … and a `stop()` that returns without the LeaveGroup while the member is in a generation and
    knows its coordinator is not a behaviour of the model -/
example :
    accepts ["range"] {}
      [ .send 1 { api := .findCoord, node := 1 }, .recv 1 (.coordinator 0),
        .send 2 { api := .join, node := 0, mid := 0, protos := ["range"] }, .recv 2 (.joined 1 1),
        .send 3 { api := .sync, node := 0, gen := 1, mid := 1 }, .recv 3 (.codes [0]),
        .stopCalled, .stopReturned ] = false := by decide +kernel

end AkVerif.Membership
