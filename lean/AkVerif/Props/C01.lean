import AkVerif.Lemmas.Producer
/-!
# C01 — per-partition produce order; no loss, no duplication under retries

Theorems about the acceptor `AkVerif.Producer` (`Model/Producer.lean`): every history of one
partition that the acceptor accepts (`run c (St.init c) tr = .ok s`; `s` carries the broker's log
`s.br.log`, the acceptance order `s.accepted`, the results seen `s.resolved`) satisfies the
clauses of the property.  The check feeds the histories of the real producer to `run`.
-/
namespace AkVerif.Producer
open AkVerif.Done

/-! ## never two batches of one partition in flight -/

/-- **single flight** (R1): between two produce requests that carry the partition, the first one
    was resolved (a reply, a connection loss or a request timeout was observed by the client) -/
theorem c01_single_flight {c : Cfg} {s : St} (pre mid post : List Ev) (e1 e2 : Ev)
    (h : run c (St.init c) (pre ++ e1 :: (mid ++ e2 :: post)) = .ok s)
    (h1 : isSend e1 = true) (h2 : isSend e2 = true) : ∃ e ∈ mid, isDone e = true := by
  obtain ⟨s1, _, hr1⟩ := run_append_ok h
  obtain ⟨s2, hs2, hr2⟩ := run_cons_ok hr1
  obtain ⟨s3, hr3, hr4⟩ := run_append_ok hr2
  obtain ⟨s4, hs4, _⟩ := run_cons_ok hr4
  have hfly : s2.phase = .flying .no := by
    cases e1 with
    | send pid ep seq ids =>
      cases step_sound hs2 with
      | retry => rfl
      | fresh => rfl
    | _ => cases h1
  cases hex : mid.all (fun e => !isDone e) with
  | false =>
    obtain ⟨e, he, hd⟩ := List.all_eq_false.mp hex
    exact ⟨e, he, by simpa using hd⟩
  | true =>
    exfalso
    have hnd : ∀ e ∈ mid, isDone e = false := fun e he => by
      have := List.all_eq_true.mp hex e he; simpa using this
    obtain ⟨a', hp'⟩ := flying_run mid s2 s3 .no hfly hr3 hnd
    cases e2 with
    | send pid ep seq ids =>
      cases step_sound hs4 with
      | retry _ _ b hp'' => rw [hp'] at hp''; cases hp''
      | fresh _ _ _ _ hp'' => rw [hp'] at hp''; cases hp''
    | _ => cases h2

/-! ## the partition log: accepted records, in order, duplicated only as whole batches -/

/-- **log shape** (both modes): the log is the sequence of first transmissions `blog` (oldest
    last), each repeated as often as the broker appended it — duplicates arise only as whole
    re-sent batches, next to each other — and the first transmissions taken together are accepted
    records in acceptance order, none twice. -/
theorem c01_log_shape {c : Cfg} (hs : SeqHyp c) {s : St} {tr : List Ev}
    (h : run c (St.init c) tr = .ok s) :
    ∃ blog : List (List Nat × Nat), logIds s = expandR blog ∧
      (firstsR blog).Sublist (List.range s.nAcc) ∧ (firstsR blog).Nodup ∧
      (c.idem = true → ∀ e ∈ blog, e.2 ≤ 1) := by
  have hi := inv_run hs h
  have hsub : (firstsR s.blog).Sublist (List.range s.nAcc) := by
    rw [← hi.i1.ids]
    exact List.Sublist.trans (List.sublist_append_left _ _) hi.i2.sub
  exact ⟨s.blog, hi.i2.shape, hsub, hsub.nodup List.nodup_range, hi.i3.counts⟩

/-- **idempotent producer**: every accepted record is appended at most once, in acceptance order -/
theorem c01_idempotent_at_most_once {c : Cfg} (hs : SeqHyp c) {s : St} {tr : List Ev}
    (h : run c (St.init c) tr = .ok s) (hidem : c.idem = true) :
    (logIds s).Sublist (List.range s.nAcc) ∧ (logIds s).Nodup := by
  obtain ⟨blog, h1, h2, _, h4⟩ := c01_log_shape hs h
  have : (logIds s).Sublist (List.range s.nAcc) := by
    rw [h1]; exact (expandR_sublist_firstsR blog (h4 hidem)).trans h2
  exact ⟨this, this.nodup List.nodup_range⟩

/-- **acknowledged ⇒ appended** (both modes): a record whose future resolved with metadata is in
    the log (for the idempotent producer: exactly once, by `c01_idempotent_at_most_once`) -/
theorem c01_acknowledged_in_log {c : Cfg} (hs : SeqHyp c) {s : St} {tr : List Ev}
    (h : run c (St.init c) tr = .ok s) (id : Nat) (off ts : Int) (tt : Nat)
    (hr : (id, Res.ok off ts tt) ∈ s.resolved) : id ∈ logIds s := by
  have hi := inv_run hs h
  obtain ⟨_, hl⟩ := hi.i5.coords _ (Or.inr hr) off ts tt rfl
  have hk : tt ≤ 1 := hi.i10 _ (Or.inr hr) off ts tt rfl
  have hm := List.mem_of_getElem? hl
  show id ∈ dataIds s.br.log
  simp only [dataIds, List.mem_map, List.mem_filter]
  refine ⟨_, ⟨hm, ?_⟩, rfl⟩
  simp only [bne_iff_ne, ne_eq]
  omega

/-- **per-task order**: the records in the log of an idempotent producer, taken as accepted
    records, keep the order in which each task issued them -/
theorem c01_task_order {c : Cfg} (hs : SeqHyp c) {s : St} {tr : List Ev}
    (h : run c (St.init c) tr = .ok s) (hidem : c.idem = true) :
    ∃ l : List Rec, l.Sublist s.accepted ∧ l.map (·.id) = logIds s ∧
      l.Pairwise (fun a b => a.task = b.task → a.idx < b.idx) := by
  have hi := inv_run hs h
  obtain ⟨hsub, _⟩ := c01_idempotent_at_most_once hs h hidem
  rw [← hi.i1.ids] at hsub
  obtain ⟨l, hl, he⟩ := List.sublist_map_iff.mp hsub
  exact ⟨l, hl, he.symm, hi.i1.taskOrder.sublist hl⟩

/-! ## sequence numbers -/

/-- **sequence range**, corrected variant of `increment_sequence_number` (Kafka's rule): every base
    sequence the idempotent producer sends lies in `0 .. 2^31-1`, whatever the starting value and
    however often the counter wraps -/
theorem c01_seq_range {c : Cfg} (hs : SeqHyp c) (hidem : c.idem = true) (hfix : c.wrapFix = true)
    {s : St} {tr : List Ev} (h : run c (St.init c) tr = .ok s) (pid ep q : Int) (ids : List Nat)
    (hm : Ev.send pid ep q ids ∈ tr) : 0 ≤ q ∧ q < M31 :=
  seq_range_from hs hidem tr _ s (inv_init hs) h (Or.inl hfix) pid ep q ids hm

/-- the code as it is (32-bit signed wrap): the same, **provided** the counter does not pass
    `2^31 - 1` during the run (`seq0 + accepted records < 2^31`).  Without the proviso the
    statement is false: `c01_seq_wrap_counterexample`. -/
theorem c01_seq_range_partial {c : Cfg} (hs : SeqHyp c) (hidem : c.idem = true)
    {s : St} {tr : List Ev} (h : run c (St.init c) tr = .ok s) (hno : c.seq0 + s.nAcc < M31)
    (pid ep q : Int) (ids : List Nat) (hm : Ev.send pid ep q ids ∈ tr) : 0 ≤ q ∧ q < M31 := by
  have hi := inv_run hs h
  have hd : s.drained ≤ s.nAcc := by have := hi.i1.drainedAcc; omega
  have hok : SeqOK c s.drained := Or.inr (by unfold M31 at *; omega)
  exact seq_range_from hs hidem tr _ s (inv_init hs) h hok pid ep q ids hm

/-- **no gap, no reuse** (corrected increment): while only retriable faults occur and no batch is
    given up, the broker never answers OUT_OF_ORDER_SEQUENCE_NUMBER / DUPLICATE_SEQUENCE_NUMBER:
    every batch it is shown is the next in sequence or a cached duplicate.  (A reused sequence that
    hits the duplicate cache is rejected by the acceptor itself, guard `sequence-reused`.) -/
theorem c01_no_gap {c : Cfg} (hs : SeqHyp c) (hidem : c.idem = true) (hacks : c.acks0 = false)
    (hfix : c.wrapFix = true) {s : St} {tr : List Ev} (h : run c (St.init c) tr = .ok s)
    (honly : s.fatal = 0) (hgave : s.gaveUp = 0) : ∀ e ∈ tr, isSeqRefusal e = false := by
  have hi := inv_run hs h
  obtain ⟨h0, _, _⟩ := hi.i7.sync hidem hacks honly hgave (Or.inl hfix)
  exact seqErrs_counts hidem tr _ s h h0

/-- the code as it is: the same under the two provisos — the counter stays below `2^31`
    (`c01_seq_wrap_counterexample`) and no batch is given up while it waits for a retry or before its
    first transmission (`s.gaveUp = 0`; `drain_by_nodes` expires batches whose leader is unknown even
    for the idempotent producer: `c01_expiry_gap_counterexample`) -/
theorem c01_no_gap_partial {c : Cfg} (hs : SeqHyp c) (hidem : c.idem = true) (hacks : c.acks0 = false)
    {s : St} {tr : List Ev} (h : run c (St.init c) tr = .ok s) (hno : c.seq0 + s.nAcc < M31)
    (honly : s.fatal = 0) (hgave : s.gaveUp = 0) : ∀ e ∈ tr, isSeqRefusal e = false := by
  have hi := inv_run hs h
  have hd : s.drained ≤ s.nAcc := by have := hi.i1.drainedAcc; omega
  have hok : SeqOK c s.drained := Or.inr (by unfold M31 at *; omega)
  obtain ⟨h0, _, _⟩ := hi.i7.sync hidem hacks honly hgave hok
  exact seqErrs_counts hidem tr _ s h h0

/-! ## progress (partial) -/

/-- **progress, on the model** (the implementation side is a bounded virtual-time run, see the
    check): from a quiescent idle state of any accepted history — nothing in flight, every computed
    result delivered — one quiet round (the sender drains the queue as one batch, the broker whose
    leader is known appends it and replies, the results reach the futures) is again an accepted
    history, leaves nothing queued and puts every queued record into the log.
    For the idempotent producer the broker takes the batch (`broker_ready`) when only retriable
    faults occurred, no batch was given up, the counter is in step with Kafka's rule and the
    batch's sequence numbers are not in the duplicate cache. -/
theorem c01_progress_partial {c : Cfg} (hs : SeqHyp c) {s : St} {tr : List Ev}
    (h : run c (St.init c) tr = .ok s) (hacks : c.acks0 = false) (hidle : s.phase = .idle)
    (hdue : s.due = []) (hne : s.pending ≠ [])
    (hbroker : c.idem = true → s.fatal = 0 ∧ s.gaveUp = 0 ∧ SeqOK c s.drained ∧
      s.br.recent.find? (seqMatch s.nextSeq (seqAdd s.nextSeq (s.pending.length - 1))) = none) :
    ∃ s', run c (St.init c) (tr ++ quietRound c s) = .ok s' ∧ s'.pending = [] ∧ s'.phase = .idle ∧
      ∀ r ∈ s.pending, r.id ∈ logIds s' := by
  have hi := inv_run hs h
  obtain ⟨s', hr, h1, h2, _, _, h5⟩ := quiet_round_accepted hi hacks hidle hdue hne (by
    intro hidem
    obtain ⟨hf, hg, hok, hcache⟩ := hbroker hidem
    exact broker_ready hi hidem hacks hidle hf hg hok hcache)
  have hall := run_append_intro h hr
  refine ⟨s', hall, h1, h2, ?_⟩
  intro r hr'
  obtain ⟨o, t, k, hk⟩ := h5 r hr'
  exact c01_acknowledged_in_log hs hall r.id o t k hk

/-! ## the provisos are needed: kernel-checked witnesses for the code as it is -/

def cfgAsIs (seq0 : Int) : Cfg :=
  { idem := true, acks0 := false, wrapFix := false, pid := 1, epoch := 0, seq0 := seq0, version := 7 }

/-- `increment_sequence_number` as the code has it: from `2^31 - 1` the counter goes to `-2^31`;
    the history below (two one-record batches) is accepted by the model of the code as it is, its
    second produce request carries a negative base sequence and the broker refuses it -/
theorem c01_seq_wrap_counterexample :
    let tr : List Ev :=
      [.acc 0 0 1000, .send 1 0 2147483647 [0], .apply 2147483647 1 .append 0 (-1),
       .done (.fields [0, 0, 0, -1, 0]), .resolved 0 (.ok 0 1000 0),
       .acc 0 1 1001, .send 1 0 (-2147483648) [1], .apply (-2147483648) 1 (.err 45) (-1) (-1)]
    accepts (cfgAsIs 2147483647) tr = true ∧ Ev.send 1 0 (-2147483648) [1] ∈ tr ∧
      (∃ e ∈ tr, isSeqRefusal e = true) ∧ incr false 2147483647 1 = -2147483648 ∧
      incr true 2147483647 1 = 0 := by
  decide

/-- an idempotent batch given up while its leader is unknown (record 1: NOT_LEADER reply, then
    failed without any non-retriable reply) leaves a gap: the next batch carries sequence 2 and is
    refused although only retriable faults occurred (`fatal = 0`) -/
theorem c01_expiry_gap_counterexample :
    let tr : List Ev :=
      [.acc 0 0 1, .send 1 0 0 [0], .apply 0 1 .append 0 (-1), .done (.fields [0, 0, 0, -1, 0]),
       .resolved 0 (.ok 0 1 0),
       .acc 0 1 2, .send 1 0 1 [1], .apply 1 1 (.err 6) (-1) (-1), .done (.fields [0, 6, -1, -1, -1]),
       .resolved 1 .fail,
       .acc 0 2 3, .send 1 0 2 [2], .apply 2 1 (.err 45) (-1) (-1)]
    ∃ s, run (cfgAsIs 0) (St.init (cfgAsIs 0)) tr = .ok s ∧ s.fatal = 0 ∧ s.gaveUp = 1 ∧
      s.seqErrs = 1 ∧ (∃ e ∈ tr, isSeqRefusal e = true) := by
  refine ⟨_, rfl, ?_⟩
  decide

/-! ## the executable statement evaluated on the implementation's observations -/

/-- `holdsIdem` (what the check evaluates on the cluster's log, the acceptance count and the
    acknowledged records) is the conjunction of the clauses above -/
theorem holdsIdem_iff (nAcc : Nat) (log acked : List Nat) :
    holdsIdem nAcc log acked = true ↔ log.Sublist (List.range nAcc) ∧ ∀ a ∈ acked, a ∈ log := by
  simp [holdsIdem, List.isSublist_iff_sublist, List.all_eq_true]

theorem holdsSeq_iff (seqs codes : List Int) :
    holdsSeq seqs codes = true ↔ (∀ q ∈ seqs, 0 ≤ q ∧ q < M31) ∧ ∀ e ∈ codes, e ≠ 45 ∧ e ≠ 46 := by
  simp [holdsSeq, List.all_eq_true]

/-- an accepted history of the idempotent producer satisfies `holdsIdem` -/
theorem c01_holds_idem {c : Cfg} (hs : SeqHyp c) (hidem : c.idem = true) {s : St} {tr : List Ev}
    (h : run c (St.init c) tr = .ok s) (acked : List Nat)
    (hack : ∀ a ∈ acked, ∃ off ts tt, (a, Res.ok off ts tt) ∈ s.resolved) :
    holdsIdem s.nAcc (logIds s) acked = true := by
  rw [holdsIdem_iff]
  refine ⟨(c01_idempotent_at_most_once hs h hidem).1, fun a ha => ?_⟩
  obtain ⟨off, ts, tt, hr⟩ := hack a ha
  exact c01_acknowledged_in_log hs h a off ts tt hr

/-! ## non-vacuity: a history with a lost reply, a retransmission recognised as a duplicate, a
    NOT_LEADER reply and a second batch, starting two below the wrap (Kafka-rule variant) -/
example :
    let c : Cfg := { idem := true, acks0 := false, wrapFix := true, pid := 1, epoch := 0,
                     seq0 := 2147483646, version := 7 }
    let tr : List Ev :=
      [.acc 0 0 10, .acc 1 0 11, .send 1 0 2147483646 [0, 1], .apply 2147483646 2 .append 0 (-1),
       .done .exc, .acc 0 1 12,
       .send 1 0 2147483646 [0, 1], .apply 2147483646 2 .dup 0 (-1), .done (.fields [0, 0, 0, -1, 0]),
       .resolved 0 (.ok 0 10 0), .resolved 1 (.ok 1 11 0),
       .send 1 0 0 [2], .apply 0 1 (.err 6) (-1) (-1), .done (.fields [0, 6, -1, -1, -1]),
       .send 1 0 0 [2], .apply 0 1 .append 2 (-1), .done (.fields [0, 0, 2, -1, 0]),
       .resolved 2 (.ok 2 12 0)]
    SeqHyp c ∧ ∃ s, run c (St.init c) tr = .ok s ∧ logIds s = [0, 1, 2] ∧ s.fatal = 0 ∧ s.gaveUp = 0 ∧
      s.seqErrs = 0 ∧ s.nextSeq = 1 := by
  refine ⟨by unfold SeqHyp M31; exact ⟨by decide, by decide⟩, _, rfl, ?_⟩
  decide

/-! ## non-vacuity, transactional producer: two transactions on one partition (the second aborted);
    the coordinator's markers occupy offsets 1 and 3, the base sequences continue across them — and a
    history in which the second transaction starts again at sequence 0 is not accepted -/
example :
    let c : Cfg := { idem := true, acks0 := false, wrapFix := true, pid := 1, epoch := 0, seq0 := 0, version := 7 }
    let tr : List Ev :=
      [.acc 0 0 10, .send 1 0 0 [0], .apply 0 1 .append 0 (-1), .done (.fields [0, 0, 0, -1, 0]),
       .resolved 0 (.ok 0 10 0), .marker 1,
       .acc 0 1 11, .send 1 0 1 [1], .apply 1 1 .append 2 (-1), .done (.fields [0, 0, 2, -1, 0]),
       .resolved 1 (.ok 2 11 0), .marker 3]
    (∃ s, run c (St.init c) tr = .ok s ∧ logIds s = [0, 1] ∧ s.br.log.length = 4 ∧ s.seqErrs = 0) ∧
      run c (St.init c) (tr.take 7 ++ [.send 1 0 0 [1]]) = .error (.client .stamp) := by
  refine ⟨⟨_, rfl, ?_⟩, rfl⟩
  decide

end AkVerif.Producer
