import AkVerif.Lemmas.Iso
/-!
# C08 — isolation filter: no aborted, no unstable, no control records delivered

Theorems about the model `AkVerif.Iso` (`Model/Iso.lean`) of `PartitionRecords._unpack_records`.

Setting (all universally quantified): a partition log `L` (any number of producers, interleaved
committed / aborted / open transactions, plain and idempotent batches, compaction: removed
batches, removed records, emptied marker batches, solitary markers), a fetch offset `f` (anywhere:
inside a batch, inside a transaction, in a compaction gap), a cut point `e` (the response is
`resp L f e`: the batches still present with last offset ≥ `f` that begin below `e`), and an
aborted-transaction list `idx` in any order that obeys the broker contract `idxOk L f e idx`
(only aborted transactions whose marker is ≥ `f` and still in the log; every one that begins below
`e` and still has data; entries for later or fully compacted transactions optional).
-/
namespace AkVerif.Iso

/-- **read_committed delivers exactly the non-transactional records and the records of committed
    transactions** (of the returned range, at or above the fetch offset, in log order, once), and
    the position ends one past the last returned batch — provided the response is bounded by the
    last stable offset (`decidedB`, see `c08_below_lso`). -/
theorem c08_read_committed (L : List Batch) (f e : Nat) (idx : List (Pid × Nat)) (wf : WF L)
    (hidx : idxOk L f e idx = true) (hdec : decidedB L f e = true) :
    unpack .rc idx f (resp L f e) = (truth .rc L f e, respEnd f (resp L f e)) := by
  unfold unpack truth
  rw [run_nfo]
  congr 1
  exact run_eq_truth .rc wf (CInv (sortIdx idx))
    (fun done b r s hs hi => stepB_rc_visible wf hidx hdec done b r s hs hi)
    (resp L f e) [] _ rfl (CInv_init _ f) (Or.inl ⟨rfl, rfl⟩)

/-- the Env bound of read_committed fetches (data only below the last stable offset) gives the
    hypothesis of `c08_read_committed` -/
theorem c08_below_lso (L : List Batch) (f e hw : Nat) (wf : WF L) (h : e ≤ lso L hw) :
    decidedB L f e = true :=
  decided_of_le_lso wf h

/-- membership form of the ground truth: offset `o` is delivered iff it is a record of a batch of
    the response that is data and non-transactional or committed, at or above the fetch offset -/
theorem c08_read_committed_mem (L : List Batch) (f e : Nat) (idx : List (Pid × Nat)) (wf : WF L)
    (hidx : idxOk L f e idx = true) (hdec : decidedB L f e = true) (o : Nat) :
    o ∈ (unpack .rc idx f (resp L f e)).1 ↔
      ∃ b ∈ L, b.present = true ∧ f ≤ b.last ∧ b.base < e ∧ o ∈ b.recs ∧ f ≤ o ∧ b.kind = .data ∧
        (b.txn = false ∨ outcome L b = some .commit) := by
  rw [c08_read_committed L f e idx wf hidx hdec]
  simp only [truth, List.mem_flatMap, mem_resp]
  constructor
  · rintro ⟨b, ⟨hb, hp, hf, he⟩, ho⟩
    by_cases hv : visible .rc L b = true
    · simp only [hv, if_true, List.mem_filter, decide_eq_true_eq] at ho
      simp only [visible, visibleRc, Bool.and_eq_true, beq_iff_eq, Bool.or_eq_true,
        Bool.not_eq_true'] at hv
      exact ⟨b, hb, hp, hf, he, ho.1, ho.2, hv.1, hv.2⟩
    · simp [hv] at ho
  · rintro ⟨b, hb, hp, hf, he, ho, hfo, hk, ht⟩
    refine ⟨b, ⟨hb, hp, hf, he⟩, ?_⟩
    have hv : visible .rc L b = true := by
      simp only [visible, visibleRc, Bool.and_eq_true, beq_iff_eq, Bool.or_eq_true,
        Bool.not_eq_true']
      exact ⟨hk, ht⟩
    simp [hv, ho, hfo]

/-- **read_uncommitted delivers every data record** of the returned range at or above the fetch
    offset (the broker bounds the range by the high watermark), whatever the index says -/
theorem c08_read_uncommitted (L : List Batch) (f e : Nat) (idx : List (Pid × Nat)) (wf : WF L) :
    unpack .ru idx f (resp L f e) = (truth .ru L f e, respEnd f (resp L f e)) := by
  unfold unpack truth
  rw [run_nfo]
  congr 1
  exact run_eq_truth .ru wf (fun _ _ => True)
    (fun _ b _ s _ _ => ⟨trivial, stepB_ru_visible L s b⟩)
    (resp L f e) [] _ rfl trivial (Or.inl ⟨rfl, rfl⟩)

/-- **transaction markers are never delivered**, at either level: whatever byte-correct batch
    sequence arrives and whatever the aborted-transaction list contains (no well-formedness
    assumed), every delivered offset is a record of a data batch -/
theorem c08_no_control_ever (lvl : Level) (idx : List (Pid × Nat)) (f : Nat) (rs : List Batch)
    (o : Nat) (h : o ∈ (unpack lvl idx f rs).1) : ∃ b ∈ rs, b.kind = .data ∧ o ∈ b.recs :=
  run_subset lvl rs _ o h

/-- the position after a response is one past its last batch — also when everything in it was
    filtered (aborted data, markers, emptied or fully compacted batches), at either level,
    whatever the index -/
theorem c08_position (lvl : Level) (idx : List (Pid × Nat)) (f : Nat) (rs : List Batch) (b : Batch)
    (h : rs.getLast? = some b) : (unpack lvl idx f rs).2 = b.last + 1 := by
  unfold unpack
  rw [run_nfo]
  exact respEnd_getLast _ _ _ h

/-- **progress**: a non-empty response (the broker returns only batches whose last offset is at
    or above the fetch offset) moves the position strictly forward, so the same batch is never
    fetched again — at either level, whatever the index -/
theorem c08_progress (lvl : Level) (idx : List (Pid × Nat)) (f : Nat) (rs : List Batch)
    (hne : rs ≠ []) (hall : ∀ b ∈ rs, f ≤ b.last) : f < (unpack lvl idx f rs).2 := by
  unfold unpack
  rw [run_nfo]
  exact respEnd_gt f rs hall _ (Or.inl hne)

/-- … in particular for the responses of the broker model -/
theorem c08_progress_resp (lvl : Level) (L : List Batch) (f e : Nat) (idx : List (Pid × Nat))
    (hne : resp L f e ≠ []) : f < (unpack lvl idx f (resp L f e)).2 :=
  c08_progress lvl idx f _ hne (fun _ hb => (mem_resp.mp hb).2.2.1)

/-- the executable statement used by the failing-input search is the property -/
theorem holds_iff (lvl : Level) (L : List Batch) (f e : Nat) (d : List Nat) (n : Nat) :
    holds lvl L f e d n = true ↔
      d = truth lvl L f e ∧ n = respEnd f (resp L f e) ∧ (resp L f e ≠ [] → f < n) := by
  unfold holds
  simp only [Bool.and_eq_true, beq_iff_eq, Bool.or_eq_true, List.isEmpty_iff, decide_eq_true_eq,
    and_assoc]
  constructor
  · rintro ⟨h1, h2, h3⟩
    exact ⟨h1, h2, fun hne => h3.resolve_left hne⟩
  · rintro ⟨h1, h2, h3⟩
    refine ⟨h1, h2, ?_⟩
    by_cases hne : resp L f e = []
    · exact Or.inl hne
    · exact Or.inr (h3 hne)

/-- the model meets the executable statement on every well-formed input -/
theorem c08_holds (lvl : Level) (L : List Batch) (f e : Nat) (idx : List (Pid × Nat)) (wf : WF L)
    (hidx : lvl = .rc → idxOk L f e idx = true) (hdec : lvl = .rc → decidedB L f e = true) :
    holds lvl L f e (unpack lvl idx f (resp L f e)).1 (unpack lvl idx f (resp L f e)).2 = true := by
  rw [holds_iff]
  have hp := c08_progress_resp lvl L f e idx
  cases lvl with
  | ru => rw [c08_read_uncommitted L f e idx wf] at hp ⊢; exact ⟨rfl, rfl, hp⟩
  | rc => rw [c08_read_committed L f e idx wf (hidx rfl) (hdec rfl)] at hp ⊢; exact ⟨rfl, rfl, hp⟩

/-- **every way of cutting the log into fetch responses**: a session of any number of fetches —
    each from the position the previous response left, each cut anywhere, each with its own index
    list — delivers, concatenated, exactly what a single response up to the last cut would: the
    ground truth from the start position, every record once, in offset order
    (`c08_truth_sorted`); nothing is lost or repeated at the seams -/
theorem c08_session (lvl : Level) (L : List Batch) (wf : WF L) :
    ∀ (cs : List (Nat × List (Pid × Nat))) (f eN : Nat), SessOK lvl L f cs →
      cs.getLast?.map (·.1) = some eN →
      session lvl L f cs = (truth lvl L f eN, respEnd f (resp L f eN)) := by
  intro cs
  induction cs with
  | nil => intro f eN _ h; simp at h
  | cons c cs ih =>
    intro f eN hok hlast
    obtain ⟨hc, hmono, hrest⟩ := hok
    have hr : unpack lvl c.2 f (resp L f c.1) = (truth lvl L f c.1, respEnd f (resp L f c.1)) := by
      cases lvl with
      | ru => exact c08_read_uncommitted L f c.1 c.2 wf
      | rc => exact c08_read_committed L f c.1 c.2 wf (hc rfl).1 (hc rfl).2
    simp only [session, hr]
    cases cs with
    | nil =>
      simp only [List.getLast?_singleton, Option.map_some, Option.some.injEq] at hlast
      subst hlast
      simp [session]
    | cons d ds =>
      have hlast' : (d :: ds).getLast?.map (·.1) = some eN := by
        simpa [List.getLast?_cons_cons] using hlast
      rw [ih _ eN hrest hlast']
      have hle : c.1 ≤ eN := by
        obtain ⟨x, hx, hxe⟩ := Option.map_eq_some_iff.mp hlast'
        obtain ⟨ys, hys⟩ := List.getLast?_eq_some_iff.mp hx
        have : x ∈ d :: ds := by rw [hys]; simp
        have := hmono x this
        omega
      obtain ⟨h1, h2⟩ := truth_split lvl wf f c.1 eN hle
      simp only [h1, h2]

/-- … and that list names every record once, in increasing offset order -/
theorem c08_truth_sorted (lvl : Level) (L : List Batch) (wf : WF L) (f e : Nat) :
    (truth lvl L f e).Pairwise (· < ·) :=
  truth_sorted lvl wf f e

/-! ## non-vacuity: a concrete log that meets every hypothesis

Producers 5 and 6 interleave: 5 aborts `[0..1]` (marker 4), 6 commits `[2..3]` (marker 7),
5 commits `[5..6]` (marker 10), a plain batch `[8..9]`, 6 aborts `[11]` (marker 12) with its data
batch removed by compaction, 5 opens `[13]`.  Fetch from offset 1 (inside the first batch, inside
an aborted transaction), cut at 13 (= LSO). -/
def exL : List Batch :=
  [⟨0, 1, 5, true, .data, [0, 1], true⟩, ⟨2, 3, 6, true, .data, [2, 3], true⟩,
   ⟨4, 4, 5, true, .abort, [4], true⟩, ⟨5, 6, 5, true, .data, [5], true⟩,
   ⟨7, 7, 6, true, .commit, [7], true⟩, ⟨8, 9, -1, false, .data, [8, 9], true⟩,
   ⟨10, 10, 5, true, .commit, [10], true⟩, ⟨11, 11, 6, true, .data, [11], false⟩,
   ⟨12, 12, 6, true, .abort, [12], true⟩, ⟨13, 13, 5, true, .data, [13], true⟩]

example : wfB exL = true ∧ lso exL 14 = 13 ∧ idxOk exL 1 13 [(5, 0)] = true ∧
    idxOk exL 1 13 [(6, 11), (5, 0)] = true ∧ decidedB exL 1 13 = true ∧
    unpack .rc [(6, 11), (5, 0)] 1 (resp exL 1 13) = ([2, 3, 5, 8, 9], 13) ∧
    unpack .ru [] 1 (resp exL 1 13) = ([1, 2, 3, 5, 8, 9], 13) := by decide

example : WF exL := (wfB_iff exL).mp (by decide)

/-- a session of three fetches over the same log (cut after offset 4, after 9, at the LSO), the
    middle one with an index that covers only part of the log -/
example : SessOK .rc exL 1 [(5, [(5, 0)]), (10, []), (13, [(6, 11)])] ∧
    session .rc exL 1 [(5, [(5, 0)]), (10, []), (13, [(6, 11)])] = ([2, 3, 5, 8, 9], 13) := by
  refine ⟨?_, by decide⟩
  simp only [SessOK]
  decide

end AkVerif.Iso
