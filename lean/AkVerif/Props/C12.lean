import AkVerif.Lemmas.Conn
/-!
# C12 — responses reach exactly their requests; connection failure fails all waiters

Theorems about the model `AkVerif.Conn` (`Model/Conn.lean`) of `AIOKafkaConnection`.
-/
namespace AkVerif.Conn
open AkVerif.Wire

/-! ## any fragmentation of the incoming byte stream gives the same result -/

theorem pumpAll_append (n : Nat) : ∀ (s : St) (b : Bytes), s.buf.length ≤ n → s.isOpen = true →
    pumpAll (s.withBuf (s.buf ++ b))
      = (if (pumpAll s).isOpen then pumpAll ((pumpAll s).withBuf ((pumpAll s).buf ++ b))
         else pumpAll s) := by
  induction n using Nat.strongRecOn with
  | _ n ih =>
    intro s b hn ho
    have unfoldAll : ∀ t : St, t.isOpen = true → pumpAll t =
        match nextFrame t.buf with
        | none => t
        | some none => close t
        | some (some (f, rest)) => pumpAll (handleFrame (t.withBuf rest) f) := by
      intro t hto
      unfold pumpAll
      rw [pump]
      simp only [hto, Bool.not_true, Bool.false_eq_true, if_false]
      cases hf : nextFrame t.buf with
      | none => rfl
      | some o =>
        cases o with
        | none => rfl
        | some p =>
          obtain ⟨f, rest⟩ := p
          simp only
          apply pump_fuel
          have h1 := nextFrame_rest_lt _ _ _ hf
          have h2 := handleFrame_buf_le (t.withBuf rest) f (by simpa using hto)
          simp only [withBuf_buf] at h2
          omega
    cases hf : nextFrame s.buf with
    | none =>
      have hs : pumpAll s = s := by rw [unfoldAll s ho, hf]
      rw [hs]; simp [ho]
    | some o =>
      cases o with
      | none =>
        have hs : pumpAll s = close s := by rw [unfoldAll s ho, hf]
        have hl : pumpAll (s.withBuf (s.buf ++ b)) = close s := by
          rw [unfoldAll _ (by simpa using ho)]
          simp only [withBuf_buf, nextFrame_append_neg _ b hf]
          exact close_withBuf s _ ho
        rw [hs, hl]; simp [close_isOpen]
      | some p =>
        obtain ⟨f, rest⟩ := p
        have hs : pumpAll s = pumpAll (handleFrame (s.withBuf rest) f) := by
          rw [unfoldAll s ho, hf]
        have hl : pumpAll (s.withBuf (s.buf ++ b))
            = pumpAll (handleFrame (s.withBuf (rest ++ b)) f) := by
          rw [unfoldAll _ (by simpa using ho)]
          simp only [withBuf_buf, nextFrame_append_frame _ b _ _ hf, withBuf_withBuf]
        rw [hs, hl]
        have hW := handleFrame_withBuf (s.withBuf rest) (rest ++ b) f (by simpa using ho)
        simp only [withBuf_withBuf] at hW
        rw [hW]
        by_cases hho : (handleFrame (s.withBuf rest) f).isOpen = true
        · simp only [hho, if_true]
          have hbuf := handleFrame_buf (s.withBuf rest) f (by simpa using ho) hho
          simp only [withBuf_buf] at hbuf
          have hlt := nextFrame_rest_lt _ _ _ hf
          have := ih rest.length (by omega) (handleFrame (s.withBuf rest) f) b (by rw [hbuf]; exact Nat.le_refl _) hho
          rw [hbuf] at this
          exact this
        · have hc : (handleFrame (s.withBuf rest) f).isOpen = false := by simpa using hho
          simp only [hc, Bool.false_eq_true, if_false]
          unfold pumpAll
          rw [pump_closed _ _ hc]
          simp [hc]

/-- **chunk independence**: delivering `a` and then `b` is the same as delivering `a ++ b` in one
    piece — whatever the split point (inside the size, inside the header, inside the body) -/
theorem feed_chunk_independent (s : St) (a b : Bytes) : feed (feed s a) b = feed s (a ++ b) := by
  unfold feed
  by_cases ho : s.isOpen = true
  · simp only [ho, Bool.not_true, Bool.false_eq_true, if_false]
    have := pumpAll_append (s.buf ++ a).length (s.withBuf (s.buf ++ a)) b (by simp) (by simpa using ho)
    simp only [withBuf_buf, withBuf_withBuf, List.append_assoc] at this
    rw [this]
    by_cases h2 : (pumpAll (s.withBuf (s.buf ++ a))).isOpen = true
    · simp [h2]
    · have : (pumpAll (s.withBuf (s.buf ++ a))).isOpen = false := by simpa using h2
      simp [this]
  · have : s.isOpen = false := by simpa using ho
    simp [this]

/-- … hence for any number of chunks: only the concatenation matters -/
theorem feed_chunks (s : St) (c : Bytes) (cs : List Bytes) :
    (c :: cs).foldl feed s = feed s (c :: cs).flatten := by
  induction cs generalizing s c with
  | nil => simp
  | cons d ds ih =>
    rw [List.foldl_cons, ih (feed s c) d, feed_chunk_independent]
    simp

/-! ## every reachable state -/

/-- the states a connection can be in: any operation script from a fresh connection whose
    correlation counter starts anywhere in `[0, 2^31)` -/
def Reachable (s : St) : Prop :=
  ∃ t c ops, c < 2 ^ 31 ∧ s = run { timeoutMs := t, counter := c, base := c } ops

theorem init_inv2 (t c : Nat) : Inv { timeoutMs := t, counter := c, base := c } := by
  constructor
  · simp
  · intro r hr; cases hr
  · intro i hi; cases hi
  · simp [outIds]
  · intro r hr; cases hr
  · intro r hr; cases hr
  · intro i hi; cases hi
  · intro _; rfl

theorem init_invM2 (t c : Nat) (hc : c < 2 ^ 31) : InvM { timeoutMs := t, counter := c, base := c } := by
  constructor
  · intro r hr; cases hr
  · intro e he; cases he
  · intro r hr; cases hr
  · simp
  · intro io hio; cases hio
  · intro io hio; cases hio
  · exact hc

theorem init_invG (t c : Nat) (hc : c < 2 ^ 31) : InvG { timeoutMs := t, counter := c, base := c } := by
  refine ⟨hc, rfl, ?_, ?_, ?_⟩
  · intro r hr; cases hr
  · intro n hn; rw [show ({ timeoutMs := t, counter := c, base := c } : St).reqs = [] from rfl, corrSeqNos_nil] at hn; cases hn
  · show (corrSeqNos []).Pairwise (· < ·); rw [corrSeqNos_nil]; exact List.Pairwise.nil

theorem reachable_inv {s : St} (h : Reachable s) : Inv s ∧ InvM s := by
  obtain ⟨t, c, ops, hc, rfl⟩ := h
  exact ⟨run_inv _ ops (init_inv2 t c), run_invM _ ops (init_invM2 t c hc)⟩

theorem reachable_invG {s : St} (h : Reachable s) : InvG s := by
  obtain ⟨t, c, ops, hc, rfl⟩ := h
  exact run_invG _ ops (init_invG t c hc)

/-- **resolve once**: no waiter ever gets two outcomes -/
theorem c12_resolve_once {s : St} (h : Reachable s) : (s.out.map (·.1)).Nodup :=
  (reachable_inv h).1.out_nodup

/-- **its own reply and nothing else**: a reply held by waiter `i` carries the correlation id that
    was assigned to `i`'s request (SASL tokens go to SASL waiters).
    The one exception is the one the code documents: a `FindCoordinatorResponse_v0` waiter with a
    non-zero id also accepts id 0 (Kafka 0.8.2 quirk) — see `c12_quirk_counterexample`. -/
theorem c12_own_reply_partial {s : St} (h : Reachable s) (i : Nat) (o : Outcome)
    (hio : (i, o) ∈ s.out) :
    ∃ corr quirk, (i, corr, quirk) ∈ s.issued ∧ answers corr quirk o := by
  obtain ⟨corr, q, h1, h2⟩ := (reachable_inv h).2.out_match (i, o) hio
  exact ⟨corr, q, h1, h2⟩

/-- full strength for every request kind but the quirk one: the received id equals the sent id -/
theorem c12_own_reply_exact {s : St} (h : Reachable s) (i : Nat) (recv : Int) (body : Bytes)
    (hio : (i, Outcome.reply recv body) ∈ s.out) (corr : Option Nat)
    (hiss : (i, corr, false) ∈ s.issued)
    (huniq : ∀ c q, (i, c, q) ∈ s.issued → c = corr ∧ q = false) :
    corr = some recv.toNat ∧ 0 ≤ recv := by
  obtain ⟨c, q, h1, h2⟩ := c12_own_reply_partial h i _ hio
  obtain ⟨rfl, rfl⟩ := huniq c q h1
  simp only [answers] at h2
  obtain ⟨c', hc', hr⟩ := h2
  rcases hr with hr | ⟨hq, _, _⟩
  · subst hr; exact ⟨by simp [hc'], by omega⟩
  · cases hq

/-- **in request order**: anything already delivered belongs to a request older than every request
    still queued — replies are consumed strictly from the head of the queue -/
theorem c12_fifo {s : St} (h : Reachable s) (i : Nat) (o : Outcome) (hio : (i, o) ∈ s.out)
    (hdel : o.delivered = true) : ∀ r ∈ s.reqs, i < r.id :=
  (reachable_inv h).2.order (i, o) hio hdel

/-- **failure fails all**: once the connection is closed — by a correlation mismatch, a malformed
    frame, a negative size, an unsolicited frame, EOF/reset or the client — nothing is queued and
    every waiter ever created has an outcome: none is left pending -/
theorem c12_failure_fails_all {s : St} (h : Reachable s) (hc : s.isOpen = false) :
    s.reqs = [] ∧ ∀ i, i < s.nextId → i ∈ s.out.map (·.1) := by
  have hi := (reachable_inv h).1
  have hre := hi.closed_empty hc
  refine ⟨hre, ?_⟩
  intro i hlt
  rcases hi.complete i hlt with h1 | ⟨r, hr, _⟩
  · exact h1
  · rw [hre] at hr; cases hr

/-- … and at any time a waiter is either resolved or still queued with its future pending,
    never both, never neither -/
theorem c12_resolved_xor_pending {s : St} (h : Reachable s) (i : Nat) (hlt : i < s.nextId) :
    (i ∈ s.out.map (·.1) ∧ ¬ ∃ r ∈ s.reqs, r.id = i ∧ r.done = false) ∨
    (i ∉ s.out.map (·.1) ∧ ∃ r ∈ s.reqs, r.id = i ∧ r.done = false) := by
  have hi := (reachable_inv h).1
  by_cases hm : i ∈ s.out.map (·.1)
  · left
    refine ⟨hm, ?_⟩
    rintro ⟨r, hr, rfl, hd⟩
    exact hi.pend_fresh r hr hd hm
  · right
    refine ⟨hm, ?_⟩
    rcases hi.complete i hlt with h1 | ⟨r, hr, rfl⟩
    · exact absurd h1 hm
    · refine ⟨r, hr, rfl, ?_⟩
      cases hd : r.done with
      | false => rfl
      | true => exact absurd (hi.done_has r hr hd) hm

/-- what the step that closes the connection does to the waiters that were pending -/
theorem c12_close_fails_pending (s : St) (ho : s.isOpen = true) (r : Req) (hr : r ∈ s.reqs)
    (hd : r.done = false) : (r.id, Outcome.connErr) ∈ (close s).out := by
  rw [close_open s ho]
  simp only [closed, resolveWhere, List.mem_append, List.mem_map, List.mem_filter]
  exact Or.inl ⟨r, ⟨hr, by simp [hd]⟩, rfl⟩

/-! ## correlation ids -/

/-- ids stay in `[0, 2^31)` -/
theorem c12_corr_range {s : St} (h : Reachable s) : s.counter < 2 ^ 31 :=
  (reachable_inv h).2.counter_lt

theorem corrSeq_eq (c : Nat) (hc : c < 2 ^ 31) (k : Nat) : corrSeq c k = (c + k) % 2 ^ 31 := by
  induction k with
  | zero => simp [corrSeq]; omega
  | succ n ih => rw [corrSeq, ih]; unfold nextCorr; omega

/-- the wrap at `2^31`: the ids given to two requests fewer than `2^31` sends apart differ, so
    requests in flight never share an id unless `2^31` of them are outstanding at once -/
theorem c12_corr_wrap (c k₁ k₂ : Nat) (hc : c < 2 ^ 31) (h12 : k₁ < k₂) (hlt : k₂ - k₁ < 2 ^ 31) :
    corrSeq c k₁ ≠ corrSeq c k₂ := by
  rw [corrSeq_eq c hc, corrSeq_eq c hc]; omega

theorem map_nodup_ne {α β} {l : List α} {f : α → β} (h : (l.map f).Nodup) {a b : α}
    (ha : a ∈ l) (hb : b ∈ l) (hne : a ≠ b) : f a ≠ f b := by
  induction l with
  | nil => cases ha
  | cons x xs ih =>
    simp only [List.map_cons, List.nodup_cons] at h
    rcases List.mem_cons.mp ha with rfl | ha' <;> rcases List.mem_cons.mp hb with rfl | hb'
    · exact absurd rfl hne
    · intro he; exact h.1 (he ▸ List.mem_map.mpr ⟨b, hb', rfl⟩)
    · intro he; exact h.1 (he ▸ List.mem_map.mpr ⟨a, ha', rfl⟩)
    · exact ih h.2 ha' hb'

/-- **requests in flight never share a correlation id** (unless 2^31 or more correlation ids were
    consumed while the older request was waiting): in every reachable state two different queued
    requests carry different ids, across the wrap of the counter at 2^31, whatever value it started
    from, and whatever number of requests without a reply (acks=0 produce) was sent in between.
    `s.sent - r.seqNo` is the number of ids consumed since `r` was sent. -/
theorem c12_inflight_distinct {s : St} (h : Reachable s) (r1 r2 : Req) (h1 : r1 ∈ s.reqs)
    (h2 : r2 ∈ s.reqs) (hne : r1 ≠ r2) (c1 c2 : Nat) (hc1 : r1.corr = some c1) (hc2 : r2.corr = some c2)
    (hfew : ∀ r ∈ s.reqs, s.sent - r.seqNo < 2 ^ 31) : c1 ≠ c2 := by
  have hg := reachable_invG h
  have e1 := hg.corr_seq r1 h1 c1 hc1
  have e2 := hg.corr_seq r2 h2 c2 hc2
  have m1 : r1 ∈ s.reqs.filter (fun r => r.corr.isSome) := List.mem_filter.mpr ⟨h1, by simp [hc1]⟩
  have m2 : r2 ∈ s.reqs.filter (fun r => r.corr.isSome) := List.mem_filter.mpr ⟨h2, by simp [hc2]⟩
  have hs := hg.nos_sorted
  unfold corrSeqNos at hs
  have hnd : ((s.reqs.filter (fun r => r.corr.isSome)).map (·.seqNo)).Nodup :=
    List.Pairwise.imp (fun hab => Nat.ne_of_lt hab) hs
  have hk : r1.seqNo ≠ r2.seqNo := map_nodup_ne hnd m1 m2 hne
  have le1 : r1.seqNo ≤ s.sent := hg.nos_le _ (List.mem_map.mpr ⟨r1, m1, rfl⟩)
  have le2 : r2.seqNo ≤ s.sent := hg.nos_le _ (List.mem_map.mpr ⟨r2, m2, rfl⟩)
  have f1 := hfew r1 h1
  have f2 := hfew r2 h2
  rw [e1, e2]
  rcases Nat.lt_or_gt_of_ne hk with hlt | hgt
  · exact c12_corr_wrap s.base r1.seqNo r2.seqNo hg.base_lt hlt (by omega)
  · exact (c12_corr_wrap s.base r2.seqNo r1.seqNo hg.base_lt hgt (by omega)).symm

/-- a request that expects no reply (acks=0) leaves no waiter behind: the queue, and with it every
    later reply's matching, is untouched; only a correlation id is consumed -/
theorem c12_no_reply_send_leaves_queue (s : St) :
    (step s .sendNR).reqs = s.reqs ∧ (step s .sendNR).out = s.out ∧ (step s .sendNR).isOpen = s.isOpen := by
  simp only [step, sendNR]
  split <;> exact ⟨rfl, rfl, rfl⟩

example : nextCorr (2 ^ 31 - 1) = 0 := by decide

/-! ## the documented exception is real (kernel-checked witness) -/

/-- a `FindCoordinator v0` request sent with correlation id 1 accepts a frame carrying id 0 -/
theorem c12_quirk_counterexample :
    let k : Kind := { flexible := false, quirk := true, resp := .struct [] }
    let s := run { timeoutMs := 1000, counter := 0 } [.send true k, .feed [0, 0, 0, 4, 0, 0, 0, 0]]
    s.out = [(0, Outcome.reply 0 [])] ∧ s.issued = [(0, some 1, true)] := by
  have dec_empty : ∀ b : Bytes, decode (.struct []) b = some (.tuple [], b) := by
    intro b; simp [decode, decodeFields]
  simp [run, step, send, feed, pumpAll, pump, nextFrame, handleFrame, parseHeader, decInt, takeN,
    beVal, St.withBuf, St.setRO, nextCorr, dec_empty]

/-- non-vacuity: a reachable state with two pipelined requests answered in order from three
    chunks cut inside the size and inside the header -/
example :
    let k : Kind := { flexible := false, quirk := false, resp := .struct [] }
    let s := run { timeoutMs := 1000, counter := 0 }
      [.send true k, .send true k, .feed [0, 0], .feed [0, 4, 0, 0, 0, 1, 0, 0, 0],
       .feed [4, 0, 0, 0, 2]]
    s.out = [(1, Outcome.reply 2 []), (0, Outcome.reply 1 [])] ∧ s.reqs = [] ∧ s.isOpen = true := by
  have dec_empty : ∀ b : Bytes, decode (.struct []) b = some (.tuple [], b) := by
    intro b; simp [decode, decodeFields]
  simp [run, step, send, feed, pumpAll, pump, nextFrame, handleFrame, parseHeader, decInt, takeN,
    beVal, St.withBuf, St.setRO, nextCorr, dec_empty]

end AkVerif.Conn
