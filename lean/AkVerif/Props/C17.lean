import AkVerif.Lemmas.Murmur
import AkVerif.Model.MurmurSrcRun
/-!
# C17 — keyed records choose the same partition as the Java client

Only property theorems live here (helper lemmas: `Lemmas/Murmur.lean`).
Keys are byte strings: `List (BitVec 8)` on the Java side, their `toNat` images on the Python side
(what indexing a `bytes` object yields).  The single hypothesis `length < 2^32` is Java's own
limit on array lengths (`int`), far above Kafka's message size limits.
-/
namespace AkVerif.Murmur

/-- the pure-Python murmur2 equals the Java int32 computation, bit for bit -/
theorem murmur2_py_eq_java (d : List (BitVec 8)) (hlen : d.length < 2^32) :
    pyMurmur2 (d.map (·.toNat)) = (javaMurmur2 d).toNat := by
  unfold pyMurmur2 javaMurmur2
  have hseed : SEED ^^^ (d.map (·.toNat)).length
      = (BitVec.ofNat 32 SEED ^^^ BitVec.ofNat 32 d.length).toNat := by
    rw [BitVec.toNat_xor, BitVec.toNat_ofNat, BitVec.toNat_ofNat, List.length_map]
    have h1 : SEED % 2^32 = SEED := by decide
    have h2 : d.length % 2^32 = d.length := Nat.mod_eq_of_lt hlen
    rw [h1, h2]
  rw [hseed, loop_eq]
  simp only
  rw [tail_eq, final_eq]

/-- a keyed record goes to `all[toPositive(murmur2_java(key)) mod |all|]`, whatever is available
    and whatever the random source would have chosen -/
theorem keyed_partition (key : List (BitVec 8)) (hlen : key.length < 2^32)
    (all avail : List Nat) (c : Nat) (hall : all ≠ []) :
    partition (some (key.map (·.toNat))) all avail c
      = all[javaKeyedIndex key all.length]? := by
  unfold partition javaKeyedIndex
  simp only [hall, if_false]
  rw [murmur2_py_eq_java key hlen, toPositive_eq]

/-- the keyed choice is a partition of the topic (never `none`, never outside `all`) -/
theorem keyed_partition_mem (key : List (BitVec 8)) (hlen : key.length < 2^32)
    (all avail : List Nat) (c : Nat) (hall : all ≠ []) :
    ∃ p ∈ all, partition (some (key.map (·.toNat))) all avail c = some p := by
  rw [keyed_partition key hlen all avail c hall]
  have hpos : 0 < all.length := List.length_pos_iff.mpr hall
  have hlt : javaKeyedIndex key all.length < all.length := Nat.mod_lt _ hpos
  exact ⟨all[javaKeyedIndex key all.length], List.getElem_mem hlt, by simp [hlt]⟩

/-- independent of which partitions are currently available -/
theorem keyed_independent_of_available (key : List Nat) (all a₁ a₂ : List Nat) (c₁ c₂ : Nat) :
    partition (some key) all a₁ c₁ = partition (some key) all a₂ c₂ := by
  unfold partition; rfl

/-- an unkeyed record goes to an available partition whenever at least one is available
    (for every outcome `c` of the random choice) -/
theorem unkeyed_in_available (all avail : List Nat) (c : Nat) (h : avail ≠ []) :
    ∃ p ∈ avail, partition none all avail c = some p := by
  unfold partition
  simp only [h, ne_eq, not_false_eq_true, if_true]
  have hpos : 0 < avail.length := List.length_pos_iff.mpr h
  have hlt : c % avail.length < avail.length := Nat.mod_lt _ hpos
  exact ⟨avail[c % avail.length], List.getElem_mem hlt, by simp [hlt]⟩

/-- index form used by the Java client on partitions `0..n-1`: the chosen partition *is* the
    index when `all = [0, 1, …, n-1]` -/
theorem keyed_partition_range (key : List (BitVec 8)) (hlen : key.length < 2^32)
    (n : Nat) (hn : 0 < n) (avail : List Nat) (c : Nat) :
    partition (some (key.map (·.toNat))) (List.range n) avail c
      = some (javaKeyedIndex key n) := by
  have hne : List.range n ≠ [] := by
    intro h; have := congrArg List.length h; simp at this; omega
  rw [keyed_partition key hlen _ avail c hne]
  have hlt : javaKeyedIndex key n < n := Nat.mod_lt _ hn
  simp [List.length_range, hlt]

theorem mem_insertU (a b : Nat) (l : List Nat) : b ∈ insertU a l ↔ b = a ∨ b ∈ l := by
  induction l with
  | nil => simp [insertU]
  | cons x r ih =>
    unfold insertU
    split
    · simp
    · split
      · rename_i h; subst h; simp
      · simp [ih]; constructor
        · rintro (h | h | h) <;> simp [h]
        · rintro (h | h | h) <;> simp [h]

theorem mem_usort (l : List Nat) (b : Nat) : b ∈ usort l ↔ b ∈ l := by
  induction l with
  | nil => simp [usort]
  | cons x r ih =>
    show b ∈ insertU x (usort r) ↔ _
    rw [mem_insertU, ih]; simp

/-- through the real metadata glue: whenever some partition of the topic has a leader (any node
    id other than −1, node 0 included), an unkeyed record goes to a partition that has one -/
theorem unkeyed_md_has_leader (leaders : List (Nat × Int)) (c : Nat)
    (h : ∃ pl ∈ leaders, pl.2 ≠ -1) :
    ∃ p l, partitionMd none leaders c = some p ∧ (p, l) ∈ leaders ∧ l ≠ -1 := by
  obtain ⟨pl, hpl, hl⟩ := h
  have hne : usort ((leaders.filter (fun pl => pl.2 != -1)).map (·.1)) ≠ [] := by
    apply List.ne_nil_of_mem (a := pl.1)
    rw [mem_usort]
    exact List.mem_map.mpr ⟨pl, List.mem_filter.mpr ⟨hpl, by simpa using hl⟩, rfl⟩
  obtain ⟨p, hp, hq⟩ := unkeyed_in_available (usort (leaders.map (·.1))) _ c hne
  rw [mem_usort] at hp
  obtain ⟨q, hq1, hq2⟩ := List.mem_map.mp hp
  obtain ⟨hq3, hq4⟩ := List.mem_filter.mp hq1
  refine ⟨p, q.2, hq, ?_, by simpa using hq4⟩
  rw [← hq2]; exact hq3

/-- non-vacuity / sanity: the value pinned by the Java client's own test vectors
    (`tests/test_partitioner.py`: murmur2(b"1") = 1311020360 & 0x7fffffff…) is computed by both -/
example : pyMurmur2 [0x31] = (javaMurmur2 [0x31#8]).toNat := by decide
example : partition (some [0x31]) [0, 1, 2] [] 0 = some ((pyMurmur2 [0x31] &&& 0x7FFFFFFF) % 3) := by
  decide
example : partition none [0, 1, 2] [2, 1] 5 = some 1 := by decide
example : partitionMd none [(0, -1), (1, 0), (2, -1)] 7 = some 1 := by decide

end AkVerif.Murmur

namespace AkVerif.Murmur
/-! ## the model is a transcription of the source as it is now (T-extract)

`Gen/MurmurSrc.lean` is regenerated on every run from the *source text* of
`aiokafka/partitioner.py` (`harness/extract/murmur.py` walks the AST of `murmur2` statement by
statement after matching its control skeleton).  `expectedProg` is the program the hand-written
model `pyLoop`/`pyMix`/`pyTail`/`pyFinal`/`partition` was transcribed from; the obligation below is
that the source still *is* that program — a changed constant, shift, mask, comparison, or a dropped,
added or reordered statement breaks it (the check then searches for a key on which the Java value
is missed; a harmless rewrite breaks it too and is reported `no-failing-input-found`).  That
`expectedProg` means what the model computes is T-diff (all key lengths 0..64 and the random keys
of the check), not a theorem: unfolding both sides with the 32-bit literals in place sent Lean 4.33's
definitional-equality check into a non-terminating unfolding of `Nat.mul`/`Nat.land`, see DESIGN.md. -/

def expectedProg : List (String × List (String × String)) := [
  ("pre", [
    ("seed", "2538058380"),
    ("m", "1540483477"),
    ("r", "24"),
    ("h", "(seed ^^^ length)"),
    ("length4", "(length / 4)")]),
  ("loop", [
    ("k", "((((b0 &&& 255) + ((b1 &&& 255) <<< 8)) + ((b2 &&& 255) <<< 16)) + ((b3 &&& 255) <<< 24))"),
    ("k", "(k &&& 4294967295)"),
    ("k", "(k * m)"),
    ("k", "(k &&& 4294967295)"),
    ("k", "(k ^^^ ((k % 4294967296) >>> r))"),
    ("k", "(k &&& 4294967295)"),
    ("k", "(k * m)"),
    ("k", "(k &&& 4294967295)"),
    ("h", "(h * m)"),
    ("h", "(h &&& 4294967295)"),
    ("h", "(h ^^^ k)"),
    ("h", "(h &&& 4294967295)")]),
  ("if extra_bytes ≥ 3", [
    ("h", "(h ^^^ ((t2 &&& 255) <<< 16))"),
    ("h", "(h &&& 4294967295)")]),
  ("if extra_bytes ≥ 2", [
    ("h", "(h ^^^ ((t1 &&& 255) <<< 8))"),
    ("h", "(h &&& 4294967295)")]),
  ("if extra_bytes ≥ 1", [
    ("h", "(h ^^^ (t0 &&& 255))"),
    ("h", "(h &&& 4294967295)"),
    ("h", "(h * m)"),
    ("h", "(h &&& 4294967295)")]),
  ("post", [
    ("h", "(h ^^^ ((h % 4294967296) >>> 13))"),
    ("h", "(h &&& 4294967295)"),
    ("h", "(h * m)"),
    ("h", "(h &&& 4294967295)"),
    ("h", "(h ^^^ ((h % 4294967296) >>> 15))"),
    ("h", "(h &&& 4294967295)")]),
  ("call", [
    ("idx &=", "2147483647")])]

/-- **the source of `murmur2` and of the keyed branch of `DefaultPartitioner.__call__` is, statement
    for statement, the program the model transcribes** -/
theorem c17_source_is_model : Gen.Murmur.prog = expectedProg := by decide +kernel

/-- the translated source and the model agree on a key with one whole word and a 3-byte tail
    (a test, labelled as a test) -/
example : srcMurmur2 [1, 2, 3, 4, 5, 6, 7] = pyMurmur2 [1, 2, 3, 4, 5, 6, 7] := by decide +kernel

/-- link between the executable checker used by the failing-input search and the statement:
    the model's answer always satisfies `holdsKeyed` -/
theorem model_satisfies_holdsKeyed (key : List (BitVec 8)) (hlen : key.length < 2^32)
    (all avail : List Nat) (c : Nat) (hall : all ≠ []) (r : Nat)
    (h : partition (some (key.map (·.toNat))) all avail c = some r) :
    holdsKeyed key all r = true := by
  unfold holdsKeyed
  rw [← keyed_partition key hlen all avail c hall, h]; simp

theorem model_satisfies_holdsUnkeyed (all avail : List Nat) (c r : Nat)
    (h : partition none all avail c = some r) : holdsUnkeyed avail r = true := by
  unfold holdsUnkeyed
  by_cases ha : avail = []
  · simp [ha]
  · obtain ⟨p, hp, hq⟩ := unkeyed_in_available all avail c ha
    rw [hq] at h; cases h
    simp [hp]
end AkVerif.Murmur
