import AkVerif.Lemmas.Safe
/-!
# C10 — decoding untrusted bytes is memory-safe, terminating and fails cleanly

Theorems about the decoder models of `Model/Safe.lean` (helper lemmas: `Lemmas/Safe.lean`).

* `Entry` enumerates the ten entry points (compiled and pure-Python `DefaultRecordBatch`,
  `LegacyRecordBatch`, `MemoryRecords` under BOTH of its drivers — `while has_next(): next_batch()`
  (`cyM`/`pyM`) and `next_batch()` until it returns `None` (`cyN`/`pyN`; there `_get_next`'s own
  "batch lies inside the buffer" test is the only guard of a trailing partial batch) — and the varint
  decoder); `Entry.ends e cfg codec crc b` is the list
  of all ends reached while the entry point is constructed, optionally `validate_crc()`-ed and
  iterated to its end on the byte string `b` (for `MemoryRecords`: of the run and of every batch).
* `Cfg.fixed mr` is the code after the seven `fix:` commits of this property; `mr` says whether
  `memory_records.pyx` reads the magic byte at `pos + 16` (C09's repair) or at absolute offset 16 —
  the theorems hold for both.
* the codec is an arbitrary function; the only hypotheses are physical: buffers (and what a
  codec returns) are shorter than 2^62 bytes, so that `Py_ssize_t` sums of a position and an
  `int32` field cannot overflow.  The pure-Python decoders need no hypothesis at all.

All three of the first theorems were FALSE of the code before the repairs: the kernel-checked
witnesses are in the section "the code before the repairs".
-/
namespace AkVerif.Safe

/-! ## the repaired code, every byte string -/

/-- **no read outside the supplied buffer**: no entry point ever ends in the fault `oob`, i.e. every
    `rd buf pos n` performed by the compiled decoders has `0 ≤ pos ∧ pos + n ≤ |buf|` -/
theorem c10_no_oob (e : Entry) (mr : Bool) (codec : Nat → Bytes → Option Bytes)
    (hc : CodecBounded codec) (wantCrc : Bool) (b : Bytes)
    (hlen : (b.length : Int) < 4611686018427387904) :
    ∀ x ∈ e.ends (Cfg.fixed mr) codec wantCrc b, x ≠ .fault .oob :=
  fun x hx => entry_clean e mr codec hc wantCrc b hlen x hx .oob

/-- **decoding terminates**: the fuel `|buf| + 1` of every loop (record loop, header loop, the two
    length-driven walks over a decompressed message set, the batch loop of `MemoryRecords`, the
    10-byte varint loop) is never exhausted -/
theorem c10_terminates (e : Entry) (mr : Bool) (codec : Nat → Bytes → Option Bytes)
    (hc : CodecBounded codec) (wantCrc : Bool) (b : Bytes)
    (hlen : (b.length : Int) < 4611686018427387904) :
    ∀ x ∈ e.ends (Cfg.fixed mr) codec wantCrc b, x ≠ .fault .fuel :=
  fun x hx => entry_clean e mr codec hc wantCrc b hlen x hx .fuel

/-- **records or an ordinary exception**: every end is normal completion or one of the ordinary
    exceptions of `Exc` (CorruptRecordException, UnsupportedCodecError, the codec's own error,
    AssertionError, UnicodeDecodeError, ValueError, IndexError, struct.error) — never `SystemError`
    (`sysErr`), `MemoryError` (`memErr`), an overflowed index computation, an over-read or a hang -/
theorem c10_clean_outcome (e : Entry) (mr : Bool) (codec : Nat → Bytes → Option Bytes)
    (hc : CodecBounded codec) (wantCrc : Bool) (b : Bytes)
    (hlen : (b.length : Int) < 4611686018427387904) :
    ∀ x ∈ e.ends (Cfg.fixed mr) codec wantCrc b, x = .done ∨ ∃ ex, x = .exc ex := by
  intro x hx
  have h := entry_clean e mr codec hc wantCrc b hlen x hx
  cases x with
  | done => exact Or.inl rfl
  | exc ex => exact Or.inr ⟨ex, rfl⟩
  | fault f => exact (h f rfl).elim

/-- the pure-Python decoders: the same three clauses for EVERY byte string and EVERY codec, with no
    hypothesis (Python integers do not overflow and its primitives raise instead of over-reading) -/
theorem c10_python_unconditional (e : Entry) (he : e.isPython = true) (mr : Bool)
    (codec : Nat → Bytes → Option Bytes) (wantCrc : Bool) (b : Bytes) :
    ∀ x ∈ e.ends (Cfg.fixed mr) codec wantCrc b, x = .done ∨ ∃ ex, x = .exc ex := by
  intro x hx
  have h := entry_clean_py e he mr codec wantCrc b x hx
  cases x with
  | done => exact Or.inl rfl
  | exc ex => exact Or.inr ⟨ex, rfl⟩
  | fault f => exact (h f rfl).elim

/-- `validate_crc()` of all four batch classes answers exactly "stored checksum = checksum of the
    covered bytes" (CRC-32C over `buf[21:]` for v2, CRC-32 over `buf[16:]` for v0/v1), whenever
    the batch object could be constructed at all -/
theorem c10_crc_exact (mr : Bool) (codec : Nat → Bytes → Option Bytes) (magic : Int) (b : Bytes) :
    ((cyDefaultBatch (Cfg.fixed mr) codec true b).built = true →
      (cyDefaultBatch (Cfg.fixed mr) codec true b).crc = some (storedCrcV2 b == crc32c (b.drop 21))) ∧
    ((pyDefaultBatch codec true b).built = true →
      (pyDefaultBatch codec true b).crc = some (storedCrcV2 b == crc32c (b.drop 21))) ∧
    ((cyLegacyBatch (Cfg.fixed mr) codec true magic b).built = true →
      (cyLegacyBatch (Cfg.fixed mr) codec true magic b).crc
        = some (storedCrcLegacy b == crc32 (b.drop 16))) ∧
    ((pyLegacyBatch (Cfg.fixed mr) codec true magic b).built = true →
      (pyLegacyBatch (Cfg.fixed mr) codec true magic b).crc
        = some (storedCrcLegacy b == crc32 (b.drop 16))) :=
  ⟨cyDefault_crc mr codec b, pyDefault_crc codec b, cyLegacy_crc mr codec magic b,
   pyLegacy_crc mr codec magic b⟩

/-- **a checksum mismatch is reported invalid by both implementations** (v2) -/
theorem c10_crc_mismatch_detected (mr : Bool) (codec : Nat → Bytes → Option Bytes) (b : Bytes)
    (hbad : storedCrcV2 b ≠ crc32c (b.drop 21)) :
    ((cyDefaultBatch (Cfg.fixed mr) codec true b).built = true →
      (cyDefaultBatch (Cfg.fixed mr) codec true b).crc = some false) ∧
    ((pyDefaultBatch codec true b).built = true →
      (pyDefaultBatch codec true b).crc = some false) := by
  have hf : (storedCrcV2 b == crc32c (b.drop 21)) = false := by simpa using hbad
  refine ⟨fun h => ?_, fun h => ?_⟩
  · rw [cyDefault_crc mr codec b h, hf]
  · rw [pyDefault_crc codec b h, hf]

/-- **a checksum mismatch is reported invalid by both implementations** (v0 / v1) -/
theorem c10_crc_mismatch_detected_legacy (mr : Bool) (codec : Nat → Bytes → Option Bytes)
    (magic : Int) (b : Bytes) (hbad : storedCrcLegacy b ≠ crc32 (b.drop 16)) :
    ((cyLegacyBatch (Cfg.fixed mr) codec true magic b).built = true →
      (cyLegacyBatch (Cfg.fixed mr) codec true magic b).crc = some false) ∧
    ((pyLegacyBatch (Cfg.fixed mr) codec true magic b).built = true →
      (pyLegacyBatch (Cfg.fixed mr) codec true magic b).crc = some false) := by
  have hf : (storedCrcLegacy b == crc32 (b.drop 16)) = false := by simpa using hbad
  refine ⟨fun h => ?_, fun h => ?_⟩
  · rw [cyLegacy_crc mr codec magic b h, hf]
  · rw [pyLegacy_crc mr codec magic b h, hf]

/-! ## witness and example byte strings (produced by the encoders of `harness/checks/c10.py`) -/

def wHdr26 : Bytes := [0, 0, 0, 0, 0, 0, 0, 0, 0, 0, 0, 14, 0, 0, 0, 0, 2, 0, 0, 0, 0, 0, 0, 0, 0, 0]
def wVarint : Bytes := [0, 0, 0, 0, 0, 0, 0, 0, 0, 0, 0, 50, 0, 0, 0, 0, 2, 113, 106, 97, 137, 0, 0, 0, 0, 0, 0, 0, 0, 0, 0, 0, 0, 3, 232, 0, 0, 0, 0, 0, 0, 3, 232, 255, 255, 255, 255, 255, 255, 255, 255, 255, 255, 255, 255, 255, 255, 0, 0, 0, 1, 128]
def wHdrVarint : Bytes := [0, 0, 0, 0, 0, 0, 0, 0, 0, 0, 0, 57, 0, 0, 0, 0, 2, 208, 2, 113, 220, 0, 0, 0, 0, 0, 0, 0, 0, 0, 0, 0, 0, 3, 232, 0, 0, 0, 0, 0, 0, 3, 232, 255, 255, 255, 255, 255, 255, 255, 255, 255, 255, 255, 255, 255, 255, 0, 0, 0, 1, 18, 0, 0, 0, 1, 1, 2, 128]
def wValSize : Bytes := [0, 0, 0, 0, 0, 0, 0, 0, 0, 0, 0, 14, 0, 0, 0, 0, 0, 0, 0, 0, 0, 4, 97, 98, 99, 100]
def wNegKey : Bytes := [0, 0, 0, 0, 0, 0, 0, 0, 0, 0, 0, 23, 127, 61, 148, 139, 1, 0, 0, 0, 0, 0, 0, 0, 0, 0, 255, 255, 255, 254, 0, 0, 0, 1, 118]
def wHugeKey : Bytes := [0, 0, 0, 0, 0, 0, 0, 0, 0, 0, 0, 58, 0, 0, 0, 0, 2, 113, 106, 97, 137, 0, 0, 0, 0, 0, 0, 0, 0, 0, 0, 0, 0, 3, 232, 0, 0, 0, 0, 0, 0, 3, 232, 255, 255, 255, 255, 255, 255, 255, 255, 255, 255, 255, 255, 255, 255, 0, 0, 0, 1, 26, 0, 0, 0, 254, 255, 255, 255, 255, 255, 255, 255, 255, 1]
def wInnerM12 : Bytes := [0, 0, 0, 0, 0, 0, 0, 0, 255, 255, 255, 244, 180, 97, 71, 46, 1, 0, 0, 0, 0, 0, 0, 0, 0, 0, 255, 255, 255, 255, 0, 0, 0, 1, 118]
def wWrapper : Bytes := [0, 0, 0, 0, 0, 0, 0, 5, 0, 0, 0, 23, 105, 235, 157, 44, 1, 1, 0, 0, 0, 0, 0, 0, 0, 0, 255, 255, 255, 255, 0, 0, 0, 1, 90]
def wInnerShort : Bytes := [0, 0, 0, 0, 0, 0, 0, 0, 0, 0]
def wInnerNeg : Bytes := [0, 0, 0, 0, 0, 0, 0, 0, 255, 255, 255, 216, 180, 97, 71, 46, 1, 0, 0, 0, 0, 0, 0, 0, 0, 0, 255, 255, 255, 255, 0, 0, 0, 1, 118, 0, 0, 0, 0, 0, 0, 0, 0, 0, 0, 0, 0, 0, 0, 0, 0, 0, 0, 0, 0, 0, 0, 0, 0, 0, 0, 0, 0, 0, 0, 0, 0, 0, 0, 0, 0, 0, 0, 0, 0, 0, 0, 0, 0, 0, 0, 0, 0, 0, 0]
def wInnerOffM1 : Bytes := [255, 255, 255, 255, 255, 255, 255, 255, 0, 0, 0, 23, 180, 97, 71, 46, 1, 0, 0, 0, 0, 0, 0, 0, 0, 0, 255, 255, 255, 255, 0, 0, 0, 1, 118]
def xV2 : Bytes := [0, 0, 0, 0, 0, 0, 0, 7, 0, 0, 0, 70, 0, 0, 0, 0, 2, 51, 229, 99, 239, 0, 0, 0, 0, 0, 1, 0, 0, 0, 0, 0, 0, 3, 232, 0, 0, 0, 0, 0, 0, 3, 232, 255, 255, 255, 255, 255, 255, 255, 255, 255, 255, 255, 255, 255, 255, 0, 0, 0, 2, 24, 0, 0, 0, 2, 107, 2, 118, 2, 2, 104, 2, 120, 14, 0, 10, 2, 1, 2, 119, 0]
def xV1 : Bytes := [0, 0, 0, 0, 0, 0, 0, 3, 0, 0, 0, 26, 236, 233, 7, 135, 1, 0, 0, 0, 0, 0, 0, 0, 0, 99, 0, 0, 0, 1, 107, 0, 0, 0, 3, 118, 97, 108]
def xV0 : Bytes := [0, 0, 0, 0, 0, 0, 0, 4, 0, 0, 0, 16, 59, 152, 107, 84, 0, 0, 255, 255, 255, 255, 0, 0, 0, 2, 118, 48]
def xInner : Bytes := [0, 0, 0, 0, 0, 0, 0, 0, 0, 0, 0, 23, 216, 112, 169, 215, 1, 0, 0, 0, 0, 0, 0, 0, 0, 1, 255, 255, 255, 255, 0, 0, 0, 1, 97, 0, 0, 0, 0, 0, 0, 0, 1, 0, 0, 0, 23, 170, 78, 67, 110, 1, 0, 0, 0, 0, 0, 0, 0, 0, 2, 255, 255, 255, 255, 0, 0, 0, 1, 98]
def xMixed : Bytes := [0, 0, 0, 0, 0, 0, 0, 3, 0, 0, 0, 26, 236, 233, 7, 135, 1, 0, 0, 0, 0, 0, 0, 0, 0, 99, 0, 0, 0, 1, 107, 0, 0, 0, 3, 118, 97, 108, 0, 0, 0, 0, 0, 0, 0, 7, 0, 0, 0, 70, 0, 0, 0, 0, 2, 51, 229, 99, 239, 0, 0, 0, 0, 0, 1, 0, 0, 0, 0, 0, 0, 3, 232, 0, 0, 0, 0, 0, 0, 3, 232, 255, 255, 255, 255, 255, 255, 255, 255, 255, 255, 255, 255, 255, 255, 0, 0, 0, 2, 24, 0, 0, 0, 2, 107, 2, 118, 2, 2, 104, 2, 120, 14, 0, 10, 2, 1, 2, 119, 0, 0, 0, 0, 0, 0, 0, 0, 4, 0, 0, 0, 16, 59, 152, 107, 84, 0, 0, 255, 255, 255, 255, 0, 0, 0, 2, 118, 48]
def xV2bad : Bytes := [0, 0, 0, 0, 0, 0, 0, 7, 0, 0, 0, 70, 0, 0, 0, 0, 2, 51, 229, 99, 239, 0, 0, 0, 0, 0, 1, 0, 0, 0, 0, 0, 0, 3, 232, 0, 0, 0, 0, 0, 0, 3, 232, 255, 255, 255, 255, 255, 255, 255, 255, 255, 255, 255, 255, 255, 255, 0, 0, 0, 2, 24, 0, 0, 0, 2, 107, 2, 118, 2, 2, 104, 2, 120, 14, 0, 10, 2, 1, 2, 119, 1]
def xV1bad : Bytes := [0, 0, 0, 0, 0, 0, 0, 3, 0, 0, 0, 26, 236, 233, 7, 135, 1, 0, 0, 0, 0, 0, 0, 0, 0, 99, 0, 0, 0, 1, 107, 0, 0, 0, 3, 118, 97, 109]

/-- a complete v1 message followed by the first 20 of the 28 bytes of a v0 message: the announced size
    (12 + 16) fits the WHOLE buffer (58 bytes) but not what is left after the first batch (20) -/
def xTrailing : Bytes := [0, 0, 0, 0, 0, 0, 0, 3, 0, 0, 0, 26, 236, 233, 7, 135, 1, 0, 0, 0, 0, 0, 0, 0, 0, 99, 0, 0, 0, 1, 107, 0, 0, 0, 3, 118, 97, 108, 0, 0, 0, 0, 0, 0, 0, 4, 0, 0, 0, 16, 59, 152, 107, 84, 0, 0, 255, 255]
/-- a complete v1 message followed by 12 bytes announcing a message of 5 bytes -/
def xTrailingShort : Bytes := [0, 0, 0, 0, 0, 0, 0, 3, 0, 0, 0, 26, 236, 233, 7, 135, 1, 0, 0, 0, 0, 0, 0, 0, 0, 99, 0, 0, 0, 1, 107, 0, 0, 0, 3, 118, 97, 108, 0, 0, 0, 0, 0, 0, 0, 9, 0, 0, 0, 5]

def noCodec : Nat → Bytes → Option Bytes := fun _ _ => none
/-- a codec that answers `u` whatever it is given (the decompressed payload is hostile too) -/
def constCodec (u : Bytes) : Nat → Bytes → Option Bytes := fun _ _ => some u

/-! ## non-vacuity: the models decode valid data, and the hypotheses are satisfiable -/

example : CodecBounded noCodec := by intro k d u h; cases h
example : CodecBounded (constCodec xInner) := by
  intro k d u h; cases h; decide

/-- a valid v2 batch (2 records, one with a header): checksum accepted, both records decoded, by
    the compiled and the pure-Python model alike -/
example : (cyDefaultBatch (Cfg.fixed true) noCodec true xV2).fin = .done ∧
    (cyDefaultBatch (Cfg.fixed true) noCodec true xV2).crc = some true ∧
    ((cyDefaultBatch (Cfg.fixed true) noCodec true xV2).recs.map (·.offset)) = [7, 8] ∧
    pyDefaultBatch noCodec true xV2 = cyDefaultBatch (Cfg.fixed true) noCodec true xV2 := by
  decide +kernel

/-- a compressed v1 wrapper with two inner messages (relative offsets 0, 1; wrapper offset 5) -/
example : ((cyLegacyBatch (Cfg.fixed true) (constCodec xInner) false 1 wWrapper).recs.map (·.offset)) = [4, 5] ∧
    (pyLegacyBatch (Cfg.fixed true) (constCodec xInner) false 1 wWrapper).recs
      = (cyLegacyBatch (Cfg.fixed true) (constCodec xInner) false 1 wWrapper).recs := by
  decide +kernel

/-- v1 + v2 + v0 concatenated: three batches through `MemoryRecords` of both implementations -/
example : ((cyMemory (Cfg.fixed true) noCodec true xMixed).1.map (fun o => (o.kind, o.crc, o.recs.length)))
      = [("L", some true, 1), ("D", some true, 2), ("L", some true, 1)] ∧
    (cyMemory (Cfg.fixed true) noCodec true xMixed).2 = .done ∧
    pyMemory (Cfg.fixed true) noCodec true xMixed = cyMemory (Cfg.fixed true) noCodec true xMixed := by
  decide +kernel

/-- `MemoryRecords` driven by `next_batch()` until `None`: same three batches; a trailing partial batch
    whose announced size still fits the whole buffer ends the run (`None`) after the complete batch —
    no slice is built for it; and the two drivers are different functions (a trailing length below 14:
    `has_next()` says "no more", `next_batch()` raises) -/
example : cyMemoryN (Cfg.fixed true) noCodec true xMixed = cyMemory (Cfg.fixed true) noCodec true xMixed ∧
    ((cyMemoryN (Cfg.fixed true) noCodec true xTrailing).1.map (fun o => (o.kind, o.recs.length))) = [("L", 1)] ∧
    (cyMemoryN (Cfg.fixed true) noCodec true xTrailing).2 = .done ∧
    pyMemoryN (Cfg.fixed true) noCodec true xTrailing = cyMemoryN (Cfg.fixed true) noCodec true xTrailing ∧
    (cyMemory (Cfg.fixed true) noCodec true xTrailingShort).2 = .done ∧
    (cyMemoryN (Cfg.fixed true) noCodec true xTrailingShort).2 = .exc .corrupt := by
  decide +kernel

/-- the hypothesis of `c10_crc_mismatch_detected` is met by a valid batch with its last byte flipped -/
example : storedCrcV2 xV2bad ≠ crc32c (xV2bad.drop 21) ∧
    (cyDefaultBatch (Cfg.fixed true) noCodec true xV2bad).built = true ∧
    (pyDefaultBatch noCodec true xV2bad).built = true := by
  decide +kernel

example : storedCrcLegacy xV1bad ≠ crc32 (xV1bad.drop 16) ∧
    (cyLegacyBatch (Cfg.fixed true) noCodec true 1 xV1bad).built = true ∧
    (pyLegacyBatch (Cfg.fixed true) noCodec true 1 xV1bad).built = true := by
  decide +kernel

/-! ## the code before the repairs: kernel-checked witnesses, one per call site

Each witness switches off exactly one repair (`{ Cfg.fixed false with … := false }`), shows the
forbidden end on a concrete byte string, and shows what the repaired model answers instead.
Every one of them was replayed on the unrepaired extension (AddressSanitizer report / SIGSEGV /
kill after the time limit / SystemError) and is part of `corpus/C10`. -/

/-- `_read_header` read 61 bytes unconditionally: a 26-byte magic-2 slice (what `MemoryRecords`
    hands out for a length field of 14) is read past its end — directly and through
    `MemoryRecords` (fix 49ce9e6) -/
theorem c10_before_fix_header_overread :
    (cyDefaultBatch { Cfg.fixed false with hdrCheck := false } noCodec false wHdr26).fin = .fault .oob ∧
    (cyMemory { Cfg.fixed false with hdrCheck := false } noCodec false wHdr26).2 = .fault .oob ∧
    (cyDefaultBatch (Cfg.fixed false) noCodec false wHdr26).fin = .exc .corrupt := by
  decide +kernel

/-- `decode_varint64` followed continuation bits past the end of the buffer: a record consisting
    of the single byte 0x80, and a header-key length varint cut off inside the header loop
    (fix 82eb93b) -/
theorem c10_before_fix_varint_overread :
    (cyDefaultBatch { Cfg.fixed false with varintBound := false } noCodec false wVarint).fin = .fault .oob ∧
    (cyDefaultBatch { Cfg.fixed false with varintBound := false } noCodec false wHdrVarint).fin = .fault .oob ∧
    (cyDefaultBatch (Cfg.fixed false) noCodec false wVarint).fin = .exc .corrupt ∧
    (cyDefaultBatch (Cfg.fixed false) noCodec false wHdrVarint).fin = .exc .corrupt := by
  decide +kernel

/-- `_check_bounds` computed `pos + size` in `Py_ssize_t`: a key length of 2^63 - 1 overflows it,
    the check passes and the allocation is attempted (fix 64db090) -/
theorem c10_before_fix_check_bounds_overflow :
    (cyDefaultBatch { Cfg.fixed false with safeBounds := false } noCodec false wHugeKey).fin = .fault .overflow ∧
    (cyDefaultBatch (Cfg.fixed false) noCodec false wHugeKey).fin = .exc .corrupt := by
  decide +kernel

/-- `_read_record`: the 4-byte value size was read behind a key that fills the message (26-byte v0
    message with a 4-byte key), and a key size of -2 reached `PyBytes_FromStringAndSize`
    (`SystemError`) (fix 4922285) -/
theorem c10_before_fix_legacy_sizes :
    (cyLegacyBatch { Cfg.fixed false with sizeCheck := false } noCodec false 0 wValSize).fin = .fault .oob ∧
    (cyLegacyBatch { Cfg.fixed false with sizeCheck := false } noCodec false 1 wNegKey).fin = .fault .sysErr ∧
    (cyLegacyBatch (Cfg.fixed false) noCodec false 0 wValSize).fin = .exc .corrupt ∧
    (cyLegacyBatch (Cfg.fixed false) noCodec false 1 wNegKey).fin = .exc .corrupt := by
  decide +kernel

/-- `_read_last_offset`: an inner message of length -12 never advances (non-termination, in C), an
    empty payload makes it read `buf[-12]`, a truncated or negative-length inner message is read
    outside the decompressed buffer (fix 2d8f8f3) -/
theorem c10_before_fix_last_offset_walk :
    (cyLegacyBatch { Cfg.fixed false with walkCheck := false } (constCodec wInnerM12) false 1 wWrapper).fin
      = .fault .fuel ∧
    (cyLegacyBatch { Cfg.fixed false with walkCheck := false } (constCodec []) false 1 wWrapper).fin
      = .fault .oob ∧
    (cyLegacyBatch { Cfg.fixed false with walkCheck := false } (constCodec wInnerShort) false 1 wWrapper).fin
      = .fault .oob ∧
    (cyLegacyBatch { Cfg.fixed false with walkCheck := false } (constCodec wInnerNeg) false 1 wWrapper).fin
      = .fault .oob ∧
    (cyLegacyBatch (Cfg.fixed false) (constCodec wInnerM12) false 1 wWrapper).fin = .exc .corrupt ∧
    (cyLegacyBatch (Cfg.fixed false) (constCodec []) false 1 wWrapper).fin = .exc .corrupt ∧
    (cyLegacyBatch (Cfg.fixed false) (constCodec wInnerShort) false 1 wWrapper).fin = .exc .corrupt ∧
    (cyLegacyBatch (Cfg.fixed false) (constCodec wInnerNeg) false 1 wWrapper).fin = .exc .corrupt := by
  decide +kernel

/-- `_read_all_headers` of the pure-Python decoder: the same inner length -12 loops forever
    (fix 71d100d) -/
theorem c10_before_fix_python_walk_hang :
    (pyLegacyBatch { Cfg.fixed false with pyWalkCheck := false } (constCodec wInnerM12) false 1 wWrapper).fin
      = .fault .fuel ∧
    (pyLegacyBatch (Cfg.fixed false) (constCodec wInnerM12) false 1 wWrapper).fin = .exc .corrupt := by
  decide +kernel

/-- `_read_last_offset … except -1`: a last inner offset of -1 was taken for an error without an
    exception: the batch silently yielded nothing (not a C10 violation — it "yields records" — but
    repaired with the walk, fix 1df1abf); the repaired code yields the record -/
theorem c10_before_fix_minus_one_offset_dropped :
    (cyLegacyBatch { Cfg.fixed false with exceptQ := false } (constCodec wInnerOffM1) false 1 wWrapper).recs = [] ∧
    (cyLegacyBatch { Cfg.fixed false with exceptQ := false } (constCodec wInnerOffM1) false 1 wWrapper).fin = .done ∧
    ((cyLegacyBatch (Cfg.fixed false) (constCodec wInnerOffM1) false 1 wWrapper).recs.map (·.offset)) = [5] := by
  decide +kernel

/-- the three full-strength clauses are therefore false of the unrepaired models: there are an
    entry point, a codec and a (26-, 35-, 35-byte) buffer with an `oob`, a `fuel` and a `sysErr` end -/
theorem c10_clauses_false_before_fixes :
    (∃ x ∈ Entry.cyD.ends Cfg.asIs noCodec false wHdr26, x = .fault .oob) ∧
    (∃ x ∈ (Entry.cyL 1).ends Cfg.asIs (constCodec wInnerM12) false wWrapper, x = .fault .fuel) ∧
    (∃ x ∈ (Entry.pyL 1).ends Cfg.asIs (constCodec wInnerM12) false wWrapper, x = .fault .fuel) ∧
    (∃ x ∈ (Entry.cyL 1).ends Cfg.asIs noCodec false wNegKey, x = .fault .sysErr) := by
  refine ⟨⟨_, List.mem_singleton.mpr rfl, ?_⟩, ⟨_, List.mem_singleton.mpr rfl, ?_⟩,
          ⟨_, List.mem_singleton.mpr rfl, ?_⟩, ⟨_, List.mem_singleton.mpr rfl, ?_⟩⟩ <;> decide +kernel

end AkVerif.Safe
