def hello := "world"
