import AkVerif.Model.Txn
/-!
Trace acceptor for transactional producers (C07, T-trace).

One transactional id, any number of producer incarnations (numbered 0, 1, …; the incarnation whose
InitProducerId was answered last owns the id, older ones are zombies), concurrent `send()` tasks,
any faults.  The history of a run — decisions of the environment (coordinator, partition leaders,
group coordinator), requests of the client and what the application saw (accepted sends, resolved
futures, returning calls) — is fed event by event to `tstep`.

Guards are of two kinds:
* `env:`  the event is impossible in the environment model `Env` (simulator and model disagree:
          trouble of the harness, never a finding);
* `client:` a mechanism of the producer is broken (a finding candidate).

The environment part of the state and its ghost bookkeeping (`cur`, `good`, `bad`) are the `Core`
of the API automaton; `good` / `bad` here follow the *coordinator's* decisions, `appGood` /
`appBad` what the *application* was told.
-/
namespace AkVerif.Txn

inductive Ev where
  -- environment decisions
  | fence                               -- InitProducerId bumps the epoch: an ongoing transaction is aborted, nobody owns the id
  | init (i : Nat)                      -- … and is answered ok to incarnation `i` (always preceded by `fence`)
  | regOk (i p : Nat)                   -- AddPartitionsToTxn applied for partition `p`
  | grpOk (i : Nat)                     -- AddOffsetsToTxn applied
  | offStored (i o : Nat)               -- TxnOffsetCommit stored pending offset `o`
  | append (i p r : Nat)                -- the leader of `p` appended record `r` (batch with the transactional flag)
  | appendPlain (i p r : Nat)           -- … appended a batch of this producer that does NOT carry the transactional flag
  | ended (i : Nat) (c : Bool)          -- EndTxn applied to the ongoing transaction
  -- client requests (as they arrive at a broker)
  | produceReq (i p : Nat)              -- a transactional Produce for partition `p`
  | endReq (i : Nat) (c : Bool)         -- an EndTxn
  -- client side of the connection (observed at `AIOKafkaClient.send`)
  | regAck (i p : Nat)                  -- the client received the ok reply of AddPartitionsToTxn for `p`
  | produceSend (i p : Nat)             -- the client hands a transactional Produce for `p` to a connection
  -- what the application sees
  | begin (i : Nat)                     -- begin_transaction() returned
  | accept (i r p : Nat)                -- send() returned a future for record `r` to partition `p`
  | acked (i r : Nat)                   -- … the future resolved successfully
  | failed (i r : Nat)                  -- … the future failed
  | offsOk (i o : Nat)                  -- send_offsets_to_transaction(o) returned
  | commitCall (i : Nat) | abortCall (i : Nat)
  | commitOk (i : Nat) | abortOk (i : Nat)
deriving DecidableEq, Repr, Inhabited

structure TSt extends Core where
  live : Option Nat := none     -- the incarnation owning the transactional id
  inTx : Bool := false          -- the application of `live` is inside begin … commit/abort
  mine : List Nat := []         -- records accepted in the application's running transaction
  app : List Nat := []          -- … that a leader appended
  ackd : List Nat := []         -- … acknowledged to the application
  unres : List Nat := []        -- … whose future is unresolved
  fate : Option Bool := none    -- what the coordinator decided about the running transaction
  intent : Option Bool := none  -- commit_transaction (true) / abort_transaction (false) was called
  myOff : Option Nat := none    -- offset acknowledged by send_offsets_to_transaction in the running transaction
  known : List Nat := []        -- partitions whose AddPartitionsToTxn the client has seen acknowledged in the running transaction
  appGood : List Nat := []      -- acknowledged records of transactions whose commit returned
  appBad : List Nat := []       -- records of transactions whose abort returned, or fenced before a commit decision
  appOff : Option Nat := none   -- offset of the last transaction with offsets whose commit returned

def TSt.isLive (s : TSt) (i : Nat) : Bool := s.live == some i

/-- the application's running transaction is over (its records keep their last classification) -/
def TSt.closeApp (s : TSt) : TSt :=
  { s with inTx := false, intent := none, myOff := none }

def tstep (s : TSt) : Ev → Except String TSt
  | .fence =>
    -- the running application transaction is fenced unless the coordinator already committed it
    let k := if s.env.ongoing then ({ s.toCore with env := s.env.finish false } : Core).settle false else s.toCore
    let s1 : TSt := { s with toCore := { k with env := { k.env with last := none } }, live := none }
    .ok (if s.inTx ∧ s.fate ≠ some true then { s1.closeApp with appBad := s.mine ++ s.appBad } else s1.closeApp)
  | .init i =>
    if s.env.ongoing then .error "env: InitProducerId answered while a transaction is ongoing"
    else if s.live.isSome then .error "env: InitProducerId answered without bumping the epoch"
    else .ok { s with live := some i }
  | .regOk i p =>
    if !s.isLive i then .error "env: AddPartitionsToTxn applied for a fenced producer"
    else if !s.inTx then .error "client: AddPartitionsToTxn outside a transaction"
    else if s.fate.isSome then .error "client: AddPartitionsToTxn after the EndTxn of the transaction"
    else .ok { s with toCore := { s.toCore with env := s.env.addParts p } }
  | .grpOk i =>
    if !s.isLive i then .error "env: AddOffsetsToTxn applied for a fenced producer"
    else if !s.inTx then .error "client: AddOffsetsToTxn outside a transaction"
    else if s.fate.isSome then .error "client: AddOffsetsToTxn after the EndTxn of the transaction"
    else .ok { s with toCore := { s.toCore with env := s.env.addOffs } }
  | .offStored i o =>
    if !s.isLive i then .error "env: TxnOffsetCommit stored for a fenced producer"
    else if !(s.env.ongoing && s.env.grp) then .error "client: TxnOffsetCommit before AddOffsetsToTxn was applied"
    else .ok { s with toCore := { s.toCore with env := s.env.offsCommit o, curOff := some o } }
  | .append i p r =>
    if !s.isLive i then .error "env: append for a fenced producer"
    else
      match s.env.append p r with
      | none => .error "env: append to a partition that is not registered in an ongoing transaction"
      | some e' =>
        if !s.inTx then .error "client: transactional data written outside a transaction"
        else if r ∉ s.mine then .error "client: a record that no accepted send() of the running transaction produced was written"
        else if r ∈ s.app then .error "client: record appended twice"
        else if s.fate.isSome then .error "client: transactional data written after the EndTxn of the transaction"
        else .ok { s with toCore := { s.toCore with env := e', cur := r :: s.cur }, app := r :: s.app }
  | .appendPlain _ _ _ =>
    -- `create_builder`: every batch of a transactional producer is transactional; a plain batch is
    -- readable at once and survives an abort
    .error "client: a batch of the transactional producer was written without the transactional flag"
  | .ended i c =>
    if !s.isLive i then .error "env: EndTxn applied for a fenced producer"
    else if !s.env.ongoing then .error "env: EndTxn applied without an ongoing transaction"
    else if !s.inTx then .error "client: EndTxn outside a transaction"
    else if s.fate.isSome then .error "client: second EndTxn applied in one transaction"
    else if s.intent ≠ some c then .error "client: EndTxn with a result the application did not ask for"
    else if s.unres ≠ [] then .error "client: EndTxn while a batch of the transaction is unacknowledged"
    else
      .ok { s with toCore := (({ s.toCore with env := s.env.finish c } : Core).settle c), fate := some c }
  | .produceReq i p =>
    if !s.isLive i then .ok s           -- a zombie does not know it is fenced
    else if !s.inTx then .error "client: Produce outside a transaction"
    else if !(s.env.ongoing && decide (p ∈ s.env.parts)) then
      .error "client: Produce before the coordinator acknowledged adding the partition"
    else .ok s
  | .endReq i c =>
    if !s.isLive i then .ok s
    else if !s.inTx then .error "client: EndTxn outside a transaction"
    else if s.intent ≠ some c then .error "client: EndTxn with a result the application did not ask for"
    else if s.unres ≠ [] then .error "client: EndTxn while a batch of the transaction is unacknowledged"
    else .ok s
  | .regAck i p =>
    if !s.isLive i then .ok s
    else if !(s.env.ongoing && decide (p ∈ s.env.parts)) then
      .error "env: AddPartitionsToTxn acknowledged although the coordinator has not registered the partition"
    else if !s.inTx then .error "client: AddPartitionsToTxn acknowledged outside a transaction"
    else .ok { s with known := p :: s.known }
  | .produceSend i p =>
    if !s.isLive i then .ok s           -- a zombie does not know it is fenced
    else if !s.inTx then .error "client: Produce sent outside a transaction"
    else if p ∉ s.known then
      .error "client: Produce sent before the acknowledgement of adding the partition reached the client"
    else .ok s
  | .begin i =>
    if !s.isLive i then .ok s
    else if s.inTx then .error "client: begin_transaction returned inside a transaction"
    else .ok { s with inTx := true, mine := [], app := [], ackd := [], unres := [], fate := none,
                      intent := none, myOff := none, known := [] }
  | .accept i r _ =>
    if r ≠ s.nRec then .error "env: record ids are assigned in acceptance order"
    else if !s.isLive i then .ok { s with toCore := { s.toCore with nRec := s.nRec + 1 } }   -- a zombie's send
    else if !s.inTx then .error "client: send accepted outside a transaction"
    else .ok { s with toCore := { s.toCore with nRec := s.nRec + 1 }, mine := r :: s.mine, unres := r :: s.unres }
  | .acked i r =>
    if !s.isLive i then .ok s
    else if r ∉ s.unres then .ok s      -- a future of an earlier incarnation / transaction
    else if r ∉ s.app then .error "client: send acknowledged although the record was not appended"
    else .ok { s with unres := s.unres.filter (· ≠ r), ackd := r :: s.ackd }
  | .failed i r =>
    if !s.isLive i then .ok s
    else .ok { s with unres := s.unres.filter (· ≠ r) }
  | .offsOk i o =>
    if !s.isLive i then .ok s
    else if !s.inTx then .error "client: send_offsets_to_transaction returned outside a transaction"
    else if s.env.pendOff ≠ some o then .error "client: send_offsets_to_transaction returned but the offset is not pending at the group coordinator"
    else .ok { s with myOff := some o }
  | .commitCall i => if !s.isLive i then .ok s else .ok { s with intent := some true }
  | .abortCall i => if !s.isLive i then .ok s else .ok { s with intent := some false }
  | .commitOk i =>
    if !s.isLive i then .ok s
    else if !s.inTx then .error "client: commit_transaction returned outside a transaction"
    else if s.unres ≠ [] then .error "client: commit_transaction returned while a send is unresolved"
    else if (s.fate = some true ∧ s.env.ongoing = false) ∨ (s.fate = none ∧ s.app = [] ∧ s.myOff = none) then
      if s.myOff.isSome ∧ s.env.commOff ≠ s.myOff then
        .error "client: commit_transaction returned but the offsets of the transaction are not committed"
      else
        .ok { s.closeApp with appGood := s.ackd ++ s.appGood,
                              appOff := (match s.myOff with | some o => some o | none => s.appOff) }
    else .error "client: commit_transaction returned but the coordinator did not commit the transaction"
  | .abortOk i =>
    if !s.isLive i then .ok s
    else if !s.inTx then .error "client: abort_transaction returned outside a transaction"
    else if (s.fate = some false ∧ s.env.ongoing = false) ∨ (s.fate = none ∧ s.app = []) then
      if s.myOff.isSome ∧ s.env.commOff = s.myOff then
        .error "client: abort_transaction returned but the offsets of the transaction are committed"
      else .ok { s.closeApp with appBad := s.mine ++ s.appBad }
    else .error "client: abort_transaction returned but the coordinator did not abort the transaction (its records are still undecided or committed)"

def trun (s : TSt) : List Ev → Except String TSt
  | [] => .ok s
  | e :: es => match tstep s e with
    | .ok s' => trun s' es
    | .error m => .error m

/-- run and report where the history was rejected: (index of the event, message) -/
def trunAt (s : TSt) : List Ev → Nat → Except (Nat × String) TSt
  | [], _ => .ok s
  | e :: es, n => match tstep s e with
    | .ok s' => trunAt s' es (n + 1)
    | .error m => .error (n, m)

/-- where (and why) a history is rejected, `none` when it is accepted -/
def rejectedAt (tr : List Ev) : Option (Nat × String) :=
  match trunAt {} tr 0 with
  | .ok _ => none
  | .error e => some e

def accepts (tr : List Ev) : Prop := ∃ s, trun {} tr = .ok s

end AkVerif.Txn
