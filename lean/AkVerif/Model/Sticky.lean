import AkVerif.Model.Assign
/-!
C15 — stickiness of the sticky assignor, as executable statements over two consecutive results
(the `Output` of `Model/Assign.lean`: per member the sorted `(topic, partitions)` items).
-/
namespace AkVerif.Sticky
open AkVerif.Assign

/-- the owner(s) of partition `(t, p)` in an assignment -/
def ownersOf (out : Output) (t : Topic) (p : Nat) : List Member :=
  (out.filter fun mo => mo.2.any fun tp => tp.1 == t && tp.2.contains p).map (·.1)

def allPartitions (out : Output) : List (Topic × Nat) :=
  out.flatMap fun mo => mo.2.flatMap fun tp => tp.2.map fun p => (tp.1, p)

/-- (a) nothing changed: every member keeps exactly its partitions -/
def unchangedB (prev cur : Output) : Bool :=
  (allPartitions prev).all (fun tp => ownersOf cur tp.1 tp.2 == ownersOf prev tp.1 tp.2) &&
  (allPartitions cur).all (fun tp => ownersOf prev tp.1 tp.2 == ownersOf cur tp.1 tp.2)

/-- (b) members left: a partition that belonged to a surviving member is still with that member
    (no partition moves between survivors) -/
def survivorsKeepB (prev cur : Output) (survivors : List Member) : Bool :=
  (allPartitions prev).all fun tp =>
    (ownersOf prev tp.1 tp.2).all fun a =>
      !(survivors.contains a) || (ownersOf cur tp.1 tp.2) == [a]

/-- (c) members joined: a partition now owned by an old member was already owned by that member
    (partitions only move from old members to new ones, never between old members) -/
def noOldToOldB (prev cur : Output) (oldMembers : List Member) : Bool :=
  (allPartitions cur).all fun tp =>
    (ownersOf cur tp.1 tp.2).all fun b =>
      !(oldMembers.contains b) || (ownersOf prev tp.1 tp.2).isEmpty || (ownersOf prev tp.1 tp.2) == [b]

open AkVerif.Util in
def handle : List String → Option String
  | ["unchanged", prev, cur] => do
    some (toString (unchangedB (← parseOutput prev) (← parseOutput cur)))
  | ["survivors-keep", prev, cur, surv] => do
    some (toString (survivorsKeepB (← parseOutput prev) (← parseOutput cur) (← parseNatList surv)))
  | ["no-old-to-old", prev, cur, old] => do
    some (toString (noOldToOldB (← parseOutput prev) (← parseOutput cur) (← parseNatList old)))
  | _ => none

end AkVerif.Sticky
