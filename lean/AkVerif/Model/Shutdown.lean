import AkVerif.Model.Util
/-!
Model of `stop()` (C19): `AIOKafkaConsumer.stop` → `GroupCoordinator.close` (coordination task
runs to its end, last commit, heartbeat / commit-refresh tasks cancelled, LeaveGroup) →
`Fetcher.close` → `AIOKafkaClient.close`, and `AIOKafkaProducer.stop` (flush raced with the sender,
sender cancelled, client closed).

`stop()` is a sequential program over *wait points*.  Every wait is either a cancellation
(immediate), a sleep of `backoff`, or one `client.send`, whose duration the environment chooses;
the client cuts it at `sendMax` (connection timeout + ApiVersions timeout + request timeout — the
request timeout is the mechanism of C12).  The environment is an arbitrary script of outcomes;
when the script ends every further request succeeds at once.  All times are milliseconds.
-/
namespace AkVerif.Shutdown

structure Cfg where
  req : Nat          -- request_timeout_ms
  backoff : Nat      -- retry_backoff_ms
  nodes : Nat        -- brokers the metadata refresh may try one after the other
deriving Repr

/-- longest a single `client.send` can take: connect, version lookup, the request itself -/
def sendMax (cfg : Cfg) : Nat := 3 * cfg.req

inductive Ans where
  | ok | retriable | fatal
deriving DecidableEq, Repr, Inhabited

/-- what the environment does to one request: the answer and how long it takes -/
structure Attempt where
  ans : Ans
  dur : Nat
deriving Repr, Inhabited

abbrev Script := List Attempt

/-- the duration the client observes: its own timeouts cut the wait -/
def clamp (cfg : Cfg) (a : Attempt) : Nat := min a.dur (sendMax cfg)

/-- one request: elapsed time, whether it succeeded, rest of the script -/
def oneReq (cfg : Cfg) : Script → Nat × Bool × Script
  | [] => (0, true, [])
  | a :: rest => (clamp cfg a, a.ans == Ans.ok, rest)

/-! ## the loops that can be reached while closing -/

/-- `commit_offsets` as repaired: a retriable failure is retried after a backoff — unless the
    coordinator is closing, then the failure is reported.  Returns elapsed time, number of
    requests made and the rest of the script. -/
def commitLoop (cfg : Cfg) (closing : Bool) : Script → Nat × Nat × Script
  | [] => (0, 1, [])
  | a :: rest =>
    match a.ans with
    | .retriable =>
      if closing then (clamp cfg a, 1, rest)
      else
        let (t, n, r) := commitLoop cfg closing rest
        (clamp cfg a + cfg.backoff + t, n + 1, r)
    | _ => (clamp cfg a, 1, rest)

/-- `commit_offsets` before the repair: retried whatever the closing flag says -/
def commitLoopOld (cfg : Cfg) : Script → Nat × Nat × Script
  | [] => (0, 1, [])
  | a :: rest =>
    match a.ans with
    | .retriable =>
      let (t, n, r) := commitLoopOld cfg rest
      (clamp cfg a + cfg.backoff + t, n + 1, r)
    | _ => (clamp cfg a, 1, rest)

/-- `ensure_coordinator_known` once closing: the loop condition is false, no request is made;
    a lookup already in flight is awaited (its failure is followed by the metadata refresh and a
    backoff, then the loop ends) -/
def lookupTail (cfg : Cfg) (inFlight : Bool) (s : Script) : Nat × Script :=
  if inFlight then
    let (t, ok, r) := oneReq cfg s
    if ok then (t, r) else (t + cfg.nodes * sendMax cfg + cfg.backoff, r)
  else (0, s)

/-- `_push_error_to_user`: the coordination routine hands a non-retriable error (authorization
    failure, unexpected error of the heartbeat / commit-refresh task, …) to the application and
    waits until the application has looked at it with its next API call **or** the coordinator is
    closing.  `none` = still parked.  This is the wait point `Pos.errorWait` below: an application
    that calls `stop()` without polling again (`try: start() … finally: stop()`) never consumes
    the error, only the closing flag ends the wait. -/
def errorWait (closing consumed : Bool) : Option Nat :=
  if closing || consumed then some 0 else none

/-! ## consumer -/

/-- where the coordination routine is when `close()` sets the closing flag -/
inductive Pos where
  | idle          -- waiting for something to happen (stable member, or nothing subscribed)
  | lookup        -- in `ensure_coordinator_known`, a FindCoordinator in flight
  | lookupSleep   -- in `ensure_coordinator_known`, sleeping before the next attempt
  | prepare       -- `_on_join_prepare`: last auto-commit before rejoining
  | joining       -- JoinGroup in flight
  | syncing       -- SyncGroup in flight (the leader may first wait for a metadata refresh)
  | rejoinSleep   -- backoff after a failed rejoin
  | committing    -- periodic auto-commit in flight
  | errorWait     -- waiting for the user to look at an error (ends when closing)
deriving DecidableEq, Repr, Inhabited

/-- what the member's state makes `close()` do -/
structure Flags where
  autoCommit : Bool      -- enable_auto_commit and something to commit
  needRejoin : Bool      -- the iteration under way will (re)join the group
  leader : Bool          -- … and this member computes the assignment
  inGeneration : Bool    -- generation > 0: LeaveGroup is attempted
deriving Repr, Inhabited

def optCommit (cfg : Cfg) (on : Bool) (s : Script) : Nat × Script :=
  if on then let (t, _, r) := commitLoop cfg true s; (t, r) else (0, s)

/-- JoinGroup (at most one MEMBER_ID_REQUIRED round, KIP-394), the leader's metadata wait,
    SyncGroup; a failure ends the attempt, followed by the backoff of `_do_rejoin_group` -/
def rejoinTail (cfg : Cfg) (fl : Flags) (joinsLeft : Nat) (s : Script) : Nat × Script :=
  match joinsLeft with
  | 0 =>
    let md := if fl.leader then cfg.nodes * sendMax cfg else 0
    let (t, ok, r) := oneReq cfg s
    (md + t + (if ok then 0 else cfg.backoff), r)
  | n + 1 =>
    let (t, ok, r) := oneReq cfg s
    if ok then
      let (t', r') := rejoinTail cfg fl n r
      (t + t', r')
    else (t + cfg.backoff, r)

/-- the rest of the iteration of the coordination routine from `pos`, then its finalisation
    (`_maybe_do_last_autocommit`), then `_maybe_leave_group`; heartbeat / commit-refresh task,
    fetcher and client are closed by cancellation -/
def consumerStop (cfg : Cfg) (pos : Pos) (fl : Flags) (s : Script) : Nat :=
  -- 1. what is left of ensure_coordinator_known
  let (t1, s) :=
    match pos with
    | .lookup => lookupTail cfg true s
    | .lookupSleep => (cfg.backoff, s)
    | _ => (0, s)
  -- 2. what is left of ensure_active_group
  let (t2, s) :=
    match pos with
    | .lookup | .lookupSleep =>
      if fl.needRejoin then
        let (a, s) := optCommit cfg fl.autoCommit s
        let (b, s) := rejoinTail cfg fl 2 s
        (a + b, s)
      else (0, s)
    | .prepare =>
      let (a, s) := optCommit cfg fl.autoCommit s
      let (b, s) := rejoinTail cfg fl 2 s
      (a + b, s)
    | .joining => rejoinTail cfg fl 2 s
    | .syncing => rejoinTail cfg fl 0 s
    | .rejoinSleep => (cfg.backoff, s)
    | _ => (0, s)
  -- 3. the periodic auto-commit of this iteration (one attempt)
  let (t3, s) :=
    match pos with
    | .idle | .errorWait | .rejoinSleep => (0, s)
    | _ => optCommit cfg fl.autoCommit s
  -- 4. finalisation: last commit; 5. LeaveGroup (one attempt, failures only logged)
  let (t4, s) := optCommit cfg fl.autoCommit s
  let t5 := if fl.inGeneration then (oneReq cfg s).1 else 0
  t1 + t2 + t3 + t4 + t5

/-- the bound of `consumer.stop()`: 8 requests, two metadata refreshes, three backoffs -/
def consumerBound (cfg : Cfg) : Nat :=
  (8 + 2 * cfg.nodes) * sendMax cfg + 3 * cfg.backoff

/-! ## producer -/

/-- one batch from the moment `stop()` begins: `age` is how long it exists.  A batch of a plain
    producer that is older than the request timeout when the sender drains it is failed
    (`drain_by_nodes`); batches of an idempotent / transactional producer never expire. -/
def flushBatch (cfg : Cfg) (idem : Bool) : Nat → Script → Nat
  | _, [] => 0
  | age, a :: rest =>
    if !idem && decide (cfg.req < age) then 0
    else
      match a.ans with
      | .retriable =>
        clamp cfg a + cfg.backoff + flushBatch cfg idem (age + clamp cfg a + cfg.backoff) rest
      | _ => clamp cfg a

/-- the batches queued for one partition go one after the other -/
def flushQueue (cfg : Cfg) (idem : Bool) : Nat → List Script → Nat
  | _, [] => 0
  | now, b :: bs =>
    let t := flushBatch cfg idem now b
    t + flushQueue cfg idem (now + t) bs

/-- partitions are flushed side by side: `flush()` lasts as long as the slowest -/
def flushAll (cfg : Cfg) (idem : Bool) (parts : List (List Script)) : Nat :=
  parts.foldl (fun acc q => max acc (flushQueue cfg idem 0 q)) 0

/-- `producer.stop()`: flush, then the sender is cancelled and waits for the produce requests
    still in flight (one request and one backoff each, side by side) -/
def producerStop (cfg : Cfg) (idem : Bool) (parts : List (List Script)) : Nat :=
  flushAll cfg idem parts + sendMax cfg + cfg.backoff

def producerBound (cfg : Cfg) : Nat := cfg.req + 2 * (sendMax cfg + cfg.backoff)

/-! ## what is alive -/

inductive Res where
  | coordinationTask | heartbeatTask | commitRefreshTask | resetCommittedTask
  | fetchTask | pendingFetch (sleeping : Bool) | mdSyncTask
  | senderTask | produceTask | flushTask
  | connection (node : Int)        -- transport + reader task + idle timer
deriving DecidableEq, Repr, Inhabited

def isConn : Res → Bool
  | .connection _ => true
  | _ => false

/-- `consumer.stop()` as repaired: every step removes what it awaits or cancels -/
def consumerRelease (alive : List Res) : List Res :=
  -- coordinator.close()
  let a := alive.filter fun r =>
    r != .coordinationTask && r != .heartbeatTask && r != .commitRefreshTask && r != .resetCommittedTask
  -- fetcher.close(): the fetch routine, then every pending task whatever it waits for
  let a := a.filter fun r => match r with
    | .fetchTask => false
    | .pendingFetch _ => false
    | _ => true
  -- client.close()
  a.filter fun r => r != .mdSyncTask && !isConn r

/-- `Fetcher.close()` before the repair: cancelling a task that sleeps in its retry backoff
    raised `CancelledError` out of `close()` — `client.close()` was never reached -/
def consumerReleaseOld (alive : List Res) : List Res :=
  let a := alive.filter fun r =>
    r != .coordinationTask && r != .heartbeatTask && r != .commitRefreshTask && r != .resetCommittedTask
  if a.contains (.pendingFetch true) then
    a.filter fun r => r != .fetchTask
  else
    let a := a.filter fun r => match r with
      | .fetchTask => false
      | .pendingFetch _ => false
      | _ => true
    a.filter fun r => r != .mdSyncTask && !isConn r

def producerRelease (alive : List Res) : List Res :=
  let a := alive.filter fun r => r != .flushTask && r != .senderTask && r != .produceTask
  a.filter fun r => r != .mdSyncTask && !isConn r

/-- resources a consumer / producer creates -/
def consumerRes : Res → Bool
  | .senderTask | .produceTask | .flushTask => false
  | _ => true

def producerRes : Res → Bool
  | .mdSyncTask | .senderTask | .produceTask | .flushTask | .connection _ => true
  | _ => false

/-! ## later calls -/

inductive Call where
  | getone | getmany | iterate | send | sendAndWait | sendBatch
deriving DecidableEq, Repr

inductive Result where
  | proceeds | consumerStopped | producerClosed | stopIteration
deriving DecidableEq, Repr

/-- `getone` / `getmany` / `__aiter__` check `_closed` first (an iteration already under way ends
    with `StopAsyncIteration`); `send` (as repaired) checks `_closed` before it waits for metadata -/
def later (closed : Bool) : Call → Result
  | .getone => if closed then .consumerStopped else .proceeds
  | .getmany => if closed then .consumerStopped else .proceeds
  | .iterate => if closed then .consumerStopped else .proceeds
  | .send => if closed then .producerClosed else .proceeds
  | .sendAndWait => if closed then .producerClosed else .proceeds
  | .sendBatch => if closed then .producerClosed else .proceeds

/-! ## driver -/

def handle : List String → Option String
  | ["bound", "consumer", req, backoff, nodes] => do
    some (toString (consumerBound { req := ← req.toNat?, backoff := ← backoff.toNat?, nodes := ← nodes.toNat? }))
  | ["bound", "producer", req, backoff, nodes] => do
    some (toString (producerBound { req := ← req.toNat?, backoff := ← backoff.toNat?, nodes := ← nodes.toNat? }))
  | _ => none

end AkVerif.Shutdown
