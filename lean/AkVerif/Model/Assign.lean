import AkVerif.Model.Util
/-!
Model of `aiokafka/coordinator/assignors/{range,roundrobin}.py` (C14) and the executable
statement of assignment validity / balance used for all three assignors (incl. sticky).

Topics and members are `Nat` identifiers; the harness uses zero-padded names so that Python's
string order equals the numeric order.  A cluster is an association list topic ↦ partitions
(`None` in Python = absent here); members is the `members` mapping in dict order.
-/
namespace AkVerif.Assign

abbrev Topic := Nat
abbrev Member := Nat

structure Input where
  parts : List (Topic × List Nat)
  members : List (Member × List Topic)
deriving Repr

/-- insertion sort by a `Nat` key (stable, keeps duplicates): `sorted(...)` / `list.sort()`.
    Structural recursion, so the kernel can evaluate it (`decide`). -/
def insertK {α} (k : α → Nat) (a : α) : List α → List α
  | [] => [a]
  | x :: r => if k a < k x then a :: x :: r else x :: insertK k a r

def isortK {α} (k : α → Nat) (l : List α) : List α := l.foldr (insertK k) []

abbrev isort (l : List Nat) : List Nat := isortK id l

/-- sorted set of naturals (duplicates dropped): `sorted(set(...))` -/
def insertU (a : Nat) : List Nat → List Nat
  | [] => [a]
  | x :: r => if a < x then a :: x :: r else if a = x then x :: r else x :: insertU a r

def usort (l : List Nat) : List Nat := l.foldr insertU []

def lookupParts (inp : Input) (t : Topic) : Option (List Nat) :=
  (inp.parts.find? (·.1 == t)).map (·.2)

def subscribed (inp : Input) (m : Member) (t : Topic) : Bool :=
  inp.members.any (fun ms => ms.1 == m && ms.2.contains t)

def memberIds (inp : Input) : List Member := inp.members.map (·.1)

/-- `consumers_per_topic[topic]`, sorted (`consumers_for_topic.sort()`) -/
def consumersFor (inp : Input) (t : Topic) : List Member :=
  isort ((inp.members.filter (fun ms => ms.2.contains t)).map (·.1))

/-- `start = partitions_per_consumer * i + min(i, consumers_with_extra)` -/
def rStart (ppc extra i : Nat) : Nat := ppc * i + min i extra
/-- `length = partitions_per_consumer (+1 if not i + 1 > consumers_with_extra)` -/
def rLen (ppc extra i : Nat) : Nat := ppc + (if i + 1 > extra then 0 else 1)

/-- `partitions_list[start : start + length]` for the `i`-th of `m` consumers -/
def rangeSlice (ps : List Nat) (m i : Nat) : List Nat :=
  (ps.drop (rStart (ps.length / m) (ps.length % m) i)).take (rLen (ps.length / m) (ps.length % m) i)

/-- `assignment[member][topic]` of the range assignor (`[]` also when the entry is absent) -/
def rangeFor (inp : Input) (mem : Member) (t : Topic) : List Nat :=
  match lookupParts inp t with
  | none => []
  | some ps =>
    let cs := consumersFor inp t
    if mem ∈ cs then rangeSlice (isort ps) cs.length (cs.idxOf mem) else []

/-! ### round robin -/

/-- all `TopicPartition`s of subscribed topics with metadata, sorted by (topic, partition) -/
def allTopics (inp : Input) : List Topic :=
  usort (inp.members.flatMap (·.2))

def allTopicPartitions (inp : Input) : List (Topic × Nat) :=
  (allTopics inp).flatMap fun t =>
    match lookupParts inp t with
    | none => []
    | some ps => (isort ps).map (fun p => (t, p))

def sortedMembers (inp : Input) : List (Member × List Topic) :=
  isortK (·.1) inp.members

/-- advance the cyclic iterator from position `pos` until a member subscribed to `t` is found;
    `fuel` bounds the number of `next()` calls (the Python `while` has no bound). -/
def rrFind (ms : List (Member × List Topic)) (t : Topic) : Nat → Nat → Option Nat
  | 0, _ => none
  | fuel + 1, pos =>
    match ms[pos % ms.length]? with
    | none => none
    | some m => if m.2.contains t then some (pos % ms.length) else rrFind ms t fuel (pos + 1)

/-- the loop of `RoundRobinPartitionAssignor.assign`: returns the owner index of every
    partition, in order; `none` = the `while` loop would not terminate -/
def rrLoop (ms : List (Member × List Topic)) : List (Topic × Nat) → Nat →
    Option (List (Nat × (Topic × Nat)))
  | [], _ => some []
  | (t, p) :: rest, pos =>
    match rrFind ms t ms.length pos with
    | none => none
    | some j =>
      match rrLoop ms rest (j + 1) with
      | none => none
      | some r => some ((j, (t, p)) :: r)

def rrOwners (inp : Input) : Option (List (Nat × (Topic × Nat))) :=
  rrLoop (sortedMembers inp) (allTopicPartitions inp) 0

/-! ### output as the library returns it: per member (dict order) the sorted
    `(topic, partitions)` items -/

abbrev Output := List (Member × List (Topic × List Nat))

def insertSorted (t : Topic) (ps : List Nat) : List (Topic × List Nat) → List (Topic × List Nat)
  | [] => [(t, ps)]
  | (t', ps') :: r => if t < t' then (t, ps) :: (t', ps') :: r
                      else if t = t' then (t, ps) :: r else (t', ps') :: insertSorted t ps r

/-- range: a member has an item for every subscribed topic that has metadata (possibly `[]`) -/
def rangeOutput (inp : Input) : Output :=
  inp.members.map fun ms =>
    (ms.1, ((usort ms.2).filter (fun t => (lookupParts inp t).isSome)).map
      (fun t => (t, rangeFor inp ms.1 t)))

def groupByTopic (xs : List (Topic × Nat)) : List (Topic × List Nat) :=
  xs.foldl (fun acc tp =>
    match acc.find? (·.1 == tp.1) with
    | some (_, ps) => insertSorted tp.1 (ps ++ [tp.2]) acc
    | none => insertSorted tp.1 [tp.2] acc) []

def rrOutput (inp : Input) : Option Output :=
  match rrOwners inp with
  | none => none
  | some owners =>
    let sm := sortedMembers inp
    some (inp.members.map fun ms =>
      (ms.1, groupByTopic ((owners.filter (fun o => (sm[o.1]?.map (·.1)) == some ms.1)).map (·.2))))

/-! ### the property as an executable statement over an observed output -/

def outFor (out : Output) (m : Member) (t : Topic) : List Nat :=
  match out.find? (·.1 == m) with
  | none => []
  | some (_, items) => (items.filter (·.1 == t)).flatMap (·.2)

/-- exact cover: every partition of every subscribed topic with metadata is owned exactly once
    (counting over all members and all their items) -/
def coverB (inp : Input) (out : Output) : Bool :=
  (allTopics inp).all fun t =>
    match lookupParts inp t with
    | none => true
    | some ps => ps.all fun p =>
        ((out.flatMap fun mo => (mo.2.filter (·.1 == t)).flatMap (·.2)).count p) == 1

/-- nothing else: every assigned (t, p) has metadata, p is a partition of t, the owner is a
    member subscribed to t -/
def nothingElseB (inp : Input) (out : Output) : Bool :=
  out.all fun mo => mo.2.all fun tp => tp.2.all fun p =>
    subscribed inp mo.1 tp.1 &&
    (match lookupParts inp tp.1 with | none => false | some ps => ps.contains p)

def loadOf (out : Output) (m : Member) : Nat :=
  match out.find? (·.1 == m) with
  | none => 0
  | some (_, items) => (items.flatMap (·.2)).length

def loadOfTopic (out : Output) (m : Member) (t : Topic) : Nat := (outFor out m t).length

/-- range: within each topic, loads of members subscribed to it differ by at most one -/
def rangeBalancedB (inp : Input) (out : Output) : Bool :=
  (allTopics inp).all fun t =>
    (lookupParts inp t).isNone ||
    (memberIds inp).all fun a => (memberIds inp).all fun b =>
      !(subscribed inp a t && subscribed inp b t) ||
      loadOfTopic out a t ≤ loadOfTopic out b t + 1

/-- total loads within one of each other (round robin with identical subscriptions) -/
def totalBalancedB (inp : Input) (out : Output) : Bool :=
  (memberIds inp).all fun a => (memberIds inp).all fun b => loadOf out a ≤ loadOf out b + 1

/-- KIP-54 balance: no member could take a partition it is subscribed to from a member holding
    at least two more than it -/
def kip54B (inp : Input) (out : Output) : Bool :=
  out.all fun mo => mo.2.all fun tp => tp.2.isEmpty ||
    (memberIds inp).all fun b =>
      !(subscribed inp b tp.1) || loadOf out mo.1 < loadOf out b + 2

def identicalSubs (inp : Input) : Bool :=
  match inp.members with
  | [] => true
  | m :: r => r.all fun x => x.2.all (m.2.contains ·) && m.2.all (x.2.contains ·)

/-! ### driver -/
open AkVerif.Util

/-- `t:p,p;t:-` → parts (a topic without metadata is simply not listed) -/
def parseParts (s : String) : Option (List (Topic × List Nat)) :=
  if s == "-" then some [] else
  (s.splitOn ";").mapM fun item =>
    match item.splitOn ":" with
    | [t, ps] => do some ((← t.toNat?), (← parseNatList ps))
    | _ => none

def parseMembers (s : String) : Option (List (Member × List Topic)) := parseParts s

def showItems (items : List (Topic × List Nat)) : String :=
  if items.isEmpty then "-" else ";".intercalate (items.map fun (t, ps) => s!"{t}:{showList ps}")

def showOutput (out : Output) : String :=
  if out.isEmpty then "-" else "|".intercalate (out.map fun (m, items) => s!"{m}={showItems items}")

def parseOutput (s : String) : Option Output :=
  if s == "-" then some [] else
  (s.splitOn "|").mapM fun mo =>
    match mo.splitOn "=" with
    | [m, items] => do some ((← m.toNat?), (← parseParts items))
    | _ => none

def handle : List String → Option String
  | ["range", ps, ms] => do
    let inp : Input := ⟨← parseParts ps, ← parseMembers ms⟩
    some (showOutput (rangeOutput inp))
  | ["rr", ps, ms] => do
    let inp : Input := ⟨← parseParts ps, ← parseMembers ms⟩
    match rrOutput inp with
    | some o => some (showOutput o)
    | none => some "no-termination"
  | ["holds", kind, ps, ms, out] => do
    let inp : Input := ⟨← parseParts ps, ← parseMembers ms⟩
    let out ← parseOutput out
    let base := [("cover", coverB inp out), ("nothing-else", nothingElseB inp out)]
    let extra := match kind with
      | "range" => [("range-balanced", rangeBalancedB inp out)]
      | "rr" => [("rr-balanced", !(identicalSubs inp) || totalBalancedB inp out)]
      | "sticky" => [("kip54", kip54B inp out)]
      | _ => []
    let failed := (base ++ extra).filter (fun x => !x.2)
    some (if failed.isEmpty then "true" else "false:" ++ ",".intercalate (failed.map (·.1)))
  | _ => none

end AkVerif.Assign
