import AkVerif.Model.Util
/-!
Model of the isolation filter of the consumer (C08): `PartitionRecords._unpack_records`,
`_consume_aborted_up_to`, `_contains_abort_marker` (aiokafka/consumer/fetcher.py), together with
the broker side it is fed by: a partition log of v2 batches of several producers (plain,
transactional, markers; compaction = removed batches / removed records / emptied marker batches),
the cut of that log into one fetch response, Kafka's aborted-transaction index, and the ground
truth "which records is a consumer of this isolation level entitled to".

A record is identified by its offset.  A batch keeps its base and last offset under compaction
(message format v2), only the list of remaining record offsets shrinks; a batch that was removed
altogether stays in the abstract log with `present = false` (the transaction structure of the
log — which marker decides which batch, where a transaction began — is that of the original log).
-/
namespace AkVerif.Iso

abbrev Pid := Int

inductive Kind where
  | data | commit | abort
deriving DecidableEq, Repr, Inhabited

structure Batch where
  base : Nat
  last : Nat
  pid : Pid                -- producer id (−1 for a non-idempotent producer)
  txn : Bool               -- attribute bit `is_transactional`
  kind : Kind              -- data batch, or control batch holding a COMMIT / ABORT marker
  recs : List Nat          -- offsets of the records still in the batch
  present : Bool           -- false: the whole batch was removed by compaction
deriving DecidableEq, Repr, Inhabited

inductive Level where
  | ru | rc
deriving DecidableEq, Repr, Inhabited

def Batch.isCtrl (b : Batch) : Bool := b.kind != .data
def Batch.isTxnData (b : Batch) : Bool := b.kind == .data && b.txn

/-- `_contains_abort_marker`: the first record of the control batch exists and is an ABORT
    marker.  (An emptied control batch — compaction keeps the header of a producer's last batch —
    holds no marker: the repaired code answers `False`, as the Java client does.) -/
def Batch.abortRec (b : Batch) : Bool := b.kind == .abort && !b.recs.isEmpty

/-! ## the client -/

structure CS where
  idx : List (Pid × Nat)   -- `_aborted_transactions`: (producer id, first offset), sorted by first offset
  ap : List Pid            -- `_aborted_producers` (a set)
  nfo : Nat                -- `next_fetch_offset`
deriving Repr, Inhabited

/-- the per-record loop of one data batch: records below the position are skipped, the position
    moves past every record handed out.  Returns (position, offsets handed out). -/
def deliver : Nat → List Nat → Nat × List Nat
  | nfo, [] => (nfo, [])
  | nfo, o :: r =>
    if o < nfo then deliver nfo r
    else ((deliver (o + 1) r).1, o :: (deliver (o + 1) r).2)

/-- one turn of the `while records.has_next()` loop -/
def stepB (lvl : Level) (s : CS) (b : Batch) : CS × List Nat :=
  let s1 : CS :=
    match lvl with
    | .ru => s
    | .rc =>
      -- _consume_aborted_up_to(next_batch.base_offset)
      let ap1 := (s.idx.takeWhile (fun e => e.2 ≤ b.base)).map (·.1) ++ s.ap
      let idx1 := s.idx.dropWhile (fun e => e.2 ≤ b.base)
      -- abort marker: _aborted_producers.discard(producer_id)
      let ap2 := if b.isCtrl && b.abortRec then ap1.filter (· != b.pid) else ap1
      { s with idx := idx1, ap := ap2 }
  if lvl == .rc && b.txn && s1.ap.contains b.pid then
    ({ s1 with nfo := b.last + 1 }, [])            -- aborted batch skipped
  else if b.isCtrl then
    ({ s1 with nfo := b.last + 1 }, [])            -- control batches skipped at every level
  else
    ({ s1 with nfo := b.last + 1 }, (deliver s1.nfo b.recs).2)

def run (lvl : Level) : CS → List Batch → CS × List Nat
  | s, [] => (s, [])
  | s, b :: r => ((run lvl (stepB lvl s b).1 r).1, (stepB lvl s b).2 ++ (run lvl (stepB lvl s b).1 r).2)

/-- `sorted(aborted_transactions, key=lambda x: x[1])` (stable insertion sort) -/
def insIdx (e : Pid × Nat) : List (Pid × Nat) → List (Pid × Nat)
  | [] => [e]
  | a :: r => if e.2 < a.2 then e :: a :: r else a :: insIdx e r

def sortIdx (l : List (Pid × Nat)) : List (Pid × Nat) := l.foldr insIdx []

/-- a fresh `PartitionRecords(records, aborted_transactions, fetch_offset, isolation_level)`
    iterated to exhaustion: (offsets of the records yielded, final `next_fetch_offset`) -/
def unpack (lvl : Level) (idx : List (Pid × Nat)) (f : Nat) (rs : List Batch) : List Nat × Nat :=
  ((run lvl ⟨sortIdx idx, [], f⟩ rs).2, (run lvl ⟨sortIdx idx, [], f⟩ rs).1.nfo)

/-- position after the consumer took only the first `k` records of the response (`getone`,
    `getmany(max_records)`): the iterator is suspended right after the `k`-th record -/
def partialPos (f : Nat) (r : List Nat × Nat) (k : Nat) : Nat :=
  match k with
  | 0 => f
  | k + 1 => match r.1[k]? with
    | some o => o + 1
    | none => r.2

/-! ## the broker: fetch response, transaction outcome, aborted-transaction index -/

/-- data returned for a fetch from `f` cut at `e`: the batches still present whose last offset is
    at or after `f` and which begin below `e` (whole batches only) -/
def resp (L : List Batch) (f e : Nat) : List Batch :=
  L.filter (fun b => b.present && decide (f ≤ b.last) && decide (b.base < e))

def isMarkerOf (p : Pid) (x : Nat) (m : Batch) : Bool :=
  m.pid == p && m.kind != .data && decide (x < m.base)

/-- the first marker of producer `p` above offset `x` -/
def nextMarker (L : List Batch) (p : Pid) (x : Nat) : Option Batch := L.find? (isMarkerOf p x)

/-- how the transaction of the transactional batch `b` ended: the next marker of its producer -/
def outcome (L : List Batch) (b : Batch) : Option Kind := (nextMarker L b.pid b.base).map (·.kind)

/-- ground truth of read_committed for one batch: data, and non-transactional or committed -/
def visibleRc (L : List Batch) (b : Batch) : Bool :=
  b.kind == .data && (!b.txn || outcome L b == some .commit)

def visible (lvl : Level) (L : List Batch) (b : Batch) : Bool :=
  match lvl with
  | .ru => b.kind == .data
  | .rc => visibleRc L b

/-- what a consumer of level `lvl` positioned at `f` is entitled to from the log below `e` -/
def truth (lvl : Level) (L : List Batch) (f e : Nat) : List Nat :=
  (resp L f e).flatMap (fun b => if visible lvl L b then b.recs.filter (fun o => decide (f ≤ o)) else [])

/-- offset the position must reach after the response: one past its last batch
    (`f` itself for an empty response) -/
def respEnd (f : Nat) : List Batch → Nat
  | [] => f
  | b :: r => respEnd (b.last + 1) r

/-- `b0` is a transactional data batch of `p` below `x` with no marker of `p` in between:
    it belongs to the transaction of `p` that is open just below `x` -/
def sameRun (L : List Batch) (p : Pid) (x : Nat) (b0 : Batch) : Bool :=
  b0.pid == p && b0.isTxnData && decide (b0.base < x) &&
    !(L.any (fun m => isMarkerOf p b0.base m && decide (m.base < x)))

/-- an entry of the broker's transaction index (aborted transactions only) -/
structure ATxn where
  pid : Pid
  first : Nat              -- base offset of the first batch of the transaction (original log)
  marker : Nat             -- offset of its ABORT marker
  markerLive : Bool        -- the marker batch is still in the log and still holds its record
  dataLive : Bool          -- some data batch of the transaction is still in the log
deriving DecidableEq, Repr, Inhabited

def abortedTxns (L : List Batch) : List ATxn :=
  L.filterMap (fun m =>
    if m.kind == .abort then
      (L.find? (sameRun L m.pid m.base)).map (fun b0 =>
        { pid := m.pid, first := b0.base, marker := m.base,
          markerLive := m.present && !m.recs.isEmpty,
          dataLive := L.any (fun b => b.present && sameRun L m.pid m.base b) })
    else none)

/-- the aborted-transaction list of a fetch response (Kafka `collectAbortedTxns` + log cleaner):
    only aborted transactions whose marker is at or above the fetch offset and still in the log;
    every such transaction that begins below the end of the returned data and still has data;
    order irrelevant -/
def idxOk (L : List Batch) (f e : Nat) (idx : List (Pid × Nat)) : Bool :=
  idx.all (fun t => (abortedTxns L).any (fun a =>
    a.pid == t.1 && a.first == t.2 && decide (f ≤ a.marker) && a.markerLive)) &&
  (abortedTxns L).all (fun a =>
    !(decide (f ≤ a.marker) && decide (a.first < e) && a.dataLive) || idx.contains (a.pid, a.first))

/-- read_committed responses are bounded by the last stable offset: every transactional data
    batch returned is decided -/
def decidedB (L : List Batch) (f e : Nat) : Bool :=
  (resp L f e).all (fun b => !b.isTxnData || (outcome L b).isSome)

/-- last stable offset: first offset of the earliest open transaction, else the given log end -/
def lso (L : List Batch) (hw : Nat) : Nat :=
  match L.find? (fun b => b.isTxnData && (outcome L b).isNone) with
  | some b => b.base
  | none => hw

/-- a consumer session: fetch at the position, consume the response, fetch again from the new
    position.  Each step carries the cut point and the aborted-transaction list the broker chose
    for that fetch.  Result: everything delivered, final position. -/
def session (lvl : Level) (L : List Batch) : Nat → List (Nat × List (Pid × Nat)) → List Nat × Nat
  | f, [] => ([], f)
  | f, c :: cs =>
    ((unpack lvl c.2 f (resp L f c.1)).1 ++ (session lvl L (unpack lvl c.2 f (resp L f c.1)).2 cs).1,
     (session lvl L (unpack lvl c.2 f (resp L f c.1)).2 cs).2)

/-! ## executable well-formedness (used by the driver to validate the generator) -/

def sortedB : List Batch → Bool
  | [] => true
  | b :: r => r.all (fun c => decide (b.last < c.base)) && sortedB r

def incB : List Nat → Bool
  | [] => true
  | o :: r => r.all (fun o' => decide (o < o')) && incB r

def wfBatchB (b : Batch) : Bool :=
  decide (b.base ≤ b.last) && b.recs.all (fun o => decide (b.base ≤ o) && decide (o ≤ b.last)) && incB b.recs

def wfB (L : List Batch) : Bool := sortedB L && L.all wfBatchB

/-- the property itself on an observation: what the implementation delivered from this response
    and where it left the position -/
def holds (lvl : Level) (L : List Batch) (f e : Nat) (delivered : List Nat) (nfo : Nat) : Bool :=
  delivered == truth lvl L f e && nfo == respEnd f (resp L f e) &&
    ((resp L f e).isEmpty || decide (f < nfo))

/-- what holds of any batch sequence and any index (no broker semantics): only records of data
    batches are handed out, the position ends one past the last batch, and it moved forward if
    every batch reaches the fetch offset -/
def holdsRaw (f : Nat) (rs : List Batch) (delivered : List Nat) (nfo : Nat) : Bool :=
  delivered.all (fun o => rs.any (fun b => b.kind == .data && b.recs.contains o)) &&
    nfo == respEnd f rs &&
    (rs.isEmpty || !(rs.all (fun b => decide (f ≤ b.last))) || decide (f < nfo))

/-- the first `k` records only (`none` = iterated to exhaustion) -/
def takeK (f : Nat) (r : List Nat × Nat) : Option Nat → List Nat × Nat
  | none => r
  | some k => (r.1.take k, partialPos f r k)

def parseTake (s : String) : Option (Option Nat) :=
  if s == "all" then some none else s.toNat?.map some

/-! ## line protocol -/
open AkVerif.Util

def parseKind : String → Option Kind
  | "d" => some .data | "c" => some .commit | "a" => some .abort | _ => none

def parseBool : String → Option Bool
  | "T" => some true | "F" => some false | _ => none

/-- `base:last:pid:T|F:d|c|a:T|F:recs` with recs `.`-separated or `-` -/
def parseBatch (s : String) : Option Batch :=
  match s.splitOn ":" with
  | [b, l, p, t, k, pr, rs] => do
    let base ← b.toNat?
    let last ← l.toNat?
    let pid ← p.toInt?
    let txn ← parseBool t
    let kind ← parseKind k
    let present ← parseBool pr
    let recs ← if rs == "-" then some [] else (rs.splitOn ".").mapM (·.toNat?)
    some { base, last, pid, txn, kind, recs, present }
  | _ => none

def parseLog (s : String) : Option (List Batch) :=
  if s == "-" then some [] else (s.splitOn ";").mapM parseBatch

def parseIdx (s : String) : Option (List (Pid × Nat)) :=
  if s == "-" then some [] else
    (s.splitOn ",").mapM (fun e => match e.splitOn ":" with
      | [p, f] => do some ((← p.toInt?), (← f.toNat?))
      | _ => none)

def parseLevel : String → Option Level
  | "rc" => some .rc | "ru" => some .ru | _ => none

def showB (b : Bool) : String := if b then "T" else "F"

/-- `fetch lvl f e idx log` →
    `<delivered> <nfo> | truth=<offsets> end=<n> resp=<bases> wf=<T|F> idx=<T|F> dec=<T|F>` -/
def handle : List String → Option String
  | ["fetch", lvl, f, e, idx, log, tk] => do
    let lvl ← parseLevel lvl
    let f ← f.toNat?
    let e ← e.toNat?
    let idx ← parseIdx idx
    let L ← parseLog log
    let tk ← parseTake tk
    let r := takeK f (unpack lvl idx f (resp L f e)) tk
    some (showList r.1 ++ " " ++ toString r.2 ++ " | truth=" ++ showList (truth lvl L f e) ++
      " end=" ++ toString (respEnd f (resp L f e)) ++
      " resp=" ++ showList ((resp L f e).map (·.base)) ++
      " wf=" ++ showB (wfB L) ++ " idx=" ++ showB (idxOk L f e idx) ++
      " dec=" ++ showB (decidedB L f e) ++ " lso=" ++ toString (lso L 0))
  | ["raw", lvl, f, idx, log, tk] => do
    -- the client alone on an arbitrary batch sequence (faulty stream: no broker semantics)
    let lvl ← parseLevel lvl
    let f ← f.toNat?
    let idx ← parseIdx idx
    let L ← parseLog log
    let tk ← parseTake tk
    let r := takeK f (unpack lvl idx f L) tk
    some (showList r.1 ++ " " ++ toString r.2)
  | ["holdsraw", f, log, delivered, nfo] => do
    let f ← f.toNat?
    let L ← parseLog log
    let d ← parseNatList delivered
    let nfo ← nfo.toNat?
    some (showB (holdsRaw f L d nfo))
  | ["holds", lvl, f, e, log, delivered, nfo] => do
    let lvl ← parseLevel lvl
    let f ← f.toNat?
    let e ← e.toNat?
    let L ← parseLog log
    let d ← parseNatList delivered
    let nfo ← nfo.toNat?
    some (showB (holds lvl L f e d nfo))
  | ["index", log] => do
    let L ← parseLog log
    some (showList ((abortedTxns L).map fun a =>
      s!"{a.pid}:{a.first}:{a.marker}:{showB a.markerLive}:{showB a.dataLive}"))
  | _ => none

end AkVerif.Iso
