import AkVerif.Model.Util
/-!
Model of the consumer's delivery path (C03) and of its start-position logic (C13):

* `PartitionRecords._unpack_records` — the generator that walks the batches of one fetch response
  (`items`, `gnext`, `drain`);
* `FetchResult.check_assignment / getone / getall` and `TopicPartitionState`
  (`position / reset strategy / paused`, `await_reset`, `reset_to`, `seek`, `consumed_to`) — `PSt`
  and its operations;
* the guards of `Fetcher._proc_fetch_request` (response accepted only while the position still
  equals the requested offset; `OffsetOutOfRange` per policy; `RecordTooLarge`), of
  `Fetcher._update_fetch_positions` (re-checks after each await) and `seek_to` /
  `request_offset_reset` — `step`;
* `Fetcher.next_record / fetched_records` over the ordered `_records` dictionary — `FSt`.

A batch is abstract: its offset range, whether it is skipped wholesale (control batch; at
read_committed also a batch of an aborted transaction — that decision is property C08's), and the
offsets of the records that are present (compaction removes records; a compressed v0/v1 wrapper is
one batch whose `next` is the wrapper offset + 1).
-/
namespace AkVerif.Consume

structure Batch where
  base : Nat
  next : Nat          -- `next_offset`: last offset of the batch + 1
  skip : Bool
  recs : List Nat
deriving Repr, BEq, DecidableEq, Inhabited

/-- what the generator still has to look at: a record, or the end of a batch
    (`self.next_fetch_offset = next_batch.next_offset`) -/
inductive Item where
  | record (o : Nat)
  | endb (n : Nat)
deriving Repr, BEq, DecidableEq, Inhabited

def batchItems (b : Batch) : List Item :=
  (if b.skip then [] else b.recs.map Item.record) ++ [Item.endb b.next]

def items : List Batch → List Item
  | [] => []
  | b :: r => batchItems b ++ items r

/-- one `next()` of `_unpack_records`, started with `next_fetch_offset = nfo`:
    the record yielded (if any), the new `next_fetch_offset`, what is left -/
def gnext : Nat → List Item → Option Nat × Nat × List Item
  | nfo, [] => (none, nfo, [])
  | nfo, Item.record o :: r => if o < nfo then gnext nfo r else (some o, o + 1, r)
  | _, Item.endb n :: r => gnext n r

/-- run the generator to the end: everything it yields and the final `next_fetch_offset` -/
def drain : Nat → List Item → List Nat × Nat
  | nfo, [] => ([], nfo)
  | nfo, Item.record o :: r =>
    if o < nfo then drain nfo r else ((drain (o + 1) r).1.cons o, (drain (o + 1) r).2)
  | _, Item.endb n :: r => drain n r

/-- `for msg in records: … if len(ret) >= max: break` — up to `k` records; the flag says whether
    the generator was exhausted (the `else:` branch of the `for`) -/
def gtake : Nat → Nat → List Item → List Nat × Nat × List Item × Bool
  | 0, nfo, pend => ([], nfo, pend, false)
  | k + 1, nfo, pend =>
    match gnext nfo pend with
    | (none, nfo', _) => ([], nfo', [], true)
    | (some o, nfo', r) =>
      let t := gtake k nfo' r
      (o :: t.1, t.2.1, t.2.2.1, t.2.2.2)

/-! ## ground truth -/

/-- the records a reader of the log must see, in log order -/
def visible : List Batch → List Nat
  | [] => []
  | b :: r => (if b.skip then [] else b.recs) ++ visible r

/-! ## one partition -/

structure Gen where
  nfo : Nat
  pend : List Item
deriving Repr, BEq, DecidableEq, Inhabited

/-- an entry of `Fetcher._records` -/
inductive Entry where
  | res (g : Gen)          -- FetchResult
  | err (code : Nat)       -- FetchError: 1 OffsetOutOfRange, 2 NoOffsetForPartition, 3 RecordTooLarge
deriving Repr, BEq, DecidableEq, Inhabited

structure PSt where
  active : Bool := true           -- the assignment this state belongs to is still the current one
  pos : Option Nat := none        -- `_position` (none: no valid position)
  strat : Option Int := none      -- `_reset_strategy` (-1 latest, -2 earliest)
  paused : Bool := false
  buf : Option Entry := none      -- `_records[tp]`
  -- ghost
  start : Option Nat := none      -- the last seek target / reset result
  delivered : List Nat := []      -- offsets handed out since `start` was set, newest first
deriving Repr, BEq, DecidableEq, Inhabited

inductive Res where
  | unit
  | nothing                 -- `None` / `[]`
  | one (o : Nat)
  | many (l : List Nat)
  | raised (code : Nat)
  | assertion               -- an `assert` of the code fails (AssertionError escapes)
deriving Repr, BEq, DecidableEq, Inhabited

/-- a partition's part of a fetch response -/
inductive Reply where
  | data (resp : List Batch)     -- NoError; `resp = []`: empty record set
  | tooLarge                     -- NoError, no complete batch but bytes present
  | outOfRange
  | otherError                   -- retriable / unexpected code: nothing happens
deriving Repr, BEq, DecidableEq, Inhabited

inductive Op where
  | reply (f : Nat) (r : Reply)          -- `_proc_fetch_request`, partition fetched at offset `f`
  | getone                               -- `FetchResult.getone` (buffer must hold a result)
  | getall (max : Nat)                   -- `FetchResult.getall`; 0 = no limit
  | raise                                -- `FetchError.check_raise` after removal from `_records`
  | seek (x : Nat)                       -- `Fetcher.seek_to`
  | seekTo (strategy : Int)              -- `Fetcher.request_offset_reset` (seek_to_beginning/end)
  | pause
  | resume
  | unassign
  | committed (v : Option Nat)           -- `_update_fetch_positions` resumes with the committed offset
  | offsets (sent : Int) (off : Nat)     -- … resumes with the ListOffsets answer asked for `sent`
deriving Repr, BEq, DecidableEq, Inhabited

def PSt.awaitReset (s : PSt) (st : Int) : PSt := { s with strat := some st, pos := none }

def PSt.resetTo (s : PSt) (x : Nat) : PSt :=
  { s with pos := some x, strat := none, start := some x, delivered := [] }

/-- `check_assignment`: `none` = the `assert` inside `tp_state.position` fails -/
def PSt.check (s : PSt) (g : Gen) : Option Bool :=
  if !s.active then some false
  else if s.paused then some false
  else match s.pos with
    | none => none
    | some p => some (p == g.nfo)

def PSt.getone (s : PSt) (g : Gen) : PSt × Res :=
  match s.check g with
  | none => (s, Res.assertion)
  | some false => ({ s with buf := none }, Res.nothing)
  | some true =>
    match gnext g.nfo g.pend with
    | (some o, nfo', r) =>
      ({ s with pos := some nfo', buf := some (Entry.res ⟨nfo', r⟩), delivered := o :: s.delivered },
       Res.one o)
    | (none, nfo', _) => ({ s with pos := some nfo', buf := none }, Res.nothing)

def PSt.getall (s : PSt) (g : Gen) (max : Nat) : PSt × Res :=
  match s.check g with
  | none => (s, Res.assertion)
  | some false => ({ s with buf := none }, Res.nothing)
  | some true =>
    let t := gtake (if max = 0 then g.pend.length + 1 else max) g.nfo g.pend
    ({ s with pos := some t.2.1,
              buf := if t.2.2.2 then none else some (Entry.res ⟨t.2.1, t.2.2.1⟩),
              delivered := t.1.reverse ++ s.delivered },
     if t.1.isEmpty then Res.nothing else Res.many t.1)

/-- `_set_error`: `assert tp not in self._records` -/
def PSt.setError (s : PSt) (code : Nat) : PSt × Res :=
  match s.buf with
  | some _ => (s, Res.assertion)
  | none => ({ s with buf := some (Entry.err code) }, Res.unit)

/-- the pending reset asked for by the policy (`auto_offset_reset`), or the error entry -/
def PSt.resetOrError (policy : Option Int) (s : PSt) (code : Nat) : PSt × Res :=
  match policy with
  | some st => (s.awaitReset st, Res.unit)
  | none => s.setError code

/-- `guarded = true` is the repaired `_update_fetch_positions`: a ListOffsets answer is applied
    only if the partition still waits for the strategy that was asked for. -/
def step (guarded : Bool) (policy : Option Int) (s : PSt) : Op → PSt × Res
  | Op.reply f r =>
    if !s.active then (s, Res.unit)
    else if s.pos != some f then (s, Res.unit)
    else match r with
      | Reply.data resp =>
        if resp.isEmpty then (s, Res.unit)
        else ({ s with buf := some (Entry.res ⟨f, items resp⟩) }, Res.unit)
      | Reply.tooLarge =>
        match s.setError 3 with
        | (s', Res.unit) => ({ s' with pos := some (f + 1) }, Res.unit)
        | x => x
      | Reply.outOfRange => s.resetOrError policy 1
      | Reply.otherError => (s, Res.unit)
  | Op.getone =>
    match s.buf with
    | some (Entry.res g) => s.getone g
    | _ => (s, Res.nothing)
  | Op.getall max =>
    match s.buf with
    | some (Entry.res g) => s.getall g max
    | _ => (s, Res.nothing)
  | Op.raise =>
    match s.buf with
    | some (Entry.err c) => ({ s with buf := none }, Res.raised c)
    | _ => (s, Res.nothing)
  | Op.seek x =>
    ({ s with pos := some x, strat := none, buf := none, start := some x, delivered := [] }, Res.unit)
  | Op.seekTo st => ({ s.awaitReset st with buf := none }, Res.unit)
  | Op.pause => ({ s with paused := true }, Res.unit)
  | Op.resume => ({ s with paused := false }, Res.unit)
  | Op.unassign => ({ s with active := false }, Res.unit)
  | Op.committed v =>
    if s.pos.isSome || s.strat.isSome then (s, Res.unit)
    else match v with
      | some c => (s.resetTo c, Res.unit)
      | none => s.resetOrError policy 2
  | Op.offsets sent off =>
    match s.strat with
    | none => (s, Res.unit)
    | some cur => if guarded && cur != sent then (s, Res.unit) else (s.resetTo off, Res.unit)

def run (guarded : Bool) (policy : Option Int) (s : PSt) (ops : List Op) : PSt :=
  ops.foldl (fun st op => (step guarded policy st op).1) s

/-! ## the fetcher: several partitions and the ordered `_records` dictionary -/

structure FSt where
  parts : List PSt := []           -- index = partition number
  order : List Nat := []           -- keys of `_records`, insertion order
deriving Repr, Inhabited

def setAt {α} : List α → Nat → α → List α
  | [], _, _ => []
  | _ :: r, 0, x => x :: r
  | a :: r, i + 1, x => a :: setAt r i x

/-- write a partition state back; the dictionary keeps the place of an existing key, a new key
    goes to the end, a deleted key disappears -/
def FSt.put (st : FSt) (tp : Nat) (ps : PSt) : FSt :=
  { parts := setAt st.parts tp ps,
    order := if ps.buf.isSome then (if st.order.contains tp then st.order else st.order ++ [tp])
             else st.order.filter (· != tp) }

inductive FRes where
  | unit
  | blocked                          -- `next_record` would wait for data
  | handed (tp : Nat) (o : Nat)
  | recs (l : List (Nat × List Nat))
  | raised (tp : Nat) (code : Nat)
  | assertion
  | bad                              -- no such partition
deriving Repr, BEq, DecidableEq, Inhabited

def FSt.pstep (g : Bool) (policy : Option Int) (st : FSt) (tp : Nat) (op : Op) : FSt × Res :=
  match st.parts[tp]? with
  | none => (st, Res.nothing)
  | some ps => let r := step g policy ps op; (st.put tp r.1, r.2)

/-- the `for tp in list(self._records.keys())` loop of `next_record` -/
def nextLoop (g : Bool) (policy : Option Int) (filter : List Nat) : List Nat → FSt → FSt × FRes
  | [], st => (st, FRes.blocked)
  | tp :: ks, st =>
    if !filter.isEmpty && !filter.contains tp then nextLoop g policy filter ks st
    else match st.parts[tp]? with
      | none => nextLoop g policy filter ks st
      | some ps =>
        match ps.buf with
        | none => nextLoop g policy filter ks st
        | some (Entry.err _) =>
          match st.pstep g policy tp Op.raise with
          | (st', Res.raised c) => (st', FRes.raised tp c)
          | (st', _) => nextLoop g policy filter ks st'
        | some (Entry.res _) =>
          match st.pstep g policy tp Op.getone with
          | (st', Res.one o) => (st', FRes.handed tp o)
          | (st', Res.assertion) => (st', FRes.assertion)
          | (st', _) => nextLoop g policy filter ks st'

def FSt.nextRecord (g : Bool) (policy : Option Int) (st : FSt) (filter : List Nat) : FSt × FRes :=
  nextLoop g policy filter st.order st

/-- the loop of `fetched_records` (timeout 0); `max = 0`: no limit; `acc` newest first -/
def manyLoop (g : Bool) (policy : Option Int) (filter : List Nat) :
    List Nat → Nat → List (Nat × List Nat) → FSt → FSt × FRes
  | [], _, acc, st => (st, FRes.recs acc.reverse)
  | tp :: ks, max, acc, st =>
    if !filter.isEmpty && !filter.contains tp then manyLoop g policy filter ks max acc st
    else match st.parts[tp]? with
      | none => manyLoop g policy filter ks max acc st
      | some ps =>
        match ps.buf with
        | none => manyLoop g policy filter ks max acc st
        | some (Entry.err _) =>
          if !acc.isEmpty then (st, FRes.recs acc.reverse)
          else match st.pstep g policy tp Op.raise with
            | (st', Res.raised c) => (st', FRes.raised tp c)
            | (st', _) => manyLoop g policy filter ks max acc st'
        | some (Entry.res _) =>
          match st.pstep g policy tp (Op.getall max) with
          | (st', Res.many l) =>
            if max = 0 then manyLoop g policy filter ks 0 ((tp, l) :: acc) st'
            else if max - l.length = 0 then (st', FRes.recs ((tp, l) :: acc).reverse)
            else manyLoop g policy filter ks (max - l.length) ((tp, l) :: acc) st'
          -- an exception while draining this partition: what was drained from the others is
          -- returned, the error is raised again by a following call (as for a stored FetchError)
          | (st', Res.assertion) => if !acc.isEmpty then (st', FRes.recs acc.reverse) else (st', FRes.assertion)
          | (st', _) => manyLoop g policy filter ks max acc st'

def FSt.fetchedRecords (g : Bool) (policy : Option Int) (st : FSt) (filter : List Nat) (max : Nat) :
    FSt × FRes :=
  manyLoop g policy filter st.order max [] st

inductive FOp where
  | part (tp : Nat) (op : Op)            -- an operation on one partition
  | next (filter : List Nat)             -- `next_record(partitions)`
  | many (filter : List Nat) (max : Nat) -- `fetched_records(partitions, 0, max)`
  | position (tp : Nat)
deriving Repr, Inhabited

def fstep (g : Bool) (policy : Option Int) (st : FSt) : FOp → FSt × String
  | FOp.part tp op =>
    match st.parts[tp]? with
    | none => (st, "bad")
    | some _ =>
      let r := st.pstep g policy tp op
      (r.1, match r.2 with | Res.assertion => "assert" | _ => "ok")
  | FOp.next f =>
    let r := st.nextRecord g policy f
    (r.1, match r.2 with
      | FRes.blocked => "blocked"
      | FRes.handed tp o => s!"rec:{tp}:{o}"
      | FRes.raised tp c => s!"raised:{tp}:{c}"
      | FRes.assertion => "assert"
      | _ => "bad")
  | FOp.many f max =>
    let r := st.fetchedRecords g policy f max
    (r.1, match r.2 with
      | FRes.recs l =>
        if l.isEmpty then "recs" else
        "recs:" ++ "/".intercalate (l.map fun (tp, os) => s!"{tp}=" ++ ".".intercalate (os.map toString))
      | FRes.raised tp c => s!"raised:{tp}:{c}"
      | FRes.assertion => "assert"
      | _ => "bad")
  | FOp.position tp =>
    (st, match st.parts[tp]? with
      | none => "bad"
      | some ps => match ps.pos with | none => "pos:-" | some p => s!"pos:{p}")

end AkVerif.Consume

/-! ## the property itself, stated on observations (evaluated on what the implementation did) -/
namespace AkVerif.Consume

/-- first element of a list of offsets that is `≥ c` -/
def firstGE : List Nat → Nat → Option Nat
  | [], _ => none
  | o :: r, c => if c ≤ o then some o else firstGE r c

/-- what the application can see of one partition (C03) -/
inductive Obs where
  | start (x : Nat)        -- a reset completed: the position became `x`
  | seek (x : Nat)         -- `seek(tp, x)` returned
  | invalidate             -- `seek_to_beginning/end` called, or the broker reported out-of-range
  | deliver (o : Nat)      -- a record with offset `o` was returned by getone / getmany / iteration
  | filtered (o : Nat)     -- … by a call whose `partitions` argument does not name this partition
  | position (v : Nat)     -- `position(tp)` returned `v`
  | pause
  | resume
deriving Repr, BEq, DecidableEq, Inhabited

structure OSt where
  cur : Option Nat := none       -- the start position, then one past the last returned record
  paused : Bool := false
  sought : Option Nat := none    -- set by `seek x` until the next observation
deriving Repr, BEq, DecidableEq, Inhabited

/-- `vis`: offsets of the visible records of the partition log (ground truth), increasing -/
def ostep (vis : List Nat) (s : OSt) : Obs → Option OSt
  | Obs.start x => some { s with cur := some x, sought := none }
  | Obs.seek x => some { s with cur := some x, sought := some x }
  | Obs.invalidate => some { s with cur := none, sought := none }
  | Obs.deliver o =>
    if s.paused then none else
    match s.cur with
    | none => none
    | some c => if firstGE vis c = some o then some { s with cur := some (o + 1), sought := none } else none
  | Obs.filtered _ => none
  | Obs.position v =>
    match s.cur with
    | none => none
    | some c =>
      if c ≤ v && vis.all (fun o => !(decide (c ≤ o) && decide (o < v)))
          && (match s.sought with | some x => v == x | none => true)
      then some { s with sought := none } else none
  | Obs.pause => some { s with paused := true }
  | Obs.resume => some { s with paused := false }

def orun (vis : List Nat) : OSt → List Obs → Option OSt
  | s, [] => some s
  | s, e :: r => match ostep vis s e with | none => none | some s' => orun vis s' r

/-- C03 on observations: index of the first observation that contradicts the property -/
def failsAt (vis : List Nat) : OSt → List Obs → Nat → Option Nat
  | _, [], _ => none
  | s, e :: r, i => match ostep vis s e with | none => some i | some s' => failsAt vis s' r (i + 1)

def holdsC03 (vis : List Nat) (obs : List Obs) : Bool := (orun vis {} obs).isSome

/-! C13 on observations -/

/-- what is expected to happen next to a partition without a valid position -/
inductive Expect where
  | committedOr            -- just assigned: the committed offset, else per policy
  | strategy (s : Int)     -- a reset to the broker's answer for `s` (-2 earliest, -1 latest)
  | outOfRange             -- out of range reported: per policy, or OffsetOutOfRange raised
  | nothing                -- the position is valid (or was set by the user): nothing may overwrite it
deriving Repr, BEq, DecidableEq, Inhabited

inductive Obs13 where
  | assigned
  | report (s : Int) (off : Nat)   -- the broker answered a ListOffsets lookup for `s` with `off`
  | seek (x : Nat)
  | seekTo (s : Int)               -- seek_to_beginning (-2) / seek_to_end (-1)
  | outOfRange                     -- the client consumed an OFFSET_OUT_OF_RANGE answer for its current position
  | valid (p : Nat)                -- the position became valid with value `p` other than by `seek`
  | error (code : Nat)             -- NoOffsetForPartition (2) / OffsetOutOfRange (1) reached the caller
  | position (p : Nat)             -- `position()` returned `p`
deriving Repr, BEq, DecidableEq, Inhabited

structure O13 where
  expect : Expect := Expect.nothing
  pos : Option Nat := none
  reports : List (Int × Nat) := []     -- broker answers since the expectation arose, newest first
deriving Repr, BEq, DecidableEq, Inhabited

def lastReport : List (Int × Nat) → Int → Option Nat
  | [], _ => none
  | (s, o) :: r, t => if s = t then some o else lastReport r t

/-- `committed`: the group's committed offset (none: group-less or nothing committed);
    `policy`: none = `auto_offset_reset="none"` -/
def ostep13 (committed : Option Nat) (policy : Option Int) (s : O13) : Obs13 → Option O13
  | Obs13.assigned => some { expect := Expect.committedOr, pos := none, reports := [] }
  | Obs13.report st off => some { s with reports := (st, off) :: s.reports }
  | Obs13.seek x => some { expect := Expect.nothing, pos := some x, reports := [] }
  | Obs13.seekTo st => some { expect := Expect.strategy st, pos := none, reports := [] }
  | Obs13.outOfRange =>
    match s.pos with
    | none => none
    | some p =>
      -- with a policy the position becomes invalid until the reset completes; with policy
      -- `none` it stays where it is and the error goes to the caller
      some { expect := Expect.outOfRange, pos := if policy.isSome then none else some p, reports := [] }
  | Obs13.valid p =>
    let viaPolicy : Option O13 :=
      match policy with
      | none => none
      | some st => if lastReport s.reports st = some p
                   then some { expect := Expect.nothing, pos := some p, reports := [] } else none
    match s.expect with
    | Expect.nothing => none
    | Expect.committedOr =>
      match committed with
      | some c => if p = c then some { expect := Expect.nothing, pos := some p, reports := [] } else none
      | none => viaPolicy
    | Expect.outOfRange => viaPolicy
    | Expect.strategy st =>
      if lastReport s.reports st = some p
      then some { expect := Expect.nothing, pos := some p, reports := [] } else none
  | Obs13.error code =>
    match s.expect, policy with
    | Expect.committedOr, none => if committed.isNone && code == 2 then some s else none
    | Expect.outOfRange, none => if code == 1 then some s else none
    | _, _ => none
  | Obs13.position p => if s.pos = some p then some s else none

def orun13 (committed : Option Nat) (policy : Option Int) : O13 → List Obs13 → Option O13
  | s, [] => some s
  | s, e :: r =>
    match ostep13 committed policy s e with
    | none => none
    | some s' => orun13 committed policy s' r

def failsAt13 (committed : Option Nat) (policy : Option Int) : O13 → List Obs13 → Nat → Option Nat
  | _, [], _ => none
  | s, e :: r, i =>
    match ostep13 committed policy s e with
    | none => some i
    | some s' => failsAt13 committed policy s' r (i + 1)

def holdsC13 (committed : Option Nat) (policy : Option Int) (obs : List Obs13) : Bool :=
  (orun13 committed policy {} obs).isSome

end AkVerif.Consume
