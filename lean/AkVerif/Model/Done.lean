/-!
Model of how a produce batch resolves its futures (C02):
`MessageBatch.done / done_noack / failure` (`aiokafka/producer/message_accumulator.py`) and the
per-version decoding + retry classification of `SendProduceReqHandler.handle_response`
(`aiokafka/producer/sender.py`).

A future is `Option Result`: `none` = pending; it can be set only while it is `none`
(`if future.done(): continue` / `if not self.future.done()` in the code).
-/
namespace AkVerif.Done

/-- `RecordMetadata` (topic and partition are those of the batch and are compared by the harness) -/
structure Meta where
  off : Int
  ts : Int
  tt : Nat                 -- timestamp type: 0 CreateTime, 1 LogAppendTime
  logStart : Option Int
deriving Repr, BEq, DecidableEq, Inhabited

inductive Result where
  | md (m : Meta)
  | noMeta                 -- resolved with `None` (acks = 0, empty batch)
  | error (e : Nat)        -- an exception; `e` identifies it for the harness only
  | cancelled              -- cancelled by the caller before the batch resolved
deriving Repr, BEq, DecidableEq, Inhabited

/-- `timestamp_type` as `done()` computes it from the broker's timestamp -/
def tsType (ts : Int) : Nat := if ts = -1 then 0 else 1

/-- what `done(base, ts, logStart)` gives the record with relative offset `rel` and user
    timestamp `uts` -/
def recMeta (base ts : Int) (ls : Option Int) (rel uts : Int) : Meta :=
  { off := base + rel, ts := if ts = -1 then uts else ts, tt := tsType ts, logStart := ls }

/-- the loop of `done()` over `_msg_futures`: futures that are already done are skipped -/
def doneLoop (base ts : Int) (ls : Option Int) :
    List (Option Result) → List (Int × Int) → List (Option Result)
  | f :: fs, (rel, uts) :: rs =>
    (match f with
     | some r => some r
     | none => some (.md (recMeta base ts ls rel uts))) :: doneLoop base ts ls fs rs
  | _, _ => []

/-- the loop as it was before the repair (`timestamp = metadata.timestamp` assigned to the
    loop-carried variable): kept to recognise that variant and for the witness in `Props/C02` -/
def doneLoopCarried (base : Int) (ls : Option Int) (tt : Nat) :
    Int → List (Option Result) → List (Int × Int) → List (Option Result)
  | ts, f :: fs, (rel, uts) :: rs =>
    match f with
    | some r => some r :: doneLoopCarried base ls tt ts fs rs
    | none =>
      let ts' := if ts = -1 then uts else ts
      some (.md { off := base + rel, ts := ts', tt := tt, logStart := ls })
        :: doneLoopCarried base ls tt ts' fs rs
  | _, _, _ => []

/-- a `MessageBatch`: per record (relative offset, user timestamp), the record futures, the batch
    future -/
structure BatchSt where
  recs : List (Int × Int)
  futs : List (Option Result)
  bfut : Option Result
deriving Repr, BEq, DecidableEq, Inhabited

def setIfNone (f : Option Result) (r : Result) : Option Result :=
  match f with
  | some x => some x
  | none => some r

def BatchSt.fresh (recs : List (Int × Int)) : BatchSt :=
  { recs := recs, futs := recs.map (fun _ => none), bfut := none }

inductive Op where
  | done (base ts : Int) (ls : Option Int)
  | doneCarried (base ts : Int) (ls : Option Int)     -- the unrepaired variant of `done`
  | noack
  | failure (e : Nat)
  | cancel (i : Nat)       -- the caller cancels the future of record `i`
  | cancelBatch            -- the caller cancels the batch future (`send_batch`)
deriving Repr, Inhabited

def cancelAt : Nat → List (Option Result) → List (Option Result)
  | _, [] => []
  | 0, f :: fs => setIfNone f .cancelled :: fs
  | i + 1, f :: fs => f :: cancelAt i fs

def BatchSt.step (b : BatchSt) : Op → BatchSt
  | .done base ts ls =>
    { b with bfut := setIfNone b.bfut (.md { off := base, ts := ts, tt := tsType ts, logStart := ls }),
             futs := doneLoop base ts ls b.futs b.recs }
  | .doneCarried base ts ls =>
    { b with bfut := setIfNone b.bfut (.md { off := base, ts := ts, tt := tsType ts, logStart := ls }),
             futs := doneLoopCarried base ls (tsType ts) ts b.futs b.recs }
  | .noack => { b with bfut := setIfNone b.bfut .noMeta, futs := b.futs.map (setIfNone · .noMeta) }
  | .failure e => { b with bfut := setIfNone b.bfut (.error e), futs := b.futs.map (setIfNone · (.error e)) }
  | .cancel i => { b with futs := cancelAt i b.futs }
  | .cancelBatch => { b with bfut := setIfNone b.bfut .cancelled }

def BatchSt.run (b : BatchSt) (ops : List Op) : BatchSt := ops.foldl BatchSt.step b

/-! ## `handle_response`: layout of one partition entry per ProduceResponse version -/

structure Info where
  partition : Int
  code : Int
  off : Int
  ts : Int                  -- `-1` when the version carries none ("mimic CREATE_TIME")
  logStart : Option Int
deriving Repr, BEq, DecidableEq, Inhabited

/-- `fs` = the integer fields of the partition entry in wire order (the v8 `record_errors` /
    `error_message` tail is ignored by the code and not passed) -/
def decodeInfo (v : Nat) (fs : List Int) : Option Info :=
  if v < 2 then
    match fs with
    | [p, c, o] => some ⟨p, c, o, -1, none⟩
    | _ => none
  else if v ≤ 4 then
    match fs with
    | [p, c, o, t] => some ⟨p, c, o, t, none⟩
    | _ => none
  else
    match fs with
    | [p, c, o, t, l] => some ⟨p, c, o, t, some l⟩
    | _ => none

/-- error codes whose class has `retriable = True` in `aiokafka/errors.py` (compared with the
    module on every run) -/
def retriableCodes : List Int :=
  [3, 5, 6, 7, 14, 15, 16, 19, 20, 41, 56]

def retriable (code : Int) : Bool := retriableCodes.contains code

/-- the retriable faults the property names, as error codes -/
def propertyRetriable : List Int := [3, 5, 6, 7, 19, 20]

inductive Verdict where
  | done           -- `batch.done(offset, timestamp, log_start_offset)`
  | retry          -- re-enqueue
  | fail           -- `batch.failure(...)`
deriving Repr, BEq, DecidableEq, Inhabited

/-- `handle_response` for one partition: `idem` = a transaction manager exists (batches never
    expire), `expired` = `batch.expired()` -/
def verdict (idem expired : Bool) (code : Int) : Verdict :=
  if code = 0 then .done
  else if code = 46 then .done               -- DuplicateSequenceNumber: "return success"
  else if (!idem && expired) || !retriable code then .fail
  else .retry

end AkVerif.Done
