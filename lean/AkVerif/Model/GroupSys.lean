import AkVerif.Model.Util
/-!
Closed system for the convergence clause of C06: the members of one group, abstracted to the phase
of their (re)join and counted per phase, together with the coordinator's join / sync barrier
(DESIGN Appendix F).  The environment is quiet: no member arrives, leaves, crashes or changes its
subscription, no request fails, no session or rebalance timer fires.  Every action below is one
request of one member answered by the coordinator (or the coordinator completing the barrier);
heartbeats of members that are already stable change nothing and are not actions.

Member phases (what the member automaton `AkVerif.Membership` is doing):
* `out`         not known to the coordinator (never joined, member id reset): will send JoinGroup
* `stale`       stable in an older generation, the group is rebalancing, it has not noticed yet
* `staleJoined` holds a JoinGroup reply of an older generation: its SyncGroup will be refused
* `needJoin`    was told to rejoin (REBALANCE_IN_PROGRESS / ILLEGAL_GENERATION), JoinGroup not yet sent
* `parked`      JoinGroup sent, reply withheld until every known member has rejoined
* `joinedL/F`   JoinGroup reply of the current generation received (leader / follower), SyncGroup due
* `syncParked`  follower's SyncGroup withheld until the leader's assignment arrives
* `stable`      synced in the current generation, heartbeating
-/
namespace AkVerif.GroupSys

inductive GPhase where
  | preparing | completing | stable
deriving DecidableEq, Repr, Inhabited

structure Sys where
  phase : GPhase := .stable
  out : Nat := 0
  stale : Nat := 0
  staleJoined : Nat := 0
  needJoin : Nat := 0
  parked : Nat := 0
  joinedL : Nat := 0
  joinedF : Nat := 0
  syncParked : Nat := 0
  stable : Nat := 0
deriving DecidableEq, Repr, Inhabited

inductive Action where
  | joinOut        -- a member unknown to the coordinator sends JoinGroup (starts a rebalance)
  | heartbeat      -- a stale member heartbeats and is told REBALANCE_IN_PROGRESS
  | syncStale      -- a member syncs with an old generation and is refused
  | join           -- a member that was told to rejoin sends JoinGroup
  | complete       -- every known member has rejoined: the coordinator starts the next generation
  | syncLeader     -- the leader sends the assignment: the group is stable, parked followers released
  | syncFollower   -- a follower sends SyncGroup
deriving DecidableEq, Repr, Inhabited

def total (s : Sys) : Nat :=
  s.out + s.stale + s.staleJoined + s.needJoin + s.parked + s.joinedL + s.joinedF + s.syncParked + s.stable

/-- one action; `none` = not enabled -/
def step (s : Sys) : Action → Option Sys
  | .joinOut =>
    if s.out = 0 then none
    else if s.phase = .preparing then some { s with out := s.out - 1, parked := s.parked + 1 }
    else
      some { phase := .preparing, out := s.out - 1, parked := s.parked + 1,
             stale := s.stale + s.stable, stable := 0,
             staleJoined := s.staleJoined + s.joinedL + s.joinedF, joinedL := 0, joinedF := 0,
             needJoin := s.needJoin + s.syncParked, syncParked := 0 }
  | .heartbeat =>
    if s.stale = 0 then none
    else some { s with stale := s.stale - 1, needJoin := s.needJoin + 1 }
  | .syncStale =>
    if s.staleJoined = 0 then none
    else some { s with staleJoined := s.staleJoined - 1, needJoin := s.needJoin + 1 }
  | .join =>
    if s.needJoin = 0 ∨ s.phase ≠ .preparing then none
    else some { s with needJoin := s.needJoin - 1, parked := s.parked + 1 }
  | .complete =>
    if s.phase = .preparing ∧ s.stale = 0 ∧ s.staleJoined = 0 ∧ s.needJoin = 0 ∧ 0 < s.parked then
      some { s with phase := .completing, joinedL := 1, joinedF := s.parked - 1, parked := 0 }
    else none
  | .syncLeader =>
    if s.phase = .completing ∧ s.joinedL = 1 then
      some { s with phase := .stable, joinedL := 0, stable := s.stable + 1 + s.syncParked, syncParked := 0 }
    else none
  | .syncFollower =>
    if s.joinedF = 0 ∨ s.phase = .preparing then none
    else if s.phase = .completing then
      some { s with joinedF := s.joinedF - 1, syncParked := s.syncParked + 1 }
    else some { s with joinedF := s.joinedF - 1, stable := s.stable + 1 }

/-- run a schedule -/
def exec (s : Sys) : List Action → Option Sys
  | [] => some s
  | a :: as => (step s a).bind fun s' => exec s' as

/-- what the coordinator's phases imply for the members it knows -/
def WF (s : Sys) : Prop :=
  match s.phase with
  | .preparing =>
    s.joinedL = 0 ∧ s.joinedF = 0 ∧ s.syncParked = 0 ∧ s.stable = 0 ∧
    0 < s.stale + s.staleJoined + s.needJoin + s.parked
  | .completing => s.stale = 0 ∧ s.staleJoined = 0 ∧ s.needJoin = 0 ∧ s.parked = 0 ∧ s.stable = 0 ∧ s.joinedL = 1
  | .stable => s.stale = 0 ∧ s.staleJoined = 0 ∧ s.needJoin = 0 ∧ s.parked = 0 ∧ s.joinedL = 0 ∧ s.syncParked = 0

/-- every member is in the latest generation and synced -/
def converged (s : Sys) : Prop := s.phase = .stable ∧ s.stable = total s

/-- ranking: requests still to be made, a member unknown to the coordinator weighs more than a
    whole rebalance of everybody else (`k` > 4·members + 2) -/
def rank (k : Nat) (s : Sys) : Nat :=
  s.out * k + 4 * s.stale + 4 * s.staleJoined + 3 * s.needJoin + 2 * s.parked + s.joinedL + s.joinedF

/-- the convergence clause on an observation of the implementation: every live member is in the
    group's latest generation, the assignments cover every partition (as the cluster has them at the
    end) exactly once, and during the watch window nobody sent a JoinGroup, the generation stayed
    and everybody kept heartbeating: at least `minHb` successful heartbeats each (the window
    divided by the heartbeat interval, halved) -/
def observedConverged (latest : Nat) (memberGens : List Nat) (missing dup joinsInWatch genAfter : Nat)
    (heartbeats : List Nat) (minHb : Nat) : Bool :=
  memberGens.all (· == latest) && missing == 0 && dup == 0 && joinsInWatch == 0 &&
  genAfter == latest && heartbeats.all (fun h => 0 < h && minHb ≤ h)

def handle : List String → Option String
  | ["conv", latest, gens, missing, dup, joins, genAfter, hbs, minHb] => do
    some (toString (observedConverged (← latest.toNat?) (← Util.parseNatList gens) (← missing.toNat?)
      (← dup.toNat?) (← joins.toNat?) (← genAfter.toNat?) (← Util.parseNatList hbs) (← minHb.toNat?)))
  | _ => none

end AkVerif.GroupSys
