import AkVerif.Model.GroupEv
/-!
C05 — member / ownership automaton and the coordinator's join barrier, as an acceptor of
histories.

Member side (mechanisms of `group_coordinator.py` / `subscription_state.py` / `fetcher.py`):
* `gate`      `Subscription._reassignment_in_progress` negated: closed by `begin_reassignment`
              (at the latest when `on_partitions_revoked` starts) and by a subscription change,
              opened only by adopting an assignment (`_assign`, observed as `asgS`);
* `prepared`  `_performed_join_prepare`: the revoke step ran and no assignment was adopted since;
              a JoinGroup is sent only when it is set;
* `synced`    the decoded SyncGroup reply the next adoption must equal (`_on_join_complete`);
* `leaveR`    a member that leaves the group by itself (idle application) closes its gate at once:
              the join preparation runs even though the re-join itself waits for the next poll;
* `expire`    a live member's session does not run out during its revoke callback (the heartbeat
              task is stopped only after the join preparation);
* `inflight`, `fetched`  fetches issued under the current assignment and subscription: an adoption
              or a subscription change forgets everything older (`Assignment.active`,
              `check_assignment`, `_records.clear()`).
Coordinator side (`Env`, re-derived from the simulator's own trace; DESIGN Appendix F):
* `waiting`   the coordinator holds an unanswered JoinGroup of the member;
* a generation starts only when every member of it is `waiting` (join barrier);
* the leader's assignment is stored once per generation and handed out unchanged.
-/
namespace AkVerif.Group.Member

structure Mem where
  gate : Bool := false
  cur : List Nat := []
  inCb : Nat := 0                 -- 0 no callback running, 1 revoke, 2 assign
  prepared : Bool := false
  waiting : Bool := false
  subChanged : Bool := false
  joinTopics : List Nat := []
  joinGen : Option Nat := none
  synced : Option (Nat × List Nat) := none
  inflight : List (Nat × Nat) := []          -- (p, fetch offset)
  fetched : List (Nat × Nat × Nat) := []     -- (p, fetch offset, last offset returned)
  dead : Bool := false                       -- killed or stopped
  subTopics : Option (List Nat) := none      -- topics of the current subscription
  joined : Bool := false                     -- `joinTopics` comes from a registered JoinGroup
deriving Inhabited

structure Gen where
  members : List (Nat × List Nat)
  assign : Option (List (Nat × List Nat))
deriving Inhabited

structure St where
  mem : Nat → Mem
  gens : Nat → Option Gen
  curGen : Nat

def St.init : St := { mem := fun _ => {}, gens := fun _ => none, curGen := 0 }

def St.setMem (s : St) (m : Nat) (x : Mem) : St :=
  { s with mem := fun i => if i = m then x else s.mem i }

def St.setGen (s : St) (g : Nat) (x : Gen) : St :=
  { s with gens := fun i => if i = g then some x else s.gens i }

/-- what the leader may distribute: only to members of the generation, only partitions of topics
    the receiving member advertised, no partition twice -/
def validAssign (members : List (Nat × List Nat)) (a : List (Nat × List Nat)) : Bool :=
  a.all (fun (m, tps) =>
    match lookup? members m with
    | some topics => tps.all (fun p => topics.contains (topicOf p))
    | none => false)
  && nodupB (a.map (·.1))
  && nodupB (a.flatMap (·.2))

def inRange (p o : Nat) (r : Nat × Nat × Nat) : Bool := r.1 == p && r.2.1 ≤ o && o ≤ r.2.2

/-- the guard of an event: the mechanism that must have been in place for it to happen -/
def guard (s : St) : Ev → Bool
  | .sub _ => true
  | .subT _ _ => true
  | .revS m => (s.mem m).inCb == 0 && (s.mem m).prepared == false
  | .revE m => (s.mem m).inCb == 1
  | .joinS m _ _ => (s.mem m).prepared == true && (s.mem m).inCb == 0
  | .joinR m g? =>
    match g? with
    | none => true
    | some g =>
      match s.gens g with
      | some G => g == s.curGen && (G.members.map (·.1)).contains m
      | none => false
  | .genStart g members =>
    decide (s.curGen < g) && members.all (fun (m, t) => (s.mem m).waiting && (s.mem m).joinTopics == t)
  | .distribute g a =>
    match s.gens g with
    | some G => G.assign.isNone && validAssign G.members a
    | none => false
  | .syncR m g tps =>
    match s.gens g with
    | some G =>
      match G.assign with
      | some a => lookupD a m == tps && (G.members.map (·.1)).contains m && (s.mem m).joinGen == some g
      | none => false
    | none => false
  | .asgS m g tps =>
    match (s.mem m).synced with
    | some (g', tps') =>
      -- a non-empty assignment is adopted only under the subscription the JoinGroup advertised
      -- (`_do_rejoin_group`: `if not subscription.active: return False`)
      (s.mem m).inCb == 0 && g' == g &&
      ((tps == tps' && (tps == [] || ((s.mem m).joined && (s.mem m).subTopics == some (s.mem m).joinTopics)))
        || ((s.mem m).subChanged && tps == []))
    | none => false
  | .asgE m => (s.mem m).inCb == 2
  | .snap m tps => (s.mem m).cur == tps
  | .fS _ _ _ => true
  | .fR _ _ _ _ => true
  | .deliver m p o => (s.mem m).gate && (s.mem m).cur.contains p && (s.mem m).fetched.any (inRange p o)
  | .offer _ _ _ _ => true
  | .noOffset _ _ => true
  | .commit _ _ _ _ => true
  | .gone _ => true
  | .leaveR _ => true
  -- the heartbeat task keeps running while the join is prepared (last commit, revoke callback):
  -- the session of a live member does not run out in the middle of its revoke callback
  | .expire m => !((s.mem m).inCb == 1 && !(s.mem m).dead)

/-- the member whose record an event changes -/
def actor : Ev → Option Nat
  | .sub m | .subT m _ | .revS m | .revE m | .asgS m _ _ | .asgE m | .joinS m _ _ | .joinR m _ | .syncR m _ _
  | .fS m _ _ | .fR m _ _ _ | .gone m | .leaveR m => some m
  | _ => none

/-- the acting member's record after an accepted event -/
def upd (x : Mem) : Ev → Mem
  | .sub _ => { x with gate := false, cur := [], subChanged := true, inflight := [], fetched := [] }
  | .subT _ topics => { x with subTopics := some topics }
  | .revS _ => { x with gate := false, inCb := 1, prepared := false }
  | .revE _ => { x with inCb := 0, prepared := true }
  | .joinS _ topics parked =>
    if parked then { x with waiting := true, joinTopics := topics, joinGen := none, synced := none, joined := true }
    else x
  | .joinR _ g? => { x with waiting := false, joinGen := if g?.isSome then g? else x.joinGen }
  | .syncR _ g tps => { x with synced := some (g, tps) }
  | .asgS _ _ tps =>
    { x with cur := tps, gate := true, inCb := 2, prepared := false, synced := none,
             subChanged := false, inflight := [], fetched := [] }
  | .asgE _ => { x with inCb := 0 }
  | .gone _ => { x with dead := true }
  -- the member left the group: `reset_generation` → rejoin needed → `_on_join_prepare` closes the
  -- gate (`begin_reassignment`) whether or not the application polls
  | .leaveR _ => { x with gate := false }
  | .fS _ p f => { x with inflight := (p, f) :: x.inflight }
  | .fR _ p f hi =>
    if x.inflight.contains (p, f) then
      { x with inflight := x.inflight.erase (p, f), fetched := (p, f, hi) :: x.fetched }
    else x
  | _ => x

/-- the coordinator's bookkeeping after an accepted event -/
def postG (s : St) : Ev → St
  | .genStart g members => { (s.setGen g { members := members, assign := none }) with curGen := g }
  | .distribute g a =>
    match s.gens g with
    | some G => s.setGen g { G with assign := some a }
    | none => s
  | _ => s

/-- the effect of an accepted event -/
def post (s : St) (e : Ev) : St :=
  match actor e with
  | some m => s.setMem m (upd (s.mem m) e)
  | none => postG s e

def step (s : St) (e : Ev) : Option St := if guard s e then some (post s e) else none

def run (s : St) (tr : List Ev) : Option St := runWith step s tr

def accepts (tr : List Ev) : Bool := (run St.init tr).isSome

end AkVerif.Group.Member
