import AkVerif.Model.Wire
/-!
Model of the variable-length integer primitives of the record codec (C09):

* `aiokafka/record/util.py`: `encode_varint_py` (five unrolled fast paths + the general loop),
  `size_of_varint_py` (the ten-rung ladder), `decode_varint_py` (two one-byte fast paths + loop);
* `aiokafka/record/_crecords/cutil.pyx`: `encode_varint64`, `size_of_varint64`, `decode_varint64`.

The canonical definition both are compared with is `Wire.encUV (Wire.zig i)` — protobuf base-128,
least significant group first, of the zig-zag image — and `Wire.decUV64`.

Abstractions (tied by T-diff only):
* the zig-zag expression `(value << 1) ^ (value >> 63)` (Python big ints / C `int64_t`) is `Wire.zig`,
  which it equals for every `value` of the `int64` range — the only values the codec passes;
* the C loop condition `v & 0xffffffffffffff80 != 0` on a `uint64_t` is written `128 ≤ v`;
* `none` = the call raises (IndexError / ValueError("Out of int64 range") / CorruptRecordException).
-/
namespace AkVerif.Varint
open AkVerif.Wire

/-! ### pure Python -/

/-- the general loop at the end of `encode_varint_py`: `bits` is the pending 7-bit group -/
def encPyLoop (bits value : Nat) : Bytes :=
  if value = 0 then [bits] else (0x80 ||| bits) :: encPyLoop (value &&& 0x7F) (value >>> 7)
termination_by value
decreasing_by
  rw [Nat.shiftRight_eq_div_pow]
  exact Nat.div_lt_self (Nat.pos_of_ne_zero ‹_›) (by decide)

/-- `encode_varint_py` after the zig-zag step (`v` = zig-zag image) -/
def encPy (v : Nat) : Bytes :=
  if v ≤ 0x7F then [v]
  else if v ≤ 0x3FFF then [0x80 ||| (v &&& 0x7F), v >>> 7]
  else if v ≤ 0x1FFFFF then [0x80 ||| (v &&& 0x7F), 0x80 ||| ((v >>> 7) &&& 0x7F), v >>> 14]
  else if v ≤ 0xFFFFFFF then
    [0x80 ||| (v &&& 0x7F), 0x80 ||| ((v >>> 7) &&& 0x7F), 0x80 ||| ((v >>> 14) &&& 0x7F), v >>> 21]
  else if v ≤ 0x7FFFFFFFF then
    [0x80 ||| (v &&& 0x7F), 0x80 ||| ((v >>> 7) &&& 0x7F), 0x80 ||| ((v >>> 14) &&& 0x7F),
     0x80 ||| ((v >>> 21) &&& 0x7F), v >>> 28]
  else encPyLoop (v &&& 0x7F) (v >>> 7)

def encodeVarintPy (i : Int) : Bytes := encPy (zig i)

/-- `size_of_varint_py` -/
def sizeOfVarintPy (i : Int) : Nat :=
  let v := zig i
  if v ≤ 0x7F then 1
  else if v ≤ 0x3FFF then 2
  else if v ≤ 0x1FFFFF then 3
  else if v ≤ 0xFFFFFFF then 4
  else if v ≤ 0x7FFFFFFFF then 5
  else if v ≤ 0x3FFFFFFFFFF then 6
  else if v ≤ 0x1FFFFFFFFFFFF then 7
  else if v ≤ 0xFFFFFFFFFFFFFF then 8
  else if v ≤ 0x7FFFFFFFFFFFFFFF then 9
  else 10

/-- the `while True` loop of `decode_varint_py`; `[]` = `IndexError`, `shift + 7 ≥ 64` = `ValueError` -/
def decPyLoop : Nat → Nat → Bytes → Option (Int × Bytes)
  | _, _, [] => none
  | shift, result, b :: rest =>
    let result := result ||| ((b &&& 0x7F) <<< shift)
    if b &&& 0x80 = 0 then some (unzig result, rest)
    else if shift + 7 ≥ 64 then none
    else decPyLoop (shift + 7) result rest

/-- `decode_varint_py(buffer, pos)` on the bytes from `pos` on; returns the value and what follows -/
def decodeVarintPy : Bytes → Option (Int × Bytes)
  | [] => none
  | b :: rest =>
    if b &&& 0x81 = 0 then some (((b >>> 1 : Nat) : Int), rest)
    else if b &&& 0x80 = 0 then some (-((b >>> 1 : Nat) : Int) - 1, rest)   -- `(result >> 1) ^ ~0`
    else decPyLoop 7 (b &&& 0x7F) rest

/-! ### Cython -/

/-- `encode_varint64` after the zig-zag step -/
def encCy (v : Nat) : Bytes :=
  if 128 ≤ v then ((v &&& 0x7F) ||| 0x80) :: encCy (v >>> 7) else [v &&& 0x7F]
termination_by v
decreasing_by
  rw [Nat.shiftRight_eq_div_pow]
  exact Nat.div_lt_self (by omega) (by decide)

def encodeVarintCy (i : Int) : Bytes := encCy (zig i)

/-- `size_of_varint64`: `bytes = 1; while v >= 128: bytes += 1; v >>= 7` -/
def sizeCy (v : Nat) : Nat :=
  if 128 ≤ v then sizeCy (v >>> 7) + 1 else 1
termination_by v
decreasing_by
  rw [Nat.shiftRight_eq_div_pow]
  exact Nat.div_lt_self (by omega) (by decide)

def sizeOfVarintCy (i : Int) : Nat := sizeCy (zig i)

/-- the loop of `decode_varint64` on a `uint64_t` accumulator (bits shifted past 64 are lost) -/
def decCyLoop : Nat → Nat → Bytes → Option (Nat × Bytes)
  | _, _, [] => none
  | shift, value, b :: rest =>
    if b &&& 0x80 ≠ 0 then
      let value := (value ||| ((b &&& 0x7F) <<< shift)) % 2 ^ 64
      if shift + 7 > 63 then none else decCyLoop (shift + 7) value rest
    else some ((value ||| (b <<< shift)) % 2 ^ 64, rest)

/-- `decode_varint64` / `decode_varint_cython` -/
def decodeVarintCy (bs : Bytes) : Option (Int × Bytes) :=
  match decCyLoop 0 0 bs with
  | none => none
  | some (v, r) => some (unzig v, r)

/-! ### the canonical codec used by the format definitions -/

/-- Kafka `varint` / `varlong`: zig-zag, base 128 -/
def encVarint (i : Int) : Bytes := encUV (zig i)

def decVarint (bs : Bytes) : Option (Int × Bytes) :=
  match decUV64 bs with
  | none => none
  | some (v, r) => some (unzig v, r)

def int64 (i : Int) : Prop := -(2 ^ 63 : Int) ≤ i ∧ i < (2 ^ 63 : Int)
def int32 (i : Int) : Prop := -(2 ^ 31 : Int) ≤ i ∧ i < (2 ^ 31 : Int)

instance (i : Int) : Decidable (int64 i) := by unfold int64; infer_instance
instance (i : Int) : Decidable (int32 i) := by unfold int32; infer_instance

end AkVerif.Varint
