import AkVerif.Model.Util
/-!
Models of the record DECODERS of `aiokafka/record` on *arbitrary* byte strings (C10).

Every model is total.  The Cython models follow the `.pyx` sources access by access: every byte
the C code touches is obtained through `rd buf pos n`, which answers `fault oob` when
`pos < 0 ∨ pos + n > |buf|`; `Py_ssize_t` additions that involve attacker-controlled values go
through `ss` (fault `overflow` outside `[-2^63, 2^63)`); `PyBytes_FromStringAndSize` with a
negative size is `fault sysErr`; loops run on fuel and running out of it is `fault fuel`
(= the real loop does not terminate within `|buf| + 1` rounds).
The pure-Python models use Python's own (memory-safe) primitives instead: indexing with
negative wrap-around and `IndexError`, clipping slices, `struct.unpack_from` with `struct.error`.

`Cfg` selects, call site by call site, between the code as it was before the `fix:` commits of
this property (flag `false`) and the repaired code (flag `true`).  `Cfg.fixed` is what the tie is
run against; the single-flag-off configurations carry the kernel-checked witnesses in
`Props/C10.lean`.

Compression codecs are a parameter `codec : Nat → Bytes → Option Bytes` (`none` = the codec
raised an ordinary exception); nothing is assumed about it.
-/
namespace AkVerif.Safe

abbrev Bytes := List Nat

/-! ## outcomes -/

/-- outcomes the property forbids -/
inductive Fault where
  | oob        -- a read outside the supplied buffer
  | sysErr     -- `SystemError` (`PyBytes_FromStringAndSize` with a negative size)
  | memErr     -- absurd allocation (`MemoryError` / "byte string is too large")
  | overflow   -- `Py_ssize_t` index arithmetic left the 64-bit range
  | fuel       -- a loop did not finish within its fuel: non-termination
deriving DecidableEq, Repr, Inhabited

/-- ordinary exceptions -/
inductive Exc where
  | corrupt                       -- CorruptRecordException
  | unsupported                   -- UnsupportedCodecError
  | codecErr (kind len : Nat)     -- the codec itself raised on `len` bytes of input
  | assertion                     -- AssertionError
  | unicode                       -- UnicodeDecodeError (a ValueError)
  | valueErr                      -- ValueError
  | indexErr                      -- IndexError
  | structErr                     -- struct.error
deriving DecidableEq, Repr, Inhabited

inductive R (α : Type) where
  | ok (a : α)
  | exc (e : Exc)
  | fault (f : Fault)
deriving DecidableEq, Repr, Inhabited

namespace R
@[inline] def bind {α β} : R α → (α → R β) → R β
  | .ok a, f => f a
  | .exc e, _ => .exc e
  | .fault x, _ => .fault x
end R

instance : Monad R where
  pure := .ok
  bind := R.bind

/-- which of the defects repaired for C10 are repaired in the code being modelled -/
structure Cfg where
  hdrCheck : Bool      -- default_records.pyx `_read_header`: length check before the 61-byte read
  varintBound : Bool   -- cutil.pyx `decode_varint64`: every byte bounds-checked
  safeBounds : Bool    -- default_records.pyx `_check_bounds`: no overflowing `pos + size`
  sizeCheck : Bool     -- legacy_records.pyx `_read_record`: sizes < -1 rejected, value size bounded
  walkCheck : Bool     -- legacy_records.pyx `_read_last_offset`: prefix/progress/empty checks
  exceptQ : Bool       -- legacy_records.pyx `_read_last_offset`: `except? -1`
  pyWalkCheck : Bool   -- legacy_records.py `_read_all_headers`: progress check
  magicRel : Bool      -- memory_records.pyx `_get_next`: magic read at `pos + 16` (C09's repair)
deriving DecidableEq, Repr

def Cfg.fixed (magicRel : Bool) : Cfg :=
  { hdrCheck := true, varintBound := true, safeBounds := true, sizeCheck := true,
    walkCheck := true, exceptQ := true, pyWalkCheck := true, magicRel := magicRel }

/-- the code before any repair -/
def Cfg.asIs : Cfg :=
  { hdrCheck := false, varintBound := false, safeBounds := false, sizeCheck := false,
    walkCheck := false, exceptQ := false, pyWalkCheck := false, magicRel := false }

/-! ## primitives -/

def ssMax : Int := 9223372036854775807
def ssMin : Int := -9223372036854775808

/-- a `Py_ssize_t` result -/
def ss (x : Int) : R Int :=
  if x < ssMin ∨ x > ssMax then .fault .overflow else .ok x

/-- the bytes `[pos, pos+n)` of `b` — THE buffer access of the C models -/
def rd (b : Bytes) (pos : Int) (n : Nat) : R Bytes :=
  if pos < 0 ∨ pos + (n : Int) > (b.length : Int) then .fault .oob
  else .ok ((b.drop pos.toNat).take n)

def beNat (bs : Bytes) : Nat := bs.foldl (fun acc x => acc * 256 + x % 256) 0

/-- two's complement reading of the low `bits` bits -/
def toS (bits : Nat) (n : Nat) : Int :=
  let m := n % 2 ^ bits
  if m ≥ 2 ^ (bits - 1) then (m : Int) - (2 ^ bits : Nat) else (m : Int)

def wrap64 (x : Int) : Int := toS 64 (x % 18446744073709551616).toNat

def rdI8 (b : Bytes) (pos : Int) : R Int := do let bs ← rd b pos 1; pure (toS 8 (beNat bs))
def rdI16 (b : Bytes) (pos : Int) : R Int := do let bs ← rd b pos 2; pure (toS 16 (beNat bs))
def rdI32 (b : Bytes) (pos : Int) : R Int := do let bs ← rd b pos 4; pure (toS 32 (beNat bs))
def rdU32 (b : Bytes) (pos : Int) : R Nat := do let bs ← rd b pos 4; pure (beNat bs % 2 ^ 32)
def rdI64 (b : Bytes) (pos : Int) : R Int := do let bs ← rd b pos 8; pure (toS 64 (beNat bs))

/-- `PyBytes_FromStringAndSize(&buf[pos], size)` -/
def pyBytesFrom (b : Bytes) (pos size : Int) : R Bytes :=
  if size < 0 then .fault .sysErr
  else if size > ssMax - 33 then .fault .memErr
  else rd b pos size.toNat

/-! ### checksums (bit by bit; reflected polynomials) -/

def crcByte (poly : Nat) : Nat → Nat → Nat
  | 0, c => c
  | k + 1, c => crcByte poly k (if c % 2 = 1 then (c / 2) ^^^ poly else c / 2)

def crcGen (poly : Nat) (bs : Bytes) : Nat :=
  (bs.foldl (fun c x => crcByte poly 8 (c ^^^ (x % 256))) 0xFFFFFFFF) ^^^ 0xFFFFFFFF

/-- CRC-32C (Castagnoli), the v2 batch checksum -/
def crc32c (bs : Bytes) : Nat := crcGen 0x82F63B78 bs
/-- CRC-32 (zlib), the v0/v1 message checksum -/
def crc32 (bs : Bytes) : Nat := crcGen 0xEDB88320 bs

/-! ### strict UTF-8 (RFC 3629: no overlong forms, no surrogates, ≤ U+10FFFF) as `bytes.decode` -/

def isCont (x : Nat) : Bool := 0x80 ≤ x && x ≤ 0xBF

def utf8Valid : Nat → Bytes → Bool
  | _, [] => true
  | 0, _ => false
  | fuel + 1, a :: rest =>
    if a < 0x80 then utf8Valid fuel rest
    else if 0xC2 ≤ a && a ≤ 0xDF then
      match rest with
      | b :: r => isCont b && utf8Valid fuel r
      | _ => false
    else if 0xE0 ≤ a && a ≤ 0xEF then
      match rest with
      | b :: c :: r =>
        isCont b && isCont c && (a != 0xE0 || 0xA0 ≤ b) && (a != 0xED || b ≤ 0x9F)
          && utf8Valid fuel r
      | _ => false
    else if 0xF0 ≤ a && a ≤ 0xF4 then
      match rest with
      | b :: c :: d :: r =>
        isCont b && isCont c && isCont d && (a != 0xF0 || 0x90 ≤ b) && (a != 0xF4 || b ≤ 0x8F)
          && utf8Valid fuel r
      | _ => false
    else false

def isUtf8 (bs : Bytes) : Bool := utf8Valid (bs.length + 1) bs

/-! ## decoded records -/

structure Rec where
  offset : Int
  ts : Option Int
  tsType : Option Nat
  key : Option Bytes
  value : Option Bytes
  headers : List (Bytes × Option Bytes)
  crc : Option Nat
deriving DecidableEq, Repr, Inhabited

/-- how an iteration ended -/
inductive End where
  | done
  | exc (e : Exc)
  | fault (f : Fault)
deriving DecidableEq, Repr, Inhabited

/-- records yielded before the end, and the end -/
abbrev Iter := List Rec × End

def R.toEnd {α} : R α → End
  | .ok _ => .done
  | .exc e => .exc e
  | .fault f => .fault f

/-- zig-zag decoding of an unsigned value -/
def unzig (v : Nat) : Int := if v % 2 = 0 then (v / 2 : Nat) else -((v / 2 : Nat) : Int) - 1

/-! ## Cython: `cutil.pyx` `decode_varint64` -/

/-- `fuel` bytes may still be read (10 at the start); returns the value and the new position.
    `shift = 7 * (10 - fuel)`.  With `varintBound` every byte is bounds-checked first. -/
def cyVarintLoop (cfg : Cfg) (b : Bytes) : Nat → Int → Nat → Nat → R (Int × Int)
  | 0, _, _, _ => .exc .valueErr                -- `shift > 63`: "Out of double range"
  | fuel + 1, pos, shift, acc =>
    if cfg.varintBound && (pos < 0 || pos ≥ b.length) then .exc .indexErr else
    match rd b pos 1 with
    | .fault f => .fault f
    | .exc e => .exc e
    | .ok bs =>
      let x := beNat bs
      if x ≥ 128 then
        cyVarintLoop cfg b fuel (pos + 1) (shift + 7) ((acc ||| ((x % 128) <<< shift)) % 2 ^ 64)
      else
        .ok (unzig ((acc ||| (x <<< shift)) % 2 ^ 64), pos + 1)

/-- `decode_varint_cython(buffer, pos)`: `IndexError` outside the buffer (repaired code),
    `ValueError` for more than 10 bytes -/
def cyVarintPy (cfg : Cfg) (b : Bytes) (pos : Int) : R (Int × Int) := cyVarintLoop cfg b 10 pos 0 0

/-- `decode_varint64(buf, len, &pos, &value)`: both failures are `CorruptRecordException` -/
def cyVarint (cfg : Cfg) (b : Bytes) (pos : Int) : R (Int × Int) :=
  match cyVarintPy cfg b pos with
  | .exc _ => .exc .corrupt
  | r => r

/-! ## Cython: `default_records.pyx` `DefaultRecordBatch` -/

structure V2Hdr where
  baseOffset : Int
  length : Int
  magic : Int
  crc : Nat
  attrs : Int
  lastOffsetDelta : Int
  firstTs : Int
  maxTs : Int
  numRecords : Int
  producerId : Int
  producerEpoch : Int
  baseSequence : Int
deriving DecidableEq, Repr, Inhabited

/-- `_read_header`: the fixed-offset reads in the order of the source -/
def cyReadHeader (cfg : Cfg) (b : Bytes) : R V2Hdr := do
  if cfg.hdrCheck && b.length < 61 then .exc .corrupt else
  let baseOffset ← rdI64 b 0
  let length ← rdI32 b 8
  let magic ← rdI8 b 16
  let crc ← rdU32 b 17
  let attrs ← rdI16 b 21
  let lastOffsetDelta ← rdI32 b 23
  let firstTs ← rdI64 b 27
  let maxTs ← rdI64 b 35
  let numRecords ← rdI32 b 57
  let producerId ← rdI64 b 43
  let producerEpoch ← rdI16 b 51
  let baseSequence ← rdI32 b 53
  pure { baseOffset, length, magic, crc, attrs, lastOffsetDelta, firstTs, maxTs, numRecords,
         producerId, producerEpoch, baseSequence }

/-- `_check_bounds(pos, size)` of `DefaultRecordBatch` -/
def cyCheckBounds (cfg : Cfg) (b : Bytes) (pos size : Int) : R Unit :=
  if cfg.safeBounds then
    if size < 0 || pos < 0 || pos > b.length || size > b.length - pos then .exc .corrupt
    else .ok ()
  else do
    let e ← ss (pos + size)
    if e > b.length then .exc .corrupt else .ok ()

/-- `_check_bounds(pos, 1)` + `decode_varint64` -/
def cyField (cfg : Cfg) (b : Bytes) (pos : Int) : R (Int × Int) := do
  cyCheckBounds cfg b pos 1
  cyVarint cfg b pos

/-- nullable bytes: length varint already read -/
def cyBytesField (cfg : Cfg) (b : Bytes) (pos len : Int) : R (Option Bytes × Int) :=
  if len ≥ 0 then do
    cyCheckBounds cfg b pos len
    let v ← pyBytesFrom b pos len
    let p ← ss (pos + len)
    pure (some v, p)
  else pure (none, pos)

/-- the `while header_count > 0` loop; `fuel` bounds the rounds -/
def cyHeaders (cfg : Cfg) (b : Bytes) : Nat → Int → Int → List (Bytes × Option Bytes) →
    R (List (Bytes × Option Bytes) × Int)
  | 0, _, _, _ => .fault .fuel
  | fuel + 1, count, pos, acc =>
    if count ≤ 0 then .ok (acc.reverse, pos) else do
    let (klen, pos) ← cyVarint cfg b pos
    if klen < 0 then .exc .corrupt else
    cyCheckBounds cfg b pos klen
    let k ← pyBytesFrom b pos klen
    let pos ← ss (pos + klen)
    let (vlen, pos) ← cyVarint cfg b pos
    let (v, pos) ← cyBytesField cfg b pos vlen
    if !isUtf8 k then .exc .unicode else
    cyHeaders cfg b fuel (count - 1) pos ((k, v) :: acc)

/-- `_read_msg` at `pos`; returns the record and the position after it -/
def cyReadMsg (cfg : Cfg) (h : V2Hdr) (b : Bytes) (pos : Int) : R (Rec × Int) := do
  let (length, pos) ← cyField cfg b pos
  let startPos := pos
  let (_, pos) ← cyField cfg b pos
  let (tsDelta, pos) ← cyField cfg b pos
  let ts := if h.attrs % 16 ≥ 8 then h.maxTs else wrap64 (h.firstTs + tsDelta)
  let (offDelta, pos) ← cyField cfg b pos
  let offset := wrap64 (h.baseOffset + offDelta)
  let (klen, pos) ← cyField cfg b pos
  let (key, pos) ← cyBytesField cfg b pos klen
  let (vlen, pos) ← cyField cfg b pos
  let (value, pos) ← cyBytesField cfg b pos vlen
  let (hcount, pos) ← cyField cfg b pos
  if hcount < 0 then .exc .corrupt else
  let (hdrs, pos) ← cyHeaders cfg b (b.length + 1) hcount pos []
  if pos - startPos ≠ length then .exc .corrupt else
  pure ({ offset, ts := some ts, tsType := some (if h.attrs % 16 ≥ 8 then 1 else 0),
          key, value, headers := hdrs, crc := none }, pos)

/-- `__next__` repeated until it raises; `idx` = `_next_record_index` -/
def cyNextLoop (cfg : Cfg) (h : V2Hdr) (b : Bytes) : Nat → Int → Int → List Rec → Iter
  | 0, _, _, acc => (acc.reverse, .fault .fuel)
  | fuel + 1, idx, pos, acc =>
    if idx ≥ h.numRecords then
      if pos ≠ b.length then (acc.reverse, .exc .corrupt) else (acc.reverse, .done)
    else
      match cyReadMsg cfg h b pos with
      | .ok (r, pos') => cyNextLoop cfg h b fuel (idx + 1) pos' (r :: acc)
      | .exc e => (acc.reverse, .exc e)
      | .fault f => (acc.reverse, .fault f)

/-- codec ids of the v2 format -/
def v2CodecKnown (c : Int) : Bool := c = 1 || c = 2 || c = 3 || c = 4

/-- `_maybe_uncompress`: the buffer iteration works on and the start position -/
def cyUncompress (codec : Nat → Bytes → Option Bytes) (h : V2Hdr) (b : Bytes) : R (Bytes × Int) :=
  let c := h.attrs % 8
  if c = 0 then .ok (b, 61)
  else if !v2CodecKnown c then .exc .unsupported
  else
    let data := b.drop 61
    match codec c.toNat data with
    | some u => .ok (u, 0)
    | none => .exc (.codecErr c.toNat data.length)

/-- `validate_crc()` of `DefaultRecordBatch` (only reachable after a successful constructor) -/
def cyV2ValidateCrc (h : V2Hdr) (b : Bytes) : R Bool := do
  let bs ← rd b 21 (b.length - 21)       -- `len - ATTRIBUTES_OFFSET` (a huge `size_t` if len < 21)
  pure (h.crc == crc32c bs)

/-- what the harness does with one buffer: construct, optionally `validate_crc()`, iterate -/
structure BatchOut where
  kind : String
  built : Bool := true       -- the constructor returned (else `fin` is what it raised)
  crc : Option Bool
  recs : List Rec
  fin : End
deriving DecidableEq, Repr, Inhabited

def cyDefaultBatch (cfg : Cfg) (codec : Nat → Bytes → Option Bytes) (wantCrc : Bool) (b : Bytes) :
    BatchOut :=
  match cyReadHeader cfg b with
  | .exc e => { kind := "D", built := false, crc := none, recs := [], fin := .exc e }
  | .fault f => { kind := "D", built := false, crc := none, recs := [], fin := .fault f }
  | .ok h =>
    match (if wantCrc then (cyV2ValidateCrc h b).bind (fun x => .ok (some x)) else .ok none) with
    | .exc e => { kind := "D", crc := none, recs := [], fin := .exc e }
    | .fault f => { kind := "D", crc := none, recs := [], fin := .fault f }
    | .ok crc =>
      match cyUncompress codec h b with
      | .exc e => { kind := "D", crc, recs := [], fin := .exc e }
      | .fault f => { kind := "D", crc, recs := [], fin := .fault f }
      | .ok (u, pos) =>
        let (recs, fin) := cyNextLoop cfg h u (u.length + 1) 0 pos []
        { kind := "D", crc, recs, fin }

/-! ## Cython: `legacy_records.pyx` `LegacyRecordBatch` -/

/-- a `LegacyRecord` as stored by `_read_record` -/
structure LRec where
  offset : Int
  ts : Int           -- -1 = none
  attrs : Int        -- signed char
  key : Option Bytes
  value : Option Bytes
  crc : Nat
deriving DecidableEq, Repr, Inhabited

/-- the Python-visible attributes of a `LegacyRecord` -/
def LRec.toRec (r : LRec) : Rec :=
  { offset := r.offset
    ts := if r.ts = -1 then none else some r.ts
    tsType := if r.ts = -1 then none else some (if r.attrs % 16 ≥ 8 then 1 else 0)
    key := r.key, value := r.value, headers := [], crc := some r.crc }

/-- `_check_bounds(pos, size)` of `LegacyRecordBatch` (sizes are `int32` here) -/
def lgCheckBounds (b : Bytes) (pos size : Int) : R Unit :=
  if pos + size > b.length then .exc .corrupt else .ok ()

/-- key or value: 4-byte size at `pos`, then the bytes -/
def cyLgBytes (cfg : Cfg) (b : Bytes) (pos : Int) : R (Option Bytes × Int) := do
  let sz ← rdI32 b pos
  let pos := pos + 4
  if sz ≠ -1 then
    if cfg.sizeCheck && sz < 0 then .exc .corrupt else do
    lgCheckBounds b pos sz
    let v ← pyBytesFrom b pos sz
    pure (some v, pos + sz)
  else pure (none, pos)

/-- `_read_record(&pos)` -/
def cyReadRecord (cfg : Cfg) (b : Bytes) (pos : Int) : R (LRec × Int) := do
  lgCheckBounds b pos 26
  let offset ← rdI64 b pos
  let crc ← rdU32 b (pos + 12)
  let magic ← rdI8 b (pos + 16)
  let attrs ← rdI8 b (pos + 17)
  let (ts, pos) ← (if magic = 1 then do
      lgCheckBounds b pos 34
      let ts ← rdI64 b (pos + 18)
      pure (ts, pos + 26)
    else pure (-1, pos + 18) : R (Int × Int))
  let (key, pos) ← cyLgBytes cfg b pos
  (if cfg.sizeCheck then lgCheckBounds b pos 4 else pure ())
  let (value, pos) ← cyLgBytes cfg b pos
  pure ({ offset, ts, attrs, key, value, crc }, pos)

/-- the `while pos < buffer_len` walk of `_read_last_offset`; returns final `pos` and last `length` -/
def cyLastOffsetLoop (cfg : Cfg) (u : Bytes) : Nat → Int → Int → R (Int × Int)
  | 0, _, _ => .fault .fuel
  | fuel + 1, pos, length =>
    if pos < u.length then do
      (if cfg.walkCheck then lgCheckBounds u pos 12 else pure ())
      let length ← rdI32 u (pos + 8)
      if cfg.walkCheck && length < 14 then .exc .corrupt else do
      let pos ← ss (pos + (12 + length))
      cyLastOffsetLoop cfg u fuel pos length
    else .ok (pos, length)

def cyLastOffset (cfg : Cfg) (u : Bytes) : R Int := do
  if cfg.walkCheck && u.length = 0 then .exc .corrupt else do
  let (pos, length) ← cyLastOffsetLoop cfg u (u.length + 1) 0 0
  if pos > u.length then .exc .corrupt else
  rdI64 u (pos - (12 + length))

/-- the `while pos < self._buffer.len` loop of `__iter__` over the decompressed message set -/
def cyInnerLoop (cfg : Cfg) (u : Bytes) (mainTs : Int) (absBase : Int) (tsFlag : Bool) :
    Nat → Int → List Rec → Iter
  | 0, _, acc => (acc.reverse, .fault .fuel)
  | fuel + 1, pos, acc =>
    if pos < u.length then
      match cyReadRecord cfg u pos with
      | .ok (r, pos') =>
        if r.attrs % 8 ≠ 0 then (acc.reverse, .exc .assertion) else
        let r := if tsFlag then
            { r with ts := mainTs, attrs := if r.attrs % 16 ≥ 8 then r.attrs else r.attrs + 8 }
          else r
        let r := if absBase ≥ 0 then { r with offset := wrap64 (r.offset + absBase) } else r
        cyInnerLoop cfg u mainTs absBase tsFlag fuel pos' (r.toRec :: acc)
      | .exc e => (acc.reverse, .exc e)
      | .fault f => (acc.reverse, .fault f)
    else (acc.reverse, .done)

/-- `__iter__` (generator) run to its end; `magicArg` is the constructor argument `char magic` -/
def cyLegacyIter (cfg : Cfg) (codec : Nat → Bytes → Option Bytes) (magicArg : Int) (main : LRec) :
    Iter :=
  let comp := main.attrs % 8
  if comp = 0 then ([main.toRec], .done) else
  match main.value with
  | none => ([], .exc .corrupt)
  | some v =>
    if !(comp = 1 || comp = 2 || comp = 3) then ([], .exc .unsupported)
    else if comp = 3 && magicArg = 0 then ([], .exc .unsupported)
    else
      match codec comp.toNat v with
      | none => ([], .exc (.codecErr comp.toNat v.length))
      | some u =>
        let tsFlag := main.attrs % 16 ≥ 8
        if magicArg > 0 then
          match cyLastOffset cfg u with
          | .exc e => ([], .exc e)
          | .fault f => ([], .fault f)
          | .ok last =>
            if !cfg.exceptQ && last = -1 then ([], .done)     -- `except -1`: taken for an error
            else cyInnerLoop cfg u main.ts (wrap64 (main.offset - last)) tsFlag (u.length + 1) 0 []
        else cyInnerLoop cfg u main.ts (-1) tsFlag (u.length + 1) 0 []

/-- `validate_crc()` of `LegacyRecordBatch` -/
def cyLgValidateCrc (main : LRec) (b : Bytes) : R Bool := do
  let bs ← rd b 16 (b.length - 16)
  pure (main.crc == crc32 bs)

def cyLegacyBatch (cfg : Cfg) (codec : Nat → Bytes → Option Bytes) (wantCrc : Bool)
    (magicArg : Int) (b : Bytes) : BatchOut :=
  match cyReadRecord cfg b 0 with
  | .exc e => { kind := "L", built := false, crc := none, recs := [], fin := .exc e }
  | .fault f => { kind := "L", built := false, crc := none, recs := [], fin := .fault f }
  | .ok (main, _) =>
    match (if wantCrc then (cyLgValidateCrc main b).bind (fun x => .ok (some x)) else .ok none) with
    | .exc e => { kind := "L", crc := none, recs := [], fin := .exc e }
    | .fault f => { kind := "L", crc := none, recs := [], fin := .fault f }
    | .ok crc =>
      let (recs, fin) := cyLegacyIter cfg codec magicArg main
      { kind := "L", crc, recs, fin }

/-! ## Cython: `memory_records.pyx` `MemoryRecords` -/

/-- `while records.has_next(): batch = records.next_batch(); <validate_crc, iterate>` until the
    first exception -/
def cyMemLoop (cfg : Cfg) (codec : Nat → Bytes → Option Bytes) (wantCrc : Bool) (b : Bytes) :
    Nat → Int → List BatchOut → List BatchOut × End
  | 0, _, acc => (acc.reverse, .fault .fuel)
  | fuel + 1, pos, acc =>
    -- has_next()
    if (b.length : Int) - pos < 12 then (acc.reverse, .done) else
    match rdI32 b (pos + 8) with
    | .exc e => (acc.reverse, .exc e)
    | .fault f => (acc.reverse, .fault f)
    | .ok length =>
      if (b.length : Int) - pos < 12 + length then (acc.reverse, .done) else
      -- next_batch() = _get_next()
      if length < 14 then (acc.reverse, .exc .corrupt) else
      match ss (pos + 12 + length) with
      | .exc e => (acc.reverse, .exc e)
      | .fault f => (acc.reverse, .fault f)
      | .ok sliceEnd =>
        match rdI8 b (if cfg.magicRel then pos + 16 else 16) with
        | .exc e => (acc.reverse, .exc e)
        | .fault f => (acc.reverse, .fault f)
        | .ok magic =>
          let slice := (b.drop pos.toNat).take (sliceEnd - pos).toNat
          let out := if magic < 2 then cyLegacyBatch cfg codec wantCrc magic slice
                     else cyDefaultBatch cfg codec wantCrc slice
          match out.fin with
          | .done => cyMemLoop cfg codec wantCrc b fuel sliceEnd (out :: acc)
          | e => ((out :: acc).reverse, e)

def cyMemory (cfg : Cfg) (codec : Nat → Bytes → Option Bytes) (wantCrc : Bool) (b : Bytes) :
    List BatchOut × End :=
  cyMemLoop cfg codec wantCrc b (b.length + 1) 0 []

/-- the OTHER legitimate driver of `MemoryRecords`: `while (batch := records.next_batch()) is not None`
    — no `has_next()` guard, so `_get_next`'s own "does the batch lie inside the buffer" test is the
    only thing between a trailing partial batch and a slice that reaches past the buffer.
    (Differs from `cyMemLoop` in the order of the tests: `length < 14` raises before the fit test.) -/
def cyMemLoopN (cfg : Cfg) (codec : Nat → Bytes → Option Bytes) (wantCrc : Bool) (b : Bytes) :
    Nat → Int → List BatchOut → List BatchOut × End
  | 0, _, acc => (acc.reverse, .fault .fuel)
  | fuel + 1, pos, acc =>
    -- _get_next(): remaining < LOG_OVERHEAD -> None
    if (b.length : Int) - pos < 12 then (acc.reverse, .done) else
    match rdI32 b (pos + 8) with
    | .exc e => (acc.reverse, .exc e)
    | .fault f => (acc.reverse, .fault f)
    | .ok length =>
      if length < 14 then (acc.reverse, .exc .corrupt) else
      match ss (pos + 12 + length) with
      | .exc e => (acc.reverse, .exc e)
      | .fault f => (acc.reverse, .fault f)
      | .ok sliceEnd =>
        -- slice_end > buffer_len -> None
        if sliceEnd > (b.length : Int) then (acc.reverse, .done) else
        match rdI8 b (if cfg.magicRel then pos + 16 else 16) with
        | .exc e => (acc.reverse, .exc e)
        | .fault f => (acc.reverse, .fault f)
        | .ok magic =>
          let slice := (b.drop pos.toNat).take (sliceEnd - pos).toNat
          let out := if magic < 2 then cyLegacyBatch cfg codec wantCrc magic slice
                     else cyDefaultBatch cfg codec wantCrc slice
          match out.fin with
          | .done => cyMemLoopN cfg codec wantCrc b fuel sliceEnd (out :: acc)
          | e => ((out :: acc).reverse, e)

def cyMemoryN (cfg : Cfg) (codec : Nat → Bytes → Option Bytes) (wantCrc : Bool) (b : Bytes) :
    List BatchOut × End :=
  cyMemLoopN cfg codec wantCrc b (b.length + 1) 0 []

/-! ## Python primitives (memory-safe by construction: they raise, they never fault) -/

/-- `buffer[i]` -/
def pyIndex (b : Bytes) (i : Int) : R Nat :=
  let j := if i < 0 then i + b.length else i
  if j < 0 then .exc .indexErr else
  match b[j.toNat]? with
  | some x => .ok x
  | none => .exc .indexErr

def pyNorm (n : Int) (i : Int) : Int := if i < 0 then max (i + n) 0 else min i n

/-- `buffer[lo:hi]` -/
def pySlice (b : Bytes) (lo hi : Int) : Bytes :=
  let l := pyNorm b.length lo
  let h := pyNorm b.length hi
  (b.drop l.toNat).take (h - l).toNat

/-- `struct.unpack_from(fmt, buffer, off)` for a format of `size` bytes: the raw bytes -/
def pyUnpackFrom (b : Bytes) (off : Int) (size : Nat) : R Bytes :=
  let o := if off < 0 then off + b.length else off
  if o < 0 then .exc .structErr
  else if (b.length : Int) - o < size then .exc .structErr
  else .ok ((b.drop o.toNat).take size)

def pyI32At (b : Bytes) (off : Int) : R Int := do
  let bs ← pyUnpackFrom b off 4
  pure (toS 32 (beNat bs))

/-! ## Python: `util.py` `decode_varint_py` -/

def pyVarintLoop (b : Bytes) : Nat → Int → Nat → Nat → R (Int × Int)
  | 0, _, _, _ => .exc .valueErr                -- "Out of int64 range"
  | fuel + 1, pos, shift, acc =>
    match pyIndex b pos with
    | .fault f => .fault f
    | .exc e => .exc e
    | .ok x =>
      if x ≥ 128 then pyVarintLoop b fuel (pos + 1) (shift + 7) (acc ||| ((x % 128) <<< shift))
      else .ok (unzig (acc ||| (x <<< shift)), pos + 1)

def pyVarint (b : Bytes) (pos : Int) : R (Int × Int) := pyVarintLoop b 10 pos 0 0

/-! ## Python: `default_records.py` `_DefaultRecordBatchPy` -/

def pyReadHeader (b : Bytes) : R V2Hdr := do
  let bs ← pyUnpackFrom b 0 61
  let f (o n : Nat) : Nat := beNat ((bs.drop o).take n)
  pure { baseOffset := toS 64 (f 0 8), length := toS 32 (f 8 4), magic := toS 8 (f 16 1),
         crc := f 17 4 % 2 ^ 32, attrs := toS 16 (f 21 2), lastOffsetDelta := toS 32 (f 23 4),
         firstTs := toS 64 (f 27 8), maxTs := toS 64 (f 35 8), producerId := toS 64 (f 43 8),
         producerEpoch := toS 16 (f 51 2), baseSequence := toS 32 (f 53 4),
         numRecords := toS 32 (f 57 4) }

def pyBytesField (b : Bytes) (pos len : Int) : Option Bytes × Int :=
  if len ≥ 0 then (some (pySlice b pos (pos + len)), pos + len) else (none, pos)

/-- the `while header_count:` loop -/
def pyHeaders (b : Bytes) : Nat → Int → Int → List (Bytes × Option Bytes) →
    R (List (Bytes × Option Bytes) × Int)
  | 0, _, _, _ => .fault .fuel
  | fuel + 1, count, pos, acc =>
    if count = 0 then .ok (acc.reverse, pos) else do
    let (klen, pos) ← pyVarint b pos
    if klen < 0 then .exc .corrupt else
    let k := pySlice b pos (pos + klen)
    if !isUtf8 k then .exc .unicode else
    let pos := pos + klen
    let (vlen, pos) ← pyVarint b pos
    let (v, pos) := pyBytesField b pos vlen
    pyHeaders b fuel (count - 1) pos ((k, v) :: acc)

def pyReadMsg (h : V2Hdr) (b : Bytes) (pos : Int) : R (Rec × Int) := do
  let (length, pos) ← pyVarint b pos
  let startPos := pos
  let (_, pos) ← pyVarint b pos
  let (tsDelta, pos) ← pyVarint b pos
  let ts := if h.attrs % 16 ≥ 8 then h.maxTs else h.firstTs + tsDelta
  let (offDelta, pos) ← pyVarint b pos
  let offset := h.baseOffset + offDelta
  let (klen, pos) ← pyVarint b pos
  let (key, pos) := pyBytesField b pos klen
  let (vlen, pos) ← pyVarint b pos
  let (value, pos) := pyBytesField b pos vlen
  let (hcount, pos) ← pyVarint b pos
  if hcount < 0 then .exc .corrupt else
  let (hdrs, pos) ← pyHeaders b (b.length + 1) hcount pos []
  if pos - startPos ≠ length then .exc .corrupt else
  pure ({ offset, ts := some ts, tsType := some (if h.attrs % 16 ≥ 8 then 1 else 0),
          key, value, headers := hdrs, crc := none }, pos)

/-- `__next__` wraps `(ValueError, IndexError)` into `CorruptRecordException` -/
def pyWrapErr : Exc → Exc
  | .valueErr => .corrupt
  | .indexErr => .corrupt
  | .unicode => .corrupt
  | e => e

def pyNextLoop (h : V2Hdr) (b : Bytes) : Nat → Int → Int → List Rec → Iter
  | 0, _, _, acc => (acc.reverse, .fault .fuel)
  | fuel + 1, idx, pos, acc =>
    if idx ≥ h.numRecords then
      if pos ≠ b.length then (acc.reverse, .exc .corrupt) else (acc.reverse, .done)
    else
      match pyReadMsg h b pos with
      | .ok (r, pos') => pyNextLoop h b fuel (idx + 1) pos' (r :: acc)
      | .exc e => (acc.reverse, .exc (pyWrapErr e))
      | .fault f => (acc.reverse, .fault f)

def pyUncompress (codec : Nat → Bytes → Option Bytes) (h : V2Hdr) (b : Bytes) : R (Bytes × Int) :=
  let c := h.attrs % 8
  if c = 0 then .ok (b, 61)
  else if !v2CodecKnown c then .exc .unsupported
  else
    let data := pySlice b 61 b.length
    match codec c.toNat data with
    | some u => .ok (u, 0)
    | none => .exc (.codecErr c.toNat data.length)

def pyDefaultBatch (codec : Nat → Bytes → Option Bytes) (wantCrc : Bool) (b : Bytes) : BatchOut :=
  match pyReadHeader b with
  | .exc e => { kind := "D", built := false, crc := none, recs := [], fin := .exc e }
  | .fault f => { kind := "D", built := false, crc := none, recs := [], fin := .fault f }
  | .ok h =>
    let crc := if wantCrc then some (h.crc == crc32c (pySlice b 21 b.length)) else none
    match pyUncompress codec h b with
    | .exc e => { kind := "D", crc, recs := [], fin := .exc e }
    | .fault f => { kind := "D", crc, recs := [], fin := .fault f }
    | .ok (u, pos) =>
      let (recs, fin) := pyNextLoop h u (u.length + 1) 0 pos []
      { kind := "D", crc, recs, fin }

/-! ## Python: `legacy_records.py` `_LegacyRecordBatchPy` -/

structure PyLHdr where
  offset : Int
  length : Int
  crc : Nat
  magic : Int
  attrs : Int
  ts : Option Int
deriving DecidableEq, Repr, Inhabited

/-- `_read_header(pos)`: `HEADER_STRUCT_V0` when the constructor's `magic` is 0, else `_V1` -/
def pyLgReadHeader (magicArg : Int) (b : Bytes) (pos : Int) : R PyLHdr := do
  let bs ← pyUnpackFrom b pos (if magicArg = 0 then 18 else 26)
  let f (o n : Nat) : Nat := beNat ((bs.drop o).take n)
  pure { offset := toS 64 (f 0 8), length := toS 32 (f 8 4), crc := f 12 4 % 2 ^ 32,
         magic := toS 8 (f 16 1), attrs := toS 8 (f 17 1),
         ts := if magicArg = 0 then none else some (toS 64 (f 18 8)) }

/-- `_read_key_value(pos)` -/
def pyLgKeyValue (b : Bytes) (pos : Int) : R (Option Bytes × Option Bytes) := do
  let ksz ← pyI32At b pos
  let pos := pos + 4
  let (key, pos) : Option Bytes × Int :=
    if ksz = -1 then (none, pos) else (some (pySlice b pos (pos + ksz)), pos + ksz)
  let vsz ← pyI32At b pos
  let pos := pos + 4
  let value : Option Bytes := if vsz = -1 then none else some (pySlice b pos (pos + vsz))
  pure (key, value)

/-- `_read_all_headers()` -/
def pyLgWalk (cfg : Cfg) (magicArg : Int) (u : Bytes) : Nat → Int → List (PyLHdr × Int) →
    R (List (PyLHdr × Int))
  | 0, _, _ => .fault .fuel
  | fuel + 1, pos, acc =>
    if pos < u.length then do
      let h ← pyLgReadHeader magicArg u pos
      if cfg.pyWalkCheck && h.length < 14 then .exc .corrupt else
      pyLgWalk cfg magicArg u fuel (pos + (12 + h.length)) ((h, pos) :: acc)
    else .ok acc.reverse

/-- the compressed branch of `_decompress(key_offset)` up to the codec call: the payload -/
def pyLgPayload (b : Bytes) (keyOffset : Int) : R Bytes := do
  let ksz ← pyI32At b keyOffset
  let pos := keyOffset + 4
  let pos := if ksz ≠ -1 then pos + ksz else pos
  let vsz ← pyI32At b pos
  let pos := pos + 4
  if vsz = -1 then .exc .corrupt else
  pure (pySlice b pos (pos + vsz))

def pyLgInner (u : Bytes) (keyOffset : Int) (wrapTsType : Option Nat) (wrapTs : Option Int)
    (absBase : Int) : List (PyLHdr × Int) → List Rec → Iter
  | [], acc => (acc.reverse, .done)
  | (h, mpos) :: rest, acc =>
    if h.attrs % 8 ≠ 0 then (acc.reverse, .exc .assertion) else
    let ts := if wrapTsType = some 1 then wrapTs else h.ts
    let offset := if absBase ≥ 0 then h.offset + absBase else h.offset
    match pyLgKeyValue u (mpos + keyOffset) with
    | .ok (key, value) =>
      pyLgInner u keyOffset wrapTsType wrapTs absBase rest
        ({ offset, ts, tsType := wrapTsType, key, value, headers := [], crc := some h.crc } :: acc)
    | .exc e => (acc.reverse, .exc e)
    | .fault f => (acc.reverse, .fault f)

def pyLegacyIter (cfg : Cfg) (codec : Nat → Bytes → Option Bytes) (magicArg : Int) (b : Bytes)
    (h : PyLHdr) : Iter :=
  let keyOffset : Int := if magicArg = 1 then 26 else 18
  let tsType : Option Nat := if magicArg = 0 then none else some (if h.attrs % 16 ≥ 8 then 1 else 0)
  let comp := h.attrs % 8
  if comp = 0 then
    match pyLgKeyValue b keyOffset with
    | .ok (key, value) =>
      ([{ offset := h.offset, ts := h.ts, tsType, key, value, headers := [], crc := some h.crc }],
       .done)
    | .exc e => ([], .exc e)
    | .fault f => ([], .fault f)
  else
    match pyLgPayload b keyOffset with
    | .exc e => ([], .exc e)
    | .fault f => ([], .fault f)
    | .ok data =>
      if !(comp = 1 || comp = 2 || comp = 3) then ([], .exc .unsupported)
      else if comp = 3 && magicArg = 0 then ([], .exc .unsupported)
      else
        match codec comp.toNat data with
        | none => ([], .exc (.codecErr comp.toNat data.length))
        | some u =>
          match pyLgWalk cfg magicArg u (u.length + 1) 0 [] with
          | .exc e => ([], .exc e)
          | .fault f => ([], .fault f)
          | .ok hs =>
            if magicArg > 0 then
              match hs.getLast? with
              | none => ([], .exc .indexErr)
              | some (lh, _) => pyLgInner u keyOffset tsType h.ts (h.offset - lh.offset) hs []
            else pyLgInner u keyOffset tsType h.ts (-1) hs []

def pyLegacyBatch (cfg : Cfg) (codec : Nat → Bytes → Option Bytes) (wantCrc : Bool)
    (magicArg : Int) (b : Bytes) : BatchOut :=
  match pyLgReadHeader magicArg b 0 with
  | .exc e => { kind := "L", built := false, crc := none, recs := [], fin := .exc e }
  | .fault f => { kind := "L", built := false, crc := none, recs := [], fin := .fault f }
  | .ok h =>
    if h.length ≠ (b.length : Int) - 12 then
      { kind := "L", built := false, crc := none, recs := [], fin := .exc .assertion }
    else if magicArg ≠ h.magic then
      { kind := "L", built := false, crc := none, recs := [], fin := .exc .assertion }
    else
      let crc := if wantCrc then some (h.crc == crc32 (pySlice b 16 b.length)) else none
      let (recs, fin) := pyLegacyIter cfg codec magicArg b h
      { kind := "L", crc, recs, fin }

/-! ## Python: `memory_records.py` `_MemoryRecordsPy` -/

/-- `_cache_next()`: the next slice (if any) and the new `_pos` -/
def pyCacheNext (b : Bytes) (pos : Int) : R (Option Bytes × Int) :=
  if (b.length : Int) - pos < 12 then .ok (none, pos) else do
  let length ← pyI32At b (pos + 8)
  let sliceEnd := pos + 12 + length
  if sliceEnd > b.length then .ok (none, pos)
  else .ok (some (pySlice b pos sliceEnd), sliceEnd)

/-- `while records.has_next(): batch = records.next_batch(); …` until the first exception -/
def pyMemLoop (cfg : Cfg) (codec : Nat → Bytes → Option Bytes) (wantCrc : Bool) (b : Bytes) :
    Nat → Option Bytes → Int → List BatchOut → List BatchOut × End
  | _, none, _, acc => (acc.reverse, .done)
  | 0, some _, _, acc => (acc.reverse, .fault .fuel)
  | fuel + 1, some slice, pos, acc =>
    if slice.length < 26 then (acc.reverse, .exc .corrupt) else
    match pyCacheNext b pos with
    | .exc e => (acc.reverse, .exc e)
    | .fault f => (acc.reverse, .fault f)
    | .ok (next, pos') =>
      match pyIndex slice 16 with
      | .exc e => (acc.reverse, .exc e)
      | .fault f => (acc.reverse, .fault f)
      | .ok magic =>
        let out := if magic ≥ 2 then pyDefaultBatch codec wantCrc slice
                   else pyLegacyBatch cfg codec wantCrc magic slice
        match out.fin with
        | .done => pyMemLoop cfg codec wantCrc b fuel next pos' (out :: acc)
        | e => ((out :: acc).reverse, e)

def pyMemory (cfg : Cfg) (codec : Nat → Bytes → Option Bytes) (wantCrc : Bool) (b : Bytes) :
    List BatchOut × End :=
  match pyCacheNext b 0 with
  | .exc e => ([], .exc e)
  | .fault f => ([], .fault f)
  | .ok (next, pos) => pyMemLoop cfg codec wantCrc b (b.length + 1) next pos []

/-- `_MemoryRecordsPy` driven by `next_batch()` until it returns `None`: `has_next()` is
    `self._next_slice is not None` and `next_batch()` starts with `if next_slice is None: return
    None`, so both drivers are the same function of the buffer -/
def pyMemoryN (cfg : Cfg) (codec : Nat → Bytes → Option Bytes) (wantCrc : Bool) (b : Bytes) :
    List BatchOut × End :=
  pyMemory cfg codec wantCrc b

/-! ## the entry points of the property -/

inductive Entry where
  | cyD                 -- `DefaultRecordBatch(buf)` of the C extension
  | cyL (magic : Int)    -- `LegacyRecordBatch(buf, magic)` of the C extension
  | cyM                  -- `MemoryRecords(buf)` of the C extension, all batches, `has_next()`-guarded
  | cyN                  -- the same, `next_batch()` until it returns `None`
  | cyV (pos : Int)      -- `decode_varint_cython(buf, pos)`
  | pyD                 -- `_DefaultRecordBatchPy(buf)`
  | pyL (magic : Int)    -- `_LegacyRecordBatchPy(buf, magic)`
  | pyM                  -- `_MemoryRecordsPy(buf)`, all batches, `has_next()`-guarded
  | pyN                  -- the same, `next_batch()` until it returns `None`
  | pyV (pos : Int)      -- `decode_varint_py(buf, pos)`
deriving DecidableEq, Repr

/-- every end reached while an entry point runs on `b` (construct, optionally `validate_crc()`,
    iterate to the end): of the run itself and of each batch it went through -/
def Entry.ends (e : Entry) (cfg : Cfg) (codec : Nat → Bytes → Option Bytes) (wantCrc : Bool)
    (b : Bytes) : List End :=
  match e with
  | .cyD => [(cyDefaultBatch cfg codec wantCrc b).fin]
  | .cyL m => [(cyLegacyBatch cfg codec wantCrc m b).fin]
  | .cyM => (cyMemory cfg codec wantCrc b).2 :: (cyMemory cfg codec wantCrc b).1.map (·.fin)
  | .cyN => (cyMemoryN cfg codec wantCrc b).2 :: (cyMemoryN cfg codec wantCrc b).1.map (·.fin)
  | .cyV pos => [(cyVarintPy cfg b pos).toEnd]
  | .pyD => [(pyDefaultBatch codec wantCrc b).fin]
  | .pyL m => [(pyLegacyBatch cfg codec wantCrc m b).fin]
  | .pyM => (pyMemory cfg codec wantCrc b).2 :: (pyMemory cfg codec wantCrc b).1.map (·.fin)
  | .pyN => (pyMemoryN cfg codec wantCrc b).2 :: (pyMemoryN cfg codec wantCrc b).1.map (·.fin)
  | .pyV pos => [(pyVarint b pos).toEnd]

def Entry.isPython : Entry → Bool
  | .pyD | .pyL _ | .pyM | .pyN | .pyV _ => true
  | _ => false

/-- the stored checksum field of a v2 batch / of a v0/v1 message -/
def storedCrcV2 (b : Bytes) : Nat := beNat ((b.drop 17).take 4) % 2 ^ 32
def storedCrcLegacy (b : Bytes) : Nat := beNat ((b.drop 12).take 4) % 2 ^ 32

end AkVerif.Safe
