import AkVerif.Model.GroupEv
/-!
C04 — positions, commits and the committed-offset store, as an acceptor of histories.

Per member incarnation `m` and partition `p` the model keeps the *ownership epochs* of `m` on `p`
(an epoch begins when `m` adopts an assignment containing `p`, ends at `m`'s next adoption or
subscription change):

* `cand`  the start offset `m` was last offered in this epoch (OffsetFetch reply, or ListOffsets
          reply after "no committed offset") and has not used yet
          (`Fetcher._update_fetch_positions`, `TopicPartitionState.reset_to`);
* `cur`   `(start, pos)` of the running epoch once the position is in use: `pos` only moves by
          handing a record to the application (`FetchResult._update_position`) or over offsets
          that carry no visible record (control batches, compaction gaps);
* `hist`  the closed epochs of `m` on `p` (a retried `commit()` may carry positions of an earlier
          assignment of the same member: `commit_offsets` keeps its `offsets` argument while it
          retries, `_do_commit_offsets` never looks at the assignment).

Mechanism guards:
* deliver: the record handed out is the next visible one at or after `pos`;
* commit:  the committed value is a position the member has held: `start ≤ c ≤ pos` of one of its
           epochs, or beyond `pos` over invisible offsets only — `all_consumed_offsets()`;
* offer (Env): an OffsetFetch answer is the stored offset (`noOffset`: nothing stored); a reset
           answer is the log start, and a member resets only after it was told `noOffset`
           (`_update_fetch_positions`: `committed.offset == UNKNOWN_OFFSET` → `await_reset`).
Coordinator side: `store` = the committed offsets; `ok` commits overwrite it.

`dl` is a ghost: which `(m, p, offset)` have been handed to the application so far.
-/
namespace AkVerif.Group.Commit

structure Params where
  /-- `vis p k`: offset `k` of partition `p` carries a record an application can see -/
  vis : Nat → Nat → Bool
  /-- what ListOffsets(earliest) answers for `p` (the log start; never moves in a history) -/
  logStart : Nat → Nat

structure PS where
  own : Bool := false
  cand : Option Nat := none
  resetOK : Bool := false
  cur : Option (Nat × Nat) := none
  hist : List (Nat × Nat) := []
deriving Inhabited

structure St where
  ps : Nat → Nat → PS
  store : Nat → Option Nat
  dl : Nat → Nat → Nat → Bool

def St.init : St := { ps := fun _ _ => {}, store := fun _ => none, dl := fun _ _ _ => false }

/-- no visible record at the offsets `a ≤ k < b` of `p` -/
def noVis (P : Params) (p a b : Nat) : Bool := (List.range (b - a)).all (fun i => !P.vis p (a + i))

/-- `c` is a position held in the epoch `e = (start, pos)`: between the two, or beyond `pos` over
    offsets that carry nothing visible (the position moved there without a hand-out) -/
def covered (P : Params) (p c : Nat) (e : Nat × Nat) : Bool :=
  decide (e.1 ≤ c) && (decide (c ≤ e.2) || noVis P p e.2 c)

/-- end the running epoch (if any) and start a new one iff `own`; an epoch whose start offset was
    offered but never used ends as the empty interval at that offset (the position was valid:
    the commit before the next rejoin may still carry it) -/
def close (x : PS) (own : Bool) : PS :=
  { own := own, cand := none, resetOK := false, cur := none,
    hist := match x.cur with
      | some e => e :: x.hist
      | none =>
        match x.cand with
        | some v => (v, v) :: x.hist
        | none => x.hist }

/-- the epoch a delivery / a commit of a fresh position works on: the running one, else the one
    that starts at the offered offset -/
def bound (x : PS) : Option (Nat × Nat) :=
  match x.cur with
  | some e => some e
  | none => if x.own then x.cand.map (fun v => (v, v)) else none

def guard (P : Params) (s : St) : Ev → Bool
  | .offer m p v src =>
    match src with
    | .committed => s.store p == some v
    | .reset =>
      -- (Env) the log start; (mechanism) a usable reset presupposes "no committed offset"
      v == P.logStart p && (!((s.ps m p).own && (s.ps m p).cur.isNone) || (s.ps m p).resetOK)
  | .noOffset _ p => s.store p == none
  | .deliver m p o =>
    let x := s.ps m p
    x.own &&
    match bound x with
    | some (_, q) => decide (q ≤ o) && noVis P p q o
    | none => false
  | .commit m p c _ =>
    let x := s.ps m p
    x.hist.any (covered P p c) ||
    match bound x with
    | some e => covered P p c e
    | none => false
  | _ => true

def updPS (P : Params) (x : PS) : Ev → PS
  | .offer _ _ v _ => if x.own && x.cur.isNone then { x with cand := some v } else x
  | .noOffset _ _ => if x.own && x.cur.isNone then { x with resetOK := true } else x
  | .deliver _ _ o =>
    match bound x with
    | some (st, _) => { x with cur := some (st, o + 1), cand := none }
    | none => x
  | .commit _ p c _ =>
    if x.hist.any (covered P p c) then x else
    match bound x with
    | some (st, q) => { x with cur := some (st, if c ≤ q then q else c), cand := none }
    | none => x
  | _ => x

def post (P : Params) (s : St) : Ev → St
  | .asgS m _ tps =>
    { s with ps := fun m' p' => if m' = m then close (s.ps m p') (tps.contains p') else s.ps m' p' }
  | .sub m =>
    { s with ps := fun m' p' => if m' = m then close (s.ps m p') false else s.ps m' p' }
  | .offer m p v src =>
    { s with ps := fun m' p' => if m' = m ∧ p' = p then updPS P (s.ps m p) (.offer m p v src) else s.ps m' p' }
  | .noOffset m p =>
    { s with ps := fun m' p' => if m' = m ∧ p' = p then updPS P (s.ps m p) (.noOffset m p) else s.ps m' p' }
  | .deliver m p o =>
    { s with ps := fun m' p' => if m' = m ∧ p' = p then updPS P (s.ps m p) (.deliver m p o) else s.ps m' p',
             dl := fun m' p' o' => (m' == m && p' == p && o' == o) || s.dl m' p' o' }
  | .commit m p c ok =>
    { s with ps := fun m' p' => if m' = m ∧ p' = p then updPS P (s.ps m p) (.commit m p c ok) else s.ps m' p',
             store := fun p' => if ok ∧ p' = p then some c else s.store p' }
  | _ => s

def step (P : Params) (s : St) (e : Ev) : Option St := if guard P s e then some (post P s e) else none

def run (P : Params) (s : St) (tr : List Ev) : Option St := runWith (step P) s tr

def accepts (P : Params) (tr : List Ev) : Bool := (run P St.init tr).isSome

end AkVerif.Group.Commit
