import AkVerif.Model.Util
/-!
Model of `aiokafka/partitioner.py` (C17).

* `pyMurmur2`  — transcription of `murmur2(data)`: unbounded `Nat` with the explicit
  `& 0xFFFFFFFF` masks and `% 0x100000000` exactly where the Python code has them.
* `javaMurmur2` — transcription of `org.apache.kafka.common.utils.Utils.murmur2` over `BitVec 32`
  (Java `int` arithmetic: wrap-around multiply, `>>>`, bytes widened with `& 0xff`).
* `partition`  — `DefaultPartitioner.__call__`; `random.choice xs` is the oracle `xs[c % |xs|]`.
-/
namespace AkVerif.Murmur

def M : Nat := 0x5BD1E995
def SEED : Nat := 0x9747B28C
def mask32 (x : Nat) : Nat := x &&& 0xFFFFFFFF
abbrev MB : BitVec 32 := BitVec.ofNat 32 M

/-- a byte, zero-extended (`b & 0xff` on a Java `byte`) and shifted by `s` -/
def bz (b : BitVec 8) (s : Nat) : BitVec 32 := (b.zeroExtend 32) <<< s

/-- python: the body of the 4-byte loop -/
def pyMix (h b0 b1 b2 b3 : Nat) : Nat :=
  let k := (b0 &&& 0xFF) + ((b1 &&& 0xFF) <<< 8) + ((b2 &&& 0xFF) <<< 16) + ((b3 &&& 0xFF) <<< 24)
  let k := mask32 k
  let k := mask32 (k * M)
  let k := mask32 (k ^^^ ((k % 0x100000000) >>> 24))
  let k := mask32 (k * M)
  let h := mask32 (h * M)
  mask32 (h ^^^ k)

def jMix (h : BitVec 32) (b0 b1 b2 b3 : BitVec 8) : BitVec 32 :=
  let k : BitVec 32 := bz b0 0 + bz b1 8 + bz b2 16 + bz b3 24
  let k := k * MB
  let k := k ^^^ (k >>> 24)
  let k := k * MB
  let h := h * MB
  h ^^^ k

/-- python loop over whole 4-byte words; returns `h` and the tail (fewer than 4 bytes) -/
def pyLoop (h : Nat) : List Nat → Nat × List Nat
  | b0 :: b1 :: b2 :: b3 :: rest => pyLoop (pyMix h b0 b1 b2 b3) rest
  | tail => (h, tail)

def jLoop (h : BitVec 32) : List (BitVec 8) → BitVec 32 × List (BitVec 8)
  | b0 :: b1 :: b2 :: b3 :: rest => jLoop (jMix h b0 b1 b2 b3) rest
  | tail => (h, tail)

/-- python tail: `extra_bytes >= 3`, `>= 2`, `>= 1` in that order, then `h *= m` -/
def pyTail (h : Nat) : List Nat → Nat
  | [a] => mask32 (mask32 (h ^^^ (a &&& 0xFF)) * M)
  | [a, b] =>
      let h := mask32 (h ^^^ ((b &&& 0xFF) <<< 8))
      mask32 (mask32 (h ^^^ (a &&& 0xFF)) * M)
  | [a, b, c] =>
      let h := mask32 (h ^^^ ((c &&& 0xFF) <<< 16))
      let h := mask32 (h ^^^ ((b &&& 0xFF) <<< 8))
      mask32 (mask32 (h ^^^ (a &&& 0xFF)) * M)
  | _ => h

/-- Java `switch (length % 4)` with fall-through -/
def jTail (h : BitVec 32) : List (BitVec 8) → BitVec 32
  | [a] => (h ^^^ bz a 0) * MB
  | [a, b] => ((h ^^^ bz b 8) ^^^ bz a 0) * MB
  | [a, b, c] => (((h ^^^ bz c 16) ^^^ bz b 8) ^^^ bz a 0) * MB
  | _ => h

def pyFinal (h : Nat) : Nat :=
  let h := mask32 (h ^^^ ((h % 0x100000000) >>> 13))
  let h := mask32 (h * M)
  mask32 (h ^^^ ((h % 0x100000000) >>> 15))

def jFinal (h : BitVec 32) : BitVec 32 :=
  let h := h ^^^ (h >>> 13)
  let h := h * MB
  h ^^^ (h >>> 15)

def pyMurmur2 (data : List Nat) : Nat :=
  let (h, tail) := pyLoop (SEED ^^^ data.length) data
  pyFinal (pyTail h tail)

def javaMurmur2 (data : List (BitVec 8)) : BitVec 32 :=
  let (h, tail) := jLoop (BitVec.ofNat 32 SEED ^^^ BitVec.ofNat 32 data.length) data
  jFinal (jTail h tail)

/-- Java `Utils.toPositive(int)` -/
def jToPositive (h : BitVec 32) : BitVec 32 := h &&& 0x7FFFFFFF#32

/-- `DefaultPartitioner.__call__(key, all_partitions, available)`.
`none` = the Python call raises (`ZeroDivisionError` / `IndexError` on empty lists). -/
def partition (key : Option (List Nat)) (all avail : List Nat) (c : Nat) : Option Nat :=
  match key with
  | none =>
    if avail ≠ [] then avail[c % avail.length]? else
    if all ≠ [] then all[c % all.length]? else none
  | some k =>
    if all = [] then none else
    all[((pyMurmur2 k) &&& 0x7FFFFFFF) % all.length]?

/-- sorted set of naturals: what iterating `set(range-like ints)` yields -/
def insertU (a : Nat) : List Nat → List Nat
  | [] => [a]
  | x :: r => if a < x then a :: x :: r else if a = x then x :: r else x :: insertU a r
def usort (l : List Nat) : List Nat := l.foldr insertU []

/-- `AIOKafkaProducer._partition` over real cluster metadata: `leaders` lists
    `(partition, leader node id)` of the topic, `-1` = no leader
    (`ClusterMetadata.partitions_for_topic` / `available_partitions_for_topic`) -/
def partitionMd (key : Option (List Nat)) (leaders : List (Nat × Int)) (c : Nat) : Option Nat :=
  partition key (usort (leaders.map (·.1)))
    (usort ((leaders.filter (fun pl => pl.2 != -1)).map (·.1))) c

/-- what the Java client's `DefaultPartitioner` computes for a keyed record -/
def javaKeyedIndex (key : List (BitVec 8)) (n : Nat) : Nat :=
  (jToPositive (javaMurmur2 key)).toNat % n

/-- executable statement of the keyed clause on an observation `(key, all, result)` -/
def holdsKeyed (key : List (BitVec 8)) (all : List Nat) (result : Nat) : Bool :=
  all[javaKeyedIndex key all.length]? == some result

/-- executable statement of the unkeyed clause on an observation `(avail, result)` -/
def holdsUnkeyed (avail : List Nat) (result : Nat) : Bool :=
  avail.isEmpty || avail.contains result

def parseLeaders (s : String) : Option (List (Nat × Int)) :=
  if s == "-" then some [] else
  (s.splitOn ",").mapM fun item =>
    match item.splitOn ":" with
    | [p, l] => do some ((← p.toNat?), (← l.toInt?))
    | _ => none

open AkVerif.Util in
/-- driver: `murmur <hex>` and `part <hex|none> <all> <avail> <choice>` -/
def handle : List String → Option String
  | ["murmur", h] => do
    let bs ← parseHex h
    some (toString (pyMurmur2 bs))
  | ["jmurmur", h] => do
    let bs ← parseHex h
    some (toString (javaMurmur2 (bs.map (BitVec.ofNat 8))).toNat)
  | ["part", k, all, avail, c] => do
    let key ← if k == "none" then some none else (parseHex k).map some
    let all ← parseNatList all
    let avail ← parseNatList avail
    let c ← parseNat c
    match partition key all avail c with
    | some p => some (toString p)
    | none => some "raise"
  | ["partmd", k, leaders, c] => do
    let key ← if k == "none" then some none else (parseHex k).map some
    let ls ← parseLeaders leaders
    let c ← parseNat c
    match partitionMd key ls c with
    | some p => some (toString p)
    | none => some "raise"
  -- the property itself, evaluated on an observed result (`S`, failing-input search)
  | ["holds-keyed", k, all, r] => do
    let bs ← parseHex k
    let all ← parseNatList all
    let r ← parseNat r
    some (toString (holdsKeyed (bs.map (BitVec.ofNat 8)) all r))
  | ["holds-unkeyed", avail, r] => do
    let avail ← parseNatList avail
    let r ← parseNat r
    some (toString (holdsUnkeyed avail r))
  | _ => none

end AkVerif.Murmur
