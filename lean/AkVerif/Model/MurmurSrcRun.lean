import AkVerif.Model.Murmur
import AkVerif.Gen.MurmurSrc
/-!
The executable translation of the *source text* of `partitioner.murmur2` (`Gen/MurmurSrc.lean`,
regenerated on every run), reassembled along the control skeleton the translator matched:
`for i in range(length // 4)` over whole words, then the tail blocks selected by `length % 4`
reading `data[(length & ~3) + j]`, then the finalisation.  The driver evaluates it on every key of
the C17 check next to the hand-written model (`c17s srcmurmur <hex>`).
-/
namespace AkVerif.Murmur

def srcLoop (h : Nat) : List Nat → Nat × List Nat
  | b0 :: b1 :: b2 :: b3 :: rest => srcLoop (Gen.Murmur.mix h b0 b1 b2 b3) rest
  | tail => (h, tail)

def srcMurmur2 (data : List Nat) : Nat :=
  let (h, t) := srcLoop (Gen.Murmur.init data.length) data
  Gen.Murmur.final (Gen.Murmur.tail h t.length (t.getD 0 0) (t.getD 1 0) (t.getD 2 0))

open AkVerif.Util in
def handleSrc : List String → Option String
  | ["srcmurmur", h] => do
    let bs ← parseHex h
    some (toString (srcMurmur2 bs))
  | _ => none

end AkVerif.Murmur
