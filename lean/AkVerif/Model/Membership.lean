import AkVerif.Model.Util
/-!
Model of one group member as the client itself sees it (C06, and the closing phase for C19):
`GroupCoordinator` of `aiokafka/consumer/group_coordinator.py` — `ensure_coordinator_known`,
`_send_req`, `perform_group_join`, `_send_sync_group_request`, `_do_heartbeat`,
`_do_commit_offsets`, `_do_fetch_commit_offsets`, `_maybe_leave_group`, `close`.

The observable history of a member is the sequence of `client.send` calls it makes for group
management (`send`) and of the outcomes it receives (`recv`), in the member's own program order,
plus the API calls and environment steps that justify a rejoin.  The model is an *acceptor*:
`stepN cfg c e` is the list of states the member may be in after event `e` (empty = the code that
exists cannot do this).  Three things the history does not show are left open and resolved by
later events: whether a JoinGroup reply that raced with a subscription change was used or
dropped, whether the heartbeat task declared the session expired, and when (or whether) the
connection to a freshly found coordinator came up.

Member ids are naturals (0 = `UNKNOWN_MEMBER_ID`), node ids integers; `cfg` is the list of
configured assignor names in preference order.
-/
namespace AkVerif.Membership

inductive Api where
  | findCoord | join | sync | heartbeat | leave | commit | offsetFetch
deriving DecidableEq, Repr, Inhabited

/-- what a request carried (fields that do not exist for an API keep their defaults) -/
structure Req where
  api : Api
  node : Int
  gen : Int := -1
  mid : Nat := 0
  protos : List String := []
deriving DecidableEq, Repr, Inhabited

/-- what the member got back -/
inductive Out where
  | exc                              -- `client.send` raised a KafkaError (timeout, connection lost, not ready)
  | cancelled                        -- the awaiting task was cancelled
  | codes (cs : List Nat)            -- error codes of the reply in wire order (one for most APIs)
  | joined (gen : Int) (mid : Nat)   -- JoinGroup reply with error 0
  | memberId (mid : Nat)             -- JoinGroup reply with MEMBER_ID_REQUIRED (79)
  | coordinator (node : Int)         -- FindCoordinator reply with error 0
deriving DecidableEq, Repr, Inhabited

inductive Ev where
  | send (id : Nat) (r : Req)
  | recv (id : Nat) (o : Out)
  | subChange          -- the user changed the subscription
  | mdChange           -- the partition count of a subscribed topic changed in the cluster
  | pollIdle           -- the user has not polled for `max_poll_interval_ms` (the member may leave)
  | userCommit         -- the user called `commit()` (one more OffsetCommit attempt may follow)
  | stopCalled         -- `consumer.stop()` entered (`_closing` set)
  | stopReturned       -- `consumer.stop()` returned
deriving DecidableEq, Repr, Inhabited

structure Core where
  mid : Nat := 0                         -- `member_id`
  gen : Int := -1                        -- `generation`
  coord : Option Int := none             -- `coordinator_id`
  coordPending : Option Int := none      -- coordinator just found, `client.ready(it)` still under way
  noAssign : Bool := true                -- `subscription.assignment is None`
  rejoinFut : Bool := false              -- `_rejoin_needed_fut.done()`
  mdPending : Bool := false              -- a metadata change not yet used as the cause of a rejoin
  dirty : Bool := false                  -- subscription changed since the last JoinGroup reply was looked at
  joinOk : Option (Int × Nat) := none    -- successful JoinGroup reply whose SyncGroup is still due
  excused : Bool := false                -- a fault or a subscription change since that reply
  mayLeave : Bool := false               -- unsubscribe / idle: LeaveGroup outside `stop()` is justified
  closing : Bool := false
  leaveSent : Bool := false              -- LeaveGroup sent since `stopCalled`
  closeCommits : Nat := 0                -- OffsetCommit attempts that failed since `stopCalled`
  commitAllow : Nat := 3                 -- … one per call site (auto-commit, revoke, finalisation) + user calls
  prepared : Bool := false               -- `_performed_join_prepare`: the revoke step (with its commit) of this rejoin ran
  userCommits : Bool := false            -- the user calls `commit()` himself: commits are not tied to the coordination loop
  stopped : Bool := false
  inflight : List (Nat × Req) := []
deriving DecidableEq, Repr, Inhabited

/-- `reset_generation()` -/
def resetGen (c : Core) : Core := { c with mid := 0, gen := -1, rejoinFut := true }

/-- `coordinator_dead()` (a fault as far as "JoinGroup is followed by SyncGroup" is concerned) -/
def coordDead (c : Core) : Core := { c with coord := none, excused := true }

/-- `request_rejoin()` -/
def needRejoin (c : Core) : Core := { c with rejoinFut := true }

/-- `_do_commit_offsets`: every partition's code is handled in turn -/
def foldCommit (c : Core) : List Nat → Core
  | [] => c
  | k :: ks =>
    foldCommit
      (if k = 15 ∨ k = 16 ∨ k = 7 then coordDead c
       else if k = 25 ∨ k = 22 then resetGen c
       else if k = 27 then needRejoin c
       else c) ks

/-- `_do_fetch_commit_offsets`: the first code that raises ends the scan -/
def scanFetch (c : Core) : List Nat → Core
  | [] => c
  | k :: ks =>
    if k = 0 ∨ k = 3 then scanFetch c ks
    else if k = 16 then coordDead c
    else c

/-- the reply reports no error at all -/
def isOk (cs : List Nat) : Bool := cs.all (· == 0)

/-- outcomes an API can have -/
def outFits (a : Api) : Out → Bool
  | .exc => true
  | .cancelled => true
  | .codes _ => true
  | .joined _ _ => a == Api.join
  | .memberId _ => a == Api.join
  | .coordinator _ => a == Api.findCoord

/-- effect of a JoinGroup reply that is used -/
def joinReply (c : Core) (o : Out) : Core :=
  match o with
  | .memberId m => { c with mid := m }
  | .joined g m => { c with mid := m, gen := g, joinOk := some (g, m), excused := false }
  | .codes cs =>
    if cs = [25] then resetGen c
    else if cs = [15] ∨ cs = [16] then coordDead c
    else c
  | _ => c

def bumpClose (c : Core) (failed : Bool) : Core :=
  { c with closeCommits := if c.closing && failed then c.closeCommits + 1 else c.closeCommits }

/-- the member's reaction to an outcome of request `r` that is not an exception -/
def onReply (c : Core) (r : Req) (o : Out) : List Core :=
  match r.api with
  | .findCoord =>
    match o with
    | .coordinator n =>
      -- `coordinator_id` is set once `client.ready(coordinator)` has opened the connection (until
      -- then `coordinator_dead()` finds nothing to mark); if that fails the lookup is repeated
      if c.coord.isNone then [{ c with coordPending := some n }] else [c]
    | _ => [c]
  | .join =>
    if c.dirty then
      -- the reply raced with a subscription change: used, or dropped (`not subscription.active`)
      [{ joinReply c o with dirty := false }, { c with dirty := false }]
    else [joinReply c o]
  | .sync =>
    match o with
    | .codes cs =>
      if isOk cs then
        -- `_on_join_complete` (and with it `_performed_join_prepare = False`) unless the
        -- subscription changed meanwhile
        [{ c with gen := r.gen, mid := r.mid, noAssign := c.noAssign && c.dirty,
                  prepared := c.prepared && c.dirty }]
      else if cs = [25] ∨ cs = [22] then [resetGen (needRejoin c)]
      else if cs = [15] ∨ cs = [16] then [coordDead (needRejoin c)]
      else [needRejoin c]
    | _ => [needRejoin c]
  | .heartbeat =>
    match o with
    | .codes cs =>
      if isOk cs then [c]
      else if cs = [15] ∨ cs = [16] then [coordDead c]
      else if cs = [27] then [needRejoin c]
      else if cs = [22] ∨ cs = [25] then
        -- … and the session check that follows may declare the coordinator dead
        [resetGen c, coordDead (resetGen c)]
      else [c]
    | _ => [c]
  | .commit =>
    match o with
    | .codes cs => [bumpClose (foldCommit c cs) (!isOk cs)]
    | _ => [c]
  | .offsetFetch =>
    match o with
    | .codes cs => [scanFetch c cs]
    | _ => [c]
  | .leave => [resetGen c]

/-- … to an exception raised by `client.send` (`_send_req` marks the coordinator dead) -/
def onExc (c : Core) (r : Req) : Core :=
  let c := { c with excused := true }
  match r.api with
  | .findCoord => c
  | .sync => needRejoin (coordDead c)
  | .leave => resetGen (coordDead c)
  | .commit => bumpClose (coordDead c) true
  | _ => coordDead c

def onRecv (c : Core) (r : Req) (o : Out) : List Core :=
  match o with
  | .cancelled => [c]
  | .exc => [onExc c r]
  | _ => onReply c r o

/-- `_send_req` goes to `coordinator_id`: the known coordinator, or the one just found — its
    connection is up at the latest when the first request goes to it -/
def coordFor (c : Core) (node : Int) : Bool :=
  c.coord == some node || (c.coord.isNone && c.coordPending == some node)

def newCoord (c : Core) (r : Req) : Option Int :=
  if r.api != Api.findCoord && c.coord.isNone && c.coordPending == some r.node then some r.node else c.coord

/-- may the member send `r` now?  (`_send_req` refuses without a coordinator; every request is
    built from the current identity) -/
def sendOk (cfg : List String) (c : Core) (r : Req) : Bool :=
  match r.api with
  | .findCoord => c.coord.isNone && !c.closing
  | .join =>
    coordFor c r.node && r.mid == c.mid && r.protos == cfg &&
    (c.noAssign || c.rejoinFut || c.mdPending) &&
    !(c.joinOk.isSome && !c.excused) && !c.leaveSent
  | .sync =>
    coordFor c r.node && c.joinOk == some (r.gen, r.mid) && !c.leaveSent
  | .heartbeat =>
    coordFor c r.node && r.gen == c.gen && r.mid == c.mid && !c.leaveSent
  | .commit =>
    coordFor c r.node && r.gen == c.gen && r.mid == c.mid &&
    -- while closing a failed commit is never retried by the same call site
    (!c.closing || decide (c.closeCommits < c.commitAllow)) &&
    -- the coordination loop commits periodically only while no rejoin is needed, and before a
    -- rejoin only in the revoke step, which runs once per rejoin: a member whose rejoin failed
    -- half-way (JoinGroup sent, no successful SyncGroup yet) rejoins, it does not go on committing
    (c.closing || c.userCommits || !(c.noAssign || c.rejoinFut) || !c.prepared)
  | .offsetFetch => coordFor c r.node
  | .leave =>
    coordFor c r.node && r.mid == c.mid && decide (0 < c.gen) && (c.closing || c.mayLeave)

def onSend (c : Core) (id : Nat) (r : Req) : Core :=
  let c := { c with inflight := (id, r) :: c.inflight, coord := newCoord c r,
                    -- used up: by the first request to it, or by a new lookup (the connection failed)
                    coordPending := if r.api == Api.findCoord || (c.coord.isNone && c.coordPending == some r.node)
                                    then none else c.coordPending }
  match r.api with
  | .join =>
    -- a rejoin whose only cause is a metadata change: `_rejoin_needed_fut` is the done future
    if c.noAssign || c.rejoinFut then { c with joinOk := none, prepared := true }
    else { c with joinOk := none, mdPending := false, rejoinFut := true, prepared := true }
  | .sync => { c with rejoinFut := false, joinOk := none }
  | .leave => { c with leaveSent := c.closing }
  | _ => c

def lookup (id : Nat) : List (Nat × Req) → Option Req
  | [] => none
  | (i, r) :: rest => if i = id then some r else lookup id rest

def erase (id : Nat) : List (Nat × Req) → List (Nat × Req)
  | [] => []
  | (i, r) :: rest => if i = id then rest else (i, r) :: erase id rest

/-- all states the member may be in after `e`; `[]` = not a behaviour of the code -/
def stepN (cfg : List String) (c : Core) (e : Ev) : List Core :=
  if c.stopped then
    -- after `stop()` returned only outcomes of calls the user still had in flight may arrive
    match e with
    | .recv _ _ => [c]
    | _ => []
  else
  match e with
  | .send id r =>
    if sendOk cfg c r && (lookup id c.inflight).isNone then [onSend c id r] else []
  | .recv id o =>
    match lookup id c.inflight with
    | none => []
    | some r =>
      if !outFits r.api o then [] else
      onRecv { c with inflight := erase id c.inflight } r o
  | .subChange => [{ c with noAssign := true, dirty := true, excused := true, mayLeave := true }]
  | .mdChange => [{ c with mdPending := true }]
  | .pollIdle => [{ c with mayLeave := true }]
  | .userCommit => [{ c with commitAllow := c.commitAllow + 1, userCommits := true }]
  | .stopCalled => if c.closing then [] else [{ c with closing := true }]
  | .stopReturned =>
    -- `_maybe_leave_group`: LeaveGroup is attempted whenever the member is in a generation and
    -- knows its coordinator; afterwards the generation is reset in any case
    if c.closing && (c.leaveSent || decide (c.gen ≤ 0) || c.coord.isNone) then
      [{ resetGen c with stopped := true }]
    else []

/-- the states reachable from `c` by the history `tr` -/
def runs (cfg : List String) (c : Core) : List Ev → List Core
  | [] => [c]
  | e :: es => (stepN cfg c e).flatMap fun c' => runs cfg c' es

/-- the history is a behaviour of the modelled code -/
def accepts (cfg : List String) (c : Core) (tr : List Ev) : Bool := !(runs cfg c tr).isEmpty

/-! ## what the driver runs: the same language by simulating the set of possible states -/

def dedup : List Core → List Core
  | [] => []
  | x :: xs => if x ∈ xs then dedup xs else x :: dedup xs

def stepSet (cfg : List String) (cs : List Core) (e : Ev) : List Core :=
  dedup (cs.flatMap fun c => stepN cfg c e)

/-- index of the first event no possible state survives, if any -/
def firstReject (cfg : List String) : List Core → List Ev → Nat → Option Nat
  | _, [], _ => none
  | cs, e :: es, i =>
    if (stepSet cfg cs e).isEmpty then some i else firstReject cfg (stepSet cfg cs e) es (i + 1)

/-! ## the property, stated on the history alone -/

/-- every JoinGroup advertises exactly the configured strategies, in order -/
def joinAllB (cfg : List String) : List Ev → Bool
  | [] => true
  | .send _ r :: es => (r.api != Api.join || r.protos == cfg) && joinAllB cfg es
  | _ :: es => joinAllB cfg es

/-- does the event excuse a missing SyncGroup?  A fault (a request that failed, or any reply
    carrying an error code) or a subscription change. -/
def isExcuse : Ev → Bool
  | .recv _ .exc => true
  | .recv _ (.codes cs) => !isOk cs
  | .subChange => true
  | _ => false

/-- scan state: requests in flight (to know which request a reply answers), whether the
    subscription changed since the last JoinGroup reply, and the successful JoinGroup reply still
    waiting for its SyncGroup -/
structure Scan where
  inflight : List (Nat × Req) := []
  subChanged : Bool := false
  pending : Option (Int × Nat) := none

def isJoinId (id : Nat) (fl : List (Nat × Req)) : Bool :=
  match lookup id fl with
  | some r => r.api == Api.join
  | none => false

/-- how an event moves the scan state -/
def scanStep (s : Scan) : Ev → Scan
  | .send id r =>
    { s with inflight := (id, r) :: s.inflight,
             pending := if r.api == Api.join || r.api == Api.sync then none else s.pending }
  | .recv id o =>
    { inflight := erase id s.inflight,
      subChanged :=
        if isJoinId id s.inflight && o != Out.exc && o != Out.cancelled then false else s.subChanged,
      pending :=
        if isExcuse (.recv id o) then none
        else match o with
          | .joined g m =>
            if isJoinId id s.inflight then (if s.subChanged then none else some (g, m)) else s.pending
          | _ => s.pending }
  | .subChange => { s with subChanged := true, pending := none }
  | _ => s

/-- while a successful JoinGroup reply waits for its SyncGroup: the next JoinGroup/SyncGroup
    request must be the SyncGroup of that generation and member id -/
def syncDue (s : Scan) : Ev → Bool
  | .send _ r =>
    match s.pending with
    | none => true
    | some (g, m) =>
      if r.api == Api.join then false
      else if r.api == Api.sync then r.gen == g && r.mid == m
      else true
  | _ => true

/-- a successful JoinGroup reply is followed (among JoinGroup/SyncGroup requests) by the SyncGroup
    of that generation and member id, unless a fault or a subscription change intervenes.
    "Intervenes": a subscription change since the previous JoinGroup reply (the rejoin under way
    may still carry the old subscription, its reply is then dropped), or a fault after the reply. -/
def joinThenSyncB (s : Scan) : List Ev → Bool
  | [] => true
  | e :: es => syncDue s e && joinThenSyncB (scanStep s e) es

end AkVerif.Membership
