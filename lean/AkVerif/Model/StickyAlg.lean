import AkVerif.Model.Assign
/-!
Port of `StickyAssignmentExecutor` (`aiokafka/coordinator/assignors/sticky/sticky_assignor.py`,
`partition_movements.py`, `sorted_set.py`) for inputs whose user data all carry ONE generation
(what the real coordinator produces: `on_generation_assignment` is never called, every member
reports generation −1).  Under that restriction `previous_assignment` is empty and the branches
that consult it are dead; they are not modelled.

Python dicts are association lists in insertion order; the `SortedSet` of
`(consumer, tuple(partitions))` ordered by `(len(partitions), consumer)` is the list `subs` of its
member ids, ordered on demand by the key computed from `cur` (the stored tuple always equals the
consumer's current list when the set is used — otherwise the Python `remove` raises `KeyError`).
The one set-iteration choice, `next(iter(partition_movements_by_topic[topic][reverse_pair]))`, is
an oracle supplied by the caller and validated for membership.
-/
namespace AkVerif.StickyAlg
open AkVerif.Assign

abbrev TP := Topic × Nat

structure MemberIn where
  id : Member
  subs : List Topic
  prev : List TP            -- previous assignment from user data (in encoded order)
deriving Repr, Inhabited

structure St where
  members : List MemberIn
  cur : List (Member × List TP)            -- current_assignment
  owner : List (TP × Member)               -- current_partition_consumer
  p2c : List (TP × List Member)            -- partition_to_all_potential_consumers
  c2p : List (Member × List TP)            -- consumer_to_all_potential_partitions
  subs : List Member                       -- members of sorted_current_subscriptions
  sortedParts : List TP
  unassigned : List TP
  revocation : Bool
  fresh : Bool
  movesByTopic : List (Topic × List ((Member × Member) × List TP))
  moves : List (TP × (Member × Member))
  oracle : List TP
  badOracle : Bool := false
  failed : Option String := none           -- a Python exception (KeyError / AssertionError / …)
deriving Inhabited

/-! ### association-list helpers -/

def alGet {α β} [BEq α] (l : List (α × β)) (k : α) : Option β := (l.find? (·.1 == k)).map (·.2)
def alGetD {α β} [BEq α] (l : List (α × β)) (k : α) (d : β) : β := (alGet l k).getD d
def alHas {α β} [BEq α] (l : List (α × β)) (k : α) : Bool := l.any (·.1 == k)
/-- `d[k] = v`: replace in place, or append (dict insertion order) -/
def alSet {α β} [BEq α] (l : List (α × β)) (k : α) (v : β) : List (α × β) :=
  if alHas l k then l.map (fun kv => if kv.1 == k then (k, v) else kv) else l ++ [(k, v)]
def alDel {α β} [BEq α] (l : List (α × β)) (k : α) : List (α × β) := l.filter (fun kv => !(kv.1 == k))

def curOf (s : St) (c : Member) : List TP := alGetD s.cur c []
def potOf (s : St) (c : Member) : List TP := alGetD s.c2p c []
def consumersOf (s : St) (p : TP) : List Member := alGetD s.p2c p []

/-! ### sorting -/

def insertBy {α} (lt : α → α → Bool) (a : α) : List α → List α
  | [] => [a]
  | x :: r => if lt a x then a :: x :: r else x :: insertBy lt a r
def sortBy {α} (lt : α → α → Bool) (l : List α) : List α := l.foldr (insertBy lt) []

/-- key `(len(partitions), consumer)` -/
def subLt (s : St) (a b : Member) : Bool :=
  let la := (curOf s a).length; let lb := (curOf s b).length
  la < lb || (la == lb && a < b)

def sortedSubs (s : St) : List Member := sortBy (subLt s) s.subs
def leastSub (s : St) : Option Member := (sortedSubs s).head?
def mostSub (s : St) : Option Member := (sortedSubs s).getLast?

def tpLt (a b : TP) : Bool := a.1 < b.1 || (a.1 == b.1 && a.2 < b.2)

/-! ### `_initialize` -/

/-- `_init_current_assignments` for a single non-zero generation: the first member (dict order)
    that claims a partition keeps it; `current_assignment` gets its keys in order of the first
    partition that lands on each consumer -/
def initCurrent (members : List MemberIn) : List (Member × List TP) :=
  let claims : List (TP × Member) :=
    members.foldl (fun acc m => m.prev.foldl (fun acc p => if alHas acc p then acc else acc ++ [(p, m.id)]) acc) []
  claims.foldl (fun cur pc => alSet cur pc.2 (alGetD cur pc.2 [] ++ [pc.1])) []

/-- the partitions a member could get: those of the topics it subscribes to that have metadata,
    topic by topic in sorted order (`sorted(member_metadata.subscription)`) -/
def potentialOf (parts : List (Topic × List Nat)) (m : MemberIn) : List TP :=
  (isort m.subs).flatMap (fun t => match alGet parts t with | none => [] | some ps => ps.map (fun p => (t, p)))

def allTpsOf (parts : List (Topic × List Nat)) : List TP :=
  parts.flatMap (fun tps => tps.2.map (fun p => (tps.1, p)))

/-- only topics that some member subscribes to take part in the assignment -/
def subscribedTps (parts : List (Topic × List Nat)) (members : List MemberIn) : List TP :=
  (allTpsOf parts).filter (fun tp => members.any (fun m => m.subs.contains tp.1))

def initState (parts : List (Topic × List Nat)) (members : List MemberIn) (oracle : List TP) : St :=
  let cur0 := initCurrent members
  let fresh := cur0.isEmpty
  let owner := cur0.flatMap (fun cp => cp.2.map (fun p => (p, cp.1)))
  let c2p := members.map (fun m => (m.id, potentialOf parts m))
  let p2c := (subscribedTps parts members).map
    (fun tp => (tp, (members.filter (fun m => (potentialOf parts m).contains tp)).map (·.id)))
  let cur := members.foldl (fun cur m => if alHas cur m.id then cur else cur ++ [(m.id, [])]) cur0
  { members := members, cur := cur, owner := owner, p2c := p2c, c2p := c2p, subs := [],
    sortedParts := [], unassigned := [], revocation := false, fresh := fresh,
    movesByTopic := [], moves := [], oracle := oracle }

/-! ### `perform_initial_assignment` -/

def hasIdentical {α} [BEq α] : List (List α) → Bool
  | a :: b :: r => a == b && hasIdentical (b :: r)
  | _ => true

def subscriptionsIdentical (s : St) : Bool :=
  hasIdentical (s.p2c.map (·.2)) && hasIdentical (s.c2p.map (·.2))

/-- partitions ordered by `(number of potential consumers, topic, partition)` -/
def partsBySize (s : St) : List TP :=
  (sortBy (fun (a b : TP × List Member) =>
      a.2.length < b.2.length || (a.2.length == b.2.length && tpLt a.1 b.1)) s.p2c).map (·.1)

/-- the round-robin listing of the identical-subscriptions branch: repeatedly take the consumer
    with the most remaining partitions (`pop_last`: largest `(len, consumer)`), move its LAST
    partition to the output -/
def roundRobinList : Nat → List (Member × List TP) → List TP → List TP
  | 0, _, acc => acc
  | fuel + 1, asg, acc =>
    let live := asg.filter (fun cp => true && true) -- every consumer is in the set until it runs empty
    match (sortBy (fun (a b : Member × List TP) =>
              a.2.length < b.2.length || (a.2.length == b.2.length && a.1 < b.1)) live).getLast? with
    | none => acc
    | some (c, ps) =>
      match ps.getLast? with
      | none => roundRobinList fuel (alDel asg c) acc          -- dropped from the set, not re-added
      | some p => roundRobinList fuel (alSet asg c ps.dropLast) (acc ++ [p])

def populateSortedPartitions (s : St) : St :=
  let bySize := partsBySize s
  if !s.fresh && subscriptionsIdentical s then
    let asg := s.cur.map (fun cp => (cp.1, cp.2.filter (fun p => alHas s.p2c p)))
    let total := (asg.map (·.2.length)).foldl (· + ·) 0
    let rr := roundRobinList (total + asg.length + 1) asg []
    { s with sortedParts := rr ++ bySize.filter (fun p => !rr.contains p) }
  else { s with sortedParts := bySize }

/-- `list.remove(x)`: first occurrence -/
def removeFirst {α} [BEq α] (l : List α) (x : α) : List α :=
  match l with
  | [] => []
  | y :: r => if y == x then r else y :: removeFirst r x

def subscriptionOf (s : St) (c : Member) : List Topic :=
  ((s.members.find? (·.id == c)).map (·.subs)).getD []

/-- may partition `p` stay with consumer `c`? (it still exists and `c` is still subscribed to its topic) -/
def keepFor (s : St) (c : Member) (p : TP) : Bool :=
  alHas s.p2c p && (subscriptionOf s c).contains p.1

/-- `_populate_partitions_to_reassign`, stated declaratively (equivalent to the Python loop when
    every consumer occurs once in `current_assignment`, which `alSet` guarantees): every consumer
    keeps the partitions that still exist and whose topic it still subscribes to; the others are
    dropped from `current_assignment` and `current_partition_consumer`; kept partitions leave the
    unassigned list; dropping a partition of a still-existing topic sets `revocation_required`. -/
def populatePartitionsToReassign (s : St) : St :=
  let removed : List TP := s.cur.flatMap (fun cp => cp.2.filter (fun p => !keepFor s cp.1 p))
  let kept : List TP := s.cur.flatMap (fun cp => cp.2.filter (fun p => keepFor s cp.1 p))
  { s with
    cur := s.cur.map (fun cp => (cp.1, cp.2.filter (fun p => keepFor s cp.1 p))),
    owner := s.owner.filter (fun pc => !removed.contains pc.1),
    unassigned := kept.foldl removeFirst s.sortedParts,
    revocation := s.cur.any (fun cp => cp.2.any (fun p => alHas s.p2c p && !(subscriptionOf s cp.1).contains p.1)) }

/-! ### partition movements -/

def mbtGet (s : St) (t : Topic) (pair : Member × Member) : Option (List TP) :=
  (alGet s.movesByTopic t).bind (fun m => alGet m pair)

def addMovement (s : St) (p : TP) (pair : Member × Member) : St :=
  let m := alGetD s.movesByTopic p.1 []
  let set := alGetD m pair []
  let set' := if set.contains p then set else set ++ [p]
  { s with moves := alSet s.moves p pair, movesByTopic := alSet s.movesByTopic p.1 (alSet m pair set') }

def removeMovement (s : St) (p : TP) : St × Option (Member × Member) :=
  match alGet s.moves p with
  | none => ({ s with failed := some "KeyError:movement" }, none)
  | some pair =>
    let m := alGetD s.movesByTopic p.1 []
    let set' := removeFirst (alGetD m pair []) p
    let m' := if set'.isEmpty then alDel m pair else alSet m pair set'
    let mbt := if m'.isEmpty then alDel s.movesByTopic p.1 else alSet s.movesByTopic p.1 m'
    ({ s with moves := alDel s.moves p, movesByTopic := mbt }, some pair)

def movePartitionRecord (s : St) (p : TP) (old new : Member) : St :=
  if alHas s.moves p then
    match removeMovement s p with
    | (s1, some existing) =>
      let s2 := if existing.2 != old then { s1 with failed := some "AssertionError:movement-dst" } else s1
      if existing.1 != new then addMovement s2 p (existing.1, new) else s2
    | (s1, none) => s1
  else addMovement s p (old, new)

/-- `get_partition_to_be_moved`; consumes one oracle element when it has to pick from a set -/
def partitionToBeMoved (s : St) (p : TP) (old new : Member) : St × TP :=
  if !alHas s.movesByTopic p.1 then (s, p) else
  let (s, old) := match alGet s.moves p with
    | some pair => ((if pair.2 != old then { s with failed := some "AssertionError:moved-dst" } else s), pair.1)
    | none => (s, old)
  match mbtGet s p.1 (new, old) with
  | none => (s, p)
  | some set =>
    match s.oracle with
    | [] => ({ s with badOracle := true }, set.headD p)
    | o :: rest =>
      if set.contains o then ({ s with oracle := rest }, o)
      else ({ s with oracle := rest, badOracle := true }, set.headD p)

/-! ### `balance` -/

def assignPartition (s : St) (p : TP) : St :=
  match (sortedSubs s).find? (fun c => (potOf s c).contains p) with
  | none => s
  | some c => { s with cur := alSet s.cur c (curOf s c ++ [p]), owner := alSet s.owner p c }

def canPartitionParticipate (s : St) (p : TP) : Bool := (consumersOf s p).length ≥ 2

def canConsumerParticipate (s : St) (c : Member) : Bool :=
  let cp := curOf s c
  cp.length < (potOf s c).length || cp.any (canPartitionParticipate s)

def isBalanced (s : St) : Bool :=
  match leastSub s, mostSub s with
  | some lo, some hi =>
    if (curOf s lo).length + 1 ≥ (curOf s hi).length then true else
    -- `all_assigned_partitions`: later entries of `current_assignment` overwrite earlier ones
    let assigned : List (TP × Member) :=
      s.cur.foldl (fun acc cp => cp.2.foldl (fun acc p => alSet acc p cp.1) acc) []
    (sortedSubs s).all fun c =>
      let n := (curOf s c).length
      n == (potOf s c).length ||
      (potOf s c).all fun p =>
        (curOf s c).contains p ||
        match alGet assigned p with
        | none => true      -- Python: KeyError; unreachable when every potential partition is assigned
        | some other => !(n < (curOf s other).length)
  | _, _ => true

def movePartition (s : St) (p : TP) (new : Member) : St :=
  match alGet s.owner p with
  | none => { s with failed := some "KeyError:owner" }
  | some old =>
    if !(s.subs.contains old) || !(s.subs.contains new) then { s with failed := some "KeyError:sortedset" } else
    let s := movePartitionRecord s p old new
    { s with cur := alSet (alSet s.cur old (removeFirst (curOf s old) p)) new
                      (alGetD (alSet s.cur old (removeFirst (curOf s old) p)) new [] ++ [p]),
             owner := alSet s.owner p new }

def reassignPartition (s : St) (p : TP) : St :=
  match (sortedSubs s).find? (fun c => (potOf s c).contains p) with
  | none => { s with failed := some "AssertionError:no-new-consumer" }
  | some new =>
    match alGet s.owner p with
    | none => { s with failed := some "KeyError:owner" }
    | some consumer =>
      let (s, q) := partitionToBeMoved s p consumer new
      movePartition s q new

/-- one pass of the `for partition in reassignable_partitions` loop; returns `modified` -/
def reassignPass (s : St) : List TP → Bool → St × Bool
  | [], m => (s, m)
  | p :: rest, m =>
    if s.failed.isSome then (s, m) else
    if isBalanced s then (s, m) else
    match alGet s.owner p with
    | none => reassignPass s rest m
    | some consumer =>
      if (consumersOf s p).any (fun other => (curOf s consumer).length > (curOf s other).length + 1) then
        reassignPass (reassignPartition s p) rest true
      else reassignPass s rest m

/-- `_perform_reassignments`; `none` in the middle = out of fuel (the Python `while True`) -/
def performReassignments : Nat → St → List TP → Bool → Option (St × Bool)
  | 0, _, _, _ => none
  | fuel + 1, s, ps, performed =>
    let (s', modified) := reassignPass s ps false
    if s'.failed.isSome then some (s', performed || modified) else
    if modified then performReassignments fuel s' ps true else some (s', performed)

def balanceScore (cur : List (Member × List TP)) : Nat :=
  let sizes := cur.map (·.2.length)
  let rec go : List Nat → Nat
    | [] => 0
    | a :: r => (r.map (fun b => if a ≥ b then a - b else b - a)).foldl (· + ·) 0 + go r
  go sizes

/-- assign all unassigned partitions, then drop the partitions that cannot move from the work lists -/
def assignUnassigned (s : St) : St :=
  let s := s.unassigned.foldl (fun s p => if (consumersOf s p).isEmpty then s else assignPartition s p) s
  let fixedParts := (s.p2c.map (·.1)).filter (fun p => !canPartitionParticipate s p)
  { s with sortedParts := s.sortedParts.filter (fun p => !fixedParts.contains p),
           unassigned := s.unassigned.filter (fun p => !fixedParts.contains p) }

/-- set aside the consumers that are not subject to reassignment -/
def setAsideFixed (s : St) : St × List (Member × List TP) :=
  (s.c2p.map (·.1)).foldl (fun (acc : St × List (Member × List TP)) c =>
    if !canConsumerParticipate acc.1 c then
      ({ acc.1 with subs := removeFirst acc.1.subs c, cur := alDel acc.1.cur c }, acc.2 ++ [(c, curOf acc.1 c)])
    else acc) (s, [])

/-- first only the newly added partitions (unless something must be revoked), then all of them -/
def reassignBoth (fuel : Nat) (s : St) : Option (St × Bool) :=
  match (if !s.revocation then performReassignments fuel s s.unassigned false else some (s, false)) with
  | none => none
  | some (s1, _) =>
    if s1.failed.isSome then some (s1, false) else performReassignments fuel s1 s1.sortedParts false

/-- revert if the balance score did not improve; add the fixed consumers back -/
def finishBalance (initializing : Bool) (preCur : List (Member × List TP)) (preOwner : List (TP × Member))
    (fixedAsg : List (Member × List TP)) (s : St) (performed : Bool) : St :=
  if s.failed.isSome then s else
  let s := if !initializing && performed && decide (balanceScore s.cur ≥ balanceScore preCur)
           then { s with cur := preCur, owner := preOwner } else s
  fixedAsg.foldl (fun s cp => { s with cur := alSet s.cur cp.1 cp.2, subs := s.subs ++ [cp.1] }) s

def balance (fuel : Nat) (s : St) : Option St :=
  let s := { s with subs := s.cur.map (·.1) }
  match mostSub s with
  | none => some { s with failed := some "ValueError:empty" }
  | some most =>
    let initializing := (curOf s most).isEmpty
    let (s2, fixedAsg) := setAsideFixed (assignUnassigned s)
    match reassignBoth fuel s2 with
    | none => none
    | some (s4, performed) => some (finishBalance initializing s2.cur s2.owner fixedAsg s4 performed)

/-! ### whole assignor -/

def finalFor (s : St) (c : Member) : List (Topic × List Nat) :=
  (curOf s c).foldl (fun acc p =>
    match acc.find? (·.1 == p.1) with
    | some (_, ps) => insertSorted p.1 (isort (ps ++ [p.2])) acc
    | none => insertSorted p.1 [p.2] acc) []

inductive Result where
  | ok (out : Output) (oracleLeft : Nat)
  | raised (what : String)
  | outOfFuel
  | badOracle

def assign (fuel : Nat) (parts : List (Topic × List Nat)) (members : List MemberIn) (oracle : List TP) : Result :=
  let s := populatePartitionsToReassign (populateSortedPartitions (initState parts members oracle))
  match balance fuel s with
  | none => .outOfFuel
  | some s =>
    match s.failed with
    | some e => .raised e
    | none =>
      if s.badOracle then .badOracle else
      .ok (members.map (fun m => (m.id, finalFor s m.id))) s.oracle.length

/-- the hypotheses of the fixpoint theorem (`Props/C15.lean: c15_fixpoint_partial`), evaluated on
    the state `assign` hands to `balance` -/
def fixpointHyp (parts : List (Topic × List Nat)) (members : List MemberIn) : Bool :=
  let s := populatePartitionsToReassign (populateSortedPartitions (initState parts members []))
  !s.cur.isEmpty && s.unassigned.all (fun p => (consumersOf s p).isEmpty) &&
  isBalanced (setAsideFixed (assignUnassigned { s with subs := s.cur.map (·.1) })).1

/-- the hypotheses of the stickiness theorem for identical subscriptions without new members
    (`Props/C15.lean: c15_identical_subscriptions_keep`), as a test the driver can run: distinct
    ids, no partition claimed twice, every claim still valid, identical subscriptions, claim sizes
    within one of each other -/
def keepHyp (parts : List (Topic × List Nat)) (members : List MemberIn) : Bool :=
  !members.isEmpty &&
  decide ((members.map (·.id)).Nodup) &&
  members.all (fun m => decide (m.prev.Nodup)) &&
  members.all (fun a => members.all (fun b => a.id == b.id || a.prev.all (fun p => !b.prev.contains p))) &&
  members.all (fun m => m.prev.all (fun p => (potentialOf parts m).contains p)) &&
  members.all (fun a => members.all (fun b => a.subs == b.subs && decide (a.prev.length ≤ b.prev.length + 1)))

/-! ### driver: `assign <parts> <members> <prev> <oracle>`
    `prev`: `m=t:p,p;t:p|m=…` (the user data of each member), `oracle`: `t:p,t:p` -/
open AkVerif.Util

def parseTPs (s : String) : Option (List TP) :=
  if s == "-" then some [] else
  (s.splitOn ",").mapM fun item =>
    match item.splitOn ":" with
    | [t, p] => do some ((← t.toNat?), (← p.toNat?))
    | _ => none

def handle : List String → Option String
  | ["assign", ps, ms, prev, orc] => do
    let parts ← parseParts ps
    let mems ← parseMembers ms
    let prevOut ← parseOutput prev
    let oracle ← parseTPs orc
    let members := mems.map fun (m, subs) =>
      { id := m, subs := subs,
        prev := ((prevOut.find? (·.1 == m)).map (fun mo => mo.2.flatMap (fun tp => tp.2.map (fun p => (tp.1, p))))).getD [] : MemberIn }
    match assign 3000 parts members oracle with
    | .ok out left => some (showOutput out ++ (if left == 0 then "" else s!" oracle-left={left}"))
    | .raised e => some ("raise:" ++ e)
    | .outOfFuel => some "out-of-fuel"
    | .badOracle => some "bad-oracle"
  | ["fixpoint-hyp", ps, ms, prev] => do
    let parts ← parseParts ps
    let mems ← parseMembers ms
    let prevOut ← parseOutput prev
    let members := mems.map fun (m, subs) =>
      { id := m, subs := subs,
        prev := ((prevOut.find? (·.1 == m)).map (fun mo => mo.2.flatMap (fun tp => tp.2.map (fun p => (tp.1, p))))).getD [] : MemberIn }
    some (toString (fixpointHyp parts members))
  | ["keep-hyp", ps, ms, prev] => do
    let parts ← parseParts ps
    let mems ← parseMembers ms
    let prevOut ← parseOutput prev
    let members := mems.map fun (m, subs) =>
      { id := m, subs := subs,
        prev := ((prevOut.find? (·.1 == m)).map (fun mo => mo.2.flatMap (fun tp => tp.2.map (fun p => (tp.1, p))))).getD [] : MemberIn }
    some (toString (keepHyp parts members))
  | _ => none

end AkVerif.StickyAlg
