/-! Line-protocol helpers shared by all model drivers (core Lean only). -/
namespace AkVerif.Util

def hexDigit (c : Char) : Option Nat :=
  if '0' ≤ c ∧ c ≤ '9' then some (c.toNat - '0'.toNat)
  else if 'a' ≤ c ∧ c ≤ 'f' then some (c.toNat - 'a'.toNat + 10)
  else if 'A' ≤ c ∧ c ≤ 'F' then some (c.toNat - 'A'.toNat + 10)
  else none

/-- "-" is the empty byte string, otherwise pairs of hex digits -/
def parseHexAux : List Char → List Nat → Option (List Nat)
  | [], acc => some acc.reverse
  | a :: b :: rest, acc =>
    match hexDigit a, hexDigit b with
    | some x, some y => parseHexAux rest ((x * 16 + y) :: acc)
    | _, _ => none
  | [_], _ => none

def parseHex (s : String) : Option (List Nat) :=
  if s == "-" then some [] else parseHexAux s.toList []

def hexChar (n : Nat) : Char :=
  if n < 10 then Char.ofNat (n + '0'.toNat) else Char.ofNat (n - 10 + 'a'.toNat)

def toHex (bs : List Nat) : String :=
  if bs.isEmpty then "-" else
  String.ofList (bs.foldr (fun b acc => hexChar (b / 16 % 16) :: hexChar (b % 16) :: acc) [])

def parseInt (s : String) : Option Int := s.toInt?
def parseNat (s : String) : Option Nat := s.toNat?

/-- comma separated naturals; "-" is the empty list -/
def parseNatList (s : String) : Option (List Nat) :=
  if s == "-" then some [] else (s.splitOn ",").mapM (·.toNat?)

def parseIntList (s : String) : Option (List Int) :=
  if s == "-" then some [] else (s.splitOn ",").mapM (·.toInt?)

def showList {α} [ToString α] (xs : List α) : String :=
  if xs.isEmpty then "-" else ",".intercalate (xs.map toString)

end AkVerif.Util
