import AkVerif.Model.Varint
import AkVerif.Model.Crc
/-!
Kafka record batch format v2 (magic 2) — C09.

Three layers:

1. **SPEC** (`specBuild`, `specRead`, `HeaderOK`): written from the message-format definition
   (KIP-98 / `DefaultRecordBatch.java`, `DefaultRecord.java`): 61-byte header, varint-framed records,
   CRC-32C over everything after the CRC field, optional compression of the records section.
2. **implementation models of the builders** where the two implementations differ:
   `pyAppend/pyBuild` (`default_records.py:_DefaultRecordBatchBuilderPy`) and `cyAppend/cyBuild`
   (`_crecords/default_records.pyx:DefaultRecordBatchBuilder`): batch-size test (`>` + "first
   message" vs `>=` + `offset != 0`), `None` vs `-1` sentinels, compress-if-smaller vs
   always-compress, size computed after vs before encoding.
3. **implementation model of the readers** `implRead` (both `_DefaultRecordBatchPy` and the Cython
   `DefaultRecordBatch`): sequential parse with the trailing `pos - start_pos != length` test.  The
   two readers differ only in *how* they fail (IndexError→Corrupt vs `_check_bounds`, over-long
   slices) — at the granularity "records or failure" of C09 they are the same function, instantiated
   with the respective varint decoder.  Failure kinds and buffer reads are C10's subject.

Strings (header keys) are modelled as their UTF-8 bytes.  Compression codecs are a parameter
(`Codec`) with the law `decompress k (compress k x) = some x`.  `none` = the call raises.
Fixed-width fields are written two's-complement (`be`), which is what `struct.pack` and the C
casts do for in-range values; out-of-range values are outside the property's quantifier.
-/
namespace AkVerif.V2
open AkVerif.Wire AkVerif.Varint AkVerif.Crc

structure Rec where
  offset : Int
  ts : Int
  key : Option Bytes
  value : Option Bytes
  headers : List (Bytes × Option Bytes)
deriving DecidableEq, Repr, Inhabited

structure Codec where
  compress : Nat → Bytes → Bytes
  decompress : Nat → Bytes → Option Bytes

def Codec.Lawful (C : Codec) : Prop := ∀ k x, C.decompress k (C.compress k x) = some x

/-- `n` bytes big-endian two's complement -/
def be (n : Nat) (i : Int) : Bytes := beBytes n (i % (2 ^ (8 * n) : Int)).toNat

/-! ## 1. the format definition -/

def encVBytes : Option Bytes → Bytes
  | none => encVarint (-1)
  | some b => encVarint b.length ++ b

def encHeader (h : Bytes × Option Bytes) : Bytes := encVarint h.1.length ++ (h.1 ++ encVBytes h.2)

def encHeaders : List (Bytes × Option Bytes) → Bytes
  | [] => []
  | h :: hs => encHeader h ++ encHeaders hs

/-- Record body: Attributes(int8) TimestampDelta(varlong) OffsetDelta(varint) Key Value Headers -/
def encRecordBody (tsDelta offDelta : Int) (r : Rec) : Bytes :=
  0 :: (encVarint tsDelta ++ (encVarint offDelta ++ (encVBytes r.key ++ (encVBytes r.value ++
    (encVarint r.headers.length ++ encHeaders r.headers)))))

/-- Record = Length(varint) ++ body -/
def encRecord (firstTs base : Int) (r : Rec) : Bytes :=
  encVarint (encRecordBody (r.ts - firstTs) (r.offset - base) r).length ++
    encRecordBody (r.ts - firstTs) (r.offset - base) r

def encRecords (firstTs base : Int) : List Rec → Bytes
  | [] => []
  | r :: rs => encRecord firstTs base r ++ encRecords firstTs base rs

/-- what a batch header carries besides the records -/
structure Cfg where
  baseOffset : Int := 0
  leaderEpoch : Int := -1
  codec : Nat := 0
  logAppend : Bool := false
  appendTime : Int := 0       -- MaxTimestamp written by a broker under LogAppendTime
  transactional : Bool := false
  control : Bool := false
  pid : Int := -1
  epoch : Int := -1
  seq : Int := -1
deriving Repr, Inhabited

def attrsOf (c : Cfg) : Nat :=
  c.codec + (if c.logAppend then 8 else 0) + (if c.transactional then 16 else 0) +
    (if c.control then 32 else 0)

def firstTsOf : List Rec → Int
  | [] => 0
  | r :: _ => r.ts

def maxTsFrom (m : Int) : List Rec → Int
  | [] => m
  | r :: rs => maxTsFrom (if m < r.ts then r.ts else m) rs

def maxTsOf (recs : List Rec) : Int := maxTsFrom (firstTsOf recs) recs

def lastOffsetFrom (d : Int) : List Rec → Int
  | [] => d
  | r :: rs => lastOffsetFrom r.offset rs

/-- LastOffsetDelta -/
def lastDeltaOf (base : Int) (recs : List Rec) : Int := lastOffsetFrom base recs - base

def headerMaxTs (c : Cfg) (recs : List Rec) : Int := if c.logAppend then c.appendTime else maxTsOf recs

def payloadOf (C : Codec) (c : Cfg) (recs : List Rec) : Bytes :=
  if c.codec = 0 then encRecords (firstTsOf recs) c.baseOffset recs
  else C.compress c.codec (encRecords (firstTsOf recs) c.baseOffset recs)

/-- everything after the CRC field: Attributes … RecordCount, Records -/
def afterCrc (C : Codec) (c : Cfg) (recs : List Rec) : Bytes :=
  be 2 (attrsOf c) ++ (be 4 (lastDeltaOf c.baseOffset recs) ++ (be 8 (firstTsOf recs) ++
    (be 8 (headerMaxTs c recs) ++ (be 8 c.pid ++ (be 2 c.epoch ++ (be 4 c.seq ++
      (be 4 recs.length ++ payloadOf C c recs)))))))

/-- BaseOffset Length PartitionLeaderEpoch Magic CRC ++ afterCrc -/
def specBuild (C : Codec) (c : Cfg) (recs : List Rec) : Bytes :=
  be 8 c.baseOffset ++ (be 4 ((afterCrc C c recs).length + 9) ++ (be 4 c.leaderEpoch ++ (be 1 2 ++
    (be 4 (crc32c (afterCrc C c recs)) ++ afterCrc C c recs))))

structure Header where
  baseOffset : Int
  length : Int
  leaderEpoch : Int
  magic : Int
  crc : Int
  attrs : Int
  lastOffsetDelta : Int
  firstTs : Int
  maxTs : Int
  pid : Int
  epoch : Int
  seq : Int
  count : Int
deriving DecidableEq, Repr, Inhabited

/-- the 61 header bytes (`HEADER_STRUCT = ">qiibIhiqqqhii"`) -/
def decHeader (bs : Bytes) : Option (Header × Bytes) :=
  match decInt 8 bs with
  | none => none
  | some (baseOffset, r) =>
  match decInt 4 r with
  | none => none
  | some (length, r) =>
  match decInt 4 r with
  | none => none
  | some (leaderEpoch, r) =>
  match decInt 1 r with
  | none => none
  | some (magic, r) =>
  match decUInt 4 r with
  | none => none
  | some (crc, r) =>
  match decInt 2 r with
  | none => none
  | some (attrs, r) =>
  match decInt 4 r with
  | none => none
  | some (lastOffsetDelta, r) =>
  match decInt 8 r with
  | none => none
  | some (firstTs, r) =>
  match decInt 8 r with
  | none => none
  | some (maxTs, r) =>
  match decInt 8 r with
  | none => none
  | some (pid, r) =>
  match decInt 2 r with
  | none => none
  | some (epoch, r) =>
  match decInt 4 r with
  | none => none
  | some (seq, r) =>
  match decInt 4 r with
  | none => none
  | some (count, r) =>
    some ({ baseOffset, length, leaderEpoch, magic, crc, attrs, lastOffsetDelta, firstTs, maxTs,
            pid, epoch, seq, count }, r)

/-- the int16 attributes as a bit pattern -/
def Header.attrBits (h : Header) : Nat := (h.attrs % 65536).toNat
def Header.codec (h : Header) : Nat := (h.attrs % 8).toNat
def Header.logAppend (h : Header) : Bool := h.attrs / 8 % 2 = 1
def Header.transactional (h : Header) : Bool := h.attrs / 16 % 2 = 1
def Header.control (h : Header) : Bool := h.attrs / 32 % 2 = 1

def decVBytes (bs : Bytes) : Option (Option Bytes × Bytes) :=
  match decVarint bs with
  | none => none
  | some (n, r) =>
    if n < 0 then some (none, r)
    else if n.toNat ≤ r.length then some (some (r.take n.toNat), r.drop n.toNat)
    else none

def decHeaders : Nat → Bytes → Option (List (Bytes × Option Bytes) × Bytes)
  | 0, bs => some ([], bs)
  | n + 1, bs =>
    match decVarint bs with
    | none => none
    | some (klen, r) =>
      if klen < 0 then none
      else if klen.toNat ≤ r.length then
        match decVBytes (r.drop klen.toNat) with
        | none => none
        | some (v, r2) =>
          match decHeaders n r2 with
          | none => none
          | some (hs, r3) => some ((r.take klen.toNat, v) :: hs, r3)
      else none

/-- a record as it is on the wire: deltas, not yet absolute -/
structure Raw where
  tsDelta : Int
  offDelta : Int
  key : Option Bytes
  value : Option Bytes
  headers : List (Bytes × Option Bytes)
deriving DecidableEq, Repr, Inhabited

/-- the body must be consumed exactly -/
def decRecordBody : Bytes → Option Raw
  | [] => none
  | _attributes :: r =>
    match decVarint r with
    | none => none
    | some (tsDelta, r) =>
    match decVarint r with
    | none => none
    | some (offDelta, r) =>
    match decVBytes r with
    | none => none
    | some (key, r) =>
    match decVBytes r with
    | none => none
    | some (value, r) =>
    match decVarint r with
    | none => none
    | some (n, r) =>
      if n < 0 then none else
      match decHeaders n.toNat r with
      | some (headers, []) => some { tsDelta, offDelta, key, value, headers }
      | _ => none

/-- Length frames the record -/
def decRecord (bs : Bytes) : Option (Raw × Bytes) :=
  match decVarint bs with
  | none => none
  | some (len, r) =>
    if len < 0 then none
    else if len.toNat ≤ r.length then
      match decRecordBody (r.take len.toNat) with
      | none => none
      | some raw => some (raw, r.drop len.toNat)
    else none

def decRecords : Nat → Bytes → Option (List Raw × Bytes)
  | 0, bs => some ([], bs)
  | n + 1, bs =>
    match decRecord bs with
    | none => none
    | some (x, r) =>
      match decRecords n r with
      | none => none
      | some (xs, r2) => some (x :: xs, r2)

/-- absolute offset and timestamp of a record of the batch with header `h`
    (LogAppendTime: every record carries the batch's MaxTimestamp) -/
def toRec (h : Header) (x : Raw) : Rec :=
  { offset := h.baseOffset + x.offDelta,
    ts := if h.logAppend then h.maxTs else h.firstTs + x.tsDelta,
    key := x.key, value := x.value, headers := x.headers }

def specRead (C : Codec) (bs : Bytes) : Option (Header × List Rec) :=
  match decHeader bs with
  | none => none
  | some (h, payload) =>
    if h.magic ≠ 2 then none
    else if h.length + 12 ≠ bs.length then none
    else if h.count < 0 then none
    else
      match (if h.codec = 0 then some payload else C.decompress h.codec payload) with
      | none => none
      | some data =>
        match decRecords h.count.toNat data with
        | some (xs, []) => some (h, xs.map (toRec h))
        | _ => none

/-- what a reader must see for records stored with configuration `c` -/
def stamped (c : Cfg) (recs : List Rec) : List Rec :=
  if c.logAppend then recs.map (fun r => { r with ts := c.appendTime }) else recs

/-- "the bytes are a well-formed Kafka batch": the statement of the header clause, on observations -/
def HeaderOK (bs : Bytes) (c : Cfg) (recs : List Rec) : Prop :=
  ∃ h payload, decHeader bs = some (h, payload) ∧
    h.baseOffset = c.baseOffset ∧
    h.length + 12 = bs.length ∧
    h.leaderEpoch = c.leaderEpoch ∧
    h.magic = 2 ∧
    h.crc = crc32c (bs.drop 21) ∧
    h.codec = c.codec ∧ h.logAppend = c.logAppend ∧ h.transactional = c.transactional ∧
    h.control = c.control ∧
    h.lastOffsetDelta = lastDeltaOf c.baseOffset recs ∧
    h.firstTs = firstTsOf recs ∧
    h.maxTs = headerMaxTs c recs ∧
    h.pid = c.pid ∧ h.epoch = c.epoch ∧ h.seq = c.seq ∧
    h.count = recs.length

/-- executable form of `HeaderOK` -/
def headerOK (bs : Bytes) (c : Cfg) (recs : List Rec) : Bool :=
  match decHeader bs with
  | none => false
  | some (h, _) =>
    h.baseOffset = c.baseOffset && h.length + 12 = bs.length && h.leaderEpoch = c.leaderEpoch &&
    h.magic = 2 && h.crc = crc32c (bs.drop 21) && h.codec = c.codec && h.logAppend = c.logAppend &&
    h.transactional = c.transactional && h.control = c.control &&
    h.lastOffsetDelta = lastDeltaOf c.baseOffset recs && h.firstTs = firstTsOf recs &&
    h.maxTs = headerMaxTs c recs && h.pid = c.pid && h.epoch = c.epoch && h.seq = c.seq &&
    h.count = recs.length

/-- `validate_crc` of both readers: stored CRC = CRC-32C of the bytes from the attributes on -/
def validateCrc (bs : Bytes) : Option Bool :=
  match decHeader bs with
  | none => none
  | some (h, _) => some (h.crc = crc32c (bs.drop 21))

/-! ### well-formed inputs (the property's quantifier) -/

def lenOK (n : Nat) : Prop := (n : Int) < 2 ^ 31

def optLenOK : Option Bytes → Prop
  | none => True
  | some b => lenOK b.length

def hdrOK (h : Bytes × Option Bytes) : Prop := lenOK h.1.length ∧ optLenOK h.2

/-- deltas and lengths fit their wire types -/
def WFFields (firstTs base : Int) (r : Rec) : Prop :=
  int64 (r.ts - firstTs) ∧ int64 (r.offset - base) ∧ optLenOK r.key ∧ optLenOK r.value ∧
    lenOK r.headers.length ∧ (∀ h ∈ r.headers, hdrOK h)

/-- a record of a batch with first timestamp `firstTs` and base offset `base`: its fields fit their
    wire types and the record as a whole is shorter than 2^31 bytes (its Length is a varint32) -/
def WFRec (firstTs base : Int) (r : Rec) : Prop :=
  WFFields firstTs base r ∧ lenOK (encRecordBody (r.ts - firstTs) (r.offset - base) r).length

def WFCfg (c : Cfg) : Prop :=
  int64 c.baseOffset ∧ int32 c.leaderEpoch ∧ c.codec < 8 ∧ int64 c.appendTime ∧ int64 c.pid ∧
    (-(2 ^ 15 : Int) ≤ c.epoch ∧ c.epoch < 2 ^ 15) ∧ int32 c.seq

/-- a batch whose header fields fit their wire types -/
def WFBatch (C : Codec) (c : Cfg) (recs : List Rec) : Prop :=
  WFCfg c ∧ (∀ r ∈ recs, WFRec (firstTsOf recs) c.baseOffset r) ∧
    int64 (firstTsOf recs) ∧ int64 (maxTsOf recs) ∧ int32 (lastDeltaOf c.baseOffset recs) ∧
    lenOK recs.length ∧ lenOK ((afterCrc C c recs).length + 9)

/-! the well-formedness predicates are decidable: the harness's generator and the non-vacuity
    examples evaluate them -/
instance (n : Nat) : Decidable (lenOK n) := by unfold lenOK; infer_instance
instance (ob : Option Bytes) : Decidable (optLenOK ob) := by
  cases ob <;> unfold optLenOK <;> infer_instance
instance (h : Bytes × Option Bytes) : Decidable (hdrOK h) := by unfold hdrOK; infer_instance
instance (f b : Int) (r : Rec) : Decidable (WFFields f b r) := by unfold WFFields; infer_instance
instance (f b : Int) (r : Rec) : Decidable (WFRec f b r) := by unfold WFRec; infer_instance
instance (c : Cfg) : Decidable (WFCfg c) := by unfold WFCfg; infer_instance
instance (C : Codec) (c : Cfg) (recs : List Rec) : Decidable (WFBatch C c recs) := by
  unfold WFBatch; infer_instance

/-! ## 2. the builders as implemented -/

/-- constructor arguments of a builder -/
structure BCfg where
  codec : Nat := 0
  transactional : Bool := false
  pid : Int := -1
  epoch : Int := -1
  seq : Int := -1
  batchSize : Int := 16384
deriving Repr, Inhabited

/-- `DefaultRecordMetadata(offset, size, timestamp)` -/
structure Meta where
  offset : Int
  size : Nat
  ts : Int
deriving DecidableEq, Repr, Inhabited

/-- `HEADER_STRUCT.pack_into(...)` + CRC of both `_write_header`s: `bufLen` is the length of the
    whole buffer (`len(self._buffer)` / `self._pos`), `body` what follows the 61 header bytes -/
def writeHeader (bufLen : Int) (attrs lastOffset firstTs maxTs pid epoch seq num : Int) (body : Bytes) :
    Bytes :=
  let a := be 2 attrs ++ (be 4 lastOffset ++ (be 8 firstTs ++ (be 8 maxTs ++ (be 8 pid ++
    (be 2 epoch ++ (be 4 seq ++ (be 4 num ++ body)))))))
  be 8 0 ++ (be 4 (bufLen - 12) ++ (be 4 (-1) ++ (be 1 2 ++ (be 4 (crc32c a) ++ a))))

/-! ### pure Python -/

structure PyB where
  firstTs : Option Int := none
  maxTs : Option Int := none
  lastOffset : Int := 0
  num : Nat := 0
  body : Bytes := []          -- `self._buffer[61:]`
deriving Repr, Inhabited

def pyVBytes : Option Bytes → Bytes
  | none => [1]                                  -- `write_byte(zero_len_varint)`
  | some b => encodeVarintPy b.length ++ b

def pyHeaders : List (Bytes × Option Bytes) → Bytes
  | [] => []
  | h :: hs => encodeVarintPy h.1.length ++ (h.1 ++ pyVBytes h.2) ++ pyHeaders hs

/-- `message_buffer` of `append` -/
def pyMsg (tsDelta : Int) (r : Rec) : Bytes :=
  0 :: (encodeVarintPy tsDelta ++ (encodeVarintPy r.offset ++ (pyVBytes r.key ++ (pyVBytes r.value ++
    (encodeVarintPy r.headers.length ++ pyHeaders r.headers)))))

def pySize (s : PyB) : Nat := 61 + s.body.length

def pyTsDelta (s : PyB) (r : Rec) : Int :=
  match s.firstTs with
  | none => 0
  | some f => r.ts - f

/-- `max(self._max_timestamp, timestamp)` (the `None` case is unreachable: set with `_first_timestamp`) -/
def pyMax : Option Int → Int → Option Int
  | none, t => some t
  | some m, t => some (if m < t then t else m)

/-- `required_size = message_len + size_of_varint(message_len)` -/
def pyRequired (s : PyB) (r : Rec) : Nat :=
  (pyMsg (pyTsDelta s r) r).length + sizeOfVarintPy (pyMsg (pyTsDelta s r) r).length

/-- `required_size + len(main_buffer) > self._batch_size and not first_message` -/
def pyRejects (c : BCfg) (s : PyB) (r : Rec) : Prop :=
  s.firstTs.isSome = true ∧ ((pyRequired s r + pySize s : Nat) : Int) > c.batchSize

instance (c : BCfg) (s : PyB) (r : Rec) : Decidable (pyRejects c s r) := by unfold pyRejects; infer_instance

/-- the state after the message has been written -/
def pyPut (s : PyB) (r : Rec) : PyB :=
  { firstTs := (match s.firstTs with | none => some r.ts | some f => some f),
    maxTs := (match s.firstTs with | none => some r.ts | some _ => pyMax s.maxTs r.ts),
    lastOffset := r.offset, num := s.num + 1,
    body := s.body ++ (encodeVarintPy (pyMsg (pyTsDelta s r) r).length ++ pyMsg (pyTsDelta s r) r) }

def pyAppend (c : BCfg) (s : PyB) (r : Rec) : Option Meta × PyB :=
  if pyRejects c s r then (none, s)
  else (some ⟨r.offset, pyRequired s r, r.ts⟩, pyPut s r)

def pyOptSize : Option Bytes → Nat
  | none => 1
  | some b => sizeOfVarintPy b.length + b.length

def pyHdrsSize : List (Bytes × Option Bytes) → Nat
  | [] => 0
  | h :: t => sizeOfVarintPy h.1.length + h.1.length + pyOptSize h.2 + pyHdrsSize t

/-- `size_of(key, value, headers)` -/
def pySizeOf (key value : Option Bytes) (headers : List (Bytes × Option Bytes)) : Nat :=
  pyOptSize key + pyOptSize value + sizeOfVarintPy headers.length + pyHdrsSize headers

def pySizeInBytes (s : PyB) (r : Rec) : Nat :=
  let body := 1 + sizeOfVarintPy r.offset + sizeOfVarintPy (pyTsDelta s r) +
    pySizeOf r.key r.value r.headers
  body + sizeOfVarintPy body

def estimateSize (sizeOf : Nat) : Nat := 61 + 21 + sizeOf

/-- `_maybe_compress` + `_write_header`: compressed only when strictly smaller -/
def pyBuild (C : Codec) (c : BCfg) (s : PyB) : Bytes × PyB :=
  let z := C.compress c.codec s.body
  let useZ := c.codec ≠ 0 ∧ ¬ (s.body.length ≤ z.length)
  let body := if useZ then z else s.body
  let attrs : Nat := (if useZ then c.codec else 0) + (if c.transactional then 16 else 0)
  let ft : Int := match s.firstTs with | none => 0 | some t => t      -- `self._first_timestamp or 0`
  let mt : Int := match s.maxTs with | none => 0 | some t => t
  (writeHeader (61 + body.length : Nat) attrs s.lastOffset ft mt c.pid c.epoch c.seq s.num body,
   { s with body := body })

/-! ### Cython -/

structure CyB where
  firstTs : Int := -1
  maxTs : Int := -1
  lastOffset : Int := 0
  num : Nat := 0
  body : Bytes := []          -- `self._buffer[61:self._pos]`
deriving Repr, Inhabited

def cyVBytes : Option Bytes → Bytes
  | none => encodeVarintCy (-1)
  | some b => encodeVarintCy b.length ++ b

def cyHeaders : List (Bytes × Option Bytes) → Bytes
  | [] => []
  | h :: hs => encodeVarintCy h.1.length ++ (h.1 ++ cyVBytes h.2) ++ cyHeaders hs

def cyMsg (tsDelta : Int) (r : Rec) : Bytes :=
  0 :: (encodeVarintCy tsDelta ++ (encodeVarintCy r.offset ++ (cyVBytes r.key ++ (cyVBytes r.value ++
    (encodeVarintCy r.headers.length ++ cyHeaders r.headers)))))

def cySize (s : CyB) : Nat := 61 + s.body.length

def cyOptSize : Option Bytes → Nat
  | none => 1
  | some b => sizeOfVarintCy b.length + b.length

def cyHdrsSize : List (Bytes × Option Bytes) → Nat
  | [] => 0
  | h :: t => sizeOfVarintCy h.1.length + h.1.length + cyOptSize h.2 + cyHdrsSize t

/-- `_size_of(key, value, headers)` -/
def cySizeOf (key value : Option Bytes) (headers : List (Bytes × Option Bytes)) : Nat :=
  cyOptSize key + cyOptSize value + sizeOfVarintCy headers.length + cyHdrsSize headers

def cyTsDelta (s : CyB) (r : Rec) : Int := if s.firstTs ≠ -1 then r.ts - s.firstTs else 0

/-- `_size_of_body` -/
def cySizeOfBody (s : CyB) (r : Rec) : Nat :=
  1 + sizeOfVarintCy r.offset + sizeOfVarintCy (cyTsDelta s r) + cySizeOf r.key r.value r.headers

def cySizeInBytes (s : CyB) (r : Rec) : Nat := cySizeOfBody s r + sizeOfVarintCy (cySizeOfBody s r)

/-- `offset != 0 and pos + size >= self._batch_size` -/
def cyRejects (c : BCfg) (s : CyB) (r : Rec) : Prop :=
  r.offset ≠ 0 ∧ ((cySize s + cySizeInBytes s r : Nat) : Int) ≥ c.batchSize

instance (c : BCfg) (s : CyB) (r : Rec) : Decidable (cyRejects c s r) := by unfold cyRejects; infer_instance

/-- the size is computed first, the buffer grown by exactly that much, then the message is written
    into it (bytes not written stay zero; writing more would run past the allocation — the model
    cuts there) -/
def cyWritten (s : CyB) (r : Rec) : Bytes :=
  ((encodeVarintCy (cySizeOfBody s r) ++ cyMsg (cyTsDelta s r) r) ++
    List.replicate (cySizeInBytes s r) 0).take (cySizeInBytes s r)

def cyPut (s : CyB) (r : Rec) : CyB :=
  { firstTs := if s.firstTs = -1 then r.ts else s.firstTs,
    maxTs := if s.firstTs = -1 then r.ts else (if s.maxTs < r.ts then r.ts else s.maxTs),
    lastOffset := r.offset, num := s.num + 1, body := s.body ++ cyWritten s r }

def cyAppend (c : BCfg) (s : CyB) (r : Rec) : Option Meta × CyB :=
  if cyRejects c s r then (none, s)
  else (some ⟨r.offset, cySizeInBytes s r, r.ts⟩, cyPut s r)

/-- `_maybe_compress` (always when a codec is configured) + `_write_header` -/
def cyBuild (C : Codec) (c : BCfg) (s : CyB) : Bytes × CyB :=
  let body := if c.codec ≠ 0 then C.compress c.codec s.body else s.body
  let attrs : Nat := c.codec + (if c.transactional then 16 else 0)
  (writeHeader (61 + body.length : Nat) attrs s.lastOffset s.firstTs s.maxTs c.pid c.epoch c.seq s.num body,
   { s with body := body })

/-! ### running a whole append script -/

def pyRun (c : BCfg) : PyB → List Rec → List (Option Meta) × PyB
  | s, [] => ([], s)
  | s, r :: rs =>
    let (m, s1) := pyAppend c s r
    let (ms, s2) := pyRun c s1 rs
    (m :: ms, s2)

def cyRun (c : BCfg) : CyB → List Rec → List (Option Meta) × CyB
  | s, [] => ([], s)
  | s, r :: rs =>
    let (m, s1) := cyAppend c s r
    let (ms, s2) := cyRun c s1 rs
    (m :: ms, s2)

/-- the records a script actually put into the batch -/
def pyAccepted (c : BCfg) : PyB → List Rec → List Rec
  | _, [] => []
  | s, r :: rs =>
    match pyAppend c s r with
    | (none, s1) => pyAccepted c s1 rs
    | (some _, s1) => r :: pyAccepted c s1 rs

def cyAccepted (c : BCfg) : CyB → List Rec → List Rec
  | _, [] => []
  | s, r :: rs =>
    match cyAppend c s r with
    | (none, s1) => cyAccepted c s1 rs
    | (some _, s1) => r :: cyAccepted c s1 rs

/-! ## 3. the readers as implemented -/

/-- a nullable byte field as `_read_msg` reads it: length varint; negative = `None`; otherwise
    `_check_bounds` / a slice that must not be short -/
def implBytes (dv : Bytes → Option (Int × Bytes)) (bs : Bytes) : Option (Option Bytes × Bytes) :=
  match dv bs with
  | none => none
  | some (n, r) =>
    if n < 0 then some (none, r)
    else if r.length < n.toNat then none
    else some (some (r.take n.toNat), r.drop n.toNat)

/-- the header loop of `_read_msg`: key (a negative size is corrupt), nullable value -/
def implHeaders (dv : Bytes → Option (Int × Bytes)) : Nat → Bytes → Option (List (Bytes × Option Bytes) × Bytes)
  | 0, bs => some ([], bs)
  | k + 1, bs =>
    match dv bs with
    | none => none
    | some (klen, r) =>
      if klen < 0 then none
      else if r.length < klen.toNat then none
      else
        match implBytes dv (r.drop klen.toNat) with
        | none => none
        | some (v, r2) =>
          match implHeaders dv k r2 with
          | none => none
          | some (hs, r3) => some ((r.take klen.toNat, v) :: hs, r3)

/-- sequential `_read_msg` on the bytes from `self._pos` on, with varint decoder `dv` -/
def implReadMsg (dv : Bytes → Option (Int × Bytes)) (h : Header) (bs : Bytes) : Option (Rec × Bytes) :=
  match dv bs with
  | none => none
  | some (length, r0) =>
  match dv r0 with                      -- "attrs can be skipped for now": read as a varint
  | none => none
  | some (_, r) =>
  match dv r with
  | none => none
  | some (tsDelta, r) =>
  match dv r with
  | none => none
  | some (offDelta, r) =>
  match implBytes dv r with
  | none => none
  | some (key, r) =>
  match implBytes dv r with
  | none => none
  | some (value, r) =>
  match dv r with
  | none => none
  | some (n, r) =>
  if n < 0 then none else
  match implHeaders dv n.toNat r with
  | none => none
  | some (headers, rEnd) =>
    -- `if pos - start_pos != length: raise CorruptRecordException`
    if ((r0.length - rEnd.length : Nat) : Int) ≠ length then none
    else
      some ({ offset := h.baseOffset + offDelta,
              ts := if h.attrBits &&& 0x08 ≠ 0 then h.maxTs else h.firstTs + tsDelta,
              key, value, headers }, rEnd)

def implReadMsgs (dv : Bytes → Option (Int × Bytes)) (h : Header) : Nat → Bytes → Option (List Rec × Bytes)
  | 0, bs => some ([], bs)
  | n + 1, bs =>
    match implReadMsg dv h bs with
    | none => none
    | some (x, r) =>
      match implReadMsgs dv h n r with
      | none => none
      | some (xs, r2) => some (x :: xs, r2)

/-- construct the batch, iterate it to the end: header unpack, `_maybe_uncompress`, `num_records`
    messages, then the "unconsumed bytes" test -/
def implRead (dv : Bytes → Option (Int × Bytes)) (C : Codec) (bs : Bytes) : Option (Header × List Rec) :=
  match decHeader bs with
  | none => none
  | some (h, payload) =>
    let codec := h.attrBits &&& 0x07
    match (if codec = 0 then some payload else C.decompress codec payload) with
    | none => none
    | some data =>
      match implReadMsgs dv h h.count.toNat data with
      | some (xs, []) => some (h, xs)
      | _ => none

def pyRead := implRead decodeVarintPy
def cyRead := implRead decodeVarintCy

end AkVerif.V2
