import AkVerif.Model.Util
/-!
Model of `aiokafka/protocol/types.py` + `struct.py` (C11): schema-directed encoding and decoding
of Kafka API messages.

* strings are modelled at the byte level (their UTF-8 encoding; `str.encode`/`bytes.decode` are
  trusted to be inverse on valid text);
* `float64` values are their 64 IEEE bits;
* `none` = the Python call raises (any exception).
`encode` answers `none` also where Python would silently wrap an out-of-range value
(`UnsignedVarInt32.encode` masks with `0xFFFFFFFF`, `Boolean` accepts any truthy object): those
inputs are outside "in-range field values" and are not compared.
-/
namespace AkVerif.Wire

abbrev Bytes := List Nat

inductive Ty where
  | int8 | int16 | int32 | int64 | uint32 | float64 | bool
  | string | bytes | cstring | cbytes
  | uvarint | varint32 | varint64 | tagged
  | array (t : Ty) | carray (t : Ty)
  | struct (ts : List Ty)
deriving Repr, BEq, Inhabited

inductive Val where
  | int (i : Int)
  | bool (b : Bool)
  | bytes (ob : Option Bytes)
  | tagged (fs : List (Nat × Bytes))
  | list (ovs : Option (List Val))
  | tuple (vs : List Val)
deriving Repr, BEq, Inhabited

/-! ### fixed-width big-endian integers (`struct.Struct(">b/h/i/q/I/d")`) -/

/-- `n` bytes, most significant first, of `u mod 256^n` -/
def beBytes : Nat → Nat → Bytes
  | 0, _ => []
  | n + 1, u => beBytes n (u / 256) ++ [u % 256]

def beVal (bs : Bytes) : Nat := bs.foldl (fun acc b => acc * 256 + b) 0

/-- `data.read(n)`; a short read makes `struct.unpack` raise -/
def takeN (n : Nat) (bs : Bytes) : Option (Bytes × Bytes) :=
  if n ≤ bs.length then some (bs.take n, bs.drop n) else none

/-- signed, two's complement, `n` bytes; out of range raises `struct.error` → `ValueError` -/
def encInt (n : Nat) (i : Int) : Option Bytes :=
  if -(2 ^ (8 * n - 1) : Int) ≤ i ∧ i < (2 ^ (8 * n - 1) : Int)
  then some (beBytes n (i % (2 ^ (8 * n) : Int)).toNat) else none

def decInt (n : Nat) (bs : Bytes) : Option (Int × Bytes) :=
  match takeN n bs with
  | none => none
  | some (h, r) =>
    let u := beVal h
    some ((if u < 2 ^ (8 * n - 1) then (u : Int) else (u : Int) - (2 ^ (8 * n) : Int)), r)

def encUInt (n : Nat) (i : Int) : Option Bytes :=
  if 0 ≤ i ∧ i < (2 ^ (8 * n) : Int) then some (beBytes n i.toNat) else none

def decUInt (n : Nat) (bs : Bytes) : Option (Int × Bytes) :=
  match takeN n bs with
  | none => none
  | some (h, r) => some ((beVal h : Int), r)

/-! ### variable-length integers -/

/-- `UnsignedVarInt32.encode` on a value already reduced to 32 bits: seven bits at a time, least
    significant group first, continuation bit on all but the last byte -/
def encUV (v : Nat) : Bytes :=
  if v < 128 then [v] else (v % 128 + 128) :: encUV (v / 128)
termination_by v
decreasing_by omega

/-- the decoding loop shared by `UnsignedVarInt32.decode` (`maxShift = 28`) and
    `VarInt64.decode` (`maxShift = 63`): `value |= (b & 0x7f) << i; i += 7; if i > maxShift: raise` -/
def decUVAux (maxShift : Nat) : Nat → Nat → Bytes → Option (Nat × Bytes)
  | _, _, [] => none
  | i, value, b :: rest =>
    if b &&& 0x80 = 0 then some (value ||| (b <<< i), rest)
    else
      let value := value ||| ((b &&& 0x7F) <<< i)
      if i + 7 > maxShift then none else decUVAux maxShift (i + 7) value rest

def decUV32 (bs : Bytes) : Option (Nat × Bytes) := decUVAux 28 0 0 bs
def decUV64 (bs : Bytes) : Option (Nat × Bytes) := decUVAux 63 0 0 bs

/-- zig-zag: `(n << 1) ^ (n >> k)` with an arithmetic shift (Java / protobuf) -/
def zig (i : Int) : Nat := if 0 ≤ i then (2 * i).toNat else (-2 * i - 1).toNat
/-- `(value >> 1) ^ -(value & 1)` -/
def unzig (n : Nat) : Int := if n % 2 = 0 then ((n / 2 : Nat) : Int) else -(((n + 1) / 2 : Nat) : Int)

/-! ### length-prefixed byte strings -/

def encLenBytes (n : Nat) (ob : Option Bytes) : Option Bytes :=
  match ob with
  | none => encInt n (-1)
  | some b => (encInt n b.length).map (· ++ b)

def decLenBytes (n : Nat) (bs : Bytes) : Option (Option Bytes × Bytes) :=
  match decInt n bs with
  | none => none
  | some (len, r) =>
    if len < 0 then some (none, r)
    else if len.toNat ≤ r.length then some (some (r.take len.toNat), r.drop len.toNat)
    else none

def encCompactBytes (ob : Option Bytes) : Option Bytes :=
  match ob with
  | none => some (encUV 0)
  | some b => if b.length + 1 < 2 ^ 32 then some (encUV (b.length + 1) ++ b) else none

def decCompactBytes (bs : Bytes) : Option (Option Bytes × Bytes) :=
  match decUV32 bs with
  | none => none
  | some (n, r) =>
    if n = 0 then some (none, r)
    else if n - 1 ≤ r.length then some (some (r.take (n - 1)), r.drop (n - 1))
    else none

/-! ### tagged fields -/

def encTaggedBody : List (Nat × Bytes) → Option Bytes
  | [] => some []
  | (k, v) :: rest =>
    if k < 2 ^ 32 ∧ v.length < 2 ^ 32 then
      (encTaggedBody rest).map (fun r => encUV k ++ encUV v.length ++ v ++ r)
    else none

/-- `tag <= prev_tag` (`prev = none` is the initial −1) -/
def tagLe (prev : Option Nat) (k : Nat) : Bool :=
  match prev with
  | none => false
  | some p => decide (k ≤ p)

def tagsIncreasing : Option Nat → List (Nat × Bytes) → Bool
  | _, [] => true
  | prev, (k, _) :: rest => !(tagLe prev k) && tagsIncreasing (some k) rest

def encTagged (fs : List (Nat × Bytes)) : Option Bytes :=
  if fs.length < 2 ^ 32 ∧ tagsIncreasing none fs then
    (encTaggedBody fs).map (fun r => encUV fs.length ++ r)
  else none

/-- `prev` is `prev_tag` (`none` = −1); `data.read(size)` does not check for a short read -/
def decTaggedBody : Nat → Option Nat → Bytes → Option (List (Nat × Bytes) × Bytes)
  | 0, _, bs => some ([], bs)
  | n + 1, prev, bs =>
    match decUV32 bs with
    | none => none
    | some (tag, r1) =>
      if tagLe prev tag then none else
      match decUV32 r1 with
      | none => none
      | some (size, r2) =>
        match decTaggedBody n (some tag) (r2.drop size) with
        | none => none
        | some (fs, r3) => some ((tag, r2.take size) :: fs, r3)

def decTagged (bs : Bytes) : Option (List (Nat × Bytes) × Bytes) :=
  match decUV32 bs with
  | none => none
  | some (n, r) => decTaggedBody n none r

/-! ### schema-directed codec -/

def Val.asInt : Val → Option Int
  | .int i => some i
  | _ => none
def Val.asBool : Val → Option Bool
  | .bool b => some b
  | _ => none
def Val.asBytes : Val → Option (Option Bytes)
  | .bytes ob => some ob
  | _ => none
def Val.asTagged : Val → Option (List (Nat × Bytes))
  | .tagged fs => some fs
  | _ => none
def Val.asList : Val → Option (Option (List Val))
  | .list ovs => some ovs
  | _ => none
def Val.asTuple : Val → Option (List Val)
  | .tuple vs => some vs
  | _ => none

def encUVarint (i : Int) : Option Bytes :=
  if 0 ≤ i ∧ i < 2 ^ 32 then some (encUV i.toNat) else none
def encVarint32 (i : Int) : Option Bytes :=
  if -(2 ^ 31 : Int) ≤ i ∧ i < 2 ^ 31 then some (encUV (zig i)) else none
def encVarint64 (i : Int) : Option Bytes :=
  if -(2 ^ 63 : Int) ≤ i ∧ i < 2 ^ 63 then some (encUV (zig i)) else none

/-- `Int32.encode(len(items))` -/
def encCount32 (n : Nat) : Option Bytes := encInt 4 (n : Int)
/-- `Int32.encode(-1)` -/
def encNull32 : Option Bytes := encInt 4 (-1)

mutual
def encode : Ty → Val → Option Bytes
  | .int8, v => v.asInt.bind (encInt 1)
  | .int16, v => v.asInt.bind (encInt 2)
  | .int32, v => v.asInt.bind (encInt 4)
  | .int64, v => v.asInt.bind (encInt 8)
  | .uint32, v => v.asInt.bind (encUInt 4)
  | .float64, v => v.asInt.bind (encUInt 8)
  | .bool, v => v.asBool.map (fun b => [if b then 1 else 0])
  | .string, v => v.asBytes.bind (encLenBytes 2)
  | .bytes, v => v.asBytes.bind (encLenBytes 4)
  | .cstring, v => v.asBytes.bind encCompactBytes
  | .cbytes, v => v.asBytes.bind encCompactBytes
  | .uvarint, v => v.asInt.bind encUVarint
  | .varint32, v => v.asInt.bind encVarint32
  | .varint64, v => v.asInt.bind encVarint64
  | .tagged, v => v.asTagged.bind encTagged
  | .array t, v =>
    match v.asList with
    | none => none
    | some none => encNull32
    | some (some vs) =>
      (encCount32 vs.length).bind fun h => (encodeMany t vs).map (h ++ ·)
  | .carray t, v =>
    match v.asList with
    | none => none
    | some none => some (encUV 0)
    | some (some vs) =>
      if vs.length + 1 < 2 ^ 32 then (encodeMany t vs).map (encUV (vs.length + 1) ++ ·) else none
  | .struct ts, v =>
    match v.asTuple with
    | none => none
    | some vs => encodeFields ts vs
termination_by t _ => (sizeOf t, 0)
def encodeMany : Ty → List Val → Option Bytes
  | _, [] => some []
  | t, v :: vs =>
    match encode t v, encodeMany t vs with
    | some a, some b => some (a ++ b)
    | _, _ => none
termination_by t vs => (sizeOf t, vs.length + 1)
def encodeFields : List Ty → List Val → Option Bytes
  | [], [] => some []
  | t :: ts, v :: vs =>
    match encode t v, encodeFields ts vs with
    | some a, some b => some (a ++ b)
    | _, _ => none
  | _, _ => none
termination_by ts _ => (sizeOf ts, 0)
end

mutual
def decode : Ty → Bytes → Option (Val × Bytes)
  | .int8, bs => (decInt 1 bs).map fun (i, r) => (.int i, r)
  | .int16, bs => (decInt 2 bs).map fun (i, r) => (.int i, r)
  | .int32, bs => (decInt 4 bs).map fun (i, r) => (.int i, r)
  | .int64, bs => (decInt 8 bs).map fun (i, r) => (.int i, r)
  | .uint32, bs => (decUInt 4 bs).map fun (i, r) => (.int i, r)
  | .float64, bs => (decUInt 8 bs).map fun (i, r) => (.int i, r)
  | .bool, bs =>
    match bs with
    | [] => none
    | b :: r => some (.bool (b != 0), r)
  | .string, bs => (decLenBytes 2 bs).map fun (ob, r) => (.bytes ob, r)
  | .bytes, bs => (decLenBytes 4 bs).map fun (ob, r) => (.bytes ob, r)
  | .cstring, bs => (decCompactBytes bs).map fun (ob, r) => (.bytes ob, r)
  | .cbytes, bs => (decCompactBytes bs).map fun (ob, r) => (.bytes ob, r)
  | .uvarint, bs => (decUV32 bs).map fun (n, r) => (.int n, r)
  | .varint32, bs => (decUV32 bs).map fun (n, r) => (.int (unzig n), r)
  | .varint64, bs => (decUV64 bs).map fun (n, r) => (.int (unzig n), r)
  | .tagged, bs => (decTagged bs).map fun (fs, r) => (.tagged fs, r)
  | .array t, bs =>
    match decInt 4 bs with
    | none => none
    | some (n, r) =>
      if n = -1 then some (.list none, r)
      else match decodeMany t n.toNat r with   -- `range(length)`: empty for other negatives
        | none => none
        | some (vs, r') => some (.list (some vs), r')
  | .carray t, bs =>
    match decUV32 bs with
    | none => none
    | some (n, r) =>
      if n = 0 then some (.list none, r)
      else match decodeMany t (n - 1) r with
        | none => none
        | some (vs, r') => some (.list (some vs), r')
  | .struct ts, bs =>
    match decodeFields ts bs with
    | none => none
    | some (vs, r) => some (.tuple vs, r)
def decodeMany : Ty → Nat → Bytes → Option (List Val × Bytes)
  | _, 0, bs => some ([], bs)
  | t, n + 1, bs =>
    match decode t bs with
    | none => none
    | some (v, r) =>
      match decodeMany t n r with
      | none => none
      | some (vs, r') => some (v :: vs, r')
def decodeFields : List Ty → Bytes → Option (List Val × Bytes)
  | [], bs => some ([], bs)
  | t :: ts, bs =>
    match decode t bs with
    | none => none
    | some (v, r) =>
      match decodeFields ts r with
      | none => none
      | some (vs, r') => some (v :: vs, r')
end

/-! ### version negotiation (`Request.prepare`) -/

inductive Prepared where
  | version (v : Nat)          -- `build(_CLASSES[i])` with that API_VERSION
  | unknownApi                 -- IncompatibleBrokerVersion: api key not advertised
  | noCommonVersion            -- NotImplementedError: ranges disjoint
deriving Repr, BEq, DecidableEq

/-- `classes` = API versions of `_CLASSES` in declaration order -/
def prepare (classes : List Nat) (allowUnknown : Bool) (range : Option (Nat × Nat)) : Prepared :=
  match range with
  | none =>
    if allowUnknown then
      match classes with
      | v :: _ => .version v
      | [] => .unknownApi
    else .unknownApi
  | some (lo, hi) =>
    match classes.reverse.find? (fun v => lo ≤ v && v ≤ hi) with
    | some v => .version v
    | none => .noCommonVersion

end AkVerif.Wire
