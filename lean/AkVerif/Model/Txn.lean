/-!
Model of the transactional `AIOKafkaProducer` (C07, C16).

* `TState`, `transitionValid` — `TransactionState.is_transition_valid`
  (`producer/transaction_manager.py`); tied to the source by the generated table `Gen/TxnTable`.
* `Env` — the environment: transaction coordinator of one transactional id, the pending / committed
  offsets of one group and the partition logs with control markers (DESIGN.md Appendix F,
  simulator `harness/sim/txn.py`).  Trusted transcription, compared with the simulator on every run.
* `Sys`, `step` — the API automaton: the producer's transaction manager, sender and accumulator
  between two quiescent points, one API call at a time, with at most one injected fault at a
  transactional request (`Fault`).  `step` says which requests are sent, how the environment
  changes, what the call returns and how the send futures resolve.
-/
namespace AkVerif.Txn

/-! ## the transition table -/

inductive TState where
  | uninit | ready | inTxn | committing | aborting | abortable | fatal
deriving DecidableEq, Repr, Inhabited

/-- in the order of the values of the Python `Enum` (1 … 7) -/
def TState.all : List TState :=
  [.uninit, .ready, .inTxn, .committing, .aborting, .abortable, .fatal]

def TState.name : TState → String
  | .uninit => "UNINITIALIZED" | .ready => "READY" | .inTxn => "IN_TRANSACTION"
  | .committing => "COMMITTING_TRANSACTION" | .aborting => "ABORTING_TRANSACTION"
  | .abortable => "ABORTABLE_ERROR" | .fatal => "FATAL_ERROR"

/-- `TransactionState.is_transition_valid(source, target)` -/
def transitionValid (source target : TState) : Bool :=
  match target with
  | .ready => source == .uninit || source == .committing || source == .aborting
  | .inTxn => source == .ready
  | .committing => source == .inTxn
  | .aborting => source == .inTxn || source == .abortable
  | .abortable => true
  | .fatal => true
  | .uninit => false

def transitionTable : List (List Bool) :=
  TState.all.map fun s => TState.all.map fun t => transitionValid s t

/-! ## environment: coordinator, group offsets, partition logs -/

inductive Entry where
  | data (r : Nat)            -- a transactional record (identified by its unique payload)
  | marker (commit : Bool)    -- control batch written by the coordinator
deriving DecidableEq, Repr, Inhabited

/-- one pass of a read-committed reader over a partition: (visible so far, still undecided) -/
def scanStep (acc : List Nat × List Nat) : Entry → List Nat × List Nat
  | .data r => (acc.1, acc.2 ++ [r])
  | .marker true => (acc.1 ++ acc.2, [])
  | .marker false => (acc.1, [])

def scan (l : List Entry) : List Nat × List Nat := l.foldl scanStep ([], [])

/-- records a read-committed reader is given -/
def visible (l : List Entry) : List Nat := (scan l).1
/-- records above the last stable offset (their transaction is undecided) -/
def undecided (l : List Entry) : List Nat := (scan l).2

structure Env where
  ongoing : Bool := false               -- coordinator state `Ongoing`
  parts : List Nat := []                -- partitions registered in the ongoing transaction
  grp : Bool := false                   -- the group registered in the ongoing transaction
  last : Option Bool := none            -- result of the last completed transaction (`Complete*`)
  pendOff : Option Nat := none          -- pending transactional offset of the group
  commOff : Option Nat := none          -- committed offset of the group
  logs : Nat → List Entry := fun _ => []

def setLog (f : Nat → List Entry) (p : Nat) (l : List Entry) : Nat → List Entry :=
  fun q => if q = p then l else f q

/-- `_begin_if_needed` -/
def Env.beginIfNeeded (e : Env) : Env :=
  if e.ongoing then e else { e with ongoing := true, parts := [], grp := false }

/-- AddPartitionsToTxn applied -/
def Env.addParts (e : Env) (p : Nat) : Env :=
  let e := e.beginIfNeeded
  { e with parts := if p ∈ e.parts then e.parts else e.parts ++ [p] }

/-- AddOffsetsToTxn applied -/
def Env.addOffs (e : Env) : Env :=
  { e.beginIfNeeded with grp := true }

/-- TxnOffsetCommit applied at the group coordinator -/
def Env.offsCommit (e : Env) (o : Nat) : Env := { e with pendOff := some o }

/-- a transactional Produce for partition `p`: refused (`INVALID_TXN_STATE`) unless registered -/
def Env.append (e : Env) (p r : Nat) : Option Env :=
  if e.ongoing ∧ p ∈ e.parts then some { e with logs := setLog e.logs p (e.logs p ++ [.data r]) }
  else none

def writeMarkers (logs : Nat → List Entry) (c : Bool) : List Nat → Nat → List Entry
  | [] => logs
  | p :: ps => writeMarkers (setLog logs p (logs p ++ [.marker c])) c ps

/-- `_end`: markers to exactly the registered partitions, pending offsets materialised or dropped -/
def Env.finish (e : Env) (c : Bool) : Env :=
  { e with
    logs := writeMarkers e.logs c e.parts,
    commOff := if e.grp && c then (match e.pendOff with | some o => some o | none => e.commOff) else e.commOff,
    pendOff := if e.grp then none else e.pendOff,
    ongoing := false, parts := [], grp := false, last := some c }

/-- EndTxn: `none` = `INVALID_TXN_STATE`; a repeated EndTxn with the same result succeeds -/
def Env.endTxn (e : Env) (c : Bool) : Option Env :=
  if e.ongoing then some (e.finish c)
  else if e.last = some c then some e
  else none

/-- InitProducerId of a new incarnation: an ongoing transaction is aborted (fenced), epoch bumped -/
def Env.init (e : Env) : Env :=
  let e1 := if e.ongoing then e.finish false else e
  { e1 with last := none }

/-! ## the producer between quiescent points -/

inductive Api where
  | addParts | addOffs | offsCommit | endTxn | produce
deriving DecidableEq, Repr, Inhabited

inductive FKind where
  | retr      -- answered with a retriable code / connection dropped before it was applied
  | lost      -- applied, reply lost (connection dropped after apply, or request timeout)
  | abrt      -- authorization error (topic / group)
  | fatal     -- fencing, invalid transaction state, transactional-id authorization
deriving DecidableEq, Repr, Inhabited

structure Fault where
  api : Api
  nth : Nat
  kind : FKind
deriving DecidableEq, Repr, Inhabited

/-- which fault kinds the code distinguishes at which request (handlers of `sender.py`) -/
def applicable : Api → FKind → Bool
  | _, .retr => true
  | _, .lost => true
  | .addParts, .abrt => true
  | .addOffs, .abrt => true
  | .offsCommit, .abrt => true
  | .addParts, .fatal => true
  | .addOffs, .fatal => true
  | .offsCommit, .fatal => true
  | .endTxn, .fatal => true
  | _, _ => false

/-- how a request ended, as the brokers saw it -/
inductive Code where
  | ok | retr | lost | abrt | fatal
deriving DecidableEq, Repr, Inhabited

inductive Req where
  | addParts (p : Nat) (c : Code)
  | addOffs (c : Code)
  | offsCommit (o : Nat) (c : Code)
  | endTxn (commit : Bool) (c : Code)
  | produce (p r : Nat) (c : Code)
  | init                          -- InitProducerId of a new incarnation (answered ok)
deriving DecidableEq, Repr, Inhabited

inductive Call where
  | begin | send (p : Nat) | sendOffsets | commit | abort
  | exitOk       -- `async with producer.transaction()` left without an exception
  | exitExc      -- … left by an exception
  | restart      -- the process dies; a new instance with the same transactional id starts
deriving DecidableEq, Repr, Inhabited

/-- result of an API call -/
inductive Res where
  | ok
  | refused      -- IllegalOperation / invalid state transition: the call is out of order
  | abrt         -- the abortable error is raised
  | fatal        -- the fatal error is raised
  | dead         -- any raise after a fatal error
deriving DecidableEq, Repr, Inhabited

/-- outcome of a send future -/
inductive FRes where
  | ok | abrt | fatal | failed
deriving DecidableEq, Repr, Inhabited

structure Cnt where
  ap : Nat := 0
  ao : Nat := 0
  oc : Nat := 0
  et : Nat := 0
  pr : Nat := 0
deriving DecidableEq, Repr, Inhabited

def Cnt.get (c : Cnt) : Api → Nat
  | .addParts => c.ap | .addOffs => c.ao | .offsCommit => c.oc | .endTxn => c.et | .produce => c.pr

def Cnt.bump (c : Cnt) : Api → Cnt
  | .addParts => { c with ap := c.ap + 1 }
  | .addOffs => { c with ao := c.ao + 1 }
  | .offsCommit => { c with oc := c.oc + 1 }
  | .endTxn => { c with et := c.et + 1 }
  | .produce => { c with pr := c.pr + 1 }

/-- what the properties talk about: the transaction manager, the environment and the
    application's view (ghost) -/
structure Core where
  -- transaction manager (client)
  st : TState := .ready
  parts : List Nat := []        -- `_txn_partitions`
  grp : Bool := false           -- `_txn_consumer_group is not None`
  -- environment
  env : Env := {}
  nRec : Nat := 0               -- records accepted by `send` so far (= id of the next one)
  -- ghost: the application's view of what should be readable
  cur : List Nat := []          -- acknowledged records of the transaction in progress
  curOff : Option Nat := none   -- offset acknowledged for the transaction in progress
  good : List Nat := []         -- acknowledged records of transactions whose commit returned
  bad : List Nat := []          -- acknowledged records of transactions aborted or fenced
  goodOff : Option Nat := none  -- offset of the last committed transaction that sent offsets

structure Sys extends Core where
  -- fault schedule
  cnt : Cnt := {}
  fault : Option Fault := none
  -- observations
  nOff : Nat := 0               -- offsets handed to `send_offsets_to_transaction` so far
  reqs : List Req := []         -- newest first
  futs : List (Nat × FRes) := []  -- newest first
  res : List Res := []          -- newest first
  -- partitions whose sequence numbers were consumed by a batch the leader did not accept
  -- (`_pop_batch` stamps and increments before the batch is sent; nothing ever takes it back)
  burnt : List Nat := []

/-- does the injected fault hit this request?  (bumps the per-API request counter) -/
def fire (s : Sys) (a : Api) : Sys × Option FKind :=
  let s' := { s with cnt := s.cnt.bump a }
  match s.fault with
  | some f => if f.api = a ∧ f.nth = s.cnt.get a ∧ applicable a f.kind = true then (s', some f.kind) else (s', none)
  | none => (s', none)

inductive Verdict where
  | ok | abrt | fatal
deriving DecidableEq, Repr, Inhabited

/-- Send one request of class `a` until it is answered finally.  `mk` renders it for the request
    log, `apply` is its effect on the environment, `again` the effect of a second delivery of the
    same request (retry after a lost reply). -/
def request (s : Sys) (a : Api) (mk : Code → Req) (apply again : Env → Env) : Sys × Verdict :=
  let (s1, k) := fire s a
  match k with
  | none => ({ s1 with env := apply s1.env, reqs := mk .ok :: s1.reqs }, .ok)
  | some .retr =>
    ({ s1 with cnt := s1.cnt.bump a, env := apply s1.env, reqs := mk .ok :: mk .retr :: s1.reqs }, .ok)
  | some .lost =>
    ({ s1 with cnt := s1.cnt.bump a, env := again (apply s1.env),
               reqs := mk .ok :: mk .lost :: s1.reqs }, .ok)
  | some .abrt => ({ s1 with reqs := mk .abrt :: s1.reqs }, .abrt)
  | some .fatal => ({ s1 with reqs := mk .fatal :: s1.reqs }, .fatal)

def Sys.result (s : Sys) (r : Res) : Sys := { s with res := r :: s.res }
def Sys.fut (s : Sys) (r : Nat) (o : FRes) : Sys := { s with futs := (r, o) :: s.futs }

/-- `error_transaction` (+ `fail_undrained`): only abort is possible now; what the coordinator
    registered stays recorded -/
def Sys.toAbortable (s : Sys) : Sys := { s with st := .abortable }
/-- the sender task died: `fatal_error` -/
def Sys.toFatal (s : Sys) : Sys := { s with st := .fatal }

/-- the scheduled fault is a fencing / sequence error at exactly the next Produce -/
def Sys.seqFault (s : Sys) : Bool := s.fault == some ⟨.produce, s.cnt.pr, .fatal⟩

/-- what the leader does with the Produce of record `r` to partition `p`: `none` = the batch fails
    for good — the partition is not registered (`INVALID_TXN_STATE`), a fencing / sequence error is
    injected, or the sequence numbers of an earlier failed batch are missing
    (`OUT_OF_ORDER_SEQUENCE_NUMBER`) -/
def Sys.leaderAccepts (s : Sys) (p r : Nat) : Option Env :=
  if s.seqFault = true ∨ p ∈ s.burnt then none else s.env.append p r

/-- the Produce of one record to a registered partition -/
def produce (s : Sys) (p r : Nat) : Sys :=
  match s.leaderAccepts p r with
  | none =>
    -- `SendProduceReqHandler.handle_response`: the batch fails, its sequence numbers stay consumed;
    -- the transaction manager is NOT told (state unchanged) — see `c16_produce_error_not_fatal`
    ({ s with cnt := s.cnt.bump .produce, reqs := .produce p r .fatal :: s.reqs,
              burnt := if p ∈ s.burnt then s.burnt else p :: s.burnt }).fut r .fatal
  | some e' =>
    let (s1, _) := request s .produce (.produce p r) (fun _ => e') id
    { s1.fut r .ok with cur := r :: s1.cur }

/-- `send()` accepted record `r` for partition `p` -/
def sendAccepted (s : Sys) (p r : Nat) : Sys :=
  if p ∈ s.parts then produce s p r
  else
    let (s1, v) := request s .addParts (.addParts p) (·.addParts p) (·.addParts p)
    match v with
    | .ok => produce { s1 with parts := s1.parts ++ [p] } p r
    | .abrt => s1.toAbortable.fut r .abrt
    | .fatal => s1.toFatal.fut r .fatal

def doSend (s : Sys) (p : Nat) : Sys :=
  sendAccepted ({ s with nRec := s.nRec + 1 }.result .ok) p s.nRec

/-- `send_offsets_to_transaction` accepted offset `o` -/
def offsAccepted (s : Sys) (o : Nat) : Sys :=
  let (s1, v) :=
    if s.grp then (s, Verdict.ok)
    else
      let (s1, v) := request s .addOffs .addOffs (·.addOffs) (·.addOffs)
      (if v = .ok then { s1 with grp := true } else s1, v)
  match v with
  | .abrt => s1.toAbortable.result .abrt
  | .fatal => s1.toFatal.result .fatal
  | .ok =>
    let (s2, v2) := request s1 .offsCommit (.offsCommit o) (·.offsCommit o) (·.offsCommit o)
    match v2 with
    | .ok => { s2 with curOff := some o }.result .ok
    | .abrt => s2.toAbortable.result .abrt
    | .fatal => s2.toFatal.result .fatal

def doSendOffsets (s : Sys) : Sys :=
  offsAccepted { s with nOff := s.nOff + 1 } (100 + s.nOff)

/-- ghost: the transaction in progress is decided (`c` = committed) -/
def Core.settle (k : Core) (c : Bool) : Core :=
  if c then
    { k with good := k.cur ++ k.good, cur := [],
             goodOff := (match k.curOff with | some o => some o | none => k.goodOff), curOff := none }
  else
    { k with bad := k.cur ++ k.bad, cur := [], curOff := none }

/-- `complete_transaction` -/
def Sys.complete (s : Sys) (c : Bool) : Sys :=
  { s with toCore := { s.toCore.settle c with st := .ready, parts := [], grp := false } }

/-- `_do_txn_commit`: flush, then EndTxn unless the transaction is empty -/
def doEnd (s : Sys) (c : Bool) : Sys :=
  if s.parts = [] ∧ s.grp = false then (s.complete c).result .ok
  else
    match s.env.endTxn c with
    | none =>
      -- `INVALID_TXN_STATE`: fatal
      ({ s with cnt := s.cnt.bump .endTxn, reqs := .endTxn c .fatal :: s.reqs }).toFatal.result .fatal
    | some e' =>
      let (s1, v) := request s .endTxn (.endTxn c) (fun _ => e')
        (fun e => match e.endTxn c with | some e2 => e2 | none => e)
      match v with
      | .ok => (s1.complete c).result .ok
      | _ => s1.toFatal.result .fatal

def doRestart (s : Sys) : Sys :=
  ({ s with toCore := { s.toCore.settle false with st := .ready, parts := [], grp := false,
                                                    env := s.env.init },
             reqs := .init :: s.reqs, burnt := [] }).result .ok

/-- the call is out of order: it raises, nothing else happens -/
def Sys.refuse (s : Sys) : Sys := s.result (if s.st = .fatal then .dead else .refused)

def step (s : Sys) : Call → Sys
  | .begin => if s.st = .ready then { s with st := .inTxn }.result .ok else s.refuse
  | .send p => if s.st = .inTxn then doSend s p else s.refuse
  | .sendOffsets => if s.st = .inTxn then doSendOffsets s else s.refuse
  | .commit =>
    if s.st = .inTxn then doEnd s true
    else if s.st = .abortable then s.result .abrt
    else s.refuse
  | .abort => if s.st = .inTxn ∨ s.st = .abortable then doEnd s false else s.refuse
  | .exitOk =>
    if s.st = .inTxn then doEnd s true
    else if s.st = .abortable then s.result .abrt
    else s.refuse
  | .exitExc =>
    if s.st = .fatal then s.result .ok
    else if s.st = .inTxn ∨ s.st = .abortable then doEnd s false else s.refuse
  | .restart => doRestart s

def run (s : Sys) (cs : List Call) : Sys := cs.foldl step s

/-! ## the protocol order, stated on the request log (what the brokers see) -/

structure OState where
  reg : List Nat := []        -- partitions whose AddPartitionsToTxn was acknowledged in the open transaction
  grp : Bool := false         -- AddOffsetsToTxn acknowledged in the open transaction
  unacked : List Nat := []    -- records whose latest Produce has not been answered finally
  ending : Bool := false      -- an EndTxn was sent and not yet acknowledged
deriving DecidableEq, Repr, Inhabited

/-- the request was answered finally (no retry follows) -/
def Code.final : Code → Bool
  | .ok | .abrt | .fatal => true
  | .retr | .lost => false

/-- one request, oldest first; `none` = the protocol order is violated -/
def ordStep (o : OState) : Req → Option OState
  | .addParts p c =>
    if o.ending then none       -- nothing is added while the transaction is being ended
    else some (if c = .ok ∧ p ∉ o.reg then { o with reg := o.reg ++ [p] } else o)
  | .addOffs c =>
    if o.ending then none else some (if c = .ok then { o with grp := true } else o)
  | .offsCommit _ _ =>
    -- TxnOffsetCommit only after AddOffsetsToTxn was acknowledged
    if o.grp ∧ ¬ o.ending then some o else none
  | .produce p r c =>
    -- produce only to an acknowledged partition of an open transaction
    if p ∈ o.reg ∧ ¬ o.ending then
      some { o with unacked := if c.final then o.unacked.filter (· ≠ r)
                               else if r ∈ o.unacked then o.unacked else r :: o.unacked }
    else none
  | .endTxn _ c =>
    -- EndTxn only when every batch of the transaction has been answered
    if o.unacked = [] then
      some (if c = .ok then {} else { o with ending := true })
    else none
  | .init => some {}

/-- the request log `reqs` is newest first -/
def chk : List Req → Option OState
  | [] => some {}
  | r :: older => (chk older).bind (fun o => ordStep o r)

/-- the three protocol-order clauses of C07 on a request log (newest first) -/
def orderOk (reqs : List Req) : Bool := (chk reqs).isSome

/-- a fresh producer (after `start()`) on a fresh cluster, with the given fault schedule -/
def init (f : Option Fault) : Sys := { fault := f }

end AkVerif.Txn
