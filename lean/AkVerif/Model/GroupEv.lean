/-!
Event vocabulary of the consumer-group acceptors (C04 `Model/Commit.lean`, C05 `Model/Member.lean`),
DESIGN.md Appendix B narrowed to what the two properties constrain.

One recorded history (harness hooks on the real `AIOKafkaConsumer` members + the simulated
coordinator's trace, merged in program order) is validated against both acceptors; each ignores the
events it does not constrain.

Numbering: members are client *incarnations* `m` (a restarted member is a new `m`), partitions are
`p = 64 * topic + partition`, generations and offsets are naturals.
-/
namespace AkVerif.Group

/-- where a start position came from -/
inductive Src where
  | committed     -- OffsetFetch reply: the offset stored by the coordinator
  | reset         -- ListOffsets reply after "no committed offset" (auto_offset_reset)
deriving DecidableEq, Repr, Inhabited

inductive Ev where
  /-- the member's subscription changed (`subscribe()` by the user, or a pattern match change
      observed through `subscription()`): the old assignment is dead -/
  | sub (m : Nat)
  /-- the topics of the member's current subscription (observed together with `sub`) -/
  | subT (m : Nat) (topics : List Nat)
  /-- `on_partitions_revoked` starts / returns -/
  | revS (m : Nat)
  | revE (m : Nat)
  /-- `on_partitions_assigned(tps)` starts (for generation `g`) / returns -/
  | asgS (m g : Nat) (tps : List Nat)
  | asgE (m : Nat)
  /-- value of `assignment()` -/
  | snap (m : Nat) (tps : List Nat)
  /-- a JoinGroup request of `m` advertising `topics` reached the coordinator;
      `parked` = the coordinator registered it (join barrier) -/
  | joinS (m : Nat) (topics : List Nat) (parked : Bool)
  /-- the coordinator answered a registered JoinGroup of `m` (`g` = generation when successful and
      delivered, `none` = error, lost or undeliverable) -/
  | joinR (m : Nat) (g : Option Nat)
  /-- the coordinator completed the join barrier: generation `g` with these members and the
      topics each advertised -/
  | genStart (g : Nat) (members : List (Nat × List Nat))
  /-- the leader's SyncGroup for generation `g` was accepted: the distributed assignment -/
  | distribute (g : Nat) (a : List (Nat × List Nat))
  /-- a successful SyncGroup reply was delivered to `m` -/
  | syncR (m g : Nat) (tps : List Nat)
  /-- Fetch request of `m` for partition `p` at offset `f` reached a broker / was answered with
      data whose last offset is `hi` -/
  | fS (m p f : Nat)
  | fR (m p f hi : Nat)
  /-- `m` was told where to start `p` -/
  | offer (m p v : Nat) (src : Src)
  /-- the coordinator answered `m`'s OffsetFetch for `p`: no committed offset -/
  | noOffset (m p : Nat)
  /-- record `(p, o)` returned to the application by `getone` / `getmany` -/
  | deliver (m p o : Nat)
  /-- an OffsetCommit entry `(p, c)` sent by `m` reached the coordinator; `ok` = stored -/
  | commit (m p c : Nat) (ok : Bool)
  /-- `m` was killed (no leave, no commit) or stopped -/
  | gone (m : Nat)
  /-- a LeaveGroup reply was delivered to the live member `m` (it left the group on its own: the
      application did not poll for `max_poll_interval_ms`) -/
  | leaveR (m : Nat)
  /-- the coordinator expired the session of `m` (under the member id `m` currently uses, with an
      undisturbed heartbeat channel: no fault aimed at `m`, no coordinator failover) -/
  | expire (m : Nat)
deriving DecidableEq, Repr, Inhabited

def topicOf (p : Nat) : Nat := p / 64

/-- association-list lookup with the empty list as default (a member the leader gave nothing) -/
def lookupD (a : List (Nat × List Nat)) (m : Nat) : List Nat :=
  match a with
  | [] => []
  | (k, v) :: r => if k = m then v else lookupD r m

def lookup? (a : List (Nat × List Nat)) (m : Nat) : Option (List Nat) :=
  match a with
  | [] => none
  | (k, v) :: r => if k = m then some v else lookup? r m

/-- Boolean duplicate-freeness -/
def nodupB : List Nat → Bool
  | [] => true
  | x :: r => !r.contains x && nodupB r

/-- run an acceptor `step` over a history; `none` = some event was rejected -/
def runWith {σ : Type} (step : σ → Ev → Option σ) (s : σ) : List Ev → Option σ
  | [] => some s
  | e :: r => match step s e with
    | some s' => runWith step s' r
    | none => none

/-- index of the first rejected event (`none` = accepted) — for the driver -/
def firstRejectWith {σ : Type} (step : σ → Ev → Option σ) (s : σ) : List Ev → Nat → Option (Nat × σ)
  | [], _ => none
  | e :: r, i => match step s e with
    | some s' => firstRejectWith step s' r (i + 1)
    | none => some (i, s)

end AkVerif.Group
