import AkVerif.Model.Wire
/-!
The Kafka record layouts as the message-format definition gives them (field, width in bytes,
signed), from which every offset / size / struct format string the implementations hard-code is
*computed*.  `Gen/Layouts.lean` (regenerated from the source on every run) is compared with these
tables by `decide` in `Props/C09.lean`.
-/
namespace AkVerif.Layout

/-- RecordBatch header, magic 2 -/
def v2Fields : List (String × Nat × Bool) := [
  ("BaseOffset", 8, true), ("Length", 4, true), ("PartitionLeaderEpoch", 4, true), ("Magic", 1, true),
  ("CRC", 4, false), ("Attributes", 2, true), ("LastOffsetDelta", 4, true), ("FirstTimestamp", 8, true),
  ("MaxTimestamp", 8, true), ("ProducerId", 8, true), ("ProducerEpoch", 2, true), ("BaseSequence", 4, true),
  ("RecordCount", 4, true)]

/-- MessageSet entry + Message header, magic 0 -/
def v0Fields : List (String × Nat × Bool) := [
  ("Offset", 8, true), ("MessageSize", 4, true), ("CRC", 4, false), ("Magic", 1, true), ("Attributes", 1, true)]

/-- … magic 1 adds the timestamp -/
def v1Fields : List (String × Nat × Bool) := v0Fields ++ [("Timestamp", 8, true)]

def structChar : Nat × Bool → Char
  | (8, true) => 'q' | (8, false) => 'Q'
  | (4, true) => 'i' | (4, false) => 'I'
  | (2, true) => 'h' | (2, false) => 'H'
  | (1, true) => 'b' | (1, false) => 'B'
  | _ => '?'

/-- the `struct` format string of a field list, big-endian -/
def formatOf (fs : List (String × Nat × Bool)) : String := String.ofList ('>' :: fs.map fun f => structChar f.2)

def sizeOf (fs : List (String × Nat × Bool)) : Nat := (fs.map fun f => f.2.1).foldl (· + ·) 0

/-- byte offset of a field -/
def offsetOf : List (String × Nat × Bool) → String → Nat
  | [], _ => 0
  | f :: fs, name => if f.1 == name then 0 else f.2.1 + offsetOf fs name

/-- bytes length (int32) prefix of a legacy key / value -/
def bytesLen : Nat := 4

/-- attribute bits: codec 0-2, timestamp type 3, transactional 4, control 5 -/
def codecMask : Nat := 0x07
def timestampTypeMask : Nat := 0x08
def transactionalMask : Nat := 0x10
def controlMask : Nat := 0x20

/-- a natural number as an integer table entry -/
def I (x : Nat) : Int := x

/-- what `default_records.py`, `legacy_records.py`, `memory_records.py` must define -/
def expectedPy : List (String × Int) := [
  ("v2.HEADER_STRUCT.size", I (sizeOf v2Fields)),
  ("v2.ATTRIBUTES_OFFSET", I (offsetOf v2Fields "Attributes")),
  ("v2.CRC_OFFSET", I (offsetOf v2Fields "CRC")),
  ("v2.AFTER_LEN_OFFSET", I (offsetOf v2Fields "PartitionLeaderEpoch")),
  ("v2.CODEC_MASK", I (codecMask)), ("v2.CODEC_NONE", I (0)), ("v2.CODEC_GZIP", I (1)), ("v2.CODEC_SNAPPY", I (2)),
  ("v2.CODEC_LZ4", I (3)), ("v2.CODEC_ZSTD", I (4)),
  ("v2.TIMESTAMP_TYPE_MASK", I (timestampTypeMask)), ("v2.TRANSACTIONAL_MASK", I (transactionalMask)),
  ("v2.CONTROL_MASK", I (controlMask)), ("v2.NO_PARTITION_LEADER_EPOCH", (-1 : Int)),
  ("v2.MAX_RECORD_OVERHEAD", I (5 + 10 + 5 + 1)),
  ("legacy.HEADER_STRUCT_V0.size", I (sizeOf v0Fields)),
  ("legacy.HEADER_STRUCT_V1.size", I (sizeOf v1Fields)),
  ("legacy.LOG_OVERHEAD", I (offsetOf v0Fields "CRC")), ("legacy.CRC_OFFSET", I (offsetOf v0Fields "CRC")),
  ("legacy.MAGIC_OFFSET", I (offsetOf v0Fields "Magic")),
  ("legacy.RECORD_OVERHEAD_V0", I (sizeOf v0Fields - offsetOf v0Fields "CRC" + 2 * bytesLen)),
  ("legacy.RECORD_OVERHEAD_V1", I (sizeOf v1Fields - offsetOf v1Fields "CRC" + 2 * bytesLen)),
  ("legacy.KEY_OFFSET_V0", I (sizeOf v0Fields)), ("legacy.KEY_OFFSET_V1", I (sizeOf v1Fields)),
  ("legacy.KEY_LENGTH", I (bytesLen)), ("legacy.VALUE_LENGTH", I (bytesLen)),
  ("legacy.CODEC_MASK", I (codecMask)), ("legacy.CODEC_GZIP", I (1)), ("legacy.CODEC_SNAPPY", I (2)), ("legacy.CODEC_LZ4", I (3)),
  ("legacy.TIMESTAMP_TYPE_MASK", I (timestampTypeMask)),
  ("memory.LENGTH_OFFSET", I (offsetOf v2Fields "Length")), ("memory.LOG_OVERHEAD", I (offsetOf v2Fields "PartitionLeaderEpoch")),
  ("memory.MAGIC_OFFSET", I (offsetOf v2Fields "Magic")),
  ("memory.MIN_SLICE", I (sizeOf v0Fields + 2 * bytesLen))]

def expectedFormats : List (String × String) := [
  ("v2.HEADER_STRUCT", formatOf v2Fields),
  ("legacy.HEADER_STRUCT_V0", formatOf v0Fields),
  ("legacy.HEADER_STRUCT_V1", formatOf v1Fields)]

/-- what consts.pxi and the `DEF`s of the three .pyx files must evaluate to -/
def expectedCy : List (String × Int) := [
  ("consts._ATTR_CODEC_MASK", I (codecMask)), ("consts._ATTR_CODEC_NONE", I (0)), ("consts._ATTR_CODEC_GZIP", I (1)),
  ("consts._ATTR_CODEC_SNAPPY", I (2)), ("consts._ATTR_CODEC_LZ4", I (3)), ("consts._ATTR_CODEC_ZSTD", I (4)),
  ("consts._TIMESTAMP_TYPE_MASK", I (timestampTypeMask)), ("consts._TRANSACTIONAL_MASK", I (transactionalMask)),
  ("consts._CONTROL_MASK", I (controlMask)),
  ("default_records.BASE_OFFSET_OFFSET", I (offsetOf v2Fields "BaseOffset")),
  ("default_records.LENGTH_OFFSET", I (offsetOf v2Fields "Length")),
  ("default_records.PARTITION_LEADER_EPOCH_OFFSET", I (offsetOf v2Fields "PartitionLeaderEpoch")),
  ("default_records.MAGIC_OFFSET", I (offsetOf v2Fields "Magic")),
  ("default_records.CRC_OFFSET", I (offsetOf v2Fields "CRC")),
  ("default_records.ATTRIBUTES_OFFSET", I (offsetOf v2Fields "Attributes")),
  ("default_records.LAST_OFFSET_DELTA_OFFSET", I (offsetOf v2Fields "LastOffsetDelta")),
  ("default_records.FIRST_TIMESTAMP_OFFSET", I (offsetOf v2Fields "FirstTimestamp")),
  ("default_records.MAX_TIMESTAMP_OFFSET", I (offsetOf v2Fields "MaxTimestamp")),
  ("default_records.PRODUCER_ID_OFFSET", I (offsetOf v2Fields "ProducerId")),
  ("default_records.PRODUCER_EPOCH_OFFSET", I (offsetOf v2Fields "ProducerEpoch")),
  ("default_records.BASE_SEQUENCE_OFFSET", I (offsetOf v2Fields "BaseSequence")),
  ("default_records.RECORD_COUNT_OFFSET", I (offsetOf v2Fields "RecordCount")),
  ("default_records.FIRST_RECORD_OFFSET", I (sizeOf v2Fields)),
  ("default_records.MAX_RECORD_OVERHEAD", I (5 + 10 + 5 + 1)),
  ("default_records.NO_PARTITION_LEADER_EPOCH", (-1 : Int)),
  ("legacy_records.RECORD_OVERHEAD_V0_DEF", I (sizeOf v0Fields - offsetOf v0Fields "CRC" + 2 * bytesLen)),
  ("legacy_records.RECORD_OVERHEAD_V1_DEF", I (sizeOf v1Fields - offsetOf v1Fields "CRC" + 2 * bytesLen)),
  ("legacy_records.KEY_OFFSET_V0", I (sizeOf v0Fields)), ("legacy_records.KEY_OFFSET_V1", I (sizeOf v1Fields)),
  ("legacy_records.LOG_OVERHEAD", I (offsetOf v0Fields "CRC")),
  ("legacy_records.KEY_LENGTH", I (bytesLen)), ("legacy_records.VALUE_LENGTH", I (bytesLen)),
  ("legacy_records.LENGTH_OFFSET", I (offsetOf v0Fields "MessageSize")),
  ("legacy_records.CRC_OFFSET", I (offsetOf v0Fields "CRC")),
  ("legacy_records.MAGIC_OFFSET", I (offsetOf v0Fields "Magic")),
  ("legacy_records.ATTRIBUTES_OFFSET", I (offsetOf v0Fields "Attributes")),
  ("legacy_records.TIMESTAMP_OFFSET", I (offsetOf v1Fields "Timestamp")),
  ("memory_records.LENGTH_OFFSET", I (offsetOf v2Fields "Length")),
  ("memory_records.LOG_OVERHEAD", I (offsetOf v2Fields "PartitionLeaderEpoch")),
  ("memory_records.MAGIC_OFFSET", I (offsetOf v2Fields "Magic")),
  ("memory_records.RECORD_OVERHEAD_V0", I (sizeOf v0Fields - offsetOf v0Fields "CRC" + 2 * bytesLen))]

end AkVerif.Layout
