import AkVerif.Model.V2
/-!
Kafka message formats v0 and v1 (magic 0 / 1) — C09.

* **SPEC**: `encMsg` (Offset Length CRC Magic Attributes [Timestamp] Key Value; CRC-32 over the bytes
  from Magic on), `specSet` (a message set is the concatenation of its messages), `specWrapper` (a
  compressed message set is one wrapper message whose value is the compressed inner set; for
  magic 1 the inner offsets are relative and the wrapper carries the offset of the last inner
  message; under LogAppendTime the wrapper's timestamp overrides the inner ones), `specReadBatch`.
* **builder as implemented** (`legacy_records.py:_LegacyRecordBatchBuilderPy` and the Cython
  `LegacyRecordBatchBuilder` compute the same thing step by step: `_size_in_bytes`, the
  `offset != 0 and pos + size >= batch_size` test, `_encode_msg`, `_maybe_compress`): `lAppend`,
  `lBuild`.
* **readers as implemented**: `implReadBatch byLength` — `byLength = true` is the pure-Python
  reader (walks the decompressed set by `pos += LOG_OVERHEAD + length`, then reads key and value at
  fixed offsets), `false` the Cython one (parses message after message, the next one starts where
  the value ended).  Both apply `absolute_base_offset = wrapper.offset - last_inner.offset`, added
  only when `>= 0` (as Kafka's `AbstractLegacyRecordBatch` does).

`none` = the call raises or the input is outside the valid format (C10 models hostile bytes).
Timestamp `-1` of a v1 message ("no timestamp") is outside the property's quantifier
(non-negative timestamps): the Cython reader reports it as `None`, the Python one as `-1`.
-/
namespace AkVerif.Legacy
open AkVerif.Wire AkVerif.Crc AkVerif.V2

/-- what the builder is given per record -/
structure In where
  offset : Int
  ts : Int
  key : Option Bytes
  value : Option Bytes
deriving DecidableEq, Repr, Inhabited

/-- what a reader yields per record -/
structure Out where
  offset : Int
  ts : Option Int         -- `None` for magic 0
  tsType : Option Nat     -- `None` for magic 0, else 0 CreateTime / 1 LogAppendTime
  key : Option Bytes
  value : Option Bytes
  crc : Int
deriving DecidableEq, Repr, Inhabited

/-! ## format definition -/

def encLBytes : Option Bytes → Bytes
  | none => be 4 (-1)
  | some b => be 4 b.length ++ b

/-- Magic Attributes [Timestamp] Key Value -/
def msgBody (magic attrs : Nat) (ts : Int) (key value : Option Bytes) : Bytes :=
  be 1 magic ++ (be 1 attrs ++ ((if magic = 0 then [] else be 8 ts) ++ (encLBytes key ++ encLBytes value)))

/-- Offset MessageSize CRC body -/
def encMsg (magic attrs : Nat) (offset ts : Int) (key value : Option Bytes) : Bytes :=
  be 8 offset ++ (be 4 ((msgBody magic attrs ts key value).length + 4) ++
    (be 4 (crc32 (msgBody magic attrs ts key value)) ++ msgBody magic attrs ts key value))

def specSet (magic attrs : Nat) : List In → Bytes
  | [] => []
  | r :: rs => encMsg magic attrs r.offset r.ts r.key r.value ++ specSet magic attrs rs

/-- wrapper attributes: codec in bits 0-2, timestamp type in bit 3 -/
def wrapperAttrs (codec : Nat) (logAppend : Bool) : Nat := codec + (if logAppend then 8 else 0)

def specWrapper (C : Codec) (magic codec : Nat) (logAppend : Bool) (wOffset wTs : Int)
    (inner : List In) : Bytes :=
  encMsg magic (wrapperAttrs codec logAppend) wOffset wTs none
    (some (C.compress codec (specSet magic 0 inner)))

structure Msg where
  offset : Int
  length : Int
  crc : Int
  magic : Int
  attrs : Int
  ts : Int                -- `-1` when the format has none (magic 0)
  key : Option Bytes
  value : Option Bytes
deriving DecidableEq, Repr, Inhabited

def decLBytes (bs : Bytes) : Option (Option Bytes × Bytes) :=
  match decInt 4 bs with
  | none => none
  | some (n, r) =>
    if n = -1 then some (none, r)
    else if n < 0 then none
    else if n.toNat ≤ r.length then some (some (r.take n.toNat), r.drop n.toNat)
    else none

/-- Magic Attributes [Timestamp] Key Value, consumed exactly -/
def decBody (bs : Bytes) : Option (Int × Int × Int × Option Bytes × Option Bytes) :=
  match decInt 1 bs with
  | none => none
  | some (magic, r) =>
  match decInt 1 r with
  | none => none
  | some (attrs, r) =>
  match (if magic = 0 then some (-1, r) else decInt 8 r) with
  | none => none
  | some (ts, r) =>
  match decLBytes r with
  | none => none
  | some (key, r) =>
  match decLBytes r with
  | some (value, []) => some (magic, attrs, ts, key, value)
  | _ => none

/-- MessageSize frames the message -/
def decMsg (bs : Bytes) : Option (Msg × Bytes) :=
  match decInt 8 bs with
  | none => none
  | some (offset, r) =>
  match decInt 4 r with
  | none => none
  | some (length, r) =>
    if length < 4 then none
    else if length.toNat ≤ r.length then
      match decUInt 4 (r.take length.toNat) with
      | none => none
      | some (crc, body) =>
        match decBody body with
        | none => none
        | some (magic, attrs, ts, key, value) =>
          some ({ offset, length, crc, magic, attrs, ts, key, value }, r.drop length.toNat)
    else none

/-- a whole message set; fuel = number of bytes (every message has at least 12) -/
def decSet : Nat → Bytes → Option (List Msg)
  | 0, bs => if bs = [] then some [] else none
  | fuel + 1, bs =>
    if bs = [] then some []
    else
      match decMsg bs with
      | none => none
      | some (m, r) =>
        match decSet fuel r with
        | none => none
        | some ms => some (m :: ms)

def lastOffset : List Msg → Option Int
  | [] => none
  | [m] => some m.offset
  | _ :: ms => lastOffset ms

def outOf (magic : Nat) (tsType : Nat) (offset : Int) (ts : Int) (m : Msg) : Out :=
  { offset, ts := if magic = 0 then none else some ts,
    tsType := if magic = 0 then none else some tsType,
    key := m.key, value := m.value, crc := m.crc }

/-- attributes: compression codec in bits 0-2 -/
def specCodec (attrs : Int) : Nat := (attrs % 8).toNat
/-- attributes: timestamp type in bit 3 (0 CreateTime, 1 LogAppendTime) -/
def specTsType (attrs : Int) : Nat := if attrs / 8 % 2 = 1 then 1 else 0

/-- the records of one (possibly compressed) message, read as a batch of format `magic` -/
def specReadBatch (C : Codec) (magic : Nat) (bs : Bytes) : Option (List Out) :=
  match decMsg bs with
  | some (w, []) =>
    if w.magic ≠ magic then none else
    let codec := specCodec w.attrs
    let tsType : Nat := specTsType w.attrs
    if codec = 0 then some [outOf magic tsType w.offset w.ts w]
    else
      match w.value with
      | none => none
      | some z =>
        match C.decompress codec z with
        | none => none
        | some data =>
          match decSet data.length data with
          | none => none
          | some inner =>
            match lastOffset inner with
            | none => none
            | some last =>
              let base : Int := if magic = 0 then -1 else w.offset - last
              some (inner.map fun m =>
                outOf magic tsType (if base ≥ 0 then m.offset + base else m.offset)
                  (if tsType = 1 then w.ts else m.ts) m)
  | _ => none

/-- `validate_crc`: stored CRC = CRC-32 of the bytes from the magic byte on -/
def validateCrc (bs : Bytes) : Option Bool :=
  match decInt 8 bs with
  | none => none
  | some (_, r) =>
  match decInt 4 r with
  | none => none
  | some (_, r) =>
  match decUInt 4 r with
  | none => none
  | some (crc, body) => some (crc = crc32 body)

/-! ## builder as implemented -/

structure LCfg where
  magic : Nat := 1
  codec : Nat := 0
  batchSize : Int := 16384
deriving Repr, Inhabited

/-- `LegacyRecordMetadata(offset, crc, size, timestamp)` -/
structure LMeta where
  offset : Int
  crc : Int
  size : Nat
  ts : Int
deriving DecidableEq, Repr, Inhabited

def optLen : Option Bytes → Nat
  | none => 0
  | some b => b.length

/-- `_size_in_bytes`: LOG_OVERHEAD + RECORD_OVERHEAD[magic] + key_size + value_size -/
def sizeInBytes (magic : Nat) (key value : Option Bytes) : Nat :=
  12 + (if magic = 0 then 14 else 22) + optLen key + optLen value

/-- `"i" f"{size:d}s"` with `size if x is not None else -1, x or b""` -/
def packLBytes : Option Bytes → Bytes
  | none => be 4 (-1)
  | some b => be 4 b.length ++ b

/-- `_encode_msg`: the length field is computed from the sizes, the CRC over `buf[16:]` -/
def encodeMsg (magic attrs : Nat) (offset ts : Int) (key value : Option Bytes) : Bytes × Int :=
  let length : Int := (4 + optLen key + 4 + optLen value : Nat) - 12 + (if magic = 0 then 18 else 26)
  let fromMagic := be 1 magic ++ (be 1 attrs ++ ((if magic = 0 then [] else be 8 ts) ++
    (packLBytes key ++ packLBytes value)))
  (be 8 offset ++ (be 4 length ++ (be 4 (crc32 fromMagic) ++ fromMagic)), crc32 fromMagic)

/-- `append(offset, timestamp, key, value)` on the buffer built so far -/
def lAppend (c : LCfg) (buf : Bytes) (r : In) : Option LMeta × Bytes :=
  let ts : Int := if c.magic = 0 then -1 else r.ts
  let size := sizeInBytes c.magic r.key r.value
  if r.offset ≠ 0 ∧ ((buf.length + size : Nat) : Int) ≥ c.batchSize then (none, buf)
  else
    let (msg, crc) := encodeMsg c.magic 0 r.offset ts r.key r.value
    (some ⟨r.offset, crc, size, ts⟩, buf ++ msg)

/-- `build()`: with a codec the whole buffer becomes the value of one wrapper message
    (offset 0, timestamp 0, no key) -/
def lBuild (C : Codec) (c : LCfg) (buf : Bytes) : Bytes :=
  if c.codec ≠ 0 then (encodeMsg c.magic c.codec 0 0 none (some (C.compress c.codec buf))).1 else buf

def lRun (c : LCfg) : Bytes → List In → List (Option LMeta) × Bytes
  | buf, [] => ([], buf)
  | buf, r :: rs =>
    let (m, b1) := lAppend c buf r
    let (ms, b2) := lRun c b1 rs
    (m :: ms, b2)

def lAccepted (c : LCfg) : Bytes → List In → List In
  | _, [] => []
  | buf, r :: rs =>
    match lAppend c buf r with
    | (none, b1) => lAccepted c b1 rs
    | (some _, b1) => r :: lAccepted c b1 rs

/-! ## readers as implemented -/

/-- the fields after MessageSize, front to back: CRC Magic Attributes [Timestamp] Key Value; returns
    them and what follows the value.  Python decides whether a timestamp is present by the magic
    the batch was constructed with, Cython by the magic byte just read. -/
def implFields (magic : Nat) (byLength : Bool) (r4 : Bytes) :
    Option ((Int × Int × Int × Int × Option Bytes × Option Bytes) × Bytes) :=
  match decUInt 4 r4 with
  | none => none
  | some (crc, r) =>
  match decInt 1 r with
  | none => none
  | some (m, r) =>
  match decInt 1 r with
  | none => none
  | some (attrs, r) =>
  match (if (if byLength then magic = 0 else m ≠ 1) then some (-1, r) else decInt 8 r) with
  | none => none
  | some (ts, r) =>
  match decLBytes r with
  | none => none
  | some (key, r) =>
  match decLBytes r with
  | none => none
  | some (value, r) => some ((crc, m, attrs, ts, key, value), r)

/-- `_read_record` / `_read_header` + `_read_key_value`: one message; the next one starts
    `12 + length` bytes after this one began (Python) or right after the value (Cython) -/
def implMsg (magic : Nat) (byLength : Bool) (bs : Bytes) : Option (Msg × Bytes) :=
  match decInt 8 bs with
  | none => none
  | some (offset, r) =>
  match decInt 4 r with
  | none => none
  | some (length, r4) =>
  match implFields magic byLength r4 with
  | none => none
  | some ((crc, m, attrs, ts, key, value), r) =>
    if byLength then
      if length < 0 ∨ r4.length < length.toNat then none
      else some ({ offset, length, crc, magic := m, attrs, ts, key, value }, r4.drop length.toNat)
    else some ({ offset, length, crc, magic := m, attrs, ts, key, value }, r)

def implSet (magic : Nat) (byLength : Bool) : Nat → Bytes → Option (List Msg)
  | 0, bs => if bs = [] then some [] else none
  | fuel + 1, bs =>
    if bs = [] then some []
    else
      match implMsg magic byLength bs with
      | none => none
      | some (m, r) =>
        match implSet magic byLength fuel r with
        | none => none
        | some ms => some (m :: ms)

/-- `attributes & CODEC_MASK` on the signed attribute byte -/
def implCodec (attrs : Int) : Nat := (attrs % 256).toNat &&& 0x07
/-- `attributes & TIMESTAMP_TYPE_MASK` -/
def implTsType (attrs : Int) : Nat := if (attrs % 256).toNat &&& 0x08 ≠ 0 then 1 else 0

/-- `LegacyRecordBatch(buffer, magic)` iterated to the end -/
def implReadBatch (byLength : Bool) (C : Codec) (magic : Nat) (bs : Bytes) : Option (List Out) :=
  match implMsg magic byLength bs with
  | none => none
  | some (w, _) =>
    let codec := implCodec w.attrs
    let tsType : Nat := implTsType w.attrs
    if codec = 0 then some [outOf magic tsType w.offset w.ts w]
    else
      match w.value with
      | none => none
      | some z =>
        match C.decompress codec z with
        | none => none
        | some data =>
          match implSet magic byLength data.length data with
          | none => none
          | some inner =>
            match lastOffset inner with
            | none => none
            | some last =>
              let base : Int := if magic > 0 then w.offset - last else -1
              some (inner.map fun m =>
                outOf magic tsType (if base ≥ 0 then m.offset + base else m.offset)
                  (if tsType = 1 then w.ts else m.ts) m)

def pyReadBatch := implReadBatch true
def cyReadBatch := implReadBatch false

end AkVerif.Legacy
