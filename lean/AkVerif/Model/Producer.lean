import AkVerif.Model.Done
/-!
Acceptor for the produce path of `AIOKafkaProducer`, one partition at a time (C01, C02).

The observable history of one partition (events of the other partitions projected away) is fed to
`step`.  Its guards are the mechanisms the code relies on, phrased on observables:

* R1  no produce request for the partition is issued while an earlier one is unresolved
      (`Sender._muted_partitions`);
* R2  a first transmission carries the next contiguous run of accepted, never-sent records
      (`MessageAccumulator._batches[tp]` is a FIFO, `add_message` appends to its tail);
* R3/R4  after a retriable failure the very same batch (records, pid, epoch, base sequence) is the
      next thing sent (`reenqueue` = `appendleft`; producer state stamped only when
      `retry_count == 0`);
* R5  base sequences follow `increment_sequence_number`;
* R6  a batch is failed to the caller only by a non-retriable reply, or given up while it waits
      to be retried / before its first transmission (the expiry paths of `_can_retry` and
      `drain_by_nodes`);
* every future gets exactly the result that `handle_response` + `MessageBatch.done` compute from
  the reply, once; `flush()` / `stop()` return only when every record accepted before the call is
  resolved.

A transactional producer is an idempotent producer here (same producer id / epoch / sequence
numbers across its transactions); AddPartitionsToTxn / EndTxn are environment, their only trace in a
partition history is `Ev.marker`: the coordinator's COMMIT / ABORT marker takes one offset of the log.

The broker side (`Broker`) is Kafka's idempotent append (DESIGN.md Appendix F); the simulator's
decisions are re-derived here and a disagreement is a harness error (`Rej.env`), never a finding.
-/
namespace AkVerif.Producer
open AkVerif.Done

/-- 2^31 -/
def M31 : Int := 2147483648

/-- Kafka's rule (`DefaultRecordBatch.incrementSequence`): values in `0 .. 2^31-1`, wrap to 0 -/
def incrFix (c : Int) (n : Nat) : Int := (c + n) % M31

/-- `TransactionManager.increment_sequence_number` as the code has it: a 32-bit signed wrap -/
def incrAsIs (c : Int) (n : Nat) : Int :=
  if c + n > M31 - 1 then c + n - 2 * M31 else c + n

def incr (fix : Bool) (c : Int) (n : Nat) : Int := if fix then incrFix c n else incrAsIs c n

structure Cfg where
  idem : Bool              -- enable_idempotence
  acks0 : Bool             -- acks = 0
  wrapFix : Bool           -- which `increment_sequence_number` the code has (decided by T-diff)
  pid : Int
  epoch : Int
  seq0 : Int               -- the partition's sequence counter at the start of the run
  version : Nat            -- ProduceResponse version in use
deriving Repr, DecidableEq, Inhabited

/-- an accepted record: `id` = its rank in the partition's acceptance order -/
structure Rec where
  id : Nat
  task : Nat
  idx : Nat                -- rank among the sends of its task
  uts : Int                -- the timestamp the caller gave
deriving Repr, DecidableEq, Inhabited

structure Batch where
  recs : List Rec
  seq : Int
deriving Repr, DecidableEq, Inhabited

def Batch.ids (b : Batch) : List Nat := b.recs.map (·.id)

/-! ## Env: the partition log with Kafka's idempotent append -/

structure LogRec where
  id : Nat
  ts : Int
  tt : Nat
deriving Repr, DecidableEq, Inhabited

structure BEntry where
  bs : Int                 -- base sequence
  ls : Int                 -- last sequence
  off : Nat                -- base offset
  ts : Int                 -- cached timestamp (-1 on a CreateTime topic)
  recs : List Rec          -- ghost: the records of that batch
deriving Repr, DecidableEq, Inhabited

structure Broker where
  log : List LogRec := []
  lastSeq : Option Int := none     -- `none`: no state for this producer id yet
  recent : List BEntry := []       -- the last five batches, oldest first
deriving Repr, DecidableEq, Inhabited

def seqNext (s : Int) : Int := if s = M31 - 1 then 0 else s + 1
def seqAdd (s : Int) (d : Nat) : Int := if s ≥ 0 then (s + d) % M31 else s + d

/-- the sequence number the broker accepts next -/
def Broker.expected (b : Broker) : Int :=
  match b.lastSeq with
  | none => 0
  | some l => if l < 0 then 0 else seqNext l

inductive Decision where
  | append (off : Nat)
  | dup (e : BEntry)
  | err (code : Int)
deriving Repr, DecidableEq, Inhabited

/-- the refusal of a batch that is neither cached nor next in sequence -/
def Broker.refuse (b : Broker) (last : Int) : Decision :=
  match b.recent.head? with
  | some o => if 0 ≤ last ∧ last < o.bs then .err 46 else .err 45
  | none => .err 45

def seqMatch (base last : Int) (e : BEntry) : Bool := e.bs == base && e.ls == last

/-- Kafka's check of an idempotent batch `(base, n)` (same producer id and epoch throughout) -/
def Broker.check (b : Broker) (base : Int) (n : Nat) : Decision :=
  match b.lastSeq with
  | none => if base = 0 then .append b.log.length else .err 45
  | some _ =>
    match b.recent.find? (seqMatch base (seqAdd base (n - 1))) with
    | some e => .dup e
    | none =>
      if base = b.expected then .append b.log.length else b.refuse (seqAdd base (n - 1))

/-- a transaction marker (control batch) written by the transaction coordinator: it occupies one
    offset of the partition log; `tt = 2` distinguishes it from data records (`tt` 0 / 1) -/
def markerRec : LogRec := { id := 0, ts := 0, tt := 2 }

/-- records as stored: the caller's timestamp on a CreateTime topic (`ats = -1`), else the
    append time -/
def storeRec (ats : Int) (r : Rec) : LogRec :=
  { id := r.id, ts := if ats = -1 then r.uts else ats, tt := tsType ats }

def stored (recs : List Rec) (ats : Int) : List LogRec := recs.map (storeRec ats)

def keep5 (l : List BEntry) : List BEntry := if l.length > 5 then l.drop 1 else l

def Broker.appendIdem (b : Broker) (bt : Batch) (ats : Int) : Broker :=
  { log := b.log ++ stored bt.recs ats,
    lastSeq := some (seqAdd bt.seq (bt.recs.length - 1)),
    recent := keep5 (b.recent ++ [{ bs := bt.seq, ls := seqAdd bt.seq (bt.recs.length - 1),
                                    off := b.log.length, ts := ats, recs := bt.recs }]) }

def Broker.appendPlain (b : Broker) (bt : Batch) (ats : Int) : Broker :=
  { b with log := b.log ++ stored bt.recs ats }

/-! ## the client side -/

/-- what the broker did with the request that is in flight -/
inductive Applied where
  | no
  | ok (off : Nat) (ts : Int)      -- appended (or recognised as a duplicate) at `off`; `ts` as replied
  | err (code : Int)
deriving Repr, DecidableEq, Inhabited

inductive Phase where
  | idle
  | flying (a : Applied)
  | retryWait
deriving Repr, DecidableEq, Inhabited

inductive Res where
  | ok (off ts : Int) (tt : Nat)
  | noMeta
  | fail
deriving Repr, DecidableEq, Inhabited

inductive Guard where
  | singleFlight | retryIdentical | freshPrefix | emptyBatch | stamp
  | noackWithAcks | dupSeqReply | resolveOnce | wrongResult | unexpectedFailure
  | flushEarly | sentWhileClosed
deriving Repr, DecidableEq, Inhabited

inductive EnvTrouble where
  | taskOrder | ghostApply | appliedTwice | brokerDecision | replyLayout | replyMismatch
  | replyWithoutApply | applyAcks0 | badWaitId | doneIdle | offsetNegative
deriving Repr, DecidableEq, Inhabited

inductive Rej where
  | client (g : Guard)
  | env (t : EnvTrouble)
deriving Repr, DecidableEq, Inhabited

structure St where
  nAcc : Nat := 0
  accepted : List Rec := []            -- acceptance order
  pending : List Rec := []             -- accepted, never sent
  cur : Option Batch := none           -- the batch that was handed to the sender and is not finished
  phase : Phase := .idle
  nextSeq : Int := 0
  br : Broker := {}
  due : List (Nat × Res) := []         -- results computed by the sender, not yet observed
  unres : List Nat := []               -- records whose future is pending
  resolved : List (Nat × Res) := []    -- ghost, newest first
  marks : List (Nat × Nat) := []       -- flush()/stop() calls: (call id, nAcc at the call)
  -- ghost
  blog : List (List Nat × Nat) := []   -- first transmissions (newest first) and how often each was appended
  drained : Nat := 0                   -- records that were given sequence numbers
  fatal : Nat := 0                     -- non-retriable replies
  gaveUp : Nat := 0                    -- batches failed without a non-retriable reply
  seqErrs : Nat := 0                   -- OUT_OF_ORDER / DUPLICATE_SEQUENCE decisions of the broker
deriving Repr, DecidableEq, Inhabited

def St.init (c : Cfg) : St :=
  { nextSeq := c.seq0,
    br := { lastSeq := if c.idem && c.seq0 != 0 then some (c.seq0 - 1) else none } }

inductive AKind where
  | append | dup | err (code : Int)
deriving Repr, DecidableEq, Inhabited

inductive Reply where
  | fields (fs : List Int)     -- the partition's entry of the ProduceResponse as received
  | exc                        -- `client.send` raised: connection lost, request timed out, node not ready
  | noack                      -- acks = 0: nothing is awaited
deriving Repr, DecidableEq, Inhabited

inductive Ev where
  | acc (task idx : Nat) (uts : Int)
  | send (pid epoch seq : Int) (ids : List Nat)
  | apply (seq : Int) (n : Nat) (k : AKind) (off : Int) (ats : Int)
  | done (r : Reply)
  | resolved (id : Nat) (r : Res)
  | waitCall (k : Nat)
  | waitRet (k : Nat)
  | marker (off : Int)     -- Env: the transaction coordinator appended a COMMIT / ABORT marker at `off`
deriving Repr, DecidableEq, Inhabited

abbrev R := Except Rej St

def onAcc (s : St) (t i : Nat) (u : Int) : R :=
  if s.accepted.all (fun a => a.task != t || a.idx < i) then
    let r : Rec := { id := s.nAcc, task := t, idx := i, uts := u }
    .ok { s with nAcc := s.nAcc + 1, accepted := s.accepted ++ [r], pending := s.pending ++ [r],
                 unres := s.unres ++ [r.id] }
  else .error (.env .taskOrder)

def stampOK (c : Cfg) (pid epoch : Int) : Bool :=
  if c.idem then pid == c.pid && epoch == c.epoch else pid == -1

def onSend (c : Cfg) (s : St) (pid epoch seq : Int) (ids : List Nat) : R :=
  match s.phase with
  | .flying _ => .error (.client .singleFlight)
  | .retryWait =>
    match s.cur with
    | some b =>
      if ids = b.ids ∧ seq = b.seq ∧ stampOK c pid epoch = true then .ok { s with phase := .flying .no }
      else .error (.client .retryIdentical)
    | none => .error (.client .retryIdentical)
  | .idle =>
    if ids = [] then .error (.client .emptyBatch)
    else if (s.pending.take ids.length).map (·.id) ≠ ids then .error (.client .freshPrefix)
    else if !(stampOK c pid epoch && (!c.idem || seq == s.nextSeq)) then .error (.client .stamp)
    else
      let k := ids.length
      .ok { s with pending := s.pending.drop k,
                   cur := some { recs := s.pending.take k, seq := seq },
                   phase := .flying .no,
                   nextSeq := if c.idem then incr c.wrapFix s.nextSeq k else s.nextSeq,
                   drained := s.drained + k,
                   blog := (ids, 0) :: s.blog }

def headCount : List (List Nat × Nat) → Nat
  | [] => 0
  | (_, k) :: _ => k

/-- one more append of the batch at the head of `blog` -/
def bump : List (List Nat × Nat) → List (List Nat × Nat)
  | [] => []
  | (b, k) :: r => (b, k + 1) :: r

def onApply (c : Cfg) (s : St) (seq : Int) (n : Nat) (k : AKind) (off ats : Int) : R :=
  if c.acks0 then .error (.env .applyAcks0) else
  match s.phase, s.cur with
  | .flying .no, some b =>
    if n ≠ b.recs.length ∨ (c.idem ∧ seq ≠ b.seq) then .error (.env .ghostApply)
    else if c.idem then
      match k with
      | .err code =>
        if code = 45 ∨ code = 46 then
          if s.br.check b.seq n = .err code then
            .ok { s with phase := .flying (.err code), seqErrs := s.seqErrs + 1 }
          else .error (.env .brokerDecision)
        else .ok { s with phase := .flying (.err code) }      -- injected / not-leader: not applied
      | .append =>
        match s.br.check b.seq n with
        | .append o =>
          if off = o then
            .ok { s with br := s.br.appendIdem b ats, phase := .flying (.ok o ats), blog := bump s.blog }
          else .error (.env .brokerDecision)
        | _ => .error (.env .brokerDecision)
      | .dup =>
        match s.br.check b.seq n with
        | .dup e =>
          if off ≠ e.off then .error (.env .brokerDecision)
          else if e.recs ≠ b.recs ∨ headCount s.blog = 0 then
            -- recognised as a duplicate of another batch: a sequence number was reused
            .error (.client .dupSeqReply)
          else .ok { s with phase := .flying (.ok e.off e.ts) }
        | _ => .error (.env .brokerDecision)
    else
      match k with
      | .append =>
        if off = s.br.log.length then
          .ok { s with br := s.br.appendPlain b ats, phase := .flying (.ok s.br.log.length ats),
                       blog := bump s.blog }
        else .error (.env .brokerDecision)
      | .dup => .error (.env .brokerDecision)
      | .err code => .ok { s with phase := .flying (.err code) }
  | .flying _, some _ => .error (.env .appliedTwice)
  | _, _ => .error (.env .ghostApply)

/-- the results `MessageBatch.done(off, ts, …)` gives the records of `b` -/
def doneDue (b : Batch) (off ts : Int) : List (Nat × Res) :=
  b.recs.zipIdx.map fun (r, i) => (r.id, .ok (off + i) (if ts = -1 then r.uts else ts) (tsType ts))

def failDue (ids : List Nat) : List (Nat × Res) := ids.map (·, .fail)

def onDone (c : Cfg) (s : St) (r : Reply) : R :=
  match s.phase, s.cur with
  | .flying a, some b =>
    match r with
    | .noack =>
      if c.acks0 then
        .ok { s with cur := none, phase := .idle, due := s.due ++ b.ids.map (·, .noMeta) }
      else .error (.client .noackWithAcks)
    | .exc => .ok { s with phase := .retryWait }
    | .fields fs =>
      if c.acks0 then .error (.env .replyMismatch) else
      match decodeInfo c.version fs with
      | none => .error (.env .replyLayout)
      | some info =>
        match a with
        | .no => .error (.env .replyWithoutApply)
        | .ok off ts =>
          if info.code ≠ 0 ∨ info.off ≠ off ∨ info.ts ≠ ts then
            .error (.env .replyMismatch)
          else
            .ok { s with cur := none, phase := .idle, due := s.due ++ doneDue b info.off info.ts }
        | .err code =>
          if info.code ≠ code ∨ code = 0 then .error (.env .replyMismatch)
          else if code = 46 then .error (.client .dupSeqReply)
          else if retriable code then .ok { s with phase := .retryWait }
          else
            .ok { s with cur := none, phase := .idle, due := s.due ++ failDue b.ids,
                         fatal := s.fatal + 1 }
  | _, _ => .error (.env .doneIdle)

def eraseDue (id : Nat) (r : Res) : List (Nat × Res) → Option (List (Nat × Res))
  | [] => none
  | x :: xs => if x = (id, r) then some xs else (eraseDue id r xs).map (x :: ·)

def onResolved (c : Cfg) (s : St) (id : Nat) (r : Res) : R :=
  if !s.unres.contains id then .error (.client .resolveOnce) else
  match eraseDue id r s.due with
  | some due' =>
    .ok { s with due := due', unres := s.unres.erase id, resolved := (id, r) :: s.resolved }
  | none =>
    if r ≠ .fail then .error (.client .wrongResult) else
    match s.phase, s.cur with
    | .retryWait, some b =>
      -- given up while waiting to be sent again (`_can_retry` / `drain_by_nodes` expiry)
      if b.ids.contains id then
        .ok { s with cur := none, phase := .idle, due := s.due ++ failDue (b.ids.erase id),
                     unres := s.unres.erase id, resolved := (id, r) :: s.resolved,
                     gaveUp := s.gaveUp + 1 }
      else .error (.client .unexpectedFailure)
    | .idle, none =>
      -- the head batch expired before its first transmission (it is popped, hence stamped)
      match s.pending with
      | p :: rest =>
        if p.id = id then
          .ok { s with pending := rest,
                       nextSeq := if c.idem then incr c.wrapFix s.nextSeq 1 else s.nextSeq,
                       drained := s.drained + 1,
                       unres := s.unres.erase id, resolved := (id, r) :: s.resolved,
                       gaveUp := s.gaveUp + 1 }
        else .error (.client .unexpectedFailure)
      | [] => .error (.client .unexpectedFailure)
    | _, _ => .error (.client .unexpectedFailure)

def onWaitCall (s : St) (k : Nat) : R :=
  if (s.marks.map (·.1)).contains k then .error (.env .badWaitId)
  else .ok { s with marks := (k, s.nAcc) :: s.marks }

def onWaitRet (s : St) (k : Nat) : R :=
  match s.marks.find? (fun m => m.1 == k) with
  | none => .error (.env .badWaitId)
  | some m => if s.unres.all (fun id => m.2 ≤ id) then .ok s else .error (.client .flushEarly)

def onMarker (s : St) (off : Int) : R :=
  if off = s.br.log.length then .ok { s with br := { s.br with log := s.br.log ++ [markerRec] } }
  else .error (.env .brokerDecision)

def step (c : Cfg) (s : St) : Ev → R
  | .acc t i u => onAcc s t i u
  | .send pid epoch seq ids => onSend c s pid epoch seq ids
  | .apply seq n k off ats => onApply c s seq n k off ats
  | .done r => onDone c s r
  | .resolved id r => onResolved c s id r
  | .waitCall k => onWaitCall s k
  | .waitRet k => onWaitRet s k
  | .marker off => onMarker s off

def run (c : Cfg) (s : St) : List Ev → R
  | [] => .ok s
  | e :: es =>
    match step c s e with
    | .ok s' => run c s' es
    | .error r => .error r

/-- the acceptor: the history is one the modelled producer (against the modelled broker) can show -/
def accepts (c : Cfg) (tr : List Ev) : Bool :=
  match run c (St.init c) tr with
  | .ok _ => true
  | .error _ => false

/-- like `run`, but reports how many events were consumed before the rejection -/
def runAt (c : Cfg) : St → List Ev → Nat → Except (Nat × Rej) St
  | s, [], _ => .ok s
  | s, e :: es, i =>
    match step c s e with
    | .ok s' => runAt c s' es (i + 1)
    | .error r => .error (i, r)

/-! ## the property evaluated on observations (what the implementation and the cluster did) -/

/-- the data records of the log (markers left out), by record id -/
def dataIds (log : List LogRec) : List Nat := (log.filter (fun x => x.tt != 2)).map (·.id)

def logIds (s : St) : List Nat := dataIds s.br.log

/-- the partition log in terms of batches: each first transmission, repeated as often as appended -/
def rep : Nat → List Nat → List Nat
  | 0, _ => []
  | k + 1, b => rep k b ++ b

def expandR : List (List Nat × Nat) → List Nat
  | [] => []
  | (b, k) :: r => expandR r ++ rep k b

def firstsR : List (List Nat × Nat) → List Nat
  | [] => []
  | (b, _) :: r => firstsR r ++ b

/-- C01 on observations, idempotent producer: the log (record ids in offset order) holds accepted
    records only, each at most once, in acceptance order, and every acknowledged one -/
def holdsIdem (nAcc : Nat) (log acked : List Nat) : Bool :=
  log.isSublist (List.range nAcc) && acked.all (log.contains ·)

/-- collapse consecutive repetitions of the same batch -/
def collapse : List (List Nat) → List (List Nat)
  | [] => []
  | [b] => [b]
  | b :: b' :: r => if b = b' then collapse (b' :: r) else b :: collapse (b' :: r)

/-- C01 on observations, no idempotence: the appended batches (in log order), with repetitions of
    a whole batch collapsed, are accepted records in acceptance order, none twice -/
def holdsPlain (nAcc : Nat) (batches : List (List Nat)) (acked : List Nat) : Bool :=
  (collapse batches).flatten.isSublist (List.range nAcc) &&
    acked.all (batches.flatten.contains ·)

/-- the sequence clauses: every base sequence within `0 .. 2^31-1`, no OUT_OF_ORDER / DUPLICATE
    decision -/
def holdsSeq (seqs : List Int) (codes : List Int) : Bool :=
  seqs.all (fun q => 0 ≤ q && q < M31) && codes.all (fun e => e != 45 && e != 46)

/-- C02 on observations: the result of a future against the partition log -/
def holdsCoord (log : List LogRec) (id : Nat) (r : Res) : Bool :=
  match r with
  | .ok off ts tt => 0 ≤ off && log[off.toNat]? == some { id := id, ts := ts, tt := tt }
  | _ => true

end AkVerif.Producer
