import AkVerif.Model.Wire
/-!
Model of `AIOKafkaConnection` request/response matching (C12): `send`, the frame reader `_read`,
`_handle_frame`, `close`, `_next_correlation_id`, and the request timeout of `wait_for`.

Waiters are identified by the order of their `send` calls.  Time is a natural number of
milliseconds; `advance` fires the `wait_for` timeouts that have become due.
-/
namespace AkVerif.Conn
open AkVerif.Wire

/-- what a request expects back -/
structure Kind where
  flexible : Bool          -- response header v1 (correlation id + tagged fields)
  quirk : Bool             -- RESPONSE_TYPE is FindCoordinatorResponse_v0 (Kafka 0.8.2 quirk)
  resp : Ty                -- response body schema
deriving Inhabited

inductive Outcome where
  | reply (recv : Int) (body : Bytes)   -- received correlation id (ghost) and the bytes of the response struct decoded for this waiter
  | raw (b : Bytes)        -- SASL token passed through
  | connErr                -- KafkaConnectionError
  | corrErr                -- CorrelationIdError
  | timeout                -- asyncio.TimeoutError from wait_for
  | cancelled
deriving Repr, BEq, DecidableEq, Inhabited

structure Req where
  id : Nat
  corr : Option Nat        -- `none` = SASL packet
  kind : Kind
  done : Bool              -- the waiter's future is already done (timed out / cancelled)
  deadline : Nat
  seqNo : Nat := 0         -- ghost: ordinal among the correlated sends of this connection (0 = SASL token)
deriving Inhabited

structure St where
  isOpen : Bool := true
  buf : Bytes := []
  reqs : List Req := []
  counter : Nat := 0
  now : Nat := 0
  nextId : Nat := 0
  timeoutMs : Nat := 1000
  out : List (Nat × Outcome) := []     -- newest first
  issued : List (Nat × Option Nat × Bool) := []   -- ghost: waiter id ↦ (correlation id, quirk kind), newest first
  base : Nat := 0          -- ghost: the counter value the connection started with
  sent : Nat := 0          -- ghost: number of correlation ids consumed so far
deriving Inhabited

/-- `_next_correlation_id` -/
def nextCorr (c : Nat) : Nat := (c + 1) % 2 ^ 31

/-- the counter after `k` further sends (the id given to the `k`-th of them) -/
def corrSeq (c : Nat) : Nat → Nat
  | 0 => c
  | k + 1 => nextCorr (corrSeq c k)

/-- give outcome `o` to every waiter that is still pending and satisfies `p` (its future
    becomes done; the request stays queued until its frame arrives or the connection closes) -/
def resolveWhere (p : Req → Bool) (o : Outcome) (s : St) : St :=
  { s with
    reqs := s.reqs.map (fun r => if !r.done && p r then { r with done := true } else r),
    out := (s.reqs.filter (fun r => !r.done && p r)).map (fun r => (r.id, o)) ++ s.out }

/-- `close()`: fail every waiter whose future is not done, drop the queue -/
def close (s : St) : St :=
  if !s.isOpen then s else
  { resolveWhere (fun _ => true) Outcome.connErr s with isOpen := false, buf := [], reqs := [] }

def send (s : St) (corr? : Bool) (k : Kind) : St :=
  if !s.isOpen then
    { s with nextId := s.nextId + 1, out := (s.nextId, Outcome.connErr) :: s.out,
             issued := (s.nextId, none, k.quirk) :: s.issued }
  else
    let c := if corr? then nextCorr s.counter else s.counter
    { s with counter := c, nextId := s.nextId + 1,
             sent := if corr? then s.sent + 1 else s.sent,
             issued := (s.nextId, (if corr? then some c else none), k.quirk) :: s.issued,
             reqs := s.reqs ++ [{ id := s.nextId, corr := if corr? then some c else none, kind := k,
                                  done := false, deadline := s.now + s.timeoutMs,
                                  seqNo := if corr? then s.sent + 1 else 0 }] }

/-- `send(request, expect_response=False)` (a Produce with acks=0): a correlation id is consumed and the
    bytes are written, but no waiter is queued — the broker will not answer.  On a closed connection
    the call raises `KafkaConnectionError` before anything happens. -/
def sendNR (s : St) : St :=
  if !s.isOpen then s else
  { s with counter := nextCorr s.counter, sent := s.sent + 1 }

/-- `parse_response_header`: correlation id (int32) and, for flexible versions, tagged fields -/
def parseHeader (flexible : Bool) (frame : Bytes) : Option (Int × Bytes) :=
  match decInt 4 frame with
  | none => none
  | some (c, r) =>
    if flexible then
      match decTagged r with
      | none => none
      | some (_, r') => some (c, r')
    else some (c, r)

/-- replace the request queue and the outcome log -/
def St.setRO (s : St) (reqs : List Req) (out : List (Nat × Outcome)) : St :=
  { s with reqs := reqs, out := out }

/-- `_handle_frame` on an open connection -/
def handleFrame (s : St) (frame : Bytes) : St :=
  match s.reqs with
  | [] => close s                                     -- `self._requests[0]` raises → reader dies
  | r :: rest =>
    match r.corr with
    | none =>
      s.setRO rest (if r.done then s.out else (r.id, Outcome.raw frame) :: s.out)
    | some c =>
      match parseHeader r.kind.flexible frame with
      | none => close s
      | some (recv, body) =>
        if !(r.kind.quirk && c != 0 && recv == 0) && recv != (c : Int) then
          -- CorrelationIdError to the head waiter, then close (everyone else: connection error)
          close (resolveWhere (fun x => x.id == r.id) Outcome.corrErr s)
        else if r.done then s.setRO rest s.out
        else
          match decode r.kind.resp body with
          | none => close s                            -- decode error kills the reader → close
          | some (_, tail) =>
            s.setRO rest
              ((r.id, Outcome.reply recv (body.take (body.length - tail.length))) :: s.out)

/-- one iteration of `_read`: a 4-byte signed size, then that many bytes -/
def nextFrame (buf : Bytes) : Option (Option (Bytes × Bytes)) :=
  -- none = need more bytes; some none = `readexactly(negative)` raises; some (some (frame, rest))
  match decInt 4 buf with
  | none => none
  | some (size, r) =>
    if size < 0 then some none
    else if size.toNat ≤ r.length then some (some (r.take size.toNat, r.drop size.toNat))
    else none

def St.withBuf (s : St) (x : Bytes) : St := { s with buf := x }

def pump : Nat → St → St
  | 0, s => s
  | fuel + 1, s =>
    if !s.isOpen then s else
    match nextFrame s.buf with
    | none => s
    | some none => close s
    | some (some (frame, rest)) => pump fuel (handleFrame (s.withBuf rest) frame)

/-- run the reader until it blocks: every frame consumes at least the 4 size bytes -/
def pumpAll (s : St) : St := pump (s.buf.length + 1) s

def feed (s : St) (chunk : Bytes) : St :=
  if !s.isOpen then s else
  pumpAll (s.withBuf (s.buf ++ chunk))

/-- `wait_for` timeouts that are due at the new time -/
def advance (s : St) (dt : Nat) : St :=
  resolveWhere (fun r => r.deadline ≤ s.now + dt) Outcome.timeout { s with now := s.now + dt }

/-- the task awaiting waiter `id` is cancelled -/
def cancel (s : St) (id : Nat) : St :=
  resolveWhere (fun r => r.id == id) Outcome.cancelled s

inductive Op where
  | send (corr? : Bool) (k : Kind)
  | sendNR                   -- a request that expects no response (acks=0 produce)
  | feed (chunk : Bytes)
  | advance (dt : Nat)
  | cancel (id : Nat)
  | eof                      -- EOF or reset of the transport: the reader raises → close
  | close                    -- the client closes the connection (e.g. after a request timeout)
deriving Inhabited

def step (s : St) : Op → St
  | .send c k => send s c k
  | .sendNR => sendNR s
  | .feed ch => feed s ch
  | .advance dt => advance s dt
  | .cancel id => cancel s id
  | .eof => close s
  | .close => close s

def run (s : St) (ops : List Op) : St := ops.foldl step s

end AkVerif.Conn
