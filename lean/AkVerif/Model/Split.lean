import AkVerif.Model.Legacy
/-!
`MemoryRecords`: cutting a fetch response into batches by the per-batch length field and choosing
the batch class by the magic byte (C09).

* `splitPy` — `memory_records.py:_MemoryRecordsPy` (`_cache_next` one slice ahead, `next_batch`
  checks the minimum slice length 26 and reads `next_slice[16]`);
* `splitCy absMagic` — `_crecords/memory_records.pyx:MemoryRecords._get_next`: `length < 14` is
  corrupt *before* the partial-batch test; `absMagic = false` reads the magic byte of the slice
  (`buf[pos + MAGIC_OFFSET]`, the repaired code), `absMagic = true` is the code as it was found:
  `buf[MAGIC_OFFSET]`, i.e. always the magic byte of the *first* batch of the buffer.

Result: the slices in order, each with the magic byte that selects its class (`≥ 2` →
`DefaultRecordBatch`, else `LegacyRecordBatch(slice, magic)`), and how the walk ended:
`done` (nothing or only a partial batch left) or `corrupt` (`CorruptRecordException`).
The fuel is the buffer length (every accepted slice has at least 26 bytes).
-/
namespace AkVerif.Split
open AkVerif.Wire

inductive Stop where
  | done | corrupt | outOfFuel
deriving DecidableEq, Repr, Inhabited

/-- byte `i` of a slice; `none` when the slice is shorter -/
def byteAt (bs : Bytes) (i : Nat) : Option Nat := bs[i]?

def splitPy : Nat → Bytes → List (Nat × Bytes) × Stop
  | 0, _ => ([], .outOfFuel)
  | fuel + 1, bs =>
    if bs.length < 12 then ([], .done)                        -- `remaining < log_overhead`
    else
      match decInt 4 (bs.drop 8) with
      | none => ([], .done)
      | some (length, _) =>
        if 12 + length > bs.length then ([], .done)           -- partial batch: left to the fetcher
        else if 12 + length < 26 then ([], .corrupt)          -- `len(next_slice) < _min_slice`
        else
          match byteAt bs 16 with
          | none => ([], .corrupt)
          | some magic =>
            let (more, st) := splitPy fuel (bs.drop (12 + length).toNat)
            ((magic, bs.take (12 + length).toNat) :: more, st)

/-- `first16` = byte 16 of the whole buffer (what the unrepaired code looks at) -/
def splitCy (absMagic : Bool) (first16 : Option Nat) : Nat → Bytes → List (Nat × Bytes) × Stop
  | 0, _ => ([], .outOfFuel)
  | fuel + 1, bs =>
    if bs.length < 12 then ([], .done)
    else
      match decInt 4 (bs.drop 8) with
      | none => ([], .done)
      | some (length, _) =>
        if length < 14 then ([], .corrupt)
        else if 12 + length > bs.length then ([], .done)
        else
          match (if absMagic then first16 else byteAt bs 16) with
          | none => ([], .corrupt)
          | some magic =>
            let (more, st) := splitCy absMagic first16 fuel (bs.drop (12 + length).toNat)
            ((magic, bs.take (12 + length).toNat) :: more, st)

def memoryRecordsPy (bs : Bytes) := splitPy (bs.length + 1) bs
def memoryRecordsCy (absMagic : Bool) (bs : Bytes) := splitCy absMagic (byteAt bs 16) (bs.length + 1) bs

/-- a batch of any format as the splitter sees it: at least the minimal v0 message, and the length
    field (bytes 8..11) counts the bytes after it -/
def ValidBatch (b : Bytes) : Prop :=
  26 ≤ b.length ∧ ∃ r, decInt 4 (b.drop 8) = some ((b.length : Int) - 12, r)

/-- the magic byte of a batch (byte 16 in every format); batches shorter than that do not occur -/
def magicByte (b : Bytes) : Nat :=
  match b.drop 16 with
  | m :: _ => m
  | [] => 0

/-- a batch paired with the magic byte that selects its class -/
def tagged (b : Bytes) : Nat × Bytes := (magicByte b, b)

/-- a trailing partial batch: a strict prefix of some valid batch -/
def PartialTail (tail : Bytes) : Prop :=
  ∃ b ext, ValidBatch b ∧ b = tail ++ ext ∧ ext ≠ []

end AkVerif.Split
