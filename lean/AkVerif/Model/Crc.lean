import AkVerif.Model.Wire
/-!
Checksums of the record formats (C09).

* `crc32c` — CRC-32C (Castagnoli), the checksum of a v2 batch; the *definition* is the bit-at-a-time
  reflected algorithm (rfc3720 B.4: polynomial 0x1EDC6F41 reflected = 0x82F63B78, initial value
  and final xor 0xFFFFFFFF);
* `crcTableDriven` — `aiokafka/record/_crc32c.py: crc_update` (byte-at-a-time over a 256-entry
  table); the table itself is regenerated from the source into `Gen/Layouts.lean`;
* `crc32` — CRC-32 (zlib / `binascii.crc32`), the checksum of a v0/v1 message; polynomial
  0xEDB88320 reflected.

The C implementations (`_crecords/crc32c.c`: slicing-by-8 tables or the SSE4.2 instruction; zlib's
`crc32`) are *not* modelled; they are tied to these definitions by T-diff on every input of a run.
-/
namespace AkVerif.Crc
open AkVerif.Wire

/-- one bit: shift right, xor the polynomial when a one falls out -/
def step (poly c : Nat) : Nat := (c >>> 1) ^^^ (if c % 2 = 1 then poly else 0)

def stepN (poly : Nat) : Nat → Nat → Nat
  | 0, c => c
  | n + 1, c => stepN poly n (step poly c)

/-- one byte of the bitwise algorithm -/
def byteStep (poly c b : Nat) : Nat := stepN poly 8 (c ^^^ b)

def update (poly c : Nat) (bs : Bytes) : Nat := bs.foldl (byteStep poly) c

def castagnoli : Nat := 0x82F63B78
def ieee : Nat := 0xEDB88320

/-- the checksum is a 32-bit quantity (the final `% 2^32` is the identity on byte inputs) -/
def crc32c (bs : Bytes) : Nat := (update castagnoli 0xFFFFFFFF bs ^^^ 0xFFFFFFFF) % 2 ^ 32
def crc32 (bs : Bytes) : Nat := (update ieee 0xFFFFFFFF bs ^^^ 0xFFFFFFFF) % 2 ^ 32

/-- the table pycrc generates: entry `i` is eight bit-steps applied to `i` -/
def mkTable (poly : Nat) : List Nat := (List.range 256).map (stepN poly 8)

/-- `crc_update` of `_crc32c.py` after `crc ^ _MASK`: `none` = `IndexError` (table too short) -/
def tableLoop (tbl : List Nat) : Nat → Bytes → Option Nat
  | c, [] => some c
  | c, b :: rest =>
    match tbl[(c ^^^ b) &&& 0xFF]? with
    | none => none
    | some t => tableLoop tbl ((t ^^^ (c >>> 8)) &&& 0xFFFFFFFF) rest

/-- `_crc32c.crc(data)` = `crc_finalize(crc_update(0, data))` -/
def crcTableDriven (tbl : List Nat) (bs : Bytes) : Option Nat :=
  match tableLoop tbl (0 ^^^ 0xFFFFFFFF) bs with
  | none => none
  | some c => some ((c ^^^ 0xFFFFFFFF) &&& 0xFFFFFFFF)

end AkVerif.Crc
