/-!
# Model of `aiokafka.conn.ScramAuthenticator` (C18) over an abstract crypto structure

The client automaton (`first_message`, `process_server_first_message`, `final_message`,
`process_server_final_message`, driven in that order by the generator `authenticator_scram`) is
transcribed over `Str = List Char` (Python `str`, code points) and an abstract carrier `β` for
byte strings.  `H`, `HMAC`, `Hi` (PBKDF2), base64 and `str.encode("utf-8")` are *uninterpreted
functions* (`Crypto β`); nothing is assumed about them in the client model.  The honest RFC 5802
server (`Server` section) is my transcription of RFC 5802 §3/§5/§7 (server side) and is what the
"a server knowing the password accepts" theorem is stated against.

Core Lean only (`import Lean` is not needed: the `cs!` macro uses the syntax API of `Init`).
-/
namespace AkVerif.Scram

abbrev Str := List Char

open Lean in
/-- `cs!"abc"` is the explicit list literal `['a', 'b', 'c']` (expanded at elaboration time, so
    that no `String.toList` has to be evaluated inside proofs) -/
macro:max "cs!" s:str : term => do
  let elems ← s.getString.toList.toArray.mapM fun c => `($(Syntax.mkCharLit c))
  `([$elems,*])

/-! ## Python string primitives used by the authenticator -/

/-- `s.replace(c, r)` for a one-character pattern `c` -/
def replaceChar (c : Char) (r : Str) : Str → Str
  | [] => []
  | x :: xs => if x = c then r ++ replaceChar c r xs else x :: replaceChar c r xs

/-- `first_message`: `username.replace("=", "=3D").replace(",", "=2C")` — in this order -/
def saslName (u : Str) : Str :=
  replaceChar ',' cs!"=2C" (replaceChar '=' cs!"=3D" u)

def consHead (c : Char) : List Str → List Str
  | [] => [[c]]
  | p :: ps => (c :: p) :: ps

/-- `s.split(sep)` for a one-character separator (`"".split(",") == [""]`) -/
def splitOn (sep : Char) : Str → List Str
  | [] => [[]]
  | c :: cs => if c = sep then [] :: splitOn sep cs else consHead c (splitOn sep cs)

/-- `pair.split(sep, 1)`: `none` when there is no separator (Python returns a 1-element list,
    which `dict(...)` rejects with `ValueError`) -/
def split1 (sep : Char) : Str → Option (Str × Str)
  | [] => none
  | c :: cs =>
    if c = sep then some ([], cs)
    else match split1 sep cs with
      | none => none
      | some (k, v) => some (c :: k, v)

/-- `dict(pair.split("=", 1) for pair in msg.split(","))`: every pair must contain `=` -/
def parseAttrs (s : Str) : Option (List (Str × Str)) := (splitOn ',' s).mapM (split1 '=')

/-- `params[k]` of a dict built from a pair list: the LAST binding of a key wins -/
def lookupLast (k : Str) : List (Str × Str) → Option Str
  | [] => none
  | (k', v) :: r =>
    match lookupLast k r with
    | some x => some x
    | none => if k' = k then some v else none

/-- `msg`'s attribute `k` under the authenticator's parser -/
def attr (k : Char) (s : Str) : Option Str :=
  match parseAttrs s with
  | none => none
  | some ps => lookupLast [k] ps

/-! ### `int(str)` on ASCII input (sign, surrounding white space, single underscores) -/

def isWs (c : Char) : Bool :=
  c = ' ' || c = '\t' || c = '\n' || c = '\r' || c = Char.ofNat 11 || c = Char.ofNat 12

def dropWs : Str → Str
  | [] => []
  | c :: r => if isWs c then dropWs r else c :: r

def stripWs (s : Str) : Str := (dropWs (dropWs s).reverse).reverse

def digitVal (c : Char) : Option Nat :=
  if 48 ≤ c.toNat ∧ c.toNat ≤ 57 then some (c.toNat - 48) else none

/-- digits with single underscores strictly between digits -/
def digitsU (acc : Nat) (prev : Bool) : Str → Option Nat
  | [] => if prev then some acc else none
  | c :: r =>
    match digitVal c with
    | some d => digitsU (acc * 10 + d) true r
    | none => if c = '_' ∧ prev = true then digitsU acc false r else none

def pyInt (s : Str) : Option Int :=
  match stripWs s with
  | '+' :: r => (digitsU 0 false r).map Int.ofNat
  | '-' :: r => (digitsU 0 false r).map fun n => - Int.ofNat n
  | r => (digitsU 0 false r).map Int.ofNat

/-! ### decimal rendering (`str(n)`), used by the honest server -/

def digitChar (d : Nat) : Char := Char.ofNat (48 + d)

def natDecAux : Nat → Nat → Str → Str
  | 0, _, acc => acc
  | f + 1, n, acc =>
    if n < 10 then digitChar n :: acc else natDecAux f (n / 10) (digitChar (n % 10) :: acc)

/-- fuel `n + 1` always suffices: `pyInt_natDec` -/
def natDec (n : Nat) : Str := natDecAux (n + 1) n []

/-! ## abstract crypto -/

structure Crypto (β : Type) where
  /-- `str.encode("utf-8")` -/
  utf8 : Str → β
  /-- `hashfunc(x).digest()` -/
  H : β → β
  /-- `hmac.new(key, msg, hashfunc).digest()` -/
  hmac : β → β → β
  /-- `hashlib.pbkdf2_hmac(name, password, salt, iterations)` = RFC 5802 `Hi` -/
  hi : β → β → Nat → β
  /-- `_xor_bytes` -/
  xor : β → β → β
  /-- `base64.b64encode(x).decode()` -/
  b64enc : β → Str
  /-- `base64.b64decode(s.encode())`; `none` = `binascii.Error` -/
  b64dec : Str → Option β

/-- what the theorems about the *honest exchange* need from the crypto functions; the client
    model itself needs nothing -/
structure Laws {β : Type} (C : Crypto β) (len : β → Nat) : Prop where
  b64_rt : ∀ x, C.b64dec (C.b64enc x) = some x
  b64_nocomma : ∀ x, ',' ∉ C.b64enc x
  hmac_len : ∀ k m k' m', len (C.hmac k m) = len (C.hmac k' m')
  xor_cancel : ∀ a b, len a = len b → C.xor (C.xor a b) b = a

/-- `_xor_bytes`: `bytes(l ^ r for l, r in zip(left, right, strict=False))` -/
def xorBytes : List UInt8 → List UInt8 → List UInt8
  | a :: as, b :: bs => (a ^^^ b) :: xorBytes as bs
  | _, _ => []

/-- the concrete carrier: byte lists with the real XOR; everything else stays uninterpreted -/
def bytesCrypto (utf8 : Str → List UInt8) (H : List UInt8 → List UInt8)
    (hmac : List UInt8 → List UInt8 → List UInt8) (hi : List UInt8 → List UInt8 → Nat → List UInt8)
    (b64enc : List UInt8 → Str) (b64dec : Str → Option (List UInt8)) : Crypto (List UInt8) :=
  { utf8, H, hmac, hi, xor := xorBytes, b64enc, b64dec }

/-! ## the client automaton -/

inductive Abort
  | badPair            -- a `,`-separated piece without `=`          (ValueError from dict())
  | missing (k : Char) -- attribute absent                           (KeyError)
  | nonce              -- server nonce does not start with ours      (ValueError)
  | b64                -- base64 decoding failed                     (binascii.Error)
  | int                -- `int(params["i"])` failed                  (ValueError)
  | iter               -- iteration count outside 1 .. 2^31-1        (ValueError / OverflowError)
  | signature          -- wrong server signature                     (ValueError)
deriving DecidableEq, Repr

/-- authenticator state after `first_message()` -/
structure St1 (β : Type) where
  pw : β          -- `_sasl_plain_password` (already UTF-8 encoded by `__init__`)
  nonce : Str     -- `_nonce`
  auth : Str      -- `_auth_message`

/-- … after `process_server_first_message()` -/
structure St2 (β : Type) where
  nonce : Str     -- `_nonce` (now the combined nonce)
  auth : Str      -- `_auth_message` (complete)
  proof : β       -- `_client_proof`
  serverSig : β   -- `_server_signature`

def clientFirstBare (user cnonce : Str) : Str :=
  cs!"n=" ++ saslName user ++ cs!",r=" ++ cnonce

/-- `__init__` + `first_message()`: returns the state and the message put on the wire -/
def start {β} (C : Crypto β) (user pw cnonce : Str) : St1 β × Str :=
  let bare := clientFirstBare user cnonce
  ({ pw := C.utf8 pw, nonce := cnonce, auth := bare }, cs!"n,," ++ bare)

def clientKeyLabel : Str := cs!"Client Key"
def serverKeyLabel : Str := cs!"Server Key"

/-- the key derivation of `process_server_first_message` (RFC 5802 §3) and `final_message()`:
    from the password, the complete AuthMessage, the combined nonce, salt and iteration count -/
def derive {β} (C : Crypto β) (pw : β) (auth sn : Str) (salt : β) (i : Nat) : St2 β × Str :=
  let salted := C.hi pw salt i
  let clientKey := C.hmac salted (C.utf8 clientKeyLabel)
  let storedKey := C.H clientKey
  let clientSig := C.hmac storedKey (C.utf8 auth)
  let proof := C.xor clientKey clientSig
  let serverKey := C.hmac salted (C.utf8 serverKeyLabel)
  let serverSig := C.hmac serverKey (C.utf8 auth)
  ({ nonce := sn, auth, proof, serverSig },
   cs!"c=biws,r=" ++ sn ++ cs!",p=" ++ C.b64enc proof)

/-- `process_server_first_message(server_first)` followed by `final_message()` -/
def onServerFirst {β} (C : Crypto β) (st : St1 β) (sf : Str) : Except Abort (St2 β × Str) :=
  let auth1 := st.auth ++ ',' :: sf
  match parseAttrs sf with
  | none => .error .badPair
  | some ps =>
  match lookupLast ['r'] ps with
  | none => .error (.missing 'r')
  | some sn =>
  if st.nonce.isPrefixOf sn = false then .error .nonce else
  let auth2 := auth1 ++ cs!",c=biws,r=" ++ sn
  match lookupLast ['s'] ps with
  | none => .error (.missing 's')
  | some s64 =>
  match C.b64dec s64 with
  | none => .error .b64
  | some salt =>
  match lookupLast ['i'] ps with
  | none => .error (.missing 'i')
  | some istr =>
  match pyInt istr with
  | none => .error .int
  | some i =>
  if i < 1 ∨ 2 ^ 31 ≤ i then .error .iter else
  .ok (derive C st.pw auth2 sn salt i.toNat)

/-- the part of `process_server_final_message` before the comparison: the signature the server
    sent -/
def sentSignature {β} (C : Crypto β) (sfin : Str) : Except Abort β :=
  match parseAttrs sfin with
  | none => .error .badPair
  | some ps =>
  match lookupLast ['v'] ps with
  | none => .error (.missing 'v')
  | some v64 =>
  match C.b64dec v64 with
  | none => .error .b64
  | some sig => .ok sig

/-- `process_server_final_message(server_final)` -/
def onServerFinal {β} [DecidableEq β] (C : Crypto β) (st : St2 β) (sfin : Str) : Except Abort Unit :=
  match sentSignature C sfin with
  | .error e => .error e
  | .ok sig => if sig = st.serverSig then .ok () else .error .signature

/-- result of driving the generator `authenticator_scram` with the two server messages -/
inductive Run
  | abort1 (e : Abort)   -- raised while processing server-first
  | abort2 (e : Abort)   -- raised while processing server-final
  | completed            -- StopIteration: authentication complete
deriving DecidableEq, Repr

def clientRun {β} [DecidableEq β] (C : Crypto β) (user pw cnonce sf sfin : Str) : Run :=
  match onServerFirst C (start C user pw cnonce).1 sf with
  | .error e => .abort1 e
  | .ok (st2, _) =>
    match onServerFinal C st2 sfin with
    | .error e => .abort2 e
    | .ok _ => .completed

/-! ## the honest RFC 5802 server (specification side) -/

/-- inverse of the RFC 5802 `saslname` escaping; `none` for an invalid saslname (a raw `,`, or a
    `=` not followed by `2C` / `3D`) -/
def unesc : Str → Option Str
  | [] => some []
  | c :: r =>
    if c = ',' then none
    else if c = '=' then
      match r with
      | '2' :: 'C' :: r' => (unesc r').map (',' :: ·)
      | '3' :: 'D' :: r' => (unesc r').map ('=' :: ·)
      | _ => none
    else (unesc r).map (c :: ·)

def stripPre : Str → Str → Option Str
  | [], s => some s
  | _ :: _, [] => none
  | p :: ps, c :: cs => if p = c then stripPre ps cs else none

/-- what the server keeps per user (RFC 5802 §3): salt, iteration count, StoredKey, ServerKey -/
structure Cred (β : Type) where
  salt : β
  iters : Nat
  storedKey : β
  serverKey : β

/-- credentials derived from a password -/
def mkCred {β} (C : Crypto β) (pw : Str) (salt : β) (i : Nat) : Cred β :=
  let salted := C.hi (C.utf8 pw) salt i
  { salt, iters := i,
    storedKey := C.H (C.hmac salted (C.utf8 clientKeyLabel)),
    serverKey := C.hmac salted (C.utf8 serverKeyLabel) }

/-- `client-first-message = "n,," "n=" saslname ",r=" c-nonce` → (user, c-nonce, bare) -/
def parseClientFirst (m : Str) : Option (Str × Str × Str) :=
  match stripPre cs!"n,," m with
  | none => none
  | some bare =>
    match splitOn ',' bare with
    | [np, rp] =>
      match stripPre cs!"n=" np, stripPre cs!"r=" rp with
      | some sn, some cn =>
        match unesc sn with
        | some u => some (u, cn, bare)
        | none => none
      | _, _ => none
    | _ => none

structure SrvSt (β : Type) where
  cred : Cred β
  nonce : Str        -- combined nonce
  authPrefix : Str   -- client-first-bare "," server-first

def serverFirstMsg {β} (C : Crypto β) (nonce : Str) (cred : Cred β) : Str :=
  cs!"r=" ++ nonce ++ cs!",s=" ++ C.b64enc cred.salt ++ cs!",i=" ++ natDec cred.iters

/-- the server's reaction to client-first: look the user up, extend the nonce with `ext` -/
def serverFirst {β} (C : Crypto β) (db : Str → Option (Cred β)) (ext : Str) (m : Str) :
    Option (SrvSt β × Str) :=
  match parseClientFirst m with
  | none => none
  | some (u, cn, bare) =>
    match db u with
    | none => none
    | some cred =>
      let sf := serverFirstMsg C (cn ++ ext) cred
      some ({ cred, nonce := cn ++ ext, authPrefix := bare ++ ',' :: sf }, sf)

/-- the server's reaction to client-final (`c=biws,r=<nonce>,p=<proof>`): verify the proof
    (RFC 5802 §3: `ClientKey = ClientProof XOR ClientSignature`, `H(ClientKey) = StoredKey`) and
    answer with `v=ServerSignature`; `none` = authentication refused -/
def serverFinal {β} [DecidableEq β] (C : Crypto β) (ss : SrvSt β) (m : Str) : Option Str :=
  match splitOn ',' m with
  | [cp, rp, pp] =>
    if cp ≠ cs!"c=biws" then none else
    match stripPre cs!"r=" rp, stripPre cs!"p=" pp with
    | some n, some p64 =>
      if n ≠ ss.nonce then none else
      match C.b64dec p64 with
      | none => none
      | some proof =>
        let auth := ss.authPrefix ++ ',' :: cp ++ ',' :: rp
        let clientSig := C.hmac ss.cred.storedKey (C.utf8 auth)
        if C.H (C.xor proof clientSig) = ss.cred.storedKey then
          some (cs!"v=" ++ C.b64enc (C.hmac ss.cred.serverKey (C.utf8 auth)))
        else none
    | _, _ => none
  | _ => none

inductive Exchange
  | serverRejects1
  | clientAborts1 (e : Abort)
  | serverRejects2
  | clientAborts2 (e : Abort)
  | completed
deriving DecidableEq, Repr

/-- a whole login of the client model against the honest server -/
def exchange {β} [DecidableEq β] (C : Crypto β) (db : Str → Option (Cred β)) (ext : Str)
    (user pw cnonce : Str) : Exchange :=
  let (st1, m1) := start C user pw cnonce
  match serverFirst C db ext m1 with
  | none => .serverRejects1
  | some (ss, sf) =>
    match onServerFirst C st1 sf with
    | .error e => .clientAborts1 e
    | .ok (st2, m2) =>
      match serverFinal C ss m2 with
      | none => .serverRejects2
      | some sfin =>
        match onServerFinal C st2 sfin with
        | .error e => .clientAborts2 e
        | .ok _ => .completed

/-- RFC 5802 `saslname = 1*(value-safe-char / "=2C" / "=3D")`: every `=` starts `=2C` or `=3D`,
    there is no `,` -/
def validSaslName : Str → Bool
  | [] => true
  | c :: r =>
    if c = ',' then false
    else if c = '=' then
      match r with
      | '2' :: 'C' :: r' => validSaslName r'
      | '3' :: 'D' :: r' => validSaslName r'
      | _ => false
    else validSaslName r

/-- the `ServerSignature` that a party knowing the password derives for the messages AS DELIVERED
    (RFC 5802 §3): `HMAC(HMAC(Hi(password, salt, i), "Server Key"), client-first-bare "," server-first
    "," client-final-without-proof)` with salt and `i` read from the delivered server-first;
    `none` when that message does not determine a salt and an iteration count in `1 .. 2^31-1` -/
def passwordSignature {β} (C : Crypto β) (pw bare sf cfwp : Str) : Option β :=
  match attr 's' sf, attr 'i' sf with
  | some s64, some istr =>
    match C.b64dec s64, pyInt istr with
    | some salt, some i =>
      if i < 1 ∨ 2 ^ 31 ≤ i then none else
      some (C.hmac (C.hmac (C.hi (C.utf8 pw) salt i.toNat) (C.utf8 serverKeyLabel))
              (C.utf8 (bare ++ ',' :: sf ++ ',' :: cfwp)))
    | _, _ => none
  | _, _ => none

/-- `client-final-message-without-proof` for combined nonce `n` -/
def finalWithoutProof (n : Str) : Str := cs!"c=biws,r=" ++ n

/-! ## the property on observations (evaluated by the check on what the real client did) -/

structure Obs where
  cnonce : Str
  sf : Str             -- server-first as delivered to the client
  aborted1 : Bool      -- the client raised while processing server-first
  completed : Bool     -- the generator finished (authentication complete)
  sigOk : Bool         -- `b64decode(v)` = HMAC(ServerKey(pw, salt, i), AuthMessage), computed
                       --   independently from the delivered messages

/-- does the delivered server nonce extend the client's? -/
def nonceExtends (cnonce sf : Str) : Bool :=
  match attr 'r' sf with
  | some n => cnonce.isPrefixOf n
  | none => false

/-- "aborts when the server's nonce does not extend its own; completes only on the signature
    derived from the password" -/
def holds (o : Obs) : Bool :=
  (nonceExtends o.cnonce o.sf || o.aborted1) &&
  (!o.completed || (o.sigOk && !o.aborted1 && nonceExtends o.cnonce o.sf))

end AkVerif.Scram
