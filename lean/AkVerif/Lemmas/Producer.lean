import AkVerif.Model.Producer
/-!
Lemmas for C01 / C02 about the acceptor `AkVerif.Producer`.

`Step` lists the accepted transitions of `step` explicitly (one constructor per successful branch);
`step_sound` is the only place where the definitions of the `on…` functions are unfolded.  Every
invariant is then proved by cases on `Step`.
-/
namespace AkVerif.Producer
open AkVerif.Done

/-! ## accepted transitions -/

inductive Step (c : Cfg) (s : St) : Ev → St → Prop
  | acc (t i : Nat) (u : Int) (h : ∀ a ∈ s.accepted, a.task = t → a.idx < i) :
      Step c s (.acc t i u)
        { s with nAcc := s.nAcc + 1,
                 accepted := s.accepted ++ [{ id := s.nAcc, task := t, idx := i, uts := u }],
                 pending := s.pending ++ [{ id := s.nAcc, task := t, idx := i, uts := u }],
                 unres := s.unres ++ [s.nAcc] }
  | retry (pid ep : Int) (b : Batch) (hp : s.phase = .retryWait) (hc : s.cur = some b)
      (hst : stampOK c pid ep = true) :
      Step c s (.send pid ep b.seq b.ids) { s with phase := .flying .no }
  | fresh (pid ep seq : Int) (ids : List Nat) (hp : s.phase = .idle) (hne : ids ≠ [])
      (hpre : (s.pending.take ids.length).map (·.id) = ids) (hst : stampOK c pid ep = true)
      (hseq : c.idem = true → seq = s.nextSeq) :
      Step c s (.send pid ep seq ids)
        { s with pending := s.pending.drop ids.length,
                 cur := some { recs := s.pending.take ids.length, seq := seq },
                 phase := .flying .no,
                 nextSeq := if c.idem then incr c.wrapFix s.nextSeq ids.length else s.nextSeq,
                 drained := s.drained + ids.length,
                 blog := (ids, 0) :: s.blog }
  | applySeqErr (b : Batch) (seq : Int) (code off ats : Int) (h0 : c.acks0 = false)
      (hp : s.phase = .flying .no) (hc : s.cur = some b) (hi : c.idem = true) (hseq : seq = b.seq)
      (hcode : code = 45 ∨ code = 46) (hchk : s.br.check b.seq b.recs.length = .err code) :
      Step c s (.apply seq b.recs.length (.err code) off ats)
        { s with phase := .flying (.err code), seqErrs := s.seqErrs + 1 }
  | applyErr (b : Batch) (seq : Int) (code off ats : Int) (h0 : c.acks0 = false)
      (hp : s.phase = .flying .no) (hc : s.cur = some b)
      (hcode : c.idem = true → ¬ (code = 45 ∨ code = 46)) :
      Step c s (.apply seq b.recs.length (.err code) off ats) { s with phase := .flying (.err code) }
  | applyAppendIdem (b : Batch) (seq : Int) (o : Nat) (ats : Int) (h0 : c.acks0 = false)
      (hp : s.phase = .flying .no) (hc : s.cur = some b) (hi : c.idem = true) (hseq : seq = b.seq)
      (hchk : s.br.check b.seq b.recs.length = .append o) :
      Step c s (.apply seq b.recs.length .append o ats)
        { s with br := s.br.appendIdem b ats, phase := .flying (.ok o ats), blog := bump s.blog }
  | applyDupIdem (b : Batch) (seq : Int) (e : BEntry) (ats : Int) (h0 : c.acks0 = false)
      (hp : s.phase = .flying .no) (hc : s.cur = some b) (hi : c.idem = true) (hseq : seq = b.seq)
      (hchk : s.br.check b.seq b.recs.length = .dup e) (hrecs : e.recs = b.recs)
      (hcount : headCount s.blog ≠ 0) :
      Step c s (.apply seq b.recs.length .dup e.off ats) { s with phase := .flying (.ok e.off e.ts) }
  | applyAppendPlain (b : Batch) (seq : Int) (ats : Int) (h0 : c.acks0 = false)
      (hp : s.phase = .flying .no) (hc : s.cur = some b) (hi : c.idem = false) :
      Step c s (.apply seq b.recs.length .append s.br.log.length ats)
        { s with br := s.br.appendPlain b ats, phase := .flying (.ok s.br.log.length ats),
                 blog := bump s.blog }
  | doneNoack (a : Applied) (b : Batch) (hp : s.phase = .flying a) (hc : s.cur = some b)
      (h0 : c.acks0 = true) :
      Step c s (.done .noack)
        { s with cur := none, phase := .idle, due := s.due ++ b.ids.map (·, .noMeta) }
  | doneExc (a : Applied) (b : Batch) (hp : s.phase = .flying a) (hc : s.cur = some b) :
      Step c s (.done .exc) { s with phase := .retryWait }
  | doneOk (b : Batch) (fs : List Int) (info : Info) (off : Nat) (ts : Int)
      (hp : s.phase = .flying (.ok off ts)) (hc : s.cur = some b) (h0 : c.acks0 = false)
      (hdec : decodeInfo c.version fs = some info) (hcode : info.code = 0) (hoff : info.off = off)
      (hts : info.ts = ts) :
      Step c s (.done (.fields fs))
        { s with cur := none, phase := .idle, due := s.due ++ doneDue b info.off info.ts }
  | doneRetriable (b : Batch) (fs : List Int) (info : Info) (code : Int)
      (hp : s.phase = .flying (.err code)) (hc : s.cur = some b) (h0 : c.acks0 = false)
      (hdec : decodeInfo c.version fs = some info) (hcode : info.code = code) (hne : code ≠ 0)
      (h46 : code ≠ 46) (hr : retriable code = true) :
      Step c s (.done (.fields fs)) { s with phase := .retryWait }
  | doneFatal (b : Batch) (fs : List Int) (info : Info) (code : Int)
      (hp : s.phase = .flying (.err code)) (hc : s.cur = some b) (h0 : c.acks0 = false)
      (hdec : decodeInfo c.version fs = some info) (hcode : info.code = code) (hne : code ≠ 0)
      (h46 : code ≠ 46) (hr : retriable code = false) :
      Step c s (.done (.fields fs))
        { s with cur := none, phase := .idle, due := s.due ++ failDue b.ids, fatal := s.fatal + 1 }
  | resolvedDue (id : Nat) (r : Res) (due' : List (Nat × Res)) (hu : id ∈ s.unres)
      (hd : eraseDue id r s.due = some due') :
      Step c s (.resolved id r)
        { s with due := due', unres := s.unres.erase id, resolved := (id, r) :: s.resolved }
  | giveUpRetry (id : Nat) (b : Batch) (hu : id ∈ s.unres) (hd : eraseDue id .fail s.due = none)
      (hp : s.phase = .retryWait) (hc : s.cur = some b) (hin : id ∈ b.ids) :
      Step c s (.resolved id .fail)
        { s with cur := none, phase := .idle, due := s.due ++ failDue (b.ids.erase id),
                 unres := s.unres.erase id, resolved := (id, .fail) :: s.resolved,
                 gaveUp := s.gaveUp + 1 }
  | giveUpIdle (p : Rec) (rest : List Rec) (hu : p.id ∈ s.unres)
      (hd : eraseDue p.id .fail s.due = none) (hp : s.phase = .idle) (hc : s.cur = none)
      (hpend : s.pending = p :: rest) :
      Step c s (.resolved p.id .fail)
        { s with pending := rest,
                 nextSeq := if c.idem then incr c.wrapFix s.nextSeq 1 else s.nextSeq,
                 drained := s.drained + 1,
                 unres := s.unres.erase p.id, resolved := (p.id, .fail) :: s.resolved,
                 gaveUp := s.gaveUp + 1 }
  | waitCall (k : Nat) (hk : k ∉ s.marks.map (·.1)) :
      Step c s (.waitCall k) { s with marks := (k, s.nAcc) :: s.marks }
  | waitRet (k : Nat) (m : Nat × Nat) (hm : s.marks.find? (fun m => m.1 == k) = some m)
      (hall : ∀ id ∈ s.unres, m.2 ≤ id) :
      Step c s (.waitRet k) s
  | marker :
      Step c s (.marker s.br.log.length) { s with br := { s.br with log := s.br.log ++ [markerRec] } }

theorem onAcc_sound {c : Cfg} {s s' : St} {t i : Nat} {u : Int} (h : onAcc s t i u = .ok s') :
    Step c s (.acc t i u) s' := by
  unfold onAcc at h
  split at h
  · rename_i hall
    injection h with h; subst h
    refine Step.acc t i u ?_
    intro a ha hat
    have := (List.all_eq_true.mp hall) a ha
    simp [hat] at this
    exact this
  · cases h

theorem onSend_sound {c : Cfg} {s s' : St} {pid ep seq : Int} {ids : List Nat}
    (h : onSend c s pid ep seq ids = .ok s') : Step c s (.send pid ep seq ids) s' := by
  unfold onSend at h
  split at h
  · cases h
  · rename_i hp
    split at h
    · rename_i b hc
      split at h
      · rename_i hg
        obtain ⟨h1, h2, h3⟩ := hg
        injection h with h; subst h; subst h1; subst h2
        exact Step.retry pid ep b hp hc h3
      · cases h
    · cases h
  · rename_i hp
    split at h
    · cases h
    · rename_i hne
      split at h
      · cases h
      · rename_i hpre
        split at h
        · cases h
        · rename_i hst
          injection h with h; subst h
          have hb : (stampOK c pid ep && (!c.idem || seq == s.nextSeq)) = true := by
            cases hx : (stampOK c pid ep && (!c.idem || seq == s.nextSeq)) with
            | true => rfl
            | false => simp [hx] at hst
          simp only [Bool.and_eq_true, Bool.or_eq_true, Bool.not_eq_true', beq_iff_eq] at hb
          have hpre' : (s.pending.take ids.length).map (·.id) = ids := by
            simpa using hpre
          refine Step.fresh pid ep seq ids hp hne hpre' hb.1 ?_
          intro hi
          rcases hb.2 with h1 | h1
          · rw [hi] at h1; cases h1
          · exact h1

theorem onApply_sound {c : Cfg} {s s' : St} {seq : Int} {n : Nat} {k : AKind} {off ats : Int}
    (h : onApply c s seq n k off ats = .ok s') : Step c s (.apply seq n k off ats) s' := by
  unfold onApply at h
  split at h
  · cases h
  · rename_i h0
    have h0 : c.acks0 = false := by simpa using h0
    split at h
    · rename_i b hp hc
      split at h
      · cases h
      · rename_i hg
        have hn : n = b.recs.length := by
          by_cases hx : n = b.recs.length
          · exact hx
          · exact absurd (Or.inl hx) hg
        subst hn
        split at h
        · rename_i hi
          have hseq : seq = b.seq := by
            by_cases hx : seq = b.seq
            · exact hx
            · exact absurd (Or.inr ⟨hi, hx⟩) hg
          split at h
          · rename_i code
            split at h
            · rename_i hcode
              split at h
              · rename_i hchk
                injection h with h; subst h
                exact Step.applySeqErr b seq code off ats h0 hp hc hi hseq hcode hchk
              · cases h
            · rename_i hcode
              injection h with h; subst h
              exact Step.applyErr b seq code off ats h0 hp hc (fun _ => hcode)
          · split at h
            · rename_i o hchk
              split at h
              · rename_i hoff
                injection h with h; subst h; subst hoff
                exact Step.applyAppendIdem b seq o ats h0 hp hc hi hseq hchk
              · cases h
            · cases h
          · split at h
            · rename_i e hchk
              split at h
              · cases h
              · rename_i hoff
                split at h
                · cases h
                · rename_i hrecs
                  injection h with h; subst h
                  have hoff' : off = e.off := by simpa using hoff
                  have hrecs' : e.recs = b.recs := by
                    by_cases hx : e.recs = b.recs
                    · exact hx
                    · exact absurd (Or.inl hx) hrecs
                  have hcount : headCount s.blog ≠ 0 := fun hx => hrecs (Or.inr hx)
                  subst hoff'
                  exact Step.applyDupIdem b seq e ats h0 hp hc hi hseq hchk hrecs' hcount
            · cases h
        · rename_i hi
          have hi : c.idem = false := by simpa using hi
          split at h
          · split at h
            · rename_i hoff
              injection h with h; subst h; subst hoff
              exact Step.applyAppendPlain b seq ats h0 hp hc hi
            · cases h
          · cases h
          · rename_i code
            injection h with h; subst h
            exact Step.applyErr b seq code off ats h0 hp hc (fun hx => by rw [hi] at hx; cases hx)
    · cases h
    · cases h

theorem onDone_sound {c : Cfg} {s s' : St} {r : Reply}
    (h : onDone c s r = .ok s') : Step c s (.done r) s' := by
  unfold onDone at h
  split at h
  · rename_i a b hp hc
    split at h
    · split at h
      · rename_i h0
        injection h with h; subst h
        exact Step.doneNoack a b hp hc h0
      · cases h
    · injection h with h; subst h
      exact Step.doneExc a b hp hc
    · rename_i fs
      split at h
      · cases h
      · rename_i h0
        have h0 : c.acks0 = false := by simpa using h0
        split at h
        · cases h
        · rename_i info hdec
          split at h
          · cases h
          · rename_i off ts
            split at h
            · cases h
            · rename_i hg
              injection h with h; subst h
              have h1 : info.code = 0 := by
                by_cases hx : info.code = 0
                · exact hx
                · exact absurd (Or.inl hx) hg
              have h2 : info.off = off := by
                by_cases hx : info.off = off
                · exact hx
                · exact absurd (Or.inr (Or.inl hx)) hg
              have h3 : info.ts = ts := by
                by_cases hx : info.ts = ts
                · exact hx
                · exact absurd (Or.inr (Or.inr hx)) hg
              exact Step.doneOk b fs info off ts hp hc h0 hdec h1 h2 h3
          · rename_i code
            split at h
            · cases h
            · rename_i hg
              have h1 : info.code = code := by
                by_cases hx : info.code = code
                · exact hx
                · exact absurd (Or.inl hx) hg
              have h2 : code ≠ 0 := fun hx => hg (Or.inr hx)
              split at h
              · cases h
              · rename_i h46
                split at h
                · rename_i hr
                  injection h with h; subst h
                  exact Step.doneRetriable b fs info code hp hc h0 hdec h1 h2 h46 hr
                · rename_i hr
                  injection h with h; subst h
                  exact Step.doneFatal b fs info code hp hc h0 hdec h1 h2 h46 (by simpa using hr)
  · cases h

theorem onResolved_sound {c : Cfg} {s s' : St} {id : Nat} {r : Res}
    (h : onResolved c s id r = .ok s') : Step c s (.resolved id r) s' := by
  unfold onResolved at h
  split at h
  · cases h
  · rename_i hu
    have hu : id ∈ s.unres := by simpa using hu
    split at h
    · rename_i due' hd
      injection h with h; subst h
      exact Step.resolvedDue id r due' hu hd
    · rename_i hd
      split at h
      · cases h
      · rename_i hr
        have hr : r = .fail := by simpa using hr
        subst hr
        split at h
        · rename_i b hp hc
          split at h
          · rename_i hin
            injection h with h; subst h
            exact Step.giveUpRetry id b hu hd hp hc (by simpa using hin)
          · cases h
        · rename_i hp hc
          split at h
          · rename_i p rest hpend
            split at h
            · rename_i hid
              injection h with h; subst h; subst hid
              exact Step.giveUpIdle p rest hu hd hp hc hpend
            · cases h
          · cases h
        · cases h

theorem onWaitCall_sound {c : Cfg} {s s' : St} {k : Nat}
    (h : onWaitCall s k = .ok s') : Step c s (.waitCall k) s' := by
  unfold onWaitCall at h
  split at h
  · cases h
  · rename_i hk
    injection h with h; subst h
    exact Step.waitCall k (by simpa using hk)

theorem onWaitRet_sound {c : Cfg} {s s' : St} {k : Nat}
    (h : onWaitRet s k = .ok s') : Step c s (.waitRet k) s' := by
  unfold onWaitRet at h
  split at h
  · cases h
  · rename_i m hm
    split at h
    · rename_i hall
      injection h with h; subst h
      refine Step.waitRet k m hm ?_
      intro id hid
      have := (List.all_eq_true.mp hall) id hid
      simpa using this
    · cases h

theorem onMarker_sound {c : Cfg} {s s' : St} {off : Int}
    (h : onMarker s off = .ok s') : Step c s (.marker off) s' := by
  unfold onMarker at h
  split at h
  · rename_i ho
    injection h with h; subst h; subst ho
    exact Step.marker
  · cases h

/-- every accepted transition of `step` is one of the listed ones -/
theorem step_sound {c : Cfg} {s s' : St} {e : Ev} (h : step c s e = .ok s') : Step c s e s' := by
  cases e with
  | acc t i u => exact onAcc_sound h
  | send pid ep seq ids => exact onSend_sound h
  | apply seq n k off ats => exact onApply_sound h
  | done r => exact onDone_sound h
  | resolved id r => exact onResolved_sound h
  | waitCall k => exact onWaitCall_sound h
  | waitRet k => exact onWaitRet_sound h
  | marker off => exact onMarker_sound h

/-! ## runs -/

theorem run_nil (c : Cfg) (s : St) : run c s [] = .ok s := rfl

theorem run_cons_ok {c : Cfg} {s s' : St} {e : Ev} {es : List Ev} (h : run c s (e :: es) = .ok s') :
    ∃ s1, step c s e = .ok s1 ∧ run c s1 es = .ok s' := by
  unfold run at h
  split at h
  · rename_i s1 h1
    exact ⟨s1, h1, h⟩
  · cases h

theorem run_append_ok {c : Cfg} {s s' : St} {a b : List Ev} (h : run c s (a ++ b) = .ok s') :
    ∃ s1, run c s a = .ok s1 ∧ run c s1 b = .ok s' := by
  induction a generalizing s with
  | nil => exact ⟨s, rfl, h⟩
  | cons e es ih =>
    obtain ⟨s1, h1, h2⟩ := run_cons_ok h
    obtain ⟨s2, h3, h4⟩ := ih h2
    refine ⟨s2, ?_, h4⟩
    unfold run
    rw [h1]
    exact h3

theorem run_append_intro {c : Cfg} {s s1 s2 : St} {a b : List Ev} (h1 : run c s a = .ok s1)
    (h2 : run c s1 b = .ok s2) : run c s (a ++ b) = .ok s2 := by
  induction a generalizing s with
  | nil => injection h1 with h1; subst h1; exact h2
  | cons e es ih =>
    obtain ⟨s', hs', hr'⟩ := run_cons_ok h1
    show run c s (e :: (es ++ b)) = .ok s2
    unfold run
    rw [hs']
    exact ih hr'

/-- an invariant of the accepted transitions holds after every accepted history -/
theorem run_induction {c : Cfg} (P : St → Prop)
    (hstep : ∀ s e s', P s → Step c s e s' → P s') :
    ∀ (tr : List Ev) (s s' : St), P s → run c s tr = .ok s' → P s' := by
  intro tr
  induction tr with
  | nil => intro s s' hp h; injection h with h; subst h; exact hp
  | cons e es ih =>
    intro s s' hp h
    obtain ⟨s1, h1, h2⟩ := run_cons_ok h
    exact ih s1 s' (hstep s e s1 hp (step_sound h1)) h2

theorem accepts_iff (c : Cfg) (tr : List Ev) : accepts c tr = true ↔ ∃ s, run c (St.init c) tr = .ok s := by
  unfold accepts
  split
  · rename_i s h; simp [h]
  · rename_i r h; simp [h]

/-! ## basic structure -/

structure Inv1 (c : Cfg) (s : St) : Prop where
  ids : s.accepted.map (·.id) = List.range s.nAcc
  phaseCur : s.phase = .idle ↔ s.cur = none
  curHead : ∀ b, s.cur = some b → b.recs ≠ [] ∧ ∃ k rest, s.blog = (b.ids, k) :: rest
  drainedAcc : s.drained + s.pending.length = s.nAcc
  taskOrder : s.accepted.Pairwise (fun a b => a.task = b.task → a.idx < b.idx)

theorem inv1_init (c : Cfg) : Inv1 c (St.init c) := by
  refine ⟨rfl, ?_, ?_, rfl, List.Pairwise.nil⟩
  · simp [St.init]
  · intro b hb; simp [St.init] at hb

theorem take_map_id_length {pending : List Rec} {ids : List Nat}
    (h : (pending.take ids.length).map (·.id) = ids) : ids.length ≤ pending.length := by
  have := congrArg List.length h
  simp only [List.length_map, List.length_take] at this
  omega

theorem inv1_step {c : Cfg} {s s' : St} {e : Ev} (h : Inv1 c s) (st : Step c s e s') : Inv1 c s' := by
  cases st with
  | acc t i u hord =>
    refine ⟨?_, h.phaseCur, h.curHead, ?_, ?_⟩
    · simp only [List.map_append, List.map_cons, List.map_nil, h.ids, List.range_succ]
    · simp only [List.length_append, List.length_cons, List.length_nil]; have := h.drainedAcc; omega
    · rw [List.pairwise_append]
      refine ⟨h.taskOrder, List.pairwise_singleton _ _, ?_⟩
      intro a ha b hb
      simp only [List.mem_singleton] at hb
      subst hb
      intro hab
      exact hord a ha hab
  | retry pid ep b hp hc hst =>
    refine ⟨h.ids, ?_, h.curHead, h.drainedAcc, h.taskOrder⟩
    simp [hc]
  | fresh pid ep seq ids hp hne hpre hst hseq =>
    have hle := take_map_id_length hpre
    refine ⟨h.ids, ?_, ?_, ?_, h.taskOrder⟩
    · simp
    · intro b hb
      simp only [Option.some.injEq] at hb
      subst hb
      refine ⟨?_, 0, s.blog, ?_⟩
      · intro hnil
        simp only at hnil
        rw [hnil] at hpre
        exact hne (by simpa using hpre.symm)
      · simp only [Batch.ids, hpre]
    · simp only [List.length_drop]; have := h.drainedAcc; omega
  | applySeqErr b seq code off ats h0 hp hc hi hseq hcode hchk =>
    refine ⟨h.ids, ?_, h.curHead, h.drainedAcc, h.taskOrder⟩
    simp [hc]
  | applyErr b seq code off ats h0 hp hc hcode =>
    refine ⟨h.ids, ?_, h.curHead, h.drainedAcc, h.taskOrder⟩
    simp [hc]
  | applyAppendIdem b seq o ats h0 hp hc hi hseq hchk =>
    refine ⟨h.ids, ?_, ?_, h.drainedAcc, h.taskOrder⟩
    · simp [hc]
    · intro b' hb'
      obtain ⟨h1, k, rest, h2⟩ := h.curHead b' hb'
      exact ⟨h1, k + 1, rest, by simp [h2, bump]⟩
  | applyDupIdem b seq e ats h0 hp hc hi hseq hchk hrecs hcount =>
    refine ⟨h.ids, ?_, h.curHead, h.drainedAcc, h.taskOrder⟩
    simp [hc]
  | applyAppendPlain b seq ats h0 hp hc hi =>
    refine ⟨h.ids, ?_, ?_, h.drainedAcc, h.taskOrder⟩
    · simp [hc]
    · intro b' hb'
      obtain ⟨h1, k, rest, h2⟩ := h.curHead b' hb'
      exact ⟨h1, k + 1, rest, by simp [h2, bump]⟩
  | doneNoack a b hp hc h0 =>
    refine ⟨h.ids, by simp, ?_, h.drainedAcc, h.taskOrder⟩
    intro b' hb'; cases hb'
  | doneExc a b hp hc =>
    refine ⟨h.ids, ?_, h.curHead, h.drainedAcc, h.taskOrder⟩
    simp [hc]
  | doneOk b fs info off ts hp hc h0 hdec hcode hoff hts =>
    refine ⟨h.ids, by simp, ?_, h.drainedAcc, h.taskOrder⟩
    intro b' hb'; cases hb'
  | doneRetriable b fs info code hp hc h0 hdec hcode hne h46 hr =>
    refine ⟨h.ids, ?_, h.curHead, h.drainedAcc, h.taskOrder⟩
    simp [hc]
  | doneFatal b fs info code hp hc h0 hdec hcode hne h46 hr =>
    refine ⟨h.ids, by simp, ?_, h.drainedAcc, h.taskOrder⟩
    intro b' hb'; cases hb'
  | resolvedDue id r due' hu hd => exact ⟨h.ids, h.phaseCur, h.curHead, h.drainedAcc, h.taskOrder⟩
  | giveUpRetry id b hu hd hp hc hin =>
    refine ⟨h.ids, by simp, ?_, h.drainedAcc, h.taskOrder⟩
    intro b' hb'; cases hb'
  | giveUpIdle p rest hu hd hp hc hpend =>
    refine ⟨h.ids, ?_, ?_, ?_, h.taskOrder⟩
    · simp [hp, hc]
    · intro b' hb'; simp only [hc] at hb'; cases hb'
    · show s.drained + 1 + rest.length = s.nAcc
      have := h.drainedAcc; rw [hpend] at this; simp only [List.length_cons] at this; omega
  | waitCall k hk => exact ⟨h.ids, h.phaseCur, h.curHead, h.drainedAcc, h.taskOrder⟩
  | waitRet k m hm hall => exact h
  | marker => exact ⟨h.ids, h.phaseCur, h.curHead, h.drainedAcc, h.taskOrder⟩

/-! ## shape of the partition log -/

theorem stored_ids (recs : List Rec) (ats : Int) : (stored recs ats).map (·.id) = recs.map (·.id) := by
  simp [stored, storeRec, List.map_map, Function.comp_def]

theorem firstsR_bump (l : List (List Nat × Nat)) : firstsR (bump l) = firstsR l := by
  cases l with
  | nil => rfl
  | cons x r => obtain ⟨b, k⟩ := x; rfl

theorem dataIds_marker (log : List LogRec) : dataIds (log ++ [markerRec]) = dataIds log := by
  simp [dataIds, markerRec]

theorem tsType_le (ts : Int) : tsType ts ≤ 1 := by
  unfold tsType; split <;> omega

theorem dataIds_stored (log : List LogRec) (recs : List Rec) (ats : Int) :
    dataIds (log ++ stored recs ats) = dataIds log ++ recs.map (·.id) := by
  have hf : (stored recs ats).filter (fun x => x.tt != 2) = stored recs ats := by
    apply List.filter_eq_self.mpr
    intro x hx
    simp only [stored, List.mem_map] at hx
    obtain ⟨r, _, rfl⟩ := hx
    have := tsType_le ats
    simp only [storeRec, bne_iff_ne, ne_eq]
    omega
  simp only [dataIds, List.filter_append, hf, List.map_append, stored_ids]

structure Inv2 (c : Cfg) (s : St) : Prop where
  sub : (firstsR s.blog ++ s.pending.map (·.id)).Sublist (s.accepted.map (·.id))
  shape : logIds s = expandR s.blog

theorem inv2_init (c : Cfg) : Inv2 c (St.init c) := by
  refine ⟨?_, ?_⟩ <;> simp [St.init, firstsR, logIds, dataIds, expandR]

theorem inv2_step {c : Cfg} {s s' : St} {e : Ev} (h1 : Inv1 c s) (h : Inv2 c s) (st : Step c s e s') :
    Inv2 c s' := by
  cases st with
  | acc t i u hord =>
    refine ⟨?_, h.shape⟩
    simp only [List.map_append, List.map_cons, List.map_nil, ← List.append_assoc]
    exact List.Sublist.append h.sub (List.Sublist.refl _)
  | retry pid ep b hp hc hst => exact ⟨h.sub, h.shape⟩
  | fresh pid ep seq ids hp hne hpre hst hseq =>
    refine ⟨?_, ?_⟩
    · show (firstsR ((ids, 0) :: s.blog) ++ (s.pending.drop ids.length).map (·.id)).Sublist _
      have e1 : ids ++ (s.pending.drop ids.length).map (·.id) = s.pending.map (·.id) := by
        have := congrArg (· ++ (s.pending.drop ids.length).map (·.id)) hpre
        simp only [← List.map_append, List.take_append_drop] at this
        exact this.symm
      have : firstsR ((ids, 0) :: s.blog) ++ (s.pending.drop ids.length).map (·.id)
          = firstsR s.blog ++ s.pending.map (·.id) := by
        simp only [firstsR, List.append_assoc, e1]
      rw [this]; exact h.sub
    · show logIds s = expandR ((ids, 0) :: s.blog)
      simp [expandR, rep, h.shape]
  | applySeqErr b seq code off ats h0 hp hc hi hseq hcode hchk => exact ⟨h.sub, h.shape⟩
  | applyErr b seq code off ats h0 hp hc hcode => exact ⟨h.sub, h.shape⟩
  | applyAppendIdem b seq o ats h0 hp hc hi hseq hchk =>
    obtain ⟨_, k, rest, hb⟩ := h1.curHead b hc
    refine ⟨?_, ?_⟩
    · show (firstsR (bump s.blog) ++ _).Sublist _
      rw [firstsR_bump]; exact h.sub
    · show dataIds (s.br.log ++ stored b.recs ats) = expandR (bump s.blog)
      have hs := h.shape
      simp only [logIds] at hs
      rw [dataIds_stored, hs, hb]
      simp only [bump, expandR, rep, List.append_assoc, Batch.ids]
  | applyDupIdem b seq e ats h0 hp hc hi hseq hchk hrecs hcount => exact ⟨h.sub, h.shape⟩
  | applyAppendPlain b seq ats h0 hp hc hi =>
    obtain ⟨_, k, rest, hb⟩ := h1.curHead b hc
    refine ⟨?_, ?_⟩
    · show (firstsR (bump s.blog) ++ _).Sublist _
      rw [firstsR_bump]; exact h.sub
    · show dataIds (s.br.log ++ stored b.recs ats) = expandR (bump s.blog)
      have hs := h.shape
      simp only [logIds] at hs
      rw [dataIds_stored, hs, hb]
      simp only [bump, expandR, rep, List.append_assoc, Batch.ids]
  | doneNoack a b hp hc h0 => exact ⟨h.sub, h.shape⟩
  | doneExc a b hp hc => exact ⟨h.sub, h.shape⟩
  | doneOk b fs info off ts hp hc h0 hdec hcode hoff hts => exact ⟨h.sub, h.shape⟩
  | doneRetriable b fs info code hp hc h0 hdec hcode hne h46 hr => exact ⟨h.sub, h.shape⟩
  | doneFatal b fs info code hp hc h0 hdec hcode hne h46 hr => exact ⟨h.sub, h.shape⟩
  | resolvedDue id r due' hu hd => exact ⟨h.sub, h.shape⟩
  | giveUpRetry id b hu hd hp hc hin => exact ⟨h.sub, h.shape⟩
  | giveUpIdle p rest hu hd hp hc hpend =>
    refine ⟨?_, h.shape⟩
    show (firstsR s.blog ++ rest.map (·.id)).Sublist _
    have hs := h.sub
    rw [hpend] at hs
    refine List.Sublist.trans ?_ hs
    exact List.Sublist.append (List.Sublist.refl _) (by simp)
  | waitCall k hk => exact ⟨h.sub, h.shape⟩
  | waitRet k m hm hall => exact h
  | marker =>
    refine ⟨h.sub, ?_⟩
    show dataIds (s.br.log ++ [markerRec]) = expandR s.blog
    rw [dataIds_marker]; exact h.shape

/-! ## the broker's check -/

theorem find_none_no_match {l : List BEntry} {base last : Int}
    (h : l.find? (seqMatch base last) = none) :
    ∀ e ∈ l, ¬ (e.bs = base ∧ e.ls = last) := by
  intro e he hm
  have := List.find?_eq_none.mp h e he
  simp [seqMatch, hm.1, hm.2] at this

theorem refuse_err (b : Broker) (last : Int) : ∃ code, b.refuse last = .err code := by
  unfold Broker.refuse
  cases b.recent.head? with
  | none => exact ⟨45, rfl⟩
  | some o =>
    by_cases hx : 0 ≤ last ∧ last < o.bs
    · exact ⟨46, by simp [hx]⟩
    · exact ⟨45, by simp [hx]⟩

theorem check_append_no_match {b : Broker} {base : Int} {n o : Nat}
    (h : b.check base n = .append o) :
    o = b.log.length ∧
    (b.lastSeq.isSome → ∀ e ∈ b.recent, ¬ (e.bs = base ∧ e.ls = seqAdd base (n - 1))) := by
  unfold Broker.check at h
  cases hl : b.lastSeq with
  | none =>
    simp only [hl] at h
    by_cases hb : base = 0
    · simp only [hb, if_true] at h
      injection h with h; exact ⟨h.symm, by simp⟩
    · simp only [hb, if_false] at h; cases h
  | some l =>
    simp only [hl] at h
    cases hf : b.recent.find? (seqMatch base (seqAdd base (n - 1))) with
    | some e => simp only [hf] at h; cases h
    | none =>
      simp only [hf] at h
      by_cases hb : base = b.expected
      · simp only [hb, if_true] at h
        injection h with h
        refine ⟨h.symm, fun _ => ?_⟩
        exact find_none_no_match hf
      · simp only [hb, if_false] at h
        obtain ⟨code, hc⟩ := refuse_err b (seqAdd base (n - 1))
        rw [hc] at h; cases h

theorem check_dup_mem {b : Broker} {base : Int} {n : Nat} {e : BEntry}
    (h : b.check base n = .dup e) : e ∈ b.recent := by
  unfold Broker.check at h
  cases hl : b.lastSeq with
  | none =>
    simp only [hl] at h
    by_cases hb : base = 0
    · simp only [hb, if_true] at h; cases h
    · simp only [hb, if_false] at h; cases h
  | some l =>
    simp only [hl] at h
    cases hf : b.recent.find? (seqMatch base (seqAdd base (n - 1))) with
    | some e' =>
      simp only [hf] at h
      injection h with h; subst h
      exact List.mem_of_find?_eq_some hf
    | none =>
      simp only [hf] at h
      by_cases hb : base = b.expected
      · simp only [hb, if_true] at h; cases h
      · simp only [hb, if_false] at h
        obtain ⟨code, hc⟩ := refuse_err b (seqAdd base (n - 1))
        rw [hc] at h; cases h

/-- a batch whose (base, last) sequence is cached is never refused: the duplicate test comes first -/
theorem check_match_not_err {b : Broker} {base : Int} {n : Nat} (hl : b.lastSeq.isSome)
    (hm : ∃ e ∈ b.recent, e.bs = base ∧ e.ls = seqAdd base (n - 1)) (code : Int) :
    b.check base n ≠ .err code := by
  unfold Broker.check
  cases hl' : b.lastSeq with
  | none => simp [hl'] at hl
  | some l =>
    simp only
    cases hf : b.recent.find? (seqMatch base (seqAdd base (n - 1))) with
    | some e' => simp
    | none =>
      obtain ⟨e, he, h1, h2⟩ := hm
      exact absurd ⟨h1, h2⟩ (find_none_no_match hf e he)

theorem mem_keep5_last (l : List BEntry) (x : BEntry) : x ∈ keep5 (l ++ [x]) := by
  unfold keep5
  split
  · rename_i h
    simp only [List.length_append, List.length_cons, List.length_nil] at h
    rw [List.drop_append_of_le_length (by omega)]
    simp
  · simp

theorem mem_of_mem_keep5 {l : List BEntry} {x : BEntry} (h : x ∈ keep5 l) : x ∈ l := by
  unfold keep5 at h
  split at h
  · exact List.mem_of_mem_drop h
  · exact h

/-! ## idempotent producer: no batch is appended twice -/

structure Inv3 (c : Cfg) (s : St) : Prop where
  counts : c.idem = true → ∀ e ∈ s.blog, e.2 ≤ 1
  link : c.idem = true → ∀ b k rest, s.cur = some b → s.blog = (b.ids, k) :: rest → 1 ≤ k →
    s.br.lastSeq.isSome ∧
      ∃ e ∈ s.br.recent, e.bs = b.seq ∧ e.ls = seqAdd b.seq (b.recs.length - 1)

theorem inv3_init (c : Cfg) : Inv3 c (St.init c) := by
  refine ⟨?_, ?_⟩
  · intro _ e he; simp [St.init] at he
  · intro _ b k rest hb; simp [St.init] at hb

theorem inv3_step {c : Cfg} {s s' : St} {e : Ev} (h1 : Inv1 c s) (h : Inv3 c s) (st : Step c s e s') :
    Inv3 c s' := by
  cases st with
  | acc t i u hord => exact ⟨h.counts, h.link⟩
  | retry pid ep b hp hc hst => exact ⟨h.counts, h.link⟩
  | fresh pid ep seq ids hp hne hpre hst hseq =>
    refine ⟨?_, ?_⟩
    · intro hi e he
      simp only [List.mem_cons] at he
      rcases he with rfl | he
      · simp
      · exact h.counts hi e he
    · intro hi b k rest hb hblog hk
      simp only [List.cons.injEq, Prod.mk.injEq] at hblog
      omega
  | applySeqErr b seq code off ats h0 hp hc hi hseq hcode hchk => exact ⟨h.counts, h.link⟩
  | applyErr b seq code off ats h0 hp hc hcode => exact ⟨h.counts, h.link⟩
  | applyAppendIdem b seq o ats h0 hp hc hi hseq hchk =>
    obtain ⟨hne, k, rest, hb⟩ := h1.curHead b hc
    obtain ⟨_, hnm⟩ := check_append_no_match hchk
    have hk0 : k = 0 := by
      by_cases hk : 1 ≤ k
      · obtain ⟨hl, e, he, h1', h2'⟩ := h.link hi b k rest hc hb hk
        exact absurd ⟨h1', h2'⟩ (hnm hl e he)
      · omega
    subst hk0
    refine ⟨?_, ?_⟩
    · intro _ e he
      have he : e ∈ bump s.blog := he
      rw [hb] at he
      simp only [bump, List.mem_cons] at he
      rcases he with rfl | he
      · simp
      · exact h.counts hi e (by rw [hb]; exact List.mem_cons_of_mem _ he)
    · intro _ b' k' rest' hb' _ _
      have hb' : s.cur = some b' := hb'
      rw [hc] at hb'; injection hb' with hb'; subst hb'
      refine ⟨rfl, _, mem_keep5_last _ _, rfl, rfl⟩
  | applyDupIdem b seq e ats h0 hp hc hi hseq hchk hrecs hcount => exact ⟨h.counts, h.link⟩
  | applyAppendPlain b seq ats h0 hp hc hi =>
    refine ⟨fun hx => ?_, fun hx => ?_⟩ <;> (rw [hi] at hx; cases hx)
  | doneNoack a b hp hc h0 =>
    exact ⟨h.counts, fun _ b' k rest hb' => by cases hb'⟩
  | doneExc a b hp hc => exact ⟨h.counts, h.link⟩
  | doneOk b fs info off ts hp hc h0 hdec hcode hoff hts =>
    exact ⟨h.counts, fun _ b' k rest hb' => by cases hb'⟩
  | doneRetriable b fs info code hp hc h0 hdec hcode hne h46 hr => exact ⟨h.counts, h.link⟩
  | doneFatal b fs info code hp hc h0 hdec hcode hne h46 hr =>
    exact ⟨h.counts, fun _ b' k rest hb' => by cases hb'⟩
  | resolvedDue id r due' hu hd => exact ⟨h.counts, h.link⟩
  | giveUpRetry id b hu hd hp hc hin =>
    exact ⟨h.counts, fun _ b' k rest hb' => by cases hb'⟩
  | giveUpIdle p rest hu hd hp hc hpend =>
    refine ⟨h.counts, fun _ b' k rest hb' => ?_⟩
    have hb' : s.cur = some b' := hb'
    rw [hc] at hb'; cases hb'
  | waitCall k hk => exact ⟨h.counts, h.link⟩
  | waitRet k m hm hall => exact h
  | marker => exact ⟨h.counts, h.link⟩

/-! ## every future is resolved at most once; accepted = unresolved + resolved -/

structure Inv4' (nAcc : Nat) (unres : List Nat) (resolved : List (Nat × Res)) : Prop where
  unresNodup : unres.Nodup
  resolvedNodup : (resolved.map (·.1)).Nodup
  disj : ∀ id, id ∈ resolved.map (·.1) → id ∉ unres
  complete : ∀ id, id < nAcc ↔ (id ∈ unres ∨ id ∈ resolved.map (·.1))

def Inv4 (s : St) : Prop := Inv4' s.nAcc s.unres s.resolved

theorem inv4_init (c : Cfg) : Inv4 (St.init c) := by
  refine ⟨List.nodup_nil, List.nodup_nil, ?_, ?_⟩ <;> simp [St.init]

theorem inv4_resolve {nAcc : Nat} {unres : List Nat} {resolved : List (Nat × Res)}
    (h : Inv4' nAcc unres resolved) {id : Nat} (hu : id ∈ unres) (r : Res) :
    Inv4' nAcc (unres.erase id) ((id, r) :: resolved) := by
  have hnr : id ∉ resolved.map (·.1) := fun hx => h.disj id hx hu
  refine ⟨h.unresNodup.erase id, ?_, ?_, ?_⟩
  · simp only [List.map_cons, List.nodup_cons]
    exact ⟨hnr, h.resolvedNodup⟩
  · intro x hx hxe
    simp only [List.map_cons, List.mem_cons] at hx
    rw [h.unresNodup.mem_erase_iff] at hxe
    rcases hx with rfl | hx
    · exact hxe.1 rfl
    · exact h.disj x hx hxe.2
  · intro x
    rw [h.complete x, h.unresNodup.mem_erase_iff]
    simp only [List.map_cons, List.mem_cons]
    constructor
    · rintro (hx | hx)
      · by_cases hxi : x = id
        · exact Or.inr (Or.inl hxi)
        · exact Or.inl ⟨hxi, hx⟩
      · exact Or.inr (Or.inr hx)
    · rintro (⟨_, hx⟩ | rfl | hx)
      · exact Or.inl hx
      · exact Or.inl hu
      · exact Or.inr hx

theorem inv4_step {c : Cfg} {s s' : St} {e : Ev} (h : Inv4 s) (st : Step c s e s') : Inv4 s' := by
  cases st with
  | acc t i u hord =>
    have hlt : ∀ x ∈ s.unres, x < s.nAcc := fun x hx => (h.complete x).mpr (Or.inl hx)
    refine ⟨?_, h.resolvedNodup, ?_, ?_⟩
    · show (s.unres ++ [s.nAcc]).Nodup
      rw [List.nodup_append]
      refine ⟨h.unresNodup, (by simp), ?_⟩
      intro a ha b hb
      simp only [List.mem_singleton] at hb
      subst hb
      have := hlt a ha
      omega
    · intro x hx hxu
      have hxu : x ∈ s.unres ++ [s.nAcc] := hxu
      simp only [List.mem_append, List.mem_singleton] at hxu
      rcases hxu with hxu | rfl
      · exact h.disj x hx hxu
      · have := (h.complete s.nAcc).mpr (Or.inr hx)
        omega
    · intro x
      show x < s.nAcc + 1 ↔ (x ∈ s.unres ++ [s.nAcc] ∨ x ∈ s.resolved.map (·.1))
      simp only [List.mem_append, List.mem_singleton]
      constructor
      · intro hx
        by_cases hxe : x = s.nAcc
        · exact Or.inl (Or.inr hxe)
        · rcases (h.complete x).mp (by omega) with h1 | h1
          · exact Or.inl (Or.inl h1)
          · exact Or.inr h1
      · rintro ((hx | rfl) | hx)
        · have := (h.complete x).mpr (Or.inl hx); omega
        · omega
        · have := (h.complete x).mpr (Or.inr hx); omega
  | retry pid ep b hp hc hst => exact h
  | fresh pid ep seq ids hp hne hpre hst hseq => exact h
  | applySeqErr b seq code off ats h0 hp hc hi hseq hcode hchk => exact h
  | applyErr b seq code off ats h0 hp hc hcode => exact h
  | applyAppendIdem b seq o ats h0 hp hc hi hseq hchk => exact h
  | applyDupIdem b seq e ats h0 hp hc hi hseq hchk hrecs hcount => exact h
  | applyAppendPlain b seq ats h0 hp hc hi => exact h
  | doneNoack a b hp hc h0 => exact h
  | doneExc a b hp hc => exact h
  | doneOk b fs info off ts hp hc h0 hdec hcode hoff hts => exact h
  | doneRetriable b fs info code hp hc h0 hdec hcode hne h46 hr => exact h
  | doneFatal b fs info code hp hc h0 hdec hcode hne h46 hr => exact h
  | resolvedDue id r due' hu hd => exact inv4_resolve h hu r
  | giveUpRetry id b hu hd hp hc hin => exact inv4_resolve h hu .fail
  | giveUpIdle p rest hu hd hp hc hpend => exact inv4_resolve h hu .fail
  | waitCall k hk => exact h
  | waitRet k m hm hall => exact h
  | marker => exact h

/-! ## coordinates: what a future is told is where the record sits -/

/-- the records `recs`, stamped with `ts`, sit in `log` from offset `off` on -/
def sliceOK (log : List LogRec) (off : Nat) (recs : List Rec) (ts : Int) : Prop :=
  ∀ i r, recs[i]? = some r → log[off + i]? = some (storeRec ts r)

theorem getElem?_append_some {α} {l : List α} {j : Nat} {x : α} (y : List α) (h : l[j]? = some x) :
    (l ++ y)[j]? = some x := by
  obtain ⟨hj, _⟩ := List.getElem?_eq_some_iff.mp h
  rw [List.getElem?_append_left hj]; exact h

theorem sliceOK_append {log : List LogRec} {off : Nat} {recs : List Rec} {ts : Int} (y : List LogRec)
    (h : sliceOK log off recs ts) : sliceOK (log ++ y) off recs ts :=
  fun i r hr => getElem?_append_some y (h i r hr)

theorem sliceOK_new (log : List LogRec) (recs : List Rec) (ats : Int) :
    sliceOK (log ++ stored recs ats) log.length recs ats := by
  intro i r hr
  rw [List.getElem?_append_right (by omega)]
  simp only [Nat.add_sub_cancel_left, stored, List.getElem?_map, hr, Option.map_some]

theorem eraseDue_some {id : Nat} {r : Res} {due due' : List (Nat × Res)}
    (h : eraseDue id r due = some due') : (id, r) ∈ due ∧ ∀ x ∈ due', x ∈ due := by
  induction due generalizing due' with
  | nil => cases h
  | cons x xs ih =>
    unfold eraseDue at h
    split at h
    · rename_i hx
      injection h with h; subst h; subst hx
      exact ⟨List.mem_cons_self, fun y hy => List.mem_cons_of_mem _ hy⟩
    · cases he : eraseDue id r xs with
      | none => rw [he] at h; cases h
      | some d =>
        rw [he] at h
        simp only [Option.map_some] at h
        injection h with h; subst h
        obtain ⟨h1, h2⟩ := ih he
        refine ⟨List.mem_cons_of_mem _ h1, fun y hy => ?_⟩
        simp only [List.mem_cons] at hy
        rcases hy with rfl | hy
        · exact List.mem_cons_self
        · exact List.mem_cons_of_mem _ (h2 y hy)

def CoordOK (log : List LogRec) (x : Nat × Res) : Prop :=
  ∀ off ts tt, x.2 = Res.ok off ts tt → 0 ≤ off ∧ log[off.toNat]? = some { id := x.1, ts := ts, tt := tt }

theorem coordOK_append {log : List LogRec} {x : Nat × Res} (y : List LogRec) (h : CoordOK log x) :
    CoordOK (log ++ y) x :=
  fun off ts tt hx => ⟨(h off ts tt hx).1, getElem?_append_some y (h off ts tt hx).2⟩

structure Inv5 (c : Cfg) (s : St) : Prop where
  entries : ∀ e ∈ s.br.recent, sliceOK s.br.log e.off e.recs e.ts
  flying : ∀ b off ts, s.cur = some b → s.phase = .flying (.ok off ts) → sliceOK s.br.log off b.recs ts
  coords : ∀ x, x ∈ s.due ∨ x ∈ s.resolved → CoordOK s.br.log x

theorem inv5_init (c : Cfg) : Inv5 c (St.init c) := by
  refine ⟨?_, ?_, ?_⟩
  · intro e he; simp [St.init] at he
  · intro b off ts hb; simp [St.init] at hb
  · intro x hx; simp [St.init] at hx

theorem coordOK_doneDue {log : List LogRec} {b : Batch} {off : Nat} {ts : Int}
    (h : sliceOK log off b.recs ts) : ∀ x ∈ doneDue b off ts, CoordOK log x := by
  intro x hx o t k hxk
  simp only [doneDue, List.mem_map] at hx
  obtain ⟨⟨r, i⟩, hri, rfl⟩ := hx
  have hr : b.recs[i]? = some r := by
    have := List.mem_zipIdx_iff_getElem?.mp hri
    simpa using this
  have := h i r hr
  simp only at hxk
  injection hxk with h1 h2 h3
  subst h1; subst h2; subst h3
  refine ⟨by omega, ?_⟩
  have e : ((off : Int) + (i : Int)).toNat = off + i := by omega
  rw [e, this]
  rfl

theorem not_ok_of_mem_map {ids : List Nat} {r : Res} (hr : ∀ o t k, r ≠ Res.ok o t k)
    {log : List LogRec} : ∀ x ∈ ids.map (·, r), CoordOK log x := by
  intro x hx o t k hxk
  simp only [List.mem_map] at hx
  obtain ⟨i, _, rfl⟩ := hx
  exact absurd hxk (hr o t k)

theorem inv5_step {c : Cfg} {s s' : St} {e : Ev} (h : Inv5 c s) (st : Step c s e s') : Inv5 c s' := by
  cases st with
  | acc t i u hord => exact ⟨h.entries, h.flying, h.coords⟩
  | retry pid ep b hp hc hst =>
    exact ⟨h.entries, fun b' off ts _ hp' => (by cases hp'), h.coords⟩
  | fresh pid ep seq ids hp hne hpre hst hseq =>
    exact ⟨h.entries, fun b' off ts _ hp' => (by cases hp'), h.coords⟩
  | applySeqErr b seq code off ats h0 hp hc hi hseq hcode hchk =>
    exact ⟨h.entries, fun b' off ts _ hp' => (by cases hp'), h.coords⟩
  | applyErr b seq code off ats h0 hp hc hcode =>
    exact ⟨h.entries, fun b' off ts _ hp' => (by cases hp'), h.coords⟩
  | applyAppendIdem b seq o ats h0 hp hc hi hseq hchk =>
    obtain ⟨ho, _⟩ := check_append_no_match hchk
    subst ho
    refine ⟨?_, ?_, ?_⟩
    · intro e he
      have he := mem_of_mem_keep5 he
      simp only [List.mem_append, List.mem_singleton] at he
      rcases he with he | rfl
      · exact sliceOK_append _ (h.entries e he)
      · exact sliceOK_new _ _ _
    · intro b' off ts hb' hp'
      have hb' : s.cur = some b' := hb'
      rw [hc] at hb'; injection hb' with hb'; subst hb'
      injection hp' with hp'; injection hp' with h1 h2; subst h1; subst h2
      exact sliceOK_new _ _ _
    · intro x hx
      exact coordOK_append _ (h.coords x hx)
  | applyDupIdem b seq e ats h0 hp hc hi hseq hchk hrecs hcount =>
    refine ⟨h.entries, ?_, h.coords⟩
    intro b' off ts hb' hp'
    have hb' : s.cur = some b' := hb'
    rw [hc] at hb'; injection hb' with hb'; subst hb'
    injection hp' with hp'; injection hp' with h1 h2; subst h1; subst h2
    rw [← hrecs]
    exact h.entries e (check_dup_mem hchk)
  | applyAppendPlain b seq ats h0 hp hc hi =>
    refine ⟨?_, ?_, ?_⟩
    · intro e he
      exact sliceOK_append _ (h.entries e he)
    · intro b' off ts hb' hp'
      have hb' : s.cur = some b' := hb'
      rw [hc] at hb'; injection hb' with hb'; subst hb'
      injection hp' with hp'; injection hp' with h1 h2; subst h1; subst h2
      exact sliceOK_new _ _ _
    · intro x hx
      exact coordOK_append _ (h.coords x hx)
  | doneNoack a b hp hc h0 =>
    refine ⟨h.entries, fun b' off ts hb' => (by cases hb'), ?_⟩
    intro x hx
    rcases hx with hx | hx
    · have hx : x ∈ s.due ++ b.ids.map (·, Res.noMeta) := hx
      rcases List.mem_append.mp hx with hx | hx
      · exact h.coords x (Or.inl hx)
      · exact not_ok_of_mem_map (by intro o t k hh; cases hh) x hx
    · exact h.coords x (Or.inr hx)
  | doneExc a b hp hc => exact ⟨h.entries, fun b' off ts _ hp' => (by cases hp'), h.coords⟩
  | doneOk b fs info off ts hp hc h0 hdec hcode hoff hts =>
    refine ⟨h.entries, fun b' off ts hb' => (by cases hb'), ?_⟩
    intro x hx
    rcases hx with hx | hx
    · have hx : x ∈ s.due ++ doneDue b info.off info.ts := hx
      rcases List.mem_append.mp hx with hx | hx
      · exact h.coords x (Or.inl hx)
      · rw [hoff, hts] at hx
        exact coordOK_doneDue (h.flying b off ts hc hp) x hx
    · exact h.coords x (Or.inr hx)
  | doneRetriable b fs info code hp hc h0 hdec hcode hne h46 hr =>
    exact ⟨h.entries, fun b' off ts _ hp' => (by cases hp'), h.coords⟩
  | doneFatal b fs info code hp hc h0 hdec hcode hne h46 hr =>
    refine ⟨h.entries, fun b' off ts hb' => (by cases hb'), ?_⟩
    intro x hx
    rcases hx with hx | hx
    · have hx : x ∈ s.due ++ failDue b.ids := hx
      rcases List.mem_append.mp hx with hx | hx
      · exact h.coords x (Or.inl hx)
      · exact not_ok_of_mem_map (by intro o t k hh; cases hh) x hx
    · exact h.coords x (Or.inr hx)
  | resolvedDue id r due' hu hd =>
    obtain ⟨h1, h2⟩ := eraseDue_some hd
    refine ⟨h.entries, h.flying, ?_⟩
    intro x hx
    rcases hx with hx | hx
    · exact h.coords x (Or.inl (h2 x hx))
    · have hx : x ∈ (id, r) :: s.resolved := hx
      simp only [List.mem_cons] at hx
      rcases hx with rfl | hx
      · exact h.coords _ (Or.inl h1)
      · exact h.coords x (Or.inr hx)
  | giveUpRetry id b hu hd hp hc hin =>
    refine ⟨h.entries, fun b' off ts hb' => (by cases hb'), ?_⟩
    intro x hx
    rcases hx with hx | hx
    · have hx : x ∈ s.due ++ failDue (b.ids.erase id) := hx
      rcases List.mem_append.mp hx with hx | hx
      · exact h.coords x (Or.inl hx)
      · exact not_ok_of_mem_map (by intro o t k hh; cases hh) x hx
    · have hx : x ∈ (id, Res.fail) :: s.resolved := hx
      simp only [List.mem_cons] at hx
      rcases hx with rfl | hx
      · intro o t k hh; cases hh
      · exact h.coords x (Or.inr hx)
  | giveUpIdle p rest hu hd hp hc hpend =>
    refine ⟨h.entries, ?_, ?_⟩
    · intro b' off ts hb'
      have hb' : s.cur = some b' := hb'
      rw [hc] at hb'; cases hb'
    · intro x hx
      rcases hx with hx | hx
      · exact h.coords x (Or.inl hx)
      · have hx : x ∈ (p.id, Res.fail) :: s.resolved := hx
        simp only [List.mem_cons] at hx
        rcases hx with rfl | hx
        · intro o t k hh; cases hh
        · exact h.coords x (Or.inr hx)
  | waitCall k hk => exact ⟨h.entries, h.flying, h.coords⟩
  | waitRet k m hm hall => exact h
  | marker =>
    exact ⟨fun e he => sliceOK_append _ (h.entries e he),
      fun b off ts hb hp => sliceOK_append _ (h.flying b off ts hb hp),
      fun x hx => coordOK_append _ (h.coords x hx)⟩

/-! ## which results can occur -/

structure Inv6 (c : Cfg) (s : St) : Prop where
  acks0 : c.acks0 = true → ∀ x, x ∈ s.due ∨ x ∈ s.resolved → ∀ o t k, x.2 ≠ Res.ok o t k
  noFail : s.fatal = 0 → s.gaveUp = 0 → ∀ x, x ∈ s.due ∨ x ∈ s.resolved → x.2 ≠ Res.fail
  marksNodup : (s.marks.map (·.1)).Nodup

theorem inv6_init (c : Cfg) : Inv6 c (St.init c) := by
  refine ⟨?_, ?_, ?_⟩
  · intro _ x hx; simp [St.init] at hx
  · intro _ _ x hx; simp [St.init] at hx
  · simp [St.init]

theorem mem_due_append {x : Nat × Res} {due add resolved : List (Nat × Res)}
    (hx : x ∈ due ++ add ∨ x ∈ resolved) : (x ∈ due ∨ x ∈ resolved) ∨ x ∈ add := by
  rcases hx with hx | hx
  · rcases List.mem_append.mp hx with hx | hx
    · exact Or.inl (Or.inl hx)
    · exact Or.inr hx
  · exact Or.inl (Or.inr hx)

theorem mem_map_pair {ids : List Nat} {r : Res} {x : Nat × Res} (hx : x ∈ ids.map (·, r)) : x.2 = r := by
  simp only [List.mem_map] at hx
  obtain ⟨i, _, rfl⟩ := hx
  rfl

theorem mem_doneDue_ok {b : Batch} {off ts : Int} {x : Nat × Res} (hx : x ∈ doneDue b off ts) :
    ∃ o t k, x.2 = Res.ok o t k := by
  simp only [doneDue, List.mem_map] at hx
  obtain ⟨⟨r, i⟩, _, rfl⟩ := hx
  exact ⟨_, _, _, rfl⟩

theorem mem_resolved_cons {x y : Nat × Res} {due resolved : List (Nat × Res)}
    (hx : x ∈ due ∨ x ∈ y :: resolved) : (x ∈ due ∨ x ∈ resolved) ∨ x = y := by
  rcases hx with hx | hx
  · exact Or.inl (Or.inl hx)
  · simp only [List.mem_cons] at hx
    rcases hx with rfl | hx
    · exact Or.inr rfl
    · exact Or.inl (Or.inr hx)

theorem inv6_step {c : Cfg} {s s' : St} {e : Ev} (h : Inv6 c s) (st : Step c s e s') : Inv6 c s' := by
  cases st with
  | acc t i u hord => exact ⟨h.acks0, h.noFail, h.marksNodup⟩
  | retry pid ep b hp hc hst => exact ⟨h.acks0, h.noFail, h.marksNodup⟩
  | fresh pid ep seq ids hp hne hpre hst hseq => exact ⟨h.acks0, h.noFail, h.marksNodup⟩
  | applySeqErr b seq code off ats h0 hp hc hi hseq hcode hchk => exact ⟨h.acks0, h.noFail, h.marksNodup⟩
  | applyErr b seq code off ats h0 hp hc hcode => exact ⟨h.acks0, h.noFail, h.marksNodup⟩
  | applyAppendIdem b seq o ats h0 hp hc hi hseq hchk => exact ⟨h.acks0, h.noFail, h.marksNodup⟩
  | applyDupIdem b seq e ats h0 hp hc hi hseq hchk hrecs hcount => exact ⟨h.acks0, h.noFail, h.marksNodup⟩
  | applyAppendPlain b seq ats h0 hp hc hi => exact ⟨h.acks0, h.noFail, h.marksNodup⟩
  | doneNoack a b hp hc h0 =>
    refine ⟨?_, ?_, h.marksNodup⟩
    · intro ha x hx
      rcases mem_due_append hx with hx | hx
      · exact h.acks0 ha x hx
      · intro o t k hh; rw [mem_map_pair hx] at hh; cases hh
    · intro hf hg x hx
      rcases mem_due_append hx with hx | hx
      · exact h.noFail hf hg x hx
      · intro hh; rw [mem_map_pair hx] at hh; cases hh
  | doneExc a b hp hc => exact ⟨h.acks0, h.noFail, h.marksNodup⟩
  | doneOk b fs info off ts hp hc h0 hdec hcode hoff hts =>
    refine ⟨?_, ?_, h.marksNodup⟩
    · intro ha; rw [h0] at ha; cases ha
    · intro hf hg x hx
      rcases mem_due_append hx with hx | hx
      · exact h.noFail hf hg x hx
      · obtain ⟨o, t, k, hk⟩ := mem_doneDue_ok hx
        intro hh; rw [hk] at hh; cases hh
  | doneRetriable b fs info code hp hc h0 hdec hcode hne h46 hr => exact ⟨h.acks0, h.noFail, h.marksNodup⟩
  | doneFatal b fs info code hp hc h0 hdec hcode hne h46 hr =>
    refine ⟨?_, ?_, h.marksNodup⟩
    · intro ha; rw [h0] at ha; cases ha
    · intro hf; simp at hf
  | resolvedDue id r due' hu hd =>
    obtain ⟨h1, h2⟩ := eraseDue_some hd
    refine ⟨?_, ?_, h.marksNodup⟩
    · intro ha x hx
      rcases mem_resolved_cons hx with (hx | hx) | rfl
      · exact h.acks0 ha x (Or.inl (h2 x hx))
      · exact h.acks0 ha x (Or.inr hx)
      · exact h.acks0 ha _ (Or.inl h1)
    · intro hf hg x hx
      rcases mem_resolved_cons hx with (hx | hx) | rfl
      · exact h.noFail hf hg x (Or.inl (h2 x hx))
      · exact h.noFail hf hg x (Or.inr hx)
      · exact h.noFail hf hg _ (Or.inl h1)
  | giveUpRetry id b hu hd hp hc hin =>
    refine ⟨?_, ?_, h.marksNodup⟩
    · intro ha x hx
      rcases mem_resolved_cons hx with hx | rfl
      · rcases mem_due_append (resolved := s.resolved) (by
          rcases hx with hx | hx
          · exact Or.inl hx
          · exact Or.inr hx) with hx | hx
        · exact h.acks0 ha x hx
        · intro o t k hh; rw [mem_map_pair hx] at hh; cases hh
      · intro o t k hh; cases hh
    · intro _ hg; simp at hg
  | giveUpIdle p rest hu hd hp hc hpend =>
    refine ⟨?_, ?_, h.marksNodup⟩
    · intro ha x hx
      rcases mem_resolved_cons hx with hx | rfl
      · exact h.acks0 ha x hx
      · intro o t k hh; cases hh
    · intro _ hg; simp at hg
  | waitCall k hk =>
    refine ⟨h.acks0, h.noFail, ?_⟩
    show ((k, s.nAcc) :: s.marks).map (·.1) |>.Nodup
    simp only [List.map_cons, List.nodup_cons]
    exact ⟨hk, h.marksNodup⟩
  | waitRet k m hm hall => exact h
  | marker => exact ⟨h.acks0, h.noFail, h.marksNodup⟩

/-! ## sequence numbers -/

/-- the counter starts inside Kafka's range -/
def SeqHyp (c : Cfg) : Prop := 0 ≤ c.seq0 ∧ c.seq0 < M31

/-- the code's `increment_sequence_number` agrees with Kafka's rule: either it is the corrected
    variant, or the counter does not pass `2^31 - 1` while `d` records are stamped -/
def SeqOK (c : Cfg) (d : Nat) : Prop := c.wrapFix = true ∨ c.seq0 + d < M31

/-- the base sequence of the batch that starts after `d` stamped records -/
def seqAt (c : Cfg) (d : Nat) : Int := if c.wrapFix then (c.seq0 + d) % M31 else c.seq0 + d

theorem SeqOK.mono {c : Cfg} {d d' : Nat} (h : SeqOK c d') (hle : d ≤ d') : SeqOK c d := by
  rcases h with h | h
  · exact Or.inl h
  · exact Or.inr (by omega)

theorem seqAt_range {c : Cfg} {d : Nat} (hs : SeqHyp c) (h : SeqOK c d) :
    0 ≤ seqAt c d ∧ seqAt c d < M31 := by
  unfold seqAt SeqHyp SeqOK M31 at *
  cases hw : c.wrapFix with
  | true => simp only [if_true]; omega
  | false =>
    rcases h with h | h
    · rw [hw] at h; cases h
    · simp only [Bool.false_eq_true, if_false]
      omega

theorem incr_seqAt {c : Cfg} {d k : Nat} (_hs : SeqHyp c) (h : SeqOK c (d + k)) :
    incr c.wrapFix (seqAt c d) k = seqAt c (d + k) := by
  unfold incr incrFix incrAsIs seqAt SeqHyp SeqOK M31 at *
  cases hw : c.wrapFix with
  | true => simp only [if_true]; omega
  | false =>
    rcases h with h | h
    · rw [hw] at h; cases h
    · simp only [Bool.false_eq_true, if_false]
      have : ¬ (c.seq0 + (d : Int) + (k : Int) > 2147483648 - 1) := by
        push_cast at h; omega
      simp only [this, if_false]
      push_cast; omega

/-- after the broker appended the batch `(q, n)` it expects `q + n` (Kafka's arithmetic) -/
theorem expected_after_append {q : Int} {n : Nat} (hq : 0 ≤ q ∧ q < M31) (hn : 1 ≤ n) :
    (let l := seqAdd q (n - 1); if l < 0 then 0 else seqNext l) = (q + n) % M31 := by
  unfold seqAdd seqNext M31 at *
  have h1 : q ≥ 0 := hq.1
  simp only [h1, if_true]
  have e : ((n - 1 : Nat) : Int) = (n : Int) - 1 := by omega
  rw [e]
  split
  · omega
  · split
    · omega
    · omega

theorem seqAt_step {c : Cfg} {d n : Nat} (hs : SeqHyp c) (h : SeqOK c d) (hn : n ≤ d) :
    (seqAt c (d - n) + n) % M31 = seqAt c d := by
  unfold seqAt SeqHyp SeqOK M31 at *
  cases hw : c.wrapFix with
  | true =>
    simp only [if_true]
    have e : ((d - n : Nat) : Int) = (d : Int) - n := by omega
    rw [e]; omega
  | false =>
    rcases h with h | h
    · rw [hw] at h; cases h
    · simp only [Bool.false_eq_true, if_false]
      have e : ((d - n : Nat) : Int) = (d : Int) - n := by omega
      rw [e]; omega

theorem check_expected_not_err {b : Broker} {base : Int} {n : Nat} (h : base = b.expected) (code : Int) :
    b.check base n ≠ .err code := by
  unfold Broker.check
  cases hl : b.lastSeq with
  | none =>
    have : base = 0 := by rw [h]; simp [Broker.expected, hl]
    simp [this]
  | some l =>
    simp only
    cases hf : b.recent.find? (seqMatch base (seqAdd base (n - 1))) with
    | some e' => simp
    | none => simp [h]

theorem expected_appendIdem (br : Broker) (b : Batch) (ats : Int) :
    (br.appendIdem b ats).expected
      = (let l := seqAdd b.seq (b.recs.length - 1); if l < 0 then 0 else seqNext l) := by
  simp [Broker.appendIdem, Broker.expected]

structure Inv7 (c : Cfg) (s : St) : Prop where
  next : c.idem = true → SeqOK c s.drained → s.nextSeq = seqAt c s.drained
  curSeq : c.idem = true → ∀ b, s.cur = some b → SeqOK c s.drained →
    b.recs.length ≤ s.drained ∧ b.seq = seqAt c (s.drained - b.recs.length)
  flyingOk : c.idem = true → ∀ off ts, s.phase = .flying (.ok off ts) → headCount s.blog ≠ 0
  sync : c.idem = true → c.acks0 = false → s.fatal = 0 → s.gaveUp = 0 → SeqOK c s.drained →
    s.seqErrs = 0 ∧ (s.cur = none → s.br.expected = s.nextSeq) ∧
      (∀ b, s.cur = some b → (headCount s.blog = 0 → s.br.expected = b.seq) ∧
        (headCount s.blog ≠ 0 → s.br.expected = s.nextSeq))

theorem seqAt_zero {c : Cfg} (hs : SeqHyp c) : seqAt c 0 = c.seq0 := by
  unfold seqAt SeqHyp M31 at *
  cases c.wrapFix <;> simp <;> omega

theorem inv7_init (c : Cfg) (hs : SeqHyp c) : Inv7 c (St.init c) := by
  refine ⟨?_, ?_, ?_, ?_⟩
  · intro _ _; simp [St.init, seqAt_zero hs]
  · intro _ b hb; simp [St.init] at hb
  · intro _ off ts hp; simp [St.init] at hp
  · intro hi _ _ _ _
    refine ⟨rfl, ?_, ?_⟩
    · intro _
      unfold SeqHyp M31 at hs
      simp only [St.init, Broker.expected, hi, Bool.true_and]
      by_cases h0 : c.seq0 = 0
      · simp [h0]
      · simp only [bne_iff_ne, ne_eq, h0, not_false_eq_true, if_true]
        unfold seqNext M31
        split
        · omega
        · split <;> omega
    · intro b hb; simp [St.init] at hb

theorem inv7_step {c : Cfg} {s s' : St} {e : Ev} (hs : SeqHyp c) (h1 : Inv1 c s) (h3 : Inv3 c s)
    (h : Inv7 c s) (st : Step c s e s') : Inv7 c s' := by
  cases st with
  | acc t i u hord => exact ⟨h.next, h.curSeq, h.flyingOk, h.sync⟩
  | retry pid ep b hp hc hst =>
    exact ⟨h.next, h.curSeq, fun _ off ts hp' => (by cases hp'), h.sync⟩
  | fresh pid ep seq ids hp hne hpre hst hseq =>
    have hle := take_map_id_length hpre
    have hlen : (s.pending.take ids.length).length = ids.length := by
      simp only [List.length_take]; omega
    have hcn : s.cur = none := h1.phaseCur.mp hp
    refine ⟨?_, ?_, fun _ off ts hp' => (by cases hp'), ?_⟩
    · intro hi hok
      have hok' : SeqOK c (s.drained + ids.length) := hok
      show (if c.idem then incr c.wrapFix s.nextSeq ids.length else s.nextSeq) = seqAt c (s.drained + ids.length)
      rw [hi, if_pos rfl, h.next hi (hok'.mono (by omega)), incr_seqAt hs hok']
    · intro hi b hb hok
      have hok' : SeqOK c (s.drained + ids.length) := hok
      have hb : some { recs := s.pending.take ids.length, seq := seq } = some b := hb
      injection hb with hb; subst hb
      show (s.pending.take ids.length).length ≤ s.drained + ids.length ∧
        seq = seqAt c (s.drained + ids.length - (s.pending.take ids.length).length)
      rw [hlen]
      refine ⟨by omega, ?_⟩
      rw [hseq hi, h.next hi (hok'.mono (by omega))]
      congr 1; omega
    · intro hi ha hf hg hok
      have hok' : SeqOK c (s.drained + ids.length) := hok
      obtain ⟨he, hn, _⟩ := h.sync hi ha hf hg (hok'.mono (by omega))
      refine ⟨he, fun hx => (by cases hx), ?_⟩
      intro b hb
      have hb : some { recs := s.pending.take ids.length, seq := seq } = some b := hb
      injection hb with hb; subst hb
      refine ⟨fun _ => ?_, fun hx => absurd rfl hx⟩
      show s.br.expected = seq
      rw [hseq hi]; exact hn hcn
  | applySeqErr b seq code off ats h0 hp hc hi hseq hcode hchk =>
    refine ⟨h.next, h.curSeq, fun _ off ts hp' => (by cases hp'), ?_⟩
    intro _ ha hf hg hok
    exfalso
    obtain ⟨_, _, hb⟩ := h.sync hi ha hf hg hok
    obtain ⟨hb0, _⟩ := hb b hc
    obtain ⟨_, k, rest, hblog⟩ := h1.curHead b hc
    by_cases hk : headCount s.blog = 0
    · exact check_expected_not_err (hb0 hk).symm code hchk
    · have hk' : 1 ≤ k := by
        rw [hblog] at hk; simp only [headCount] at hk; omega
      obtain ⟨hl, hm⟩ := h3.link hi b k rest hc hblog hk'
      exact check_match_not_err hl hm code hchk
  | applyErr b seq code off ats h0 hp hc hcode =>
    exact ⟨h.next, h.curSeq, fun _ off ts hp' => (by cases hp'), h.sync⟩
  | applyAppendIdem b seq o ats h0 hp hc hi hseq hchk =>
    obtain ⟨hne, k, rest, hblog⟩ := h1.curHead b hc
    have hcount : headCount (bump s.blog) ≠ 0 := by
      rw [hblog]; simp [bump, headCount]
    refine ⟨h.next, h.curSeq, fun _ _ _ _ => hcount, ?_⟩
    intro _ ha hf hg hok
    obtain ⟨he, _, _⟩ := h.sync hi ha hf hg hok
    refine ⟨he, fun hx => ?_, ?_⟩
    · have hx : s.cur = none := hx
      rw [hc] at hx; cases hx
    · intro b' hb'
      have hb' : s.cur = some b' := hb'
      rw [hc] at hb'; injection hb' with hb'; subst hb'
      refine ⟨fun hx => absurd hx hcount, fun _ => ?_⟩
      show (s.br.appendIdem b ats).expected = s.nextSeq
      obtain ⟨hlen, hbs⟩ := h.curSeq hi b hc hok
      have hn1 : 1 ≤ b.recs.length := by
        cases hr : b.recs with
        | nil => exact absurd hr hne
        | cons x xs => simp
      have hrange := seqAt_range hs (hok.mono (Nat.sub_le s.drained b.recs.length))
      rw [expected_appendIdem, expected_after_append (by rw [hbs]; exact hrange) hn1, hbs,
        seqAt_step hs hok hlen, h.next hi hok]
  | applyDupIdem b seq e ats h0 hp hc hi hseq hchk hrecs hcount =>
    exact ⟨h.next, h.curSeq, fun _ _ _ _ => hcount, h.sync⟩
  | applyAppendPlain b seq ats h0 hp hc hi =>
    refine ⟨fun hx => ?_, fun hx => ?_, fun hx => ?_, fun hx => ?_⟩ <;> (rw [hi] at hx; cases hx)
  | doneNoack a b hp hc h0 =>
    refine ⟨h.next, fun _ b' hb' => (by cases hb'), fun _ off ts hp' => (by cases hp'), ?_⟩
    intro _ ha; rw [h0] at ha; cases ha
  | doneExc a b hp hc =>
    exact ⟨h.next, h.curSeq, fun _ off ts hp' => (by cases hp'), h.sync⟩
  | doneOk b fs info off ts hp hc h0 hdec hcode hoff hts =>
    refine ⟨h.next, fun _ b' hb' => (by cases hb'), fun _ off ts hp' => (by cases hp'), ?_⟩
    intro hi ha hf hg hok
    obtain ⟨he, _, hb⟩ := h.sync hi ha hf hg hok
    refine ⟨he, fun _ => ?_, fun b' hb' => (by cases hb')⟩
    exact (hb b hc).2 (h.flyingOk hi off ts hp)
  | doneRetriable b fs info code hp hc h0 hdec hcode hne h46 hr =>
    exact ⟨h.next, h.curSeq, fun _ off ts hp' => (by cases hp'), h.sync⟩
  | doneFatal b fs info code hp hc h0 hdec hcode hne h46 hr =>
    refine ⟨h.next, fun _ b' hb' => (by cases hb'), fun _ off ts hp' => (by cases hp'), ?_⟩
    intro _ _ hf; simp at hf
  | resolvedDue id r due' hu hd => exact ⟨h.next, h.curSeq, h.flyingOk, h.sync⟩
  | giveUpRetry id b hu hd hp hc hin =>
    refine ⟨h.next, fun _ b' hb' => (by cases hb'), fun _ off ts hp' => (by cases hp'), ?_⟩
    intro _ _ _ hg; simp at hg
  | giveUpIdle p rest hu hd hp hc hpend =>
    refine ⟨?_, ?_, ?_, ?_⟩
    · intro hi hok
      have hok' : SeqOK c (s.drained + 1) := hok
      show (if c.idem then incr c.wrapFix s.nextSeq 1 else s.nextSeq) = seqAt c (s.drained + 1)
      rw [hi, if_pos rfl, h.next hi (hok'.mono (by omega)), incr_seqAt hs hok']
    · intro _ b' hb'
      have hb' : s.cur = some b' := hb'
      rw [hc] at hb'; cases hb'
    · intro _ off ts hp'
      have hp' : s.phase = .flying (.ok off ts) := hp'
      rw [hp] at hp'; cases hp'
    · intro _ _ _ hg; simp at hg
  | waitCall k hk => exact ⟨h.next, h.curSeq, h.flyingOk, h.sync⟩
  | waitRet k m hm hall => exact h
  | marker => exact ⟨h.next, h.curSeq, h.flyingOk, h.sync⟩

/-! ## the log holds accepted records -/

structure Inv8 (c : Cfg) (s : St) : Prop where
  pendSub : ∀ r ∈ s.pending, r ∈ s.accepted
  curSub : ∀ b, s.cur = some b → ∀ r ∈ b.recs, r ∈ s.accepted
  logSub : ∀ x ∈ s.br.log, x = markerRec ∨ ∃ r ∈ s.accepted, ∃ ats, x = storeRec ats r

theorem inv8_init (c : Cfg) : Inv8 c (St.init c) := by
  refine ⟨?_, ?_, ?_⟩
  · intro r hr; simp [St.init] at hr
  · intro b hb; simp [St.init] at hb
  · intro x hx; simp [St.init] at hx

theorem logSub_append {accepted : List Rec} {log : List LogRec} {recs : List Rec} (ats : Int)
    (h : ∀ x ∈ log, x = markerRec ∨ ∃ r ∈ accepted, ∃ ats, x = storeRec ats r)
    (hr : ∀ r ∈ recs, r ∈ accepted) :
    ∀ x ∈ log ++ stored recs ats, x = markerRec ∨ ∃ r ∈ accepted, ∃ ats, x = storeRec ats r := by
  intro x hx
  rcases List.mem_append.mp hx with hx | hx
  · exact h x hx
  · simp only [stored, List.mem_map] at hx
    obtain ⟨r, hr', rfl⟩ := hx
    exact Or.inr ⟨r, hr r hr', ats, rfl⟩

theorem inv8_step {c : Cfg} {s s' : St} {e : Ev} (h : Inv8 c s) (st : Step c s e s') : Inv8 c s' := by
  cases st with
  | acc t i u hord =>
    refine ⟨?_, ?_, ?_⟩
    · intro r hr
      have hr : r ∈ s.pending ++ [_] := hr
      show r ∈ s.accepted ++ [_]
      rcases List.mem_append.mp hr with hr | hr
      · exact List.mem_append_left _ (h.pendSub r hr)
      · exact List.mem_append_right _ hr
    · intro b hb r hr
      exact List.mem_append_left _ (h.curSub b hb r hr)
    · intro x hx
      rcases h.logSub x hx with hm | ⟨r, hr, ats, hxe⟩
      · exact Or.inl hm
      · exact Or.inr ⟨r, List.mem_append_left _ hr, ats, hxe⟩
  | retry pid ep b hp hc hst => exact ⟨h.pendSub, h.curSub, h.logSub⟩
  | fresh pid ep seq ids hp hne hpre hst hseq =>
    refine ⟨?_, ?_, h.logSub⟩
    · intro r hr
      exact h.pendSub r (List.mem_of_mem_drop hr)
    · intro b hb r hr
      have hb : some { recs := s.pending.take ids.length, seq := seq } = some b := hb
      injection hb with hb; subst hb
      exact h.pendSub r (List.mem_of_mem_take hr)
  | applySeqErr b seq code off ats h0 hp hc hi hseq hcode hchk => exact ⟨h.pendSub, h.curSub, h.logSub⟩
  | applyErr b seq code off ats h0 hp hc hcode => exact ⟨h.pendSub, h.curSub, h.logSub⟩
  | applyAppendIdem b seq o ats h0 hp hc hi hseq hchk =>
    exact ⟨h.pendSub, h.curSub, logSub_append ats h.logSub (h.curSub b hc)⟩
  | applyDupIdem b seq e ats h0 hp hc hi hseq hchk hrecs hcount => exact ⟨h.pendSub, h.curSub, h.logSub⟩
  | applyAppendPlain b seq ats h0 hp hc hi =>
    exact ⟨h.pendSub, h.curSub, logSub_append ats h.logSub (h.curSub b hc)⟩
  | doneNoack a b hp hc h0 => exact ⟨h.pendSub, fun b' hb' => (by cases hb'), h.logSub⟩
  | doneExc a b hp hc => exact ⟨h.pendSub, h.curSub, h.logSub⟩
  | doneOk b fs info off ts hp hc h0 hdec hcode hoff hts =>
    exact ⟨h.pendSub, fun b' hb' => (by cases hb'), h.logSub⟩
  | doneRetriable b fs info code hp hc h0 hdec hcode hne h46 hr => exact ⟨h.pendSub, h.curSub, h.logSub⟩
  | doneFatal b fs info code hp hc h0 hdec hcode hne h46 hr =>
    exact ⟨h.pendSub, fun b' hb' => (by cases hb'), h.logSub⟩
  | resolvedDue id r due' hu hd => exact ⟨h.pendSub, h.curSub, h.logSub⟩
  | giveUpRetry id b hu hd hp hc hin => exact ⟨h.pendSub, fun b' hb' => (by cases hb'), h.logSub⟩
  | giveUpIdle p rest hu hd hp hc hpend =>
    refine ⟨?_, h.curSub, h.logSub⟩
    intro r hr
    exact h.pendSub r (by rw [hpend]; exact List.mem_cons_of_mem _ hr)
  | waitCall k hk => exact ⟨h.pendSub, h.curSub, h.logSub⟩
  | waitRet k m hm hall => exact h
  | marker =>
    refine ⟨h.pendSub, h.curSub, ?_⟩
    intro x hx
    rcases List.mem_append.mp hx with hx | hx
    · exact h.logSub x hx
    · simp only [List.mem_singleton] at hx; exact Or.inl hx

/-! ## pending records are unresolved; results due belong to transmitted batches -/

structure Inv9 (c : Cfg) (s : St) : Prop where
  pendUnres : ∀ r ∈ s.pending, r.id ∈ s.unres
  dueFirsts : ∀ x ∈ s.due, x.1 ∈ firstsR s.blog

theorem inv9_init (c : Cfg) : Inv9 c (St.init c) := by
  refine ⟨?_, ?_⟩
  · intro r hr; simp [St.init] at hr
  · intro x hx; simp [St.init] at hx

theorem firsts_pending_disjoint {c : Cfg} {s : St} (h1 : Inv1 c s) (h2 : Inv2 c s) :
    (firstsR s.blog ++ s.pending.map (·.id)).Nodup := by
  have := h2.sub
  rw [h1.ids] at this
  exact this.nodup List.nodup_range

theorem head_ids_in_firsts {b : List Nat} {k : Nat} {rest : List (List Nat × Nat)} :
    ∀ x ∈ b, x ∈ firstsR ((b, k) :: rest) := by
  intro x hx; simp [firstsR, hx]

theorem mem_failDue {ids : List Nat} {x : Nat × Res} (h : x ∈ failDue ids) : x.1 ∈ ids := by
  simp only [failDue, List.mem_map] at h
  obtain ⟨i, hi, rfl⟩ := h; exact hi

theorem mem_doneDue_id {b : Batch} {off ts : Int} {x : Nat × Res} (h : x ∈ doneDue b off ts) :
    x.1 ∈ b.ids := by
  simp only [doneDue, List.mem_map] at h
  obtain ⟨⟨r, i⟩, hri, rfl⟩ := h
  have := List.mem_zipIdx_iff_getElem?.mp hri
  simp only [Batch.ids, List.mem_map]
  exact ⟨r, List.mem_of_getElem? this, rfl⟩

theorem inv9_step {c : Cfg} {s s' : St} {e : Ev} (h1 : Inv1 c s) (h2 : Inv2 c s) (h : Inv9 c s)
    (st : Step c s e s') : Inv9 c s' := by
  have hnd := firsts_pending_disjoint h1 h2
  have hdisj : ∀ x, x ∈ firstsR s.blog → ∀ r ∈ s.pending, r.id ≠ x := by
    intro x hx r hr he
    have := (List.nodup_append.mp hnd).2.2 x hx r.id (List.mem_map.mpr ⟨r, hr, rfl⟩)
    exact this he.symm
  cases st with
  | acc t i u hord =>
    refine ⟨?_, h.dueFirsts⟩
    intro r hr
    have hr : r ∈ s.pending ++ [_] := hr
    show r.id ∈ s.unres ++ [s.nAcc]
    rcases List.mem_append.mp hr with hr | hr
    · exact List.mem_append_left _ (h.pendUnres r hr)
    · simp only [List.mem_singleton] at hr; subst hr; simp
  | retry pid ep b hp hc hst => exact ⟨h.pendUnres, h.dueFirsts⟩
  | fresh pid ep seq ids hp hne hpre hst hseq =>
    refine ⟨fun r hr => h.pendUnres r (List.mem_of_mem_drop hr), ?_⟩
    intro x hx
    show x.1 ∈ firstsR ((ids, 0) :: s.blog)
    simp only [firstsR, List.mem_append]
    exact Or.inl (h.dueFirsts x hx)
  | applySeqErr b seq code off ats h0 hp hc hi hseq hcode hchk => exact ⟨h.pendUnres, h.dueFirsts⟩
  | applyErr b seq code off ats h0 hp hc hcode => exact ⟨h.pendUnres, h.dueFirsts⟩
  | applyAppendIdem b seq o ats h0 hp hc hi hseq hchk =>
    refine ⟨h.pendUnres, fun x hx => ?_⟩
    show x.1 ∈ firstsR (bump s.blog)
    rw [firstsR_bump]; exact h.dueFirsts x hx
  | applyDupIdem b seq e ats h0 hp hc hi hseq hchk hrecs hcount => exact ⟨h.pendUnres, h.dueFirsts⟩
  | applyAppendPlain b seq ats h0 hp hc hi =>
    refine ⟨h.pendUnres, fun x hx => ?_⟩
    show x.1 ∈ firstsR (bump s.blog)
    rw [firstsR_bump]; exact h.dueFirsts x hx
  | doneNoack a b hp hc h0 =>
    obtain ⟨_, k, rest, hb⟩ := h1.curHead b hc
    refine ⟨h.pendUnres, fun x hx => ?_⟩
    have hx : x ∈ s.due ++ b.ids.map (·, Res.noMeta) := hx
    show x.1 ∈ firstsR s.blog
    rcases List.mem_append.mp hx with hx | hx
    · exact h.dueFirsts x hx
    · rw [hb]
      simp only [List.mem_map] at hx
      obtain ⟨i, hi, rfl⟩ := hx
      exact head_ids_in_firsts i hi
  | doneExc a b hp hc => exact ⟨h.pendUnres, h.dueFirsts⟩
  | doneOk b fs info off ts hp hc h0 hdec hcode hoff hts =>
    obtain ⟨_, k, rest, hb⟩ := h1.curHead b hc
    refine ⟨h.pendUnres, fun x hx => ?_⟩
    have hx : x ∈ s.due ++ doneDue b info.off info.ts := hx
    show x.1 ∈ firstsR s.blog
    rcases List.mem_append.mp hx with hx | hx
    · exact h.dueFirsts x hx
    · rw [hb]; exact head_ids_in_firsts x.1 (mem_doneDue_id hx)
  | doneRetriable b fs info code hp hc h0 hdec hcode hne h46 hr => exact ⟨h.pendUnres, h.dueFirsts⟩
  | doneFatal b fs info code hp hc h0 hdec hcode hne h46 hr =>
    obtain ⟨_, k, rest, hb⟩ := h1.curHead b hc
    refine ⟨h.pendUnres, fun x hx => ?_⟩
    have hx : x ∈ s.due ++ failDue b.ids := hx
    show x.1 ∈ firstsR s.blog
    rcases List.mem_append.mp hx with hx | hx
    · exact h.dueFirsts x hx
    · rw [hb]; exact head_ids_in_firsts x.1 (mem_failDue hx)
  | resolvedDue id r due' hu hd =>
    obtain ⟨hin, hsub⟩ := eraseDue_some hd
    refine ⟨?_, fun x hx => h.dueFirsts x (hsub x hx)⟩
    intro p hp
    show p.id ∈ s.unres.erase id
    have hne : p.id ≠ id := hdisj id (h.dueFirsts _ hin) p hp
    exact (List.mem_erase_of_ne hne).mpr (h.pendUnres p hp)
  | giveUpRetry id b hu hd hp hc hin =>
    obtain ⟨_, k, rest, hb⟩ := h1.curHead b hc
    refine ⟨?_, fun x hx => ?_⟩
    · intro p hp'
      show p.id ∈ s.unres.erase id
      have hne : p.id ≠ id := hdisj id (by rw [hb]; exact head_ids_in_firsts id hin) p hp'
      exact (List.mem_erase_of_ne hne).mpr (h.pendUnres p hp')
    · have hx : x ∈ s.due ++ failDue (b.ids.erase id) := hx
      show x.1 ∈ firstsR s.blog
      rcases List.mem_append.mp hx with hx | hx
      · exact h.dueFirsts x hx
      · rw [hb]; exact head_ids_in_firsts x.1 (List.mem_of_mem_erase (mem_failDue hx))
  | giveUpIdle p rest hu hd hp hc hpend =>
    refine ⟨?_, h.dueFirsts⟩
    intro r hr
    show r.id ∈ s.unres.erase p.id
    have hpn : (s.pending.map (·.id)).Nodup := (List.nodup_append.mp hnd).2.1
    rw [hpend] at hpn
    simp only [List.map_cons, List.nodup_cons] at hpn
    have hne : r.id ≠ p.id := by
      intro he
      exact hpn.1 (he ▸ List.mem_map.mpr ⟨r, hr, rfl⟩)
    exact (List.mem_erase_of_ne hne).mpr (h.pendUnres r (by rw [hpend]; exact List.mem_cons_of_mem _ hr))
  | waitCall k hk => exact ⟨h.pendUnres, h.dueFirsts⟩
  | waitRet k m hm hall => exact h
  | marker => exact ⟨h.pendUnres, h.dueFirsts⟩

/-! ## metadata results carry timestamp type 0 or 1 (never confused with a marker) -/

def Inv10 (s : St) : Prop :=
  ∀ x, x ∈ s.due ∨ x ∈ s.resolved → ∀ o t k, x.2 = Res.ok o t k → k ≤ 1

theorem inv10_init (c : Cfg) : Inv10 (St.init c) := by
  intro x hx; simp [St.init] at hx

theorem mem_doneDue_tt {b : Batch} {off ts : Int} {x : Nat × Res} (hx : x ∈ doneDue b off ts) :
    ∀ o t k, x.2 = Res.ok o t k → k ≤ 1 := by
  simp only [doneDue, List.mem_map] at hx
  obtain ⟨⟨r, i⟩, _, rfl⟩ := hx
  intro o t k hk
  simp only at hk
  injection hk with _ _ h3
  rw [← h3]; exact tsType_le ts

theorem inv10_step {c : Cfg} {s s' : St} {e : Ev} (h : Inv10 s) (st : Step c s e s') : Inv10 s' := by
  cases st with
  | doneNoack a b hp hc h0 =>
    intro x hx
    rcases mem_due_append hx with hx | hx
    · exact h x hx
    · intro o t k hh; rw [mem_map_pair hx] at hh; cases hh
  | doneOk b fs info off ts hp hc h0 hdec hcode hoff hts =>
    intro x hx
    rcases mem_due_append hx with hx | hx
    · exact h x hx
    · exact mem_doneDue_tt hx
  | doneFatal b fs info code hp hc h0 hdec hcode hne h46 hr =>
    intro x hx
    rcases mem_due_append hx with hx | hx
    · exact h x hx
    · intro o t k hh; rw [mem_map_pair hx] at hh; cases hh
  | resolvedDue id r due' hu hd =>
    obtain ⟨h1, h2⟩ := eraseDue_some hd
    intro x hx
    rcases mem_resolved_cons hx with (hx | hx) | rfl
    · exact h x (Or.inl (h2 x hx))
    · exact h x (Or.inr hx)
    · exact h _ (Or.inl h1)
  | giveUpRetry id b hu hd hp hc hin =>
    intro x hx
    rcases mem_resolved_cons hx with hx | rfl
    · rcases mem_due_append (resolved := s.resolved) (by
        rcases hx with hx | hx
        · exact Or.inl hx
        · exact Or.inr hx) with hx | hx
      · exact h x hx
      · intro o t k hh; rw [mem_map_pair hx] at hh; cases hh
    · intro o t k hh; cases hh
  | giveUpIdle p rest hu hd hp hc hpend =>
    intro x hx
    rcases mem_resolved_cons hx with hx | rfl
    · exact h x hx
    · intro o t k hh; cases hh
  | _ => exact h

/-! ## all invariants together -/

structure Inv (c : Cfg) (s : St) : Prop where
  i1 : Inv1 c s
  i2 : Inv2 c s
  i3 : Inv3 c s
  i4 : Inv4 s
  i5 : Inv5 c s
  i6 : Inv6 c s
  i7 : Inv7 c s
  i8 : Inv8 c s
  i9 : Inv9 c s
  i10 : Inv10 s

theorem inv_init {c : Cfg} (hs : SeqHyp c) : Inv c (St.init c) :=
  ⟨inv1_init c, inv2_init c, inv3_init c, inv4_init c, inv5_init c, inv6_init c, inv7_init c hs, inv8_init c, inv9_init c, inv10_init c⟩

theorem inv_step {c : Cfg} (hs : SeqHyp c) {s s' : St} {e : Ev} (h : Inv c s) (st : Step c s e s') :
    Inv c s' :=
  ⟨inv1_step h.i1 st, inv2_step h.i1 h.i2 st, inv3_step h.i1 h.i3 st, inv4_step h.i4 st,
   inv5_step h.i5 st, inv6_step h.i6 st, inv7_step hs h.i1 h.i3 h.i7 st, inv8_step h.i8 st,
   inv9_step h.i1 h.i2 h.i9 st, inv10_step h.i10 st⟩

theorem inv_run_from {c : Cfg} (hs : SeqHyp c) {s s' : St} {tr : List Ev} (h : Inv c s)
    (hr : run c s tr = .ok s') : Inv c s' :=
  run_induction (Inv c) (fun _ _ _ hi st => inv_step hs hi st) tr s s' h hr

theorem inv_run {c : Cfg} (hs : SeqHyp c) {s : St} {tr : List Ev}
    (hr : run c (St.init c) tr = .ok s) : Inv c s :=
  inv_run_from hs (inv_init hs) hr

/-! ## counters only grow -/

structure Le (s s' : St) : Prop where
  nAcc : s.nAcc ≤ s'.nAcc
  drained : s.drained ≤ s'.drained
  fatal : s.fatal ≤ s'.fatal
  gaveUp : s.gaveUp ≤ s'.gaveUp
  seqErrs : s.seqErrs ≤ s'.seqErrs

theorem Le.refl (s : St) : Le s s := ⟨Nat.le_refl _, Nat.le_refl _, Nat.le_refl _, Nat.le_refl _, Nat.le_refl _⟩

theorem Le.trans {a b d : St} (h1 : Le a b) (h2 : Le b d) : Le a d :=
  ⟨Nat.le_trans h1.nAcc h2.nAcc, Nat.le_trans h1.drained h2.drained, Nat.le_trans h1.fatal h2.fatal,
   Nat.le_trans h1.gaveUp h2.gaveUp, Nat.le_trans h1.seqErrs h2.seqErrs⟩

theorem step_le {c : Cfg} {s s' : St} {e : Ev} (st : Step c s e s') : Le s s' := by
  cases st <;> (constructor <;> simp)

theorem run_le {c : Cfg} : ∀ (tr : List Ev) (s s' : St), run c s tr = .ok s' → Le s s' := by
  intro tr
  induction tr with
  | nil => intro s s' h; injection h with h; subst h; exact Le.refl s
  | cons e es ih =>
    intro s s' h
    obtain ⟨s1, h1, h2⟩ := run_cons_ok h
    exact (step_le (step_sound h1)).trans (ih s1 s' h2)

/-! ## lemmas about whole histories (used by Props/C01, Props/C02) -/

def isSend : Ev → Bool
  | .send .. => true
  | _ => false

def isDone : Ev → Bool
  | .done _ => true
  | _ => false

theorem flying_stays {c : Cfg} {s s' : St} {e : Ev} (st : Step c s e s') (a : Applied)
    (hp : s.phase = .flying a) (hd : isDone e = false) : ∃ a', s'.phase = .flying a' := by
  cases st with
  | acc t i u hord => exact ⟨a, hp⟩
  | retry pid ep b hp' hc hst => rw [hp] at hp'; cases hp'
  | fresh pid ep seq ids hp' hne hpre hst hseq => rw [hp] at hp'; cases hp'
  | applySeqErr b seq code off ats h0 hp' hc hi hseq hcode hchk => exact ⟨_, rfl⟩
  | applyErr b seq code off ats h0 hp' hc hcode => exact ⟨_, rfl⟩
  | applyAppendIdem b seq o ats h0 hp' hc hi hseq hchk => exact ⟨_, rfl⟩
  | applyDupIdem b seq e ats h0 hp' hc hi hseq hchk hrecs hcount => exact ⟨_, rfl⟩
  | applyAppendPlain b seq ats h0 hp' hc hi => exact ⟨_, rfl⟩
  | doneNoack a' b hp' hc h0 => cases hd
  | doneExc a' b hp' hc => cases hd
  | doneOk b fs info off ts hp' hc h0 hdec hcode hoff hts => cases hd
  | doneRetriable b fs info code hp' hc h0 hdec hcode hne h46 hr => cases hd
  | doneFatal b fs info code hp' hc h0 hdec hcode hne h46 hr => cases hd
  | resolvedDue id r due' hu hd' => exact ⟨a, hp⟩
  | giveUpRetry id b hu hd' hp' hc hin => rw [hp] at hp'; cases hp'
  | giveUpIdle p rest hu hd' hp' hc hpend => rw [hp] at hp'; cases hp'
  | waitCall k hk => exact ⟨a, hp⟩
  | waitRet k m hm hall => exact ⟨a, hp⟩
  | marker => exact ⟨a, hp⟩

theorem flying_run {c : Cfg} : ∀ (mid : List Ev) (s s' : St) (a : Applied), s.phase = .flying a →
    run c s mid = .ok s' → (∀ e ∈ mid, isDone e = false) → ∃ a', s'.phase = .flying a' := by
  intro mid
  induction mid with
  | nil => intro s s' a hp h _; injection h with h; subst h; exact ⟨a, hp⟩
  | cons e es ih =>
    intro s s' a hp h hnd
    obtain ⟨s1, h1, h2⟩ := run_cons_ok h
    obtain ⟨a1, hp1⟩ := flying_stays (step_sound h1) a hp (hnd e List.mem_cons_self)
    exact ih s1 s' a1 hp1 h2 (fun x hx => hnd x (List.mem_cons_of_mem _ hx))

theorem expandR_sublist_firstsR : ∀ (blog : List (List Nat × Nat)), (∀ e ∈ blog, e.2 ≤ 1) →
    (expandR blog).Sublist (firstsR blog) := by
  intro blog
  induction blog with
  | nil => intro _; exact List.Sublist.refl _
  | cons x r ih =>
    intro h
    obtain ⟨b, k⟩ := x
    have hk : k ≤ 1 := h (b, k) List.mem_cons_self
    have hr := ih (fun e he => h e (List.mem_cons_of_mem _ he))
    simp only [expandR, firstsR]
    refine List.Sublist.append hr ?_
    match k, hk with
    | 0, _ => simp [rep]
    | 1, _ => simp [rep]

/-- base sequences of all produce requests in a history stay inside Kafka's range, as long as the
    code's increment agrees with Kafka's (`SeqOK`) -/
theorem seq_range_from {c : Cfg} (hs : SeqHyp c) (hidem : c.idem = true) :
    ∀ (tr : List Ev) (s s' : St), Inv c s → run c s tr = .ok s' → SeqOK c s'.drained →
      ∀ pid ep q ids, Ev.send pid ep q ids ∈ tr → 0 ≤ q ∧ q < M31 := by
  intro tr
  induction tr with
  | nil => intro s s' _ _ _ pid ep q ids hm; cases hm
  | cons e es ih =>
    intro s s' hi h hok pid ep q ids hm
    obtain ⟨s1, h1, h2⟩ := run_cons_ok h
    have st := step_sound h1
    have hle1 := step_le st
    have hle2 := run_le es s1 s' h2
    rcases List.mem_cons.mp hm with hm | hm
    · subst hm
      have hoks : SeqOK c s.drained := hok.mono (Nat.le_trans hle1.drained hle2.drained)
      cases st with
      | retry _ _ b hp hc hst =>
        obtain ⟨_, hb⟩ := hi.i7.curSeq hidem b hc hoks
        rw [hb]
        exact seqAt_range hs (hoks.mono (Nat.sub_le _ _))
      | fresh _ _ _ _ hp hne hpre hst hseq =>
        rw [hseq hidem, hi.i7.next hidem hoks]
        exact seqAt_range hs hoks
    · exact ih s1 s' (inv_step hs hi st) h2 hok pid ep q ids hm

def isSeqRefusal : Ev → Bool
  | .apply _ _ (.err code) _ _ => code == 45 || code == 46
  | _ => false

theorem seqErrs_counts {c : Cfg} (hidem : c.idem = true) :
    ∀ (tr : List Ev) (s s' : St), run c s tr = .ok s' → s'.seqErrs = 0 →
      ∀ e ∈ tr, isSeqRefusal e = false := by
  intro tr
  induction tr with
  | nil => intro s s' _ _ e he; cases he
  | cons e es ih =>
    intro s s' h h0 x hx
    obtain ⟨s1, h1, h2⟩ := run_cons_ok h
    have st := step_sound h1
    have hle2 := run_le es s1 s' h2
    rcases List.mem_cons.mp hx with hx | hx
    · subst hx
      cases st with
      | applySeqErr b seq code off ats =>
        have h3 : s.seqErrs + 1 ≤ s'.seqErrs := hle2.seqErrs
        omega
      | applyErr b seq code off ats h0' hp hc hcode =>
        have := hcode hidem
        simp only [isSeqRefusal, Bool.or_eq_false_iff, beq_eq_false_iff_ne]
        exact ⟨fun hx => this (Or.inl hx), fun hx => this (Or.inr hx)⟩
      | _ => rfl
    · exact ih s1 s' h2 h0 x hx

/-- meaning of the ghost counter `fatal`: it is zero when every reply seen carried no error or a
    retriable one -/
theorem fatal_zero_of_retriable {c : Cfg} :
    ∀ (tr : List Ev) (s s' : St), run c s tr = .ok s' → s.fatal = 0 →
      (∀ fs info, Ev.done (.fields fs) ∈ tr → decodeInfo c.version fs = some info →
        info.code = 0 ∨ retriable info.code = true) → s'.fatal = 0 := by
  intro tr
  induction tr with
  | nil => intro s s' h h0 _; injection h with h; subst h; exact h0
  | cons e es ih =>
    intro s s' h h0 hall
    obtain ⟨s1, h1, h2⟩ := run_cons_ok h
    have st := step_sound h1
    refine ih s1 s' h2 ?_ (fun fs info hm => hall fs info (List.mem_cons_of_mem _ hm))
    cases st with
    | doneFatal b fs info code hp hc h0' hdec hcode hne h46 hr =>
      exfalso
      rcases hall fs info List.mem_cons_self hdec with hx | hx
      · exact hne (hcode ▸ hx)
      · rw [hcode, hr] at hx; cases hx
    | _ => exact h0

def isAcc : Ev → Bool
  | .acc .. => true
  | _ => false

def accCount (tr : List Ev) : Nat := (tr.filter isAcc).length

theorem run_nAcc {c : Cfg} : ∀ (tr : List Ev) (s s' : St), run c s tr = .ok s' →
    s'.nAcc = s.nAcc + accCount tr := by
  intro tr
  induction tr with
  | nil => intro s s' h; injection h with h; subst h; simp [accCount]
  | cons e es ih =>
    intro s s' h
    obtain ⟨s1, h1, h2⟩ := run_cons_ok h
    rw [ih s1 s' h2]
    cases step_sound h1 <;> simp [accCount, isAcc, List.filter] <;> omega

theorem marks_mono {c : Cfg} {s s' : St} {e : Ev} (st : Step c s e s') : ∀ m ∈ s.marks, m ∈ s'.marks := by
  cases st <;> intro m hm <;> first | exact hm | exact List.mem_cons_of_mem _ hm

theorem run_marks_mono {c : Cfg} : ∀ (tr : List Ev) (s s' : St), run c s tr = .ok s' →
    ∀ m ∈ s.marks, m ∈ s'.marks := by
  intro tr
  induction tr with
  | nil => intro s s' h m hm; injection h with h; subst h; exact hm
  | cons e es ih =>
    intro s s' h m hm
    obtain ⟨s1, h1, h2⟩ := run_cons_ok h
    exact ih s1 s' h2 m (marks_mono (step_sound h1) m hm)

theorem find_mark : ∀ (marks : List (Nat × Nat)) (k v : Nat), (marks.map (·.1)).Nodup →
    (k, v) ∈ marks → marks.find? (fun m => m.1 == k) = some (k, v) := by
  intro marks
  induction marks with
  | nil => intro k v _ h; cases h
  | cons m ms ih =>
    intro k v hn hm
    simp only [List.map_cons, List.nodup_cons] at hn
    rcases List.mem_cons.mp hm with rfl | hm
    · simp [List.find?]
    · have hne : m.1 ≠ k := by
        intro he
        exact hn.1 (by rw [he]; exact List.mem_map.mpr ⟨(k, v), hm, rfl⟩)
      have hb : (m.1 == k) = false := by simpa using hne
      simp only [List.find?, hb]
      exact ih k v hn.2 hm

/-- `s.resolved` is the list of the `resolved` events of the history (newest first) -/
def resolvedOf : List Ev → List (Nat × Res)
  | [] => []
  | .resolved id r :: es => resolvedOf es ++ [(id, r)]
  | _ :: es => resolvedOf es

theorem resolved_meaning {c : Cfg} : ∀ (tr : List Ev) (s s' : St), run c s tr = .ok s' →
    s'.resolved = resolvedOf tr ++ s.resolved := by
  intro tr
  induction tr with
  | nil => intro s s' h; injection h with h; subst h; simp [resolvedOf]
  | cons e es ih =>
    intro s s' h
    obtain ⟨s1, h1, h2⟩ := run_cons_ok h
    rw [ih s1 s' h2]
    cases step_sound h1 <;> simp [resolvedOf]

/-! ## one quiet round -/

/-- the reply of a broker that appended the batch at `off` on a CreateTime topic -/
def replyFields (v : Nat) (off : Int) : List Int :=
  if v < 2 then [0, 0, off] else if v ≤ 4 then [0, 0, off, -1] else [0, 0, off, -1, 0]

theorem decode_replyFields (v : Nat) (off : Int) :
    ∃ info, decodeInfo v (replyFields v off) = some info ∧ info.code = 0 ∧ info.off = off ∧ info.ts = -1 := by
  unfold replyFields decodeInfo
  by_cases h1 : v < 2
  · simp [h1]
  · by_cases h2 : v ≤ 4
    · simp [h1, h2]
    · simp [h1, h2]

def resolveEvents (xs : List (Nat × Res)) : List Ev := xs.map (fun x => Ev.resolved x.1 x.2)

/-- one quiet round for the queue of the partition: the sender drains it as one batch, the broker
    (leader known, CreateTime topic) appends it and replies, the results reach the futures -/
def quietRound (c : Cfg) (s : St) : List Ev :=
  let ids := s.pending.map (·.id)
  let seq : Int := if c.idem then s.nextSeq else 0
  let pid : Int := if c.idem then c.pid else -1
  let ep : Int := if c.idem then c.epoch else -1
  let off : Int := s.br.log.length
  [Ev.send pid ep seq ids, Ev.apply seq ids.length .append off (-1),
   Ev.done (.fields (replyFields c.version off))]
  ++ resolveEvents (doneDue { recs := s.pending, seq := seq } off (-1))

theorem eraseDue_head (id : Nat) (r : Res) (xs : List (Nat × Res)) :
    eraseDue id r ((id, r) :: xs) = some xs := by
  simp [eraseDue]

/-- results that are due and whose futures are pending can be delivered one after the other -/
theorem resolve_all {c : Cfg} : ∀ (xs : List (Nat × Res)) (s : St), s.due = xs →
    (∀ x ∈ xs, x.1 ∈ s.unres) → (xs.map (·.1)).Nodup →
    ∃ s', run c s (resolveEvents xs) = .ok s' ∧ s'.due = [] ∧ s'.pending = s.pending ∧
      s'.phase = s.phase ∧ s'.cur = s.cur ∧ s'.nAcc = s.nAcc ∧
      (∀ x ∈ xs, x ∈ s'.resolved) := by
  intro xs
  induction xs with
  | nil =>
    intro s hd _ _
    exact ⟨s, rfl, hd, rfl, rfl, rfl, rfl, fun x hx => by cases hx⟩
  | cons x rest ih =>
    intro s hd hu hn
    obtain ⟨id, r⟩ := x
    have hin : id ∈ s.unres := hu (id, r) List.mem_cons_self
    simp only [List.map_cons, List.nodup_cons] at hn
    have hstep : step c s (Ev.resolved id r)
        = .ok { s with due := rest, unres := s.unres.erase id, resolved := (id, r) :: s.resolved } := by
      simp only [step, onResolved, List.contains_eq_mem, hin, decide_true, Bool.not_true,
        Bool.false_eq_true, if_false, hd, eraseDue_head]
    obtain ⟨s', hr, h1, h2, h3, h4, h5, h6⟩ :=
      ih { s with due := rest, unres := s.unres.erase id, resolved := (id, r) :: s.resolved } rfl
        (by
          intro y hy
          have hne : y.1 ≠ id := by
            intro he
            exact hn.1 (he ▸ List.mem_map.mpr ⟨y, hy, rfl⟩)
          exact (List.mem_erase_of_ne hne).mpr (hu y (List.mem_cons_of_mem _ hy)))
        hn.2
    refine ⟨s', ?_, h1, h2, h3, h4, h5, ?_⟩
    · show run c s (Ev.resolved id r :: resolveEvents rest) = .ok s'
      unfold run
      rw [hstep]
      exact hr
    · intro y hy
      rcases List.mem_cons.mp hy with rfl | hy
      · have hmono : ∀ (tr : List Ev) (a b : St), run c a tr = .ok b → ∀ z ∈ a.resolved, z ∈ b.resolved := by
          intro tr a b hab z hz
          rw [resolved_meaning tr a b hab]
          exact List.mem_append_right _ hz
        exact hmono _ _ _ hr _ List.mem_cons_self
      · exact h6 y hy

theorem quiet_send {c : Cfg} {s : St} (hidle : s.phase = .idle) (hne : s.pending ≠ []) :
    step c s (Ev.send (if c.idem then c.pid else -1) (if c.idem then c.epoch else -1)
        (if c.idem then s.nextSeq else 0) (s.pending.map (·.id)))
      = .ok { s with pending := [],
                     cur := some { recs := s.pending, seq := if c.idem then s.nextSeq else 0 },
                     phase := .flying .no,
                     nextSeq := if c.idem then incr c.wrapFix s.nextSeq s.pending.length else s.nextSeq,
                     drained := s.drained + s.pending.length,
                     blog := (s.pending.map (·.id), 0) :: s.blog } := by
  have h1 : s.pending.map (·.id) ≠ [] := by simpa using hne
  have h2 : (s.pending.take (s.pending.map (·.id)).length).map (·.id) = s.pending.map (·.id) := by
    simp
  have h3 : stampOK c (if c.idem then c.pid else -1) (if c.idem then c.epoch else -1) = true := by
    unfold stampOK; cases c.idem <;> simp
  simp only [step, onSend, hidle, h1, if_false, h2, ne_eq, not_true_eq_false, h3, Bool.true_and]
  cases hi : c.idem <;> simp

theorem quiet_apply {c : Cfg} {s : St} (b : Batch) (hacks : c.acks0 = false) (hp : s.phase = .flying .no)
    (hc : s.cur = some b)
    (hbroker : c.idem = true → s.br.check b.seq b.recs.length = .append s.br.log.length) :
    step c s (Ev.apply b.seq b.recs.length .append s.br.log.length (-1))
      = .ok { s with br := if c.idem then s.br.appendIdem b (-1) else s.br.appendPlain b (-1),
                     phase := .flying (.ok s.br.log.length (-1)), blog := bump s.blog } := by
  cases hi : c.idem with
  | true =>
    simp only [step, onApply, hacks, Bool.false_eq_true, if_false, hp, hc, ne_eq, not_true_eq_false,
      hi, true_and, or_self, if_true, hbroker hi]
  | false =>
    simp only [step, onApply, hacks, Bool.false_eq_true, if_false, hp, hc, ne_eq, not_true_eq_false,
      hi, false_and, or_self, if_true]

theorem quiet_done {c : Cfg} {s : St} (b : Batch) (off : Nat) (hacks : c.acks0 = false)
    (hp : s.phase = .flying (.ok off (-1))) (hc : s.cur = some b) :
    step c s (Ev.done (.fields (replyFields c.version off)))
      = .ok { s with cur := none, phase := .idle, due := s.due ++ doneDue b off (-1) } := by
  obtain ⟨info, hd, h1, h2, h3⟩ := decode_replyFields c.version off
  simp only [step, onDone, hp, hc, hacks, Bool.false_eq_true, if_false, hd, h1, h2, h3, ne_eq,
    not_true_eq_false, or_self]

theorem doneDue_ids (b : Batch) (off ts : Int) : (doneDue b off ts).map (·.1) = b.ids := by
  simp only [doneDue, List.map_map, Batch.ids]
  have : ((fun x : Nat × Res => x.1) ∘ fun x : Rec × Nat =>
      (x.1.id, Res.ok (off + ↑x.2) (if ts = -1 then x.1.uts else ts) (tsType ts)))
      = (fun r : Rec => r.id) ∘ Prod.fst := by
    funext x; rfl
  rw [this, ← List.map_map, List.zipIdx_map_fst]

/-- from a quiescent idle state of a reachable history the quiet round is accepted and leaves
    nothing pending: every record of the queue gets its result -/
theorem quiet_round_accepted {c : Cfg} {s : St} (hi : Inv c s) (hacks : c.acks0 = false)
    (hidle : s.phase = .idle) (hdue : s.due = []) (hne : s.pending ≠ [])
    (hbroker : c.idem = true → s.br.check s.nextSeq s.pending.length = .append s.br.log.length) :
    ∃ s', run c s (quietRound c s) = .ok s' ∧ s'.pending = [] ∧ s'.phase = .idle ∧ s'.due = [] ∧
      s'.nAcc = s.nAcc ∧ ∀ r ∈ s.pending, ∃ o t k, (r.id, Res.ok o t k) ∈ s'.resolved := by
  let b : Batch := { recs := s.pending, seq := if c.idem then s.nextSeq else 0 }
  let s1 : St := { s with pending := [], cur := some b, phase := .flying .no,
                          nextSeq := if c.idem then incr c.wrapFix s.nextSeq s.pending.length else s.nextSeq,
                          drained := s.drained + s.pending.length,
                          blog := (s.pending.map (·.id), 0) :: s.blog }
  let s2 : St := { s1 with br := if c.idem then s1.br.appendIdem b (-1) else s1.br.appendPlain b (-1),
                           phase := .flying (.ok s1.br.log.length (-1)), blog := bump s1.blog }
  let s3 : St := { s2 with cur := none, phase := .idle, due := s2.due ++ doneDue b s.br.log.length (-1) }
  have e1 : step c s (Ev.send (if c.idem then c.pid else -1) (if c.idem then c.epoch else -1)
      (if c.idem then s.nextSeq else 0) (s.pending.map (·.id))) = .ok s1 := quiet_send hidle hne
  have e2 : step c s1 (Ev.apply b.seq b.recs.length .append s1.br.log.length (-1)) = .ok s2 :=
    quiet_apply b hacks rfl rfl (by
      intro hidem
      show s.br.check (if c.idem then s.nextSeq else 0) s.pending.length = .append s.br.log.length
      rw [hidem]; exact hbroker hidem)
  have e3 : step c s2 (Ev.done (.fields (replyFields c.version s.br.log.length))) = .ok s3 :=
    quiet_done b s.br.log.length hacks rfl rfl
  have hnd : (s.pending.map (·.id)).Nodup :=
    (List.nodup_append.mp (firsts_pending_disjoint hi.i1 hi.i2)).2.1
  obtain ⟨s', hr, h1, h2, h3, _, h5, h6⟩ :=
    resolve_all (c := c) (doneDue b s.br.log.length (-1)) s3
      (by show s.due ++ doneDue b s.br.log.length (-1) = _; rw [hdue]; rfl)
      (by
        intro x hx
        have := mem_doneDue_id hx
        simp only [Batch.ids, List.mem_map] at this
        obtain ⟨r, hr, he⟩ := this
        show x.1 ∈ s.unres
        rw [← he]; exact hi.i9.pendUnres r hr)
      (by rw [doneDue_ids]; exact hnd)
  refine ⟨s', ?_, h2, h3, h1, h5, ?_⟩
  · show run c s ([_, _, _] ++ _) = .ok s'
    refine run_append_intro (s1 := s3) ?_ hr
    have e2' : step c s1 (Ev.apply (if c.idem then s.nextSeq else 0) (s.pending.map (·.id)).length
        .append (s.br.log.length : Int) (-1)) = .ok s2 := by
      rw [List.length_map]; exact e2
    simp only [run, e1, e2', e3]
  · intro r hr'
    have : r.id ∈ (doneDue b s.br.log.length (-1)).map (·.1) := by
      rw [doneDue_ids]; exact List.mem_map.mpr ⟨r, hr', rfl⟩
    obtain ⟨x, hx, he⟩ := List.mem_map.mp this
    obtain ⟨o, t, k, hk⟩ := mem_doneDue_ok hx
    refine ⟨o, t, k, ?_⟩
    have := h6 x hx
    obtain ⟨x1, x2⟩ := x
    simp only at he hk
    subst he; subst hk
    exact this

/-- when does the broker take the next batch?  in a state reached under retriable faults only,
    with no batch given up and the counter in step with Kafka's rule, the next batch is in
    sequence; it is appended unless its sequence numbers hit the duplicate cache -/
theorem broker_ready {c : Cfg} {s : St} (hi : Inv c s) (hidem : c.idem = true) (hacks : c.acks0 = false)
    (hidle : s.phase = .idle) (hf : s.fatal = 0) (hg : s.gaveUp = 0) (hok : SeqOK c s.drained)
    (hcache : s.br.recent.find?
      (seqMatch s.nextSeq (seqAdd s.nextSeq (s.pending.length - 1))) = none) :
    s.br.check s.nextSeq s.pending.length = .append s.br.log.length := by
  have hcn : s.cur = none := hi.i1.phaseCur.mp hidle
  obtain ⟨_, he, _⟩ := hi.i7.sync hidem hacks hf hg hok
  have he := he hcn
  unfold Broker.check
  cases hl : s.br.lastSeq with
  | none =>
    have : s.nextSeq = 0 := by rw [← he]; simp [Broker.expected, hl]
    simp [this]
  | some l =>
    simp only [hcache, he, if_true]

end AkVerif.Producer
