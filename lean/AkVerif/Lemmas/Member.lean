import AkVerif.Model.Member
import AkVerif.Lemmas.GroupTrace
/-! invariants of the C05 acceptor (`Model/Member.lean`), indexed by the history that led to a state -/
namespace AkVerif.Group.Member
open AkVerif.Group

@[simp] theorem setMem_mem (s : St) (m : Nat) (x : Mem) (i : Nat) :
    (s.setMem m x).mem i = if i = m then x else s.mem i := rfl
@[simp] theorem setMem_gens (s : St) (m : Nat) (x : Mem) : (s.setMem m x).gens = s.gens := rfl
@[simp] theorem setMem_curGen (s : St) (m : Nat) (x : Mem) : (s.setMem m x).curGen = s.curGen := rfl
@[simp] theorem setGen_mem (s : St) (g : Nat) (x : Gen) : (s.setGen g x).mem = s.mem := rfl
@[simp] theorem setGen_gens (s : St) (g : Nat) (x : Gen) (i : Nat) :
    (s.setGen g x).gens i = if i = g then some x else s.gens i := rfl
@[simp] theorem setGen_curGen (s : St) (g : Nat) (x : Gen) : (s.setGen g x).curGen = s.curGen := rfl

theorem step_some {s s' : St} {e : Ev} (h : step s e = some s') : guard s e = true ∧ s' = post s e := by
  unfold step at h
  split at h
  · rename_i hg; simp at h; exact ⟨hg, h.symm⟩
  · simp at h

/-! ## event classes -/

/-- events that close or re-open the delivery gate of `m` -/
def gateB (m : Nat) (e : Ev) : Bool := isAsg m e || isSub m e || isRevS m e || isLeave m e
/-- events after which `m`'s last revoke no longer counts: an adoption or a new revoke callback -/
def prepB (m : Nat) (e : Ev) : Bool := isAsg m e || isRevS m e

/-- the fetch reply `(p, lo, hi)` and the request it answers both lie in `m`'s current epoch -/
def FetchedIn (m p lo hi : Nat) (pre : List Ev) : Prop :=
  ∃ a b, pre = a ++ .fR m p lo hi :: b ∧ (∀ e ∈ b, epochB m e = false) ∧
    Since (· = .fS m p lo) (epochB m) a

theorem FetchedIn.snoc {m p lo hi : Nat} {pre : List Ev} {e : Ev} (h : FetchedIn m p lo hi pre)
    (hb : epochB m e = false) : FetchedIn m p lo hi (pre ++ [e]) := by
  obtain ⟨a, b, rfl, hB, hs⟩ := h
  refine ⟨a, b ++ [e], by simp, ?_, hs⟩
  intro e' he'
  rcases List.mem_append.1 he' with h1 | h1
  · exact hB e' h1
  · simp at h1; subst h1; exact hb

structure Inv (pre : List Ev) (s : St) : Prop where
  gate : ∀ m, (s.mem m).gate = true → ∃ g, Since (· = .asgS m g (s.mem m).cur) (gateB m) pre
  prep : ∀ m, (s.mem m).prepared = true → Since (· = .revE m) (prepB m) pre
  wait : ∀ m, (s.mem m).waiting = true →
    (s.mem m).prepared = true ∧ (s.mem m).synced = none ∧ (s.mem m).joinGen = none ∧
    .joinS m (s.mem m).joinTopics true ∈ pre
  synced : ∀ m g tps, (s.mem m).synced = some (g, tps) →
    ∃ G a, s.gens g = some G ∧ G.assign = some a ∧ lookupD a m = tps ∧ m ∈ G.members.map (·.1)
  gens : ∀ g G, s.gens g = some G →
    g ≤ s.curGen ∧ .genStart g G.members ∈ pre ∧ (∀ m t, (m, t) ∈ G.members → .joinS m t true ∈ pre) ∧
    ∀ a, G.assign = some a → .distribute g a ∈ pre ∧ validAssign G.members a = true
  gensT : ∀ g M, .genStart g M ∈ pre → ∃ G, s.gens g = some G ∧ G.members = M
  distT : ∀ g a, .distribute g a ∈ pre → ∃ G, s.gens g = some G ∧ G.assign = some a
  infl : ∀ m p f, (p, f) ∈ (s.mem m).inflight → Since (· = .fS m p f) (epochB m) pre
  fetched : ∀ m p lo hi, (p, lo, hi) ∈ (s.mem m).fetched → FetchedIn m p lo hi pre
  subch : ∀ m, (s.mem m).subChanged = true → .sub m ∈ pre
  cur : ∀ m, (s.mem m).cur ≠ [] → ∃ g, Since (· = .asgS m g (s.mem m).cur) (epochB m) pre
  inrev : ∀ m, Since (· = .revS m) (isRevE m) pre → (s.mem m).inCb = 1
  dead : ∀ m, (s.mem m).dead = true → .gone m ∈ pre
  subT : ∀ m t, (s.mem m).subTopics = some t → Since (· = .subT m t) (isSubT m) pre
  joined : ∀ m, (s.mem m).joined = true → .joinS m (s.mem m).joinTopics true ∈ pre

theorem inv_init : Inv [] St.init := by
  constructor <;> intros <;> (try simp_all [St.init])
  case inrev m h =>
    obtain ⟨a, x, b, hab, _⟩ := h
    simp at hab

/-! ## transition summaries: how one accepted event changes the fields an invariant talks about -/

theorem post_mem_self {s : St} {e : Ev} {m : Nat} (h : actor e = some m) :
    (post s e).mem m = upd (s.mem m) e := by
  simp [post, h]

theorem post_mem_other {s : St} {e : Ev} {m : Nat} (h : actor e ≠ some m) :
    (post s e).mem m = s.mem m := by
  unfold post
  cases ha : actor e with
  | none => cases e <;> simp [postG, actor] at * <;> (try split) <;> simp
  | some m0 =>
    have : m ≠ m0 := by rintro rfl; exact h ha
    simp [this]

theorem post_gens_actor {s : St} {e : Ev} {m : Nat} (h : actor e = some m) :
    (post s e).gens = s.gens ∧ (post s e).curGen = s.curGen := by
  simp [post, h]

theorem gateB_actor {e : Ev} {m : Nat} (h : actor e ≠ some m) : gateB m e = false := by
  cases e <;> simp_all [actor, gateB, isAsg, isSub, isRevS, isLeave]

theorem post_gate (s : St) (e : Ev) (m : Nat) :
    (∃ g tps, e = .asgS m g tps ∧ ((post s e).mem m).gate = true ∧ ((post s e).mem m).cur = tps) ∨
    ((post s e).mem m).gate = false ∨
    (gateB m e = false ∧ ((post s e).mem m).gate = (s.mem m).gate ∧
      ((post s e).mem m).cur = (s.mem m).cur) := by
  by_cases h : actor e = some m
  · rw [post_mem_self h]
    cases e <;> simp [actor] at h <;> subst h <;>
      simp [upd, gateB, isAsg, isSub, isRevS, isLeave] <;> (repeat' split) <;> simp_all
  · right; right
    exact ⟨gateB_actor h, by rw [post_mem_other h], by rw [post_mem_other h]⟩


theorem prepB_actor {e : Ev} {m : Nat} (h : actor e ≠ some m) : prepB m e = false := by
  cases e <;> simp_all [actor, prepB, isAsg, isRevS]

theorem epochB_actor {e : Ev} {m : Nat} (h : actor e ≠ some m) : epochB m e = false := by
  cases e <;> simp_all [actor, epochB, isAsg, isSub]

theorem post_prep (s : St) (e : Ev) (m : Nat) :
    (e = .revE m ∧ ((post s e).mem m).prepared = true) ∨
    ((post s e).mem m).prepared = false ∨
    (prepB m e = false ∧ ((post s e).mem m).prepared = (s.mem m).prepared) := by
  by_cases h : actor e = some m
  · rw [post_mem_self h]
    cases e <;> simp [actor] at h <;> subst h <;>
      simp [upd, prepB, isAsg, isRevS] <;> (repeat' split) <;> simp_all
  · right; right
    exact ⟨prepB_actor h, by rw [post_mem_other h]⟩

theorem post_infl (s : St) (e : Ev) (m p f : Nat) (h : (p, f) ∈ ((post s e).mem m).inflight) :
    e = .fS m p f ∨ (epochB m e = false ∧ (p, f) ∈ (s.mem m).inflight) := by
  by_cases ha : actor e = some m
  · rw [post_mem_self ha] at h
    cases e <;> simp [actor] at ha <;> subst ha <;>
      simp [upd, epochB, isAsg, isSub] at h ⊢ <;> (try split at h) <;> (try simp_all) <;>
      (try exact List.mem_of_mem_erase h)
    rcases h with ⟨rfl, rfl⟩ | h
    · exact Or.inl ⟨rfl, rfl⟩
    · exact Or.inr h
  · rw [post_mem_other ha] at h
    exact Or.inr ⟨epochB_actor ha, h⟩

theorem post_fetched (s : St) (e : Ev) (m p lo hi : Nat)
    (h : (p, lo, hi) ∈ ((post s e).mem m).fetched) :
    (e = .fR m p lo hi ∧ (p, lo) ∈ (s.mem m).inflight) ∨
    (epochB m e = false ∧ (p, lo, hi) ∈ (s.mem m).fetched) := by
  by_cases ha : actor e = some m
  · rw [post_mem_self ha] at h
    cases e <;> simp [actor] at ha <;> subst ha <;>
      simp [upd, epochB, isAsg, isSub] at h ⊢ <;> (try split at h) <;> (try simp_all)
    rcases h with ⟨rfl, rfl, rfl⟩ | h
    · exact Or.inl ⟨⟨rfl, rfl, rfl⟩, by assumption⟩
    · exact Or.inr h
  · rw [post_mem_other ha] at h
    exact Or.inr ⟨epochB_actor ha, h⟩

theorem post_cur (s : St) (e : Ev) (m : Nat) :
    (∃ g tps, e = .asgS m g tps ∧ ((post s e).mem m).cur = tps) ∨
    ((post s e).mem m).cur = [] ∨
    (epochB m e = false ∧ ((post s e).mem m).cur = (s.mem m).cur) := by
  by_cases h : actor e = some m
  · rw [post_mem_self h]
    cases e <;> simp [actor] at h <;> subst h <;>
      simp [upd, epochB, isAsg, isSub] <;> (repeat' split) <;> simp_all
  · right; right
    exact ⟨epochB_actor h, by rw [post_mem_other h]⟩

theorem post_subch (s : St) (e : Ev) (m : Nat) (h : ((post s e).mem m).subChanged = true) :
    e = .sub m ∨ (s.mem m).subChanged = true := by
  by_cases ha : actor e = some m
  · rw [post_mem_self ha] at h
    cases e <;> simp [actor] at ha <;> subst ha <;> simp [upd] at h ⊢ <;> (try split at h) <;> simp_all
  · rw [post_mem_other ha] at h
    exact Or.inr h


theorem step_wait {pre : List Ev} {s : St} {e : Ev} (I : Inv pre s) (hg : guard s e = true) (m : Nat)
    (hw : ((post s e).mem m).waiting = true) :
    ((post s e).mem m).prepared = true ∧ ((post s e).mem m).synced = none ∧
    ((post s e).mem m).joinGen = none ∧ .joinS m ((post s e).mem m).joinTopics true ∈ pre ++ [e] := by
  by_cases ha : actor e = some m
  · rw [post_mem_self ha] at hw ⊢
    cases e <;> simp [actor] at ha <;> subst ha
    case sub m =>
      simp [upd] at hw ⊢
      obtain ⟨h1, h2, h3, h4⟩ := I.wait m hw
      exact ⟨h1, h2, h3, by simp [h4]⟩
    case revS m =>
      simp [upd] at hw
      simp [guard] at hg
      have := (I.wait m hw).1
      simp [hg.2] at this
    case revE m =>
      simp [upd] at hw ⊢
      obtain ⟨_, h2, h3, h4⟩ := I.wait m hw
      exact ⟨h2, h3, by simp [h4]⟩
    case asgS m g tps =>
      simp [upd] at hw
      simp [guard] at hg
      have := (I.wait m hw).2.1
      simp [this] at hg
    case asgE m =>
      simp [upd] at hw ⊢
      obtain ⟨h1, h2, h3, h4⟩ := I.wait m hw
      exact ⟨h1, h2, h3, by simp [h4]⟩
    case gone m =>
      simp [upd] at hw ⊢
      obtain ⟨h1, h2, h3, h4⟩ := I.wait m hw
      exact ⟨h1, h2, h3, by simp [h4]⟩
    case subT m t =>
      simp [upd] at hw ⊢
      obtain ⟨h1, h2, h3, h4⟩ := I.wait m hw
      exact ⟨h1, h2, h3, by simp [h4]⟩
    case leaveR m =>
      simp [upd] at hw ⊢
      obtain ⟨h1, h2, h3, h4⟩ := I.wait m hw
      exact ⟨h1, h2, h3, by simp [h4]⟩
    case joinS m t pk =>
      simp [guard] at hg
      cases pk with
      | true => simp [upd, hg.1]
      | false =>
        simp [upd] at hw ⊢
        obtain ⟨h1, h2, h3, h4⟩ := I.wait m hw
        exact ⟨h1, h2, h3, by simp [h4]⟩
    case joinR m g => simp [upd] at hw
    case syncR m g tps =>
      simp [upd] at hw
      simp [guard] at hg
      have := (I.wait m hw).2.2.1
      split at hg
      · split at hg
        · simp [this] at hg
        · simp at hg
      · simp at hg
    case fS m p f =>
      simp [upd] at hw ⊢
      obtain ⟨h1, h2, h3, h4⟩ := I.wait m hw
      exact ⟨h1, h2, h3, by simp [h4]⟩
    case fR m p f hi =>
      have hw' : (s.mem m).waiting = true := by
        simp [upd] at hw; split at hw <;> simpa using hw
      obtain ⟨h1, h2, h3, h4⟩ := I.wait m hw'
      simp only [upd]
      split <;> exact ⟨h1, h2, h3, by simp [h4]⟩
  · rw [post_mem_other ha] at hw ⊢
    obtain ⟨h1, h2, h3, h4⟩ := I.wait m hw
    exact ⟨h1, h2, h3, List.mem_append_left _ h4⟩


theorem postG_other {s : St} {e : Ev} (h1 : ∀ g M, e ≠ .genStart g M) (h2 : ∀ g a, e ≠ .distribute g a) :
    postG s e = s := by
  cases e <;> simp_all [postG]

/-- a generation, once started, keeps its members, and keeps its assignment once it has one -/
theorem post_gens_keep {pre : List Ev} {s : St} {e : Ev} (I : Inv pre s) (hg : guard s e = true)
    (g : Nat) (G : Gen) (h : s.gens g = some G) :
    ∃ G', (post s e).gens g = some G' ∧ G'.members = G.members ∧
      (∀ a, G.assign = some a → G'.assign = some a) := by
  cases ha : actor e with
  | some m0 =>
    rw [(post_gens_actor ha).1]; exact ⟨G, h, rfl, fun _ x => x⟩
  | none =>
    simp only [post, ha]
    cases e <;> simp [actor] at ha
    case genStart g0 M =>
      simp [guard] at hg
      have hle := (I.gens g G h).1
      have : g ≠ g0 := by omega
      simp [postG, this, h]
    case distribute g0 a0 =>
      simp only [postG]
      by_cases hgg : g = g0
      · subst hgg
        simp [guard, h] at hg
        simp [h]
        intro a ha'
        simp [ha'] at hg
      · cases hs : s.gens g0 with
        | none => simp [h]
        | some G0 => simp [hgg, h]
    all_goals (simp [postG, h])

theorem step_synced {pre : List Ev} {s : St} {e : Ev} (I : Inv pre s) (hg : guard s e = true)
    (m g : Nat) (tps : List Nat) (h : ((post s e).mem m).synced = some (g, tps)) :
    ∃ G a, (post s e).gens g = some G ∧ G.assign = some a ∧ lookupD a m = tps ∧
      m ∈ G.members.map (·.1) := by
  have keep : (s.mem m).synced = some (g, tps) →
      ∃ G a, (post s e).gens g = some G ∧ G.assign = some a ∧ lookupD a m = tps ∧
        m ∈ G.members.map (·.1) := by
    intro h0
    obtain ⟨G, a, h1, h2, h3, h4⟩ := I.synced m g tps h0
    obtain ⟨G', k1, k2, k3⟩ := post_gens_keep I hg g G h1
    exact ⟨G', a, k1, k3 a h2, h3, by rw [k2]; exact h4⟩
  by_cases ha : actor e = some m
  · rw [post_mem_self ha] at h
    cases e <;> simp [actor] at ha <;> subst ha <;> simp [upd] at h
    case syncR m g' tps' =>
      obtain ⟨rfl, rfl⟩ := h
      simp [guard] at hg
      rw [(post_gens_actor (e := .syncR m g' tps') rfl).1]
      split at hg
      · rename_i G hG
        split at hg
        · rename_i a hA
          simp at hg
          exact ⟨G, a, hG, hA, hg.1.1, by simpa using hg.1.2⟩
        · simp at hg
      · simp at hg
    case joinS m t pk =>
      cases pk <;> simp at h
      exact keep h
    case fR m p f hi =>
      split at h <;> exact keep h
    all_goals (exact keep h)
  · rw [post_mem_other ha] at h
    exact keep h


theorem step_gens {pre : List Ev} {s : St} {e : Ev} (I : Inv pre s) (hg : guard s e = true)
    (g : Nat) (G : Gen) (h : (post s e).gens g = some G) :
    g ≤ (post s e).curGen ∧ .genStart g G.members ∈ pre ++ [e] ∧
    (∀ m t, (m, t) ∈ G.members → .joinS m t true ∈ pre ++ [e]) ∧
    ∀ a, G.assign = some a → .distribute g a ∈ pre ++ [e] ∧ validAssign G.members a = true := by
  have old : ∀ G0, s.gens g = some G0 →
      g ≤ s.curGen ∧ .genStart g G0.members ∈ pre ++ [e] ∧
      (∀ m t, (m, t) ∈ G0.members → .joinS m t true ∈ pre ++ [e]) ∧
      ∀ a, G0.assign = some a → .distribute g a ∈ pre ++ [e] ∧ validAssign G0.members a = true := by
    intro G0 h0
    obtain ⟨h1, h2, h3, h4⟩ := I.gens g G0 h0
    exact ⟨h1, List.mem_append_left _ h2, fun m t hm => List.mem_append_left _ (h3 m t hm),
      fun a ha => ⟨List.mem_append_left _ (h4 a ha).1, (h4 a ha).2⟩⟩
  cases ha : actor e with
  | some m0 =>
    rw [(post_gens_actor ha).1] at h
    rw [(post_gens_actor ha).2]
    exact old G h
  | none =>
    simp only [post, ha] at h ⊢
    cases e <;> simp [actor] at ha
    case genStart g0 M =>
      simp [guard] at hg
      simp only [postG] at h ⊢
      by_cases hgg : g = g0
      · subst hgg
        simp at h; subst h
        refine ⟨Nat.le_refl _, by simp, ?_, by simp⟩
        intro m t hm
        have := hg.2 m t hm
        have hw := (I.wait m this.1).2.2.2
        rw [this.2] at hw
        exact List.mem_append_left _ hw
      · simp [hgg] at h
        obtain ⟨h1, h2, h3, h4⟩ := old G h
        exact ⟨(by show g ≤ g0; have := hg.1; omega), h2, h3, h4⟩
    case distribute g0 a0 =>
      have hcur : (postG s (.distribute g0 a0)).curGen = s.curGen := by
        simp only [postG]; split <;> rfl
      rw [hcur]
      cases hs : s.gens g0 with
      | none =>
        have hp : postG s (.distribute g0 a0) = s := by simp [postG, hs]
        rw [hp] at h; exact old G h
      | some G0 =>
        have hp : (postG s (.distribute g0 a0)).gens g
            = if g = g0 then some { G0 with assign := some a0 } else s.gens g := by
          simp [postG, hs]
        rw [hp] at h
        by_cases hgg : g = g0
        · subst hgg
          simp at h; subst h
          obtain ⟨h1, h2, h3, _⟩ := old G0 hs
          refine ⟨h1, h2, h3, ?_⟩
          intro a ha'
          simp at ha'; subst ha'
          simp [guard, hs] at hg
          exact ⟨by simp, hg.2⟩
        · simp [hgg] at h
          exact old G h
    all_goals (simp only [postG] at h ⊢; exact old G h)

theorem step_gensT {pre : List Ev} {s : St} {e : Ev} (I : Inv pre s) (hg : guard s e = true)
    (g : Nat) (M : List (Nat × List Nat)) (h : .genStart g M ∈ pre ++ [e]) :
    ∃ G, (post s e).gens g = some G ∧ G.members = M := by
  rcases List.mem_append.1 h with h | h
  · obtain ⟨G, h1, h2⟩ := I.gensT g M h
    obtain ⟨G', k1, k2, _⟩ := post_gens_keep I hg g G h1
    exact ⟨G', k1, by rw [k2, h2]⟩
  · simp at h; subst h
    simp [post, actor, postG]

theorem step_distT {pre : List Ev} {s : St} {e : Ev} (I : Inv pre s) (hg : guard s e = true)
    (g : Nat) (a : List (Nat × List Nat)) (h : .distribute g a ∈ pre ++ [e]) :
    ∃ G, (post s e).gens g = some G ∧ G.assign = some a := by
  rcases List.mem_append.1 h with h | h
  · obtain ⟨G, h1, h2⟩ := I.distT g a h
    obtain ⟨G', k1, _, k3⟩ := post_gens_keep I hg g G h1
    exact ⟨G', k1, k3 a h2⟩
  · simp at h; subst h
    simp [guard] at hg
    split at hg
    · rename_i G hG
      simp [post, actor, postG, hG]
    · simp at hg

theorem step_inrev {pre : List Ev} {s : St} {e : Ev} (I : Inv pre s) (hg : guard s e = true) (m : Nat)
    (hs : Since (· = .revS m) (isRevE m) (pre ++ [e])) : ((post s e).mem m).inCb = 1 := by
  rcases hs.of_snoc with rfl | ⟨h0, hb⟩
  · simp [post, actor, upd]
  · have h1 := I.inrev m h0
    by_cases ha : actor e = some m
    · rw [post_mem_self ha]
      cases e <;> simp [actor] at ha <;> subst ha <;> simp [upd, isRevE] at hb ⊢ <;>
        (try simp [guard, h1] at hg) <;> (try split) <;> (try exact h1) <;>
        (try (split at hg <;> simp at hg))
    · rw [post_mem_other ha]; exact h1

theorem post_dead (s : St) (e : Ev) (m : Nat) (h : ((post s e).mem m).dead = true) :
    e = .gone m ∨ (s.mem m).dead = true := by
  by_cases ha : actor e = some m
  · rw [post_mem_self ha] at h
    cases e <;> simp [actor] at ha <;> subst ha <;> simp [upd] at h ⊢ <;> (try split at h) <;> simp_all
  · rw [post_mem_other ha] at h
    exact Or.inr h

theorem isSubT_actor {e : Ev} {m : Nat} (h : actor e ≠ some m) : isSubT m e = false := by
  cases e <;> simp_all [actor, isSubT]

theorem post_subT (s : St) (e : Ev) (m : Nat) (t : List Nat) (h : ((post s e).mem m).subTopics = some t) :
    e = .subT m t ∨ (isSubT m e = false ∧ (s.mem m).subTopics = some t) := by
  by_cases ha : actor e = some m
  · rw [post_mem_self ha] at h
    cases e <;> simp [actor] at ha <;> subst ha <;> simp [upd, isSubT] at h ⊢ <;> (try split at h) <;> simp_all
  · rw [post_mem_other ha] at h
    exact Or.inr ⟨isSubT_actor ha, h⟩

theorem post_joined (s : St) (e : Ev) (m : Nat) (h : ((post s e).mem m).joined = true) :
    e = .joinS m ((post s e).mem m).joinTopics true ∨
    ((s.mem m).joined = true ∧ ((post s e).mem m).joinTopics = (s.mem m).joinTopics) := by
  by_cases ha : actor e = some m
  · rw [post_mem_self ha] at h ⊢
    cases e <;> simp [actor] at ha <;> subst ha <;> simp [upd] at h ⊢ <;> (try split at h) <;>
      (try split) <;> simp_all
  · rw [post_mem_other ha] at h ⊢
    exact Or.inr ⟨h, rfl⟩

/-- every accepted event preserves the invariant -/
theorem inv_step {pre : List Ev} {s s' : St} {e : Ev} (I : Inv pre s) (h : step s e = some s') :
    Inv (pre ++ [e]) s' := by
  obtain ⟨hg, rfl⟩ := step_some h
  refine ⟨?_, ?_, step_wait I hg, step_synced I hg, step_gens I hg, step_gensT I hg, step_distT I hg,
    ?_, ?_, ?_, ?_, step_inrev I hg, ?_, ?_, ?_⟩
  · intro m hgate
    rcases post_gate s e m with ⟨g, tps, rfl, _, hc⟩ | hf | ⟨hb, hg', hc⟩
    · exact ⟨g, Since.new pre (by rw [hc])⟩
    · rw [hf] at hgate; cases hgate
    · rw [hg'] at hgate
      obtain ⟨g, hs⟩ := I.gate m hgate
      exact ⟨g, by rw [hc]; exact hs.snoc hb⟩
  · intro m hp
    rcases post_prep s e m with ⟨rfl, _⟩ | hf | ⟨hb, hp'⟩
    · exact Since.new pre rfl
    · rw [hf] at hp; cases hp
    · rw [hp'] at hp
      exact (I.prep m hp).snoc hb
  · intro m p f hin
    rcases post_infl s e m p f hin with rfl | ⟨hb, h0⟩
    · exact Since.new pre rfl
    · exact (I.infl m p f h0).snoc hb
  · intro m p lo hi hin
    rcases post_fetched s e m p lo hi hin with ⟨rfl, h0⟩ | ⟨hb, h0⟩
    · exact ⟨pre, [], by simp, by simp, I.infl m p lo h0⟩
    · exact (I.fetched m p lo hi h0).snoc hb
  · intro m hs
    rcases post_subch s e m hs with rfl | h0
    · simp
    · exact List.mem_append_left _ (I.subch m h0)
  · intro m hc
    rcases post_cur s e m with ⟨g, tps, rfl, hc'⟩ | hf | ⟨hb, hc'⟩
    · exact ⟨g, Since.new pre (by rw [hc'])⟩
    · exact absurd hf hc
    · rw [hc'] at hc
      obtain ⟨g, hs⟩ := I.cur m hc
      exact ⟨g, by rw [hc']; exact hs.snoc hb⟩
  · intro m hd
    rcases post_dead s e m hd with rfl | h0
    · simp
    · exact List.mem_append_left _ (I.dead m h0)
  · intro m t ht
    rcases post_subT s e m t ht with rfl | ⟨hb, h0⟩
    · exact Since.new pre rfl
    · exact (I.subT m t h0).snoc hb
  · intro m hj
    rcases post_joined s e m hj with he | ⟨h0, ht⟩
    · exact List.mem_append_right _ (by simp [← he])
    · rw [ht]; exact List.mem_append_left _ (I.joined m h0)

theorem inv_reach {pre : List Ev} {s : St} (h : Reach step St.init pre s) : Inv pre s := by
  induction h with
  | nil => exact inv_init
  | snoc _ hs ih => exact inv_step ih hs


/-! ## from an accepted history to the invariant -/

theorem reach_of_accepts {pre : List Ev} {e : Ev} {post : List Ev}
    (h : accepts (pre ++ e :: post) = true) :
    ∃ s, Reach step St.init pre s ∧ Inv pre s ∧ guard s e = true ∧
      Inv (pre ++ [e]) (Member.post s e) := by
  obtain ⟨s, s', r, hs, r'⟩ := accepted_split step St.init pre e post h
  obtain ⟨hg, rfl⟩ := step_some hs
  exact ⟨s, r, inv_reach r, hg, inv_reach r'⟩

theorem final_inv {tr : List Ev} (h : accepts tr = true) : ∃ s, Inv tr s := by
  unfold accepts run at h
  cases hr : runWith step St.init tr with
  | none => simp [hr] at h
  | some s => exact ⟨s, inv_reach (reach_of_run step St.init tr s hr)⟩

theorem flat_disjoint {a : List (Nat × List Nat)} (hk : (a.map (·.1)).Nodup)
    (hn : (a.flatMap (·.2)).Nodup)
    {m1 m2 : Nat} {v1 v2 : List Nat} {p : Nat} (h1 : (m1, v1) ∈ a) (h2 : (m2, v2) ∈ a)
    (hne : m1 ≠ m2) (hp1 : p ∈ v1) (hp2 : p ∈ v2) : False := by
  induction a with
  | nil => cases h1
  | cons kv r ih =>
    simp only [List.flatMap_cons, List.nodup_append] at hn
    simp only [List.map_cons, List.nodup_cons] at hk
    obtain ⟨_, hr, hd⟩ := hn
    rcases List.mem_cons.1 h1 with e1 | t1 <;> rcases List.mem_cons.1 h2 with e2 | t2
    · rw [← e1] at e2; cases e2; exact hne rfl
    · subst e1
      exact hd p hp1 p (List.mem_flatMap.2 ⟨(m2, v2), t2, hp2⟩) rfl
    · subst e2
      exact hd p hp2 p (List.mem_flatMap.2 ⟨(m1, v1), t1, hp1⟩) rfl
    · exact ih hk.2 hr t1 t2


end AkVerif.Group.Member
