import AkVerif.Lemmas.Wire
/-! the generic wire round trip (mutual induction over the schema type); stated as property theorem
    in `Props/C11.lean`, used by `Props/C15.lean` for the sticky user data -/
namespace AkVerif.Wire

mutual
/-- decoding what was encoded returns the original value and leaves the rest of the stream -/
theorem wireRoundtrip_core (t : Ty) (v : Val) (bs rest : Bytes) (h : encode t v = some bs) :
    decode t (bs ++ rest) = some (v, rest) := by
  cases t with
  | int8 =>
    rw [encode] at h; cases v <;> simp only [Val.asInt, Option.bind_none, Option.bind_some, reduceCtorEq] at h
    simp [decode, decInt_encInt 1 (by simp) _ _ rest h]
  | int16 =>
    rw [encode] at h; cases v <;> simp only [Val.asInt, Option.bind_none, Option.bind_some, reduceCtorEq] at h
    simp [decode, decInt_encInt 2 (by simp) _ _ rest h]
  | int32 =>
    rw [encode] at h; cases v <;> simp only [Val.asInt, Option.bind_none, Option.bind_some, reduceCtorEq] at h
    simp [decode, decInt_encInt 4 (by simp) _ _ rest h]
  | int64 =>
    rw [encode] at h; cases v <;> simp only [Val.asInt, Option.bind_none, Option.bind_some, reduceCtorEq] at h
    simp [decode, decInt_encInt 8 (by simp) _ _ rest h]
  | uint32 =>
    rw [encode] at h; cases v <;> simp only [Val.asInt, Option.bind_none, Option.bind_some, reduceCtorEq] at h
    simp [decode, decUInt_encUInt 4 _ _ rest h]
  | float64 =>
    rw [encode] at h; cases v <;> simp only [Val.asInt, Option.bind_none, Option.bind_some, reduceCtorEq] at h
    simp [decode, decUInt_encUInt 8 _ _ rest h]
  | bool =>
    rw [encode] at h
    cases v <;> simp only [Val.asBool, Option.map_none, Option.map_some, reduceCtorEq, Option.some.injEq] at h
    rename_i b; subst h
    cases b <;> simp [decode]
  | string =>
    rw [encode] at h; cases v <;> simp only [Val.asBytes, Option.bind_none, Option.bind_some, reduceCtorEq] at h
    simp [decode, decLenBytes_enc 2 (by simp) _ _ rest h]
  | bytes =>
    rw [encode] at h; cases v <;> simp only [Val.asBytes, Option.bind_none, Option.bind_some, reduceCtorEq] at h
    simp [decode, decLenBytes_enc 4 (by simp) _ _ rest h]
  | cstring =>
    rw [encode] at h; cases v <;> simp only [Val.asBytes, Option.bind_none, Option.bind_some, reduceCtorEq] at h
    simp [decode, decCompactBytes_enc _ _ rest h]
  | cbytes =>
    rw [encode] at h; cases v <;> simp only [Val.asBytes, Option.bind_none, Option.bind_some, reduceCtorEq] at h
    simp [decode, decCompactBytes_enc _ _ rest h]
  | uvarint =>
    rw [encode] at h; cases v <;> simp only [Val.asInt, Option.bind_none, Option.bind_some, reduceCtorEq] at h
    rename_i i
    unfold encUVarint at h
    split at h
    · rename_i hr
      injection h with h; subst h
      have hlt : i.toNat < 2 ^ 32 := by omega
      simp only [decode, decUV32_encUV _ hlt, Option.map_some]
      congr 3; omega
    · cases h
  | varint32 =>
    rw [encode] at h; cases v <;> simp only [Val.asInt, Option.bind_none, Option.bind_some, reduceCtorEq] at h
    rename_i i
    unfold encVarint32 at h
    split at h
    · rename_i hr
      injection h with h; subst h
      have hlt : zig i < 2 ^ 32 := zig_lt 31 i hr
      simp [decode, decUV32_encUV _ hlt, unzig_zig]
    · cases h
  | varint64 =>
    rw [encode] at h; cases v <;> simp only [Val.asInt, Option.bind_none, Option.bind_some, reduceCtorEq] at h
    rename_i i
    unfold encVarint64 at h
    split at h
    · rename_i hr
      injection h with h; subst h
      have hlt : zig i < 2 ^ 64 := zig_lt 63 i hr
      simp [decode, decUV64_encUV _ hlt, unzig_zig]
    · cases h
  | tagged =>
    rw [encode] at h; cases v <;> simp only [Val.asTagged, Option.bind_none, Option.bind_some, reduceCtorEq] at h
    simp [decode, decTagged_enc _ _ rest h]
  | array t =>
    rw [encode] at h
    cases v <;> simp only [Val.asList, reduceCtorEq] at h
    rename_i ovs
    cases ovs with
    | none =>
      simp only [encNull32] at h
      simp [decode, decInt_encInt 4 (by simp) _ _ rest h]
    | some vs =>
      simp only [encCount32] at h
      cases hh : encInt 4 (vs.length : Int) with
      | none => simp [hh] at h
      | some hd =>
        cases hb : encodeMany t vs with
        | none => simp [hh, hb] at h
        | some body =>
          simp only [hh, hb, Option.bind_some, Option.map_some, Option.some.injEq] at h; subst h
          have hne : ¬ ((vs.length : Int) = -1) := by omega
          simp only [decode, List.append_assoc, decInt_encInt 4 (by simp) _ _ _ hh, hne,
            if_false, Int.toNat_natCast]
          rw [rtMany_core t vs body rest hb]
  | carray t =>
    rw [encode] at h
    cases v <;> simp only [Val.asList, reduceCtorEq] at h
    rename_i ovs
    cases ovs with
    | none =>
      simp only [Option.some.injEq] at h; subst h
      simp [decode, decUV32_encUV 0 (by omega)]
    | some vs =>
      simp only at h
      split at h
      · rename_i hl
        cases hb : encodeMany t vs with
        | none => simp [hb] at h
        | some body =>
          simp only [hb, Option.map_some, Option.some.injEq] at h; subst h
          simp only [decode, List.append_assoc, decUV32_encUV _ hl, Nat.add_one_ne_zero,
            if_false, Nat.add_sub_cancel]
          rw [rtMany_core t vs body rest hb]
      · cases h
  | struct ts =>
    rw [encode] at h
    cases v <;> simp only [Val.asTuple, reduceCtorEq] at h
    rename_i vs
    simp only [decode]
    rw [rtFields_core ts vs bs rest h]

theorem rtMany_core (t : Ty) (vs : List Val) (bs rest : Bytes) (h : encodeMany t vs = some bs) :
    decodeMany t vs.length (bs ++ rest) = some (vs, rest) := by
  cases vs with
  | nil => simp only [encodeMany, Option.some.injEq] at h; subst h; simp [decodeMany]
  | cons v vs =>
    simp only [encodeMany] at h
    cases ha : encode t v with
    | none => simp [ha] at h
    | some a =>
      cases hb : encodeMany t vs with
      | none => simp [ha, hb] at h
      | some b =>
        simp only [ha, hb, Option.some.injEq] at h; subst h
        simp only [List.length_cons, decodeMany, List.append_assoc]
        rw [wireRoundtrip_core t v a (b ++ rest) ha]
        simp only
        rw [rtMany_core t vs b rest hb]

theorem rtFields_core (ts : List Ty) (vs : List Val) (bs rest : Bytes)
    (h : encodeFields ts vs = some bs) : decodeFields ts (bs ++ rest) = some (vs, rest) := by
  cases ts with
  | nil =>
    cases vs with
    | nil => simp only [encodeFields, Option.some.injEq] at h; subst h; simp [decodeFields]
    | cons _ _ => simp [encodeFields] at h
  | cons t ts =>
    cases vs with
    | nil => simp [encodeFields] at h
    | cons v vs =>
      simp only [encodeFields] at h
      cases ha : encode t v with
      | none => simp [ha] at h
      | some a =>
        cases hb : encodeFields ts vs with
        | none => simp [ha, hb] at h
        | some b =>
          simp only [ha, hb, Option.some.injEq] at h; subst h
          simp only [decodeFields, List.append_assoc]
          rw [wireRoundtrip_core t v a (b ++ rest) ha]
          simp only
          rw [rtFields_core ts vs b rest hb]
end

/-- structural equality of schema types (no `DecidableEq` for the nested inductive) -/
def tyEq : Ty → Ty → Bool
  | .int8, .int8 | .int16, .int16 | .int32, .int32 | .int64, .int64 | .uint32, .uint32
  | .float64, .float64 | .bool, .bool | .string, .string | .bytes, .bytes | .cstring, .cstring
  | .cbytes, .cbytes | .uvarint, .uvarint | .varint32, .varint32 | .varint64, .varint64
  | .tagged, .tagged => true
  | .array a, .array b => tyEq a b
  | .carray a, .carray b => tyEq a b
  | .struct as, .struct bs => tysEq as bs
  | _, _ => false
where tysEq : List Ty → List Ty → Bool
  | [], [] => true
  | a :: as, b :: bs => tyEq a b && tysEq as bs
  | _, _ => false

end AkVerif.Wire
