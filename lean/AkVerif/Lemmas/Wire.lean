import AkVerif.Model.Wire
/-! round-trip lemmas for the primitive codecs of `Model/Wire.lean` -/
namespace AkVerif.Wire

theorem takeN_append (a rest : Bytes) : takeN a.length (a ++ rest) = some (a, rest) := by
  unfold takeN
  simp

theorem beBytes_length (n u : Nat) : (beBytes n u).length = n := by
  induction n generalizing u with
  | zero => rfl
  | succ n ih => simp [beBytes, ih]

theorem beVal_append_singleton (l : Bytes) (b : Nat) : beVal (l ++ [b]) = beVal l * 256 + b := by
  simp [beVal, List.foldl_append]

theorem beVal_beBytes (n u : Nat) : beVal (beBytes n u) = u % 256 ^ n := by
  induction n generalizing u with
  | zero => simp [beBytes, beVal, Nat.mod_one]
  | succ n ih =>
    rw [beBytes, beVal_append_singleton, ih, Nat.pow_succ, Nat.mul_comm (256 ^ n) 256, Nat.mod_mul]
    omega

/-- every byte produced is a byte -/
theorem beBytes_lt (n u : Nat) : ∀ b ∈ beBytes n u, b < 256 := by
  induction n generalizing u with
  | zero => intro b hb; cases hb
  | succ n ih =>
    intro b hb
    rw [beBytes, List.mem_append] at hb
    rcases hb with hb | hb
    · exact ih _ b hb
    · simp at hb; omega

theorem decInt_beBytes (n : Nat) (u : Nat) (rest : Bytes) :
    decInt n (beBytes n u ++ rest)
      = some ((if u % 256 ^ n < 2 ^ (8 * n - 1) then ((u % 256 ^ n : Nat) : Int)
               else ((u % 256 ^ n : Nat) : Int) - (2 ^ (8 * n) : Int)), rest) := by
  unfold decInt
  have := takeN_append (beBytes n u) rest
  rw [beBytes_length] at this
  rw [this]
  simp only [beVal_beBytes]

theorem decInt_encInt1 (i : Int) (bs rest : Bytes) (h : encInt 1 i = some bs) :
    decInt 1 (bs ++ rest) = some (i, rest) := by
  unfold encInt at h
  split at h
  · rename_i hr
    injection h with h; subst h
    rw [decInt_beBytes]
    simp only [Nat.reduceMul, Nat.reduceSub, Nat.reducePow, Int.reducePow] at hr ⊢
    congr 2
    split <;> omega
  · cases h

theorem decInt_encInt2 (i : Int) (bs rest : Bytes) (h : encInt 2 i = some bs) :
    decInt 2 (bs ++ rest) = some (i, rest) := by
  unfold encInt at h
  split at h
  · rename_i hr
    injection h with h; subst h
    rw [decInt_beBytes]
    simp only [Nat.reduceMul, Nat.reduceSub, Nat.reducePow, Int.reducePow] at hr ⊢
    congr 2
    split <;> omega
  · cases h

theorem decInt_encInt4 (i : Int) (bs rest : Bytes) (h : encInt 4 i = some bs) :
    decInt 4 (bs ++ rest) = some (i, rest) := by
  unfold encInt at h
  split at h
  · rename_i hr
    injection h with h; subst h
    rw [decInt_beBytes]
    simp only [Nat.reduceMul, Nat.reduceSub, Nat.reducePow, Int.reducePow] at hr ⊢
    congr 2
    split <;> omega
  · cases h

theorem decInt_encInt8 (i : Int) (bs rest : Bytes) (h : encInt 8 i = some bs) :
    decInt 8 (bs ++ rest) = some (i, rest) := by
  unfold encInt at h
  split at h
  · rename_i hr
    injection h with h; subst h
    rw [decInt_beBytes]
    simp only [Nat.reduceMul, Nat.reduceSub, Nat.reducePow, Int.reducePow] at hr ⊢
    congr 2
    split <;> omega
  · cases h

theorem decUInt_encUInt (n : Nat) (i : Int) (bs rest : Bytes) (h : encUInt n i = some bs) :
    decUInt n (bs ++ rest) = some (i, rest) := by
  unfold encUInt at h
  split at h
  · rename_i hr
    injection h with h; subst h
    unfold decUInt
    have := takeN_append (beBytes n i.toNat) rest
    rw [beBytes_length] at this
    rw [this]
    simp only [beVal_beBytes]
    congr 2
    have hlt : i.toNat < 256 ^ n := by
      have : (256 : Nat) ^ n = 2 ^ (8 * n) := by
        rw [show (256 : Nat) = 2 ^ 8 by rfl, ← Nat.pow_mul]
      rw [this]
      have h2 : ((2 ^ (8 * n) : Nat) : Int) = (2 : Int) ^ (8 * n) := by simp
      omega
    rw [Nat.mod_eq_of_lt hlt]
    omega
  · cases h

/-! ### varints -/

theorem byte_facts : ∀ b : Fin 256,
    ((b.val &&& 0x80 = 0) ↔ b.val < 128) ∧ (b.val &&& 0x7F = b.val % 128) := by decide +kernel

theorem or_shift_eq_add (acc b i : Nat) (h : acc < 2 ^ i) : acc ||| (b <<< i) = acc + b * 2 ^ i := by
  rw [Nat.or_comm, ← Nat.shiftLeft_add_eq_or_of_lt h, Nat.shiftLeft_eq]; omega

theorem decUVAux_encUV (ms : Nat) (v : Nat) : ∀ (i acc : Nat) (rest : Bytes),
    acc < 2 ^ i → i ≤ ms → (ms - i) % 7 = 0 → v < 2 ^ (ms + 7 - i) →
    decUVAux ms i acc (encUV v ++ rest) = some (acc + v * 2 ^ i, rest) := by
  induction v using Nat.strongRecOn with
  | _ v ih =>
    intro i acc rest hacc hi hal hv
    rw [encUV]
    split
    · rename_i hlt
      have hb := (byte_facts ⟨v, by omega⟩).1
      simp only [List.cons_append, List.nil_append, decUVAux]
      simp only at hb
      rw [if_pos (hb.mpr hlt), or_shift_eq_add _ _ _ hacc]
    · rename_i hge
      have hb := byte_facts ⟨v % 128 + 128, by omega⟩
      simp only at hb
      have hne : ¬ ((v % 128 + 128) &&& 0x80 = 0) := by rw [hb.1]; omega
      have hlow : (v % 128 + 128) &&& 0x7F = v % 128 := by rw [hb.2]; omega
      simp only [List.cons_append, decUVAux]
      rw [if_neg hne, hlow, or_shift_eq_add _ _ _ hacc]
      have hpow : 2 ^ (ms + 7 - i) = 2 ^ (ms - i) * 128 := by
        have : ms + 7 - i = (ms - i) + 7 := by omega
        rw [this, Nat.pow_add]
      have him : i < ms := by
        rcases Nat.lt_or_ge i ms with h | h
        · exact h
        · have : ms - i = 0 := by omega
          rw [hpow, this] at hv; simp at hv; omega
      have hstep : ¬ (i + 7 > ms) := by omega
      rw [if_neg hstep]
      have hlt : v / 128 < v := by omega
      have hacc' : acc + v % 128 * 2 ^ i < 2 ^ (i + 7) := by
        rw [Nat.pow_add]
        have : v % 128 * 2 ^ i ≤ 127 * 2 ^ i := Nat.mul_le_mul_right _ (by omega)
        omega
      have hv' : v / 128 < 2 ^ (ms + 7 - (i + 7)) := by
        have : ms + 7 - (i + 7) = ms - i := by omega
        rw [this]
        rw [hpow] at hv
        exact Nat.div_lt_of_lt_mul (by rw [Nat.mul_comm]; exact hv)
      rw [ih (v / 128) hlt (i + 7) _ rest hacc' (by omega) (by omega) hv']
      congr 2
      rw [Nat.pow_add]
      have : v = 128 * (v / 128) + v % 128 := (Nat.div_add_mod v 128).symm
      generalize 2 ^ i = P at *
      calc acc + v % 128 * P + v / 128 * (P * 2 ^ 7)
          = acc + (128 * (v / 128) + v % 128) * P := by
            rw [Nat.add_mul]; simp only [Nat.reducePow]
            rw [Nat.mul_comm P 128, ← Nat.mul_assoc, Nat.mul_comm (v / 128) 128]; omega
        _ = acc + v * P := by rw [← this]

theorem decUV32_encUV (v : Nat) (hv : v < 2 ^ 32) (rest : Bytes) :
    decUV32 (encUV v ++ rest) = some (v, rest) := by
  unfold decUV32
  rw [decUVAux_encUV 28 v 0 0 rest (by simp) (by omega) (by omega)
    (by simp only [Nat.reduceAdd, Nat.reduceSub]; omega)]
  simp

theorem decUV64_encUV (v : Nat) (hv : v < 2 ^ 64) (rest : Bytes) :
    decUV64 (encUV v ++ rest) = some (v, rest) := by
  unfold decUV64
  rw [decUVAux_encUV 63 v 0 0 rest (by simp) (by omega) (by omega)
    (by simp only [Nat.reduceAdd, Nat.reduceSub]; omega)]
  simp

theorem unzig_zig (i : Int) : unzig (zig i) = i := by
  unfold zig unzig
  split <;> split <;> omega

theorem zig_lt (k : Nat) (i : Int) (h : -(2 ^ k : Int) ≤ i ∧ i < 2 ^ k) : zig i < 2 ^ (k + 1) := by
  unfold zig
  have hp : ((2 ^ (k + 1) : Nat) : Int) = 2 * 2 ^ k := by
    rw [Nat.pow_succ]; simp; omega
  split <;> omega

end AkVerif.Wire

namespace AkVerif.Wire

theorem decInt_encInt (n : Nat) (hn : n = 1 ∨ n = 2 ∨ n = 4 ∨ n = 8) (i : Int) (bs rest : Bytes)
    (h : encInt n i = some bs) : decInt n (bs ++ rest) = some (i, rest) := by
  rcases hn with rfl | rfl | rfl | rfl
  · exact decInt_encInt1 i bs rest h
  · exact decInt_encInt2 i bs rest h
  · exact decInt_encInt4 i bs rest h
  · exact decInt_encInt8 i bs rest h

theorem encInt_some_range (n : Nat) (i : Int) (bs : Bytes) (h : encInt n i = some bs) :
    -(2 ^ (8 * n - 1) : Int) ≤ i ∧ i < (2 ^ (8 * n - 1) : Int) := by
  unfold encInt at h
  split at h
  · assumption
  · cases h

theorem decLenBytes_enc (n : Nat) (hn : n = 1 ∨ n = 2 ∨ n = 4 ∨ n = 8) (ob : Option Bytes)
    (bs rest : Bytes) (h : encLenBytes n ob = some bs) :
    decLenBytes n (bs ++ rest) = some (ob, rest) := by
  unfold encLenBytes at h
  cases ob with
  | none =>
    simp only at h
    unfold decLenBytes
    rw [decInt_encInt n hn _ _ _ h]
    simp
  | some b =>
    simp only at h
    cases hh : encInt n (b.length : Int) with
    | none => simp [hh] at h
    | some hd =>
      simp only [hh, Option.map_some, Option.some.injEq] at h; subst h
      unfold decLenBytes
      rw [List.append_assoc, decInt_encInt n hn _ _ _ hh]
      have h1 : ¬ ((b.length : Int) < 0) := by omega
      simp [h1]

theorem decCompactBytes_enc (ob : Option Bytes) (bs rest : Bytes)
    (h : encCompactBytes ob = some bs) : decCompactBytes (bs ++ rest) = some (ob, rest) := by
  unfold encCompactBytes at h
  cases ob with
  | none =>
    simp only [Option.some.injEq] at h; subst h
    unfold decCompactBytes
    rw [decUV32_encUV 0 (by omega)]
    simp
  | some b =>
    simp only at h
    split at h
    · rename_i hl
      injection h with h; subst h
      unfold decCompactBytes
      rw [List.append_assoc, decUV32_encUV _ hl]
      simp
    · cases h

theorem decTaggedBody_enc (fs : List (Nat × Bytes)) : ∀ (prev : Option Nat) (bs rest : Bytes),
    encTaggedBody fs = some bs → tagsIncreasing prev fs = true →
    decTaggedBody fs.length prev (bs ++ rest) = some (fs, rest) := by
  induction fs with
  | nil =>
    intro prev bs rest h _
    simp only [encTaggedBody, Option.some.injEq] at h; subst h
    simp [decTaggedBody]
  | cons kv fs ih =>
    intro prev bs rest h hinc
    obtain ⟨k, v⟩ := kv
    simp only [encTaggedBody] at h
    split at h
    · rename_i hr
      cases hb : encTaggedBody fs with
      | none => simp [hb] at h
      | some body =>
        simp only [hb, Option.map_some, Option.some.injEq] at h; subst h
        simp only [tagsIncreasing, Bool.and_eq_true] at hinc
        simp only [List.length_cons, decTaggedBody, List.append_assoc]
        rw [decUV32_encUV k hr.1]
        have hprev' : tagLe prev k = false := by simpa using hinc.1
        simp only [hprev', Bool.false_eq_true, if_false]
        rw [decUV32_encUV v.length hr.2]
        simp only [List.drop_left, List.take_left]
        rw [ih (some k) body rest hb hinc.2]
    · cases h

theorem decTagged_enc (fs : List (Nat × Bytes)) (bs rest : Bytes) (h : encTagged fs = some bs) :
    decTagged (bs ++ rest) = some (fs, rest) := by
  unfold encTagged at h
  split at h
  · rename_i hr
    cases hb : encTaggedBody fs with
    | none => simp [hb] at h
    | some body =>
      simp only [hb, Option.map_some, Option.some.injEq] at h; subst h
      unfold decTagged
      rw [List.append_assoc, decUV32_encUV _ hr.1]
      simp only
      exact decTaggedBody_enc fs none body rest hb hr.2
  · cases h

end AkVerif.Wire
